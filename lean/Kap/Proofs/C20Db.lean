/-
C20 — helper lemmas, part 4: `auth.DatabaseResource` and its collisions.
-/
import Kap.Proofs.C20Auth
namespace Kap.C20
open Kap.C20.Spec

/-- '/' ↦ '_' . -/
def under (d : List Char) : List Char := d.map (fun c => if c = '/' then '_' else c)

def sufClean : List Char := ['_', 'c', 'l', 'e', 'a', 'n']
def sufDirty : List Char := ['_', 'd', 'i', 'r', 't', 'y']

/-- The path element a database name becomes. -/
def mark (d : List Char) : List Char := under d ++ (if under d = d then sufClean else sufDirty)

def dbRoot : List Char := ['/', 'd', 'a', 't', 'a', 'b', 'a', 's', 'e']

theorem dbReplace_eq (d : List Char) : dbReplace d = under d := by
  unfold dbReplace under
  simp [Gen.dbReplaceOld, Gen.dbReplaceNew]

theorem under_noslash (d : List Char) : '/' ∉ under d := by
  unfold under
  intro h
  simp at h
  obtain ⟨c, _, hc⟩ := h
  by_cases e : c = '/'
  · simp [e] at hc
  · simp [e] at hc

theorem under_eq_self_iff (d : List Char) : under d = d ↔ '/' ∉ d := by
  unfold under
  induction d with
  | nil => simp
  | cons c cs ih =>
    simp only [List.map_cons, List.cons.injEq, List.mem_cons, not_or]
    rw [ih]
    by_cases e : c = '/'
    · subst e; simp
    · simp [e]; exact fun _ h => e h.symm

theorem mark_noslash (d : List Char) : '/' ∉ mark d := by
  unfold mark
  intro h
  simp at h
  rcases h with h | h
  · exact under_noslash d h
  · split at h
    · revert h; unfold sufClean; decide
    · revert h; unfold sufDirty; decide

theorem mark_length (d : List Char) : (mark d).length = d.length + 6 := by
  unfold mark under
  split <;> simp [sufClean, sufDirty]

theorem mark_real (d : List Char) : Real (mark d) := by
  have h := mark_length d
  refine ⟨?_, ?_, ?_⟩ <;> intro e <;> rw [e] at h <;> simp [dot, dotdot] at h <;> omega

theorem databaseResource_nonempty (d : List Char) (h : d ≠ []) : databaseResource d = dbRoot ++ '/' :: mark d := by
  unfold databaseResource
  rw [if_neg h, dbReplace_eq]
  have hm : (if under d = d then under d ++ Gen.cleanSuffix else under d ++ Gen.dirtySuffix) = mark d := by
    unfold mark; split <;> rfl
  simp only [hm]
  unfold pathJoin2
  have hroot : Gen.databaseRootResource = dbRoot := rfl
  rw [hroot]
  have h1 : ¬ (dbRoot = [] ∧ mark d = []) := by simp [dbRoot]
  have h2 : ¬ dbRoot = [] := by simp [dbRoot]
  rw [if_neg h1, if_neg h2]
  have hn : NormalSegs [['d', 'a', 't', 'a', 'b', 'a', 's', 'e'], mark d] := by
    intro s hs
    simp at hs
    rcases hs with rfl | rfl
    · exact ⟨by decide, by decide⟩
    · exact ⟨mark_real d, mark_noslash d⟩
  have := clean_canonical _ hn
  simpa [join, dbRoot] using this

theorem databaseResource_empty : databaseResource [] = dbRoot := rfl

theorem dev_iff (a b : List Char) :
    Dev_db_collision a b = true ↔ a ≠ b ∧ '/' ∈ a ∧ '/' ∈ b ∧ under a = under b := by
  unfold Dev_db_collision under
  simp [and_assoc]

theorem suffix_ne (x y : List Char) : x ++ sufClean ≠ y ++ sufDirty := by
  intro h
  have := (List.append_inj' h (by simp [sufClean, sufDirty])).2
  revert this; decide

/-- **The collisions of `DatabaseResource` are exactly the recorded deviation.** -/
theorem databaseResource_eq_iff (a b : List Char) :
    databaseResource a = databaseResource b ↔ a = b ∨ Dev_db_collision a b = true := by
  rw [dev_iff]
  constructor
  · intro h
    by_cases ha : a = []
    · by_cases hb : b = []
      · left; rw [ha, hb]
      · rw [ha, databaseResource_empty, databaseResource_nonempty b hb] at h
        have := congrArg List.length h
        simp [dbRoot] at this
    · by_cases hb : b = []
      · rw [hb, databaseResource_empty, databaseResource_nonempty a ha] at h
        have := congrArg List.length h
        simp [dbRoot] at this
      · rw [databaseResource_nonempty a ha, databaseResource_nonempty b hb] at h
        have hm : mark a = mark b := by
          have := List.append_cancel_left h
          injection this
        unfold mark at hm
        by_cases ca : under a = a <;> by_cases cb : under b = b
        · rw [if_pos ca, if_pos cb, ca, cb] at hm
          left; exact List.append_cancel_right hm
        · rw [if_pos ca, if_neg cb] at hm
          exact absurd hm (suffix_ne _ _)
        · rw [if_neg ca, if_pos cb] at hm
          exact absurd hm.symm (suffix_ne _ _)
        · rw [if_neg ca, if_neg cb] at hm
          by_cases e : a = b
          · left; exact e
          · right
            refine ⟨e, ?_, ?_, List.append_cancel_right hm⟩
            · exact Classical.byContradiction fun h => ca ((under_eq_self_iff a).mpr h)
            · exact Classical.byContradiction fun h => cb ((under_eq_self_iff b).mpr h)
  · rintro (rfl | ⟨_, ha, hb, hu⟩)
    · rfl
    · have hane : a ≠ [] := by intro e; rw [e] at ha; simp at ha
      have hbne : b ≠ [] := by intro e; rw [e] at hb; simp at hb
      rw [databaseResource_nonempty a hane, databaseResource_nonempty b hbne]
      have ca : ¬ under a = a := fun e => (under_eq_self_iff a).mp e ha
      have cb : ¬ under b = b := fun e => (under_eq_self_iff b).mp e hb
      unfold mark
      rw [if_neg ca, if_neg cb, hu]

/-- A database resource is one element below "/database" (it never escapes, whatever the name contains). -/
theorem databaseResource_node (d : List Char) (h : d ≠ []) :
    nodeOf (databaseResource d) = some [['d', 'a', 't', 'a', 'b', 'a', 's', 'e'], mark d] := by
  have hn : NormalSegs [['d', 'a', 't', 'a', 'b', 'a', 's', 'e'], mark d] := by
    intro s hs
    simp at hs
    rcases hs with rfl | rfl
    · exact ⟨by decide, by decide⟩
    · exact ⟨mark_real d, mark_noslash d⟩
  rw [← clean_eq_canonical_iff _ _ hn, databaseResource_nonempty d h]
  have := clean_canonical _ hn
  simpa [join, dbRoot] using this

end Kap.C20
