/-
C20 — helper lemmas, part 5: the HTTP filter chain (`authenticate`, `authorize`, mux, `serveWriteLine`).
-/
import Kap.Proofs.C20Db
namespace Kap.C20
open Kap.C20.Spec

/-! ### mux -/

theorem muxMatch_aux (routes l : List Route) (m : List Char) (p : Path) (hl : ∀ x ∈ l, x ∈ routes)
    (best : Option Route)
    (hb : ∀ r, best = some r → r ∈ routes ∧ r.method = m ∧ pathMatch r.pattern p = true) :
    ∀ r, l.foldl (fun best r =>
        if r.method = m ∧ pathMatch r.pattern p then
          match best with
          | none => some r
          | some b => if r.pattern.length > b.pattern.length then some r else best
        else best) best = some r → r ∈ routes ∧ r.method = m ∧ pathMatch r.pattern p = true := by
  induction l generalizing best with
  | nil => simpa using hb
  | cons x xs ih =>
    simp only [List.foldl_cons]
    apply ih (fun y hy => hl y (by simp [hy]))
    intro r hr
    by_cases hc : x.method = m ∧ pathMatch x.pattern p = true
    · rw [if_pos hc] at hr
      cases best with
      | none => simp at hr; subst hr; exact ⟨hl x (by simp), hc.1, hc.2⟩
      | some b =>
        simp only at hr
        split at hr
        · simp at hr; subst hr; exact ⟨hl x (by simp), hc.1, hc.2⟩
        · exact hb r hr
    · rw [if_neg hc] at hr; exact hb r hr

theorem muxMatch_spec (routes : List Route) (m : List Char) (p : Path) (r : Route)
    (h : muxMatch routes m p = some r) : r ∈ routes ∧ r.method = m ∧ pathMatch r.pattern p = true :=
  muxMatch_aux routes routes m p (fun _ h => h) none (by simp) r h

/-! ### authenticate -/

theorem subscriber_eq : Gen.subscriptionUser = Spec.subscriber := by decide

theorem find_users (svc : AuthSvc) (n : List Char) (e : List Char × List Char × Account)
    (h : svc.users.find? (fun e => e.1 = n) = some e) : e ∈ svc.users ∧ e.1 = n := by
  have h1 := List.mem_of_find?_eq_some h
  have h2 := List.find?_some h
  exact ⟨h1, by simpa using h2⟩

theorem authenticate_user_valid (svc : AuthSvc) (n p : List Char) (u : Account) (_hn : n ≠ [])
    (h : svc.authenticate n p = some u) :
    u ∈ (svc.users.filter (fun e => e.1 = n ∧ e.2.1 = p)).map (·.2.2) := by
  unfold AuthSvc.authenticate at h
  split at h
  · rename_i n' p' u' hf
    obtain ⟨hm, he⟩ := find_users svc n _ hf
    split at h
    · rename_i hp
      injection h with h; subst h
      simp only [List.mem_map, List.mem_filter]
      exact ⟨(n', p', u'), ⟨hm, by simpa using ⟨he, hp⟩⟩, rfl⟩
    · cases h
  · cases h

theorem user_valid (svc : AuthSvc) (n : List Char) (u : Account) (h : svc.user n = some u) :
    u ∈ (svc.users.filter (fun e => e.1 = n)).map (·.2.2) := by
  unfold AuthSvc.user at h
  split at h
  · rename_i n' p' u' hf
    obtain ⟨hm, he⟩ := find_users svc n _ hf
    injection h with h; subst h
    simp only [List.mem_map, List.mem_filter]
    exact ⟨(n', p', u'), ⟨hm, by simpa using he⟩, rfl⟩
  · cases h

theorem subscription_valid (svc : AuthSvc) (t : List Char) (u : Account) (h : svc.subscriptionUser t = some u) :
    u ∈ (svc.subs.filter (fun e => e.1 = t)).map (·.2) := by
  unfold AuthSvc.subscriptionUser at h
  split at h
  · rename_i t' u' hf
    have h1 := List.mem_of_find?_eq_some hf
    have h2 := List.find?_some hf
    injection h with h; subst h
    simp only [List.mem_map, List.mem_filter]
    exact ⟨(t', u'), ⟨h1, by simpa using h2⟩, rfl⟩
  · cases h

/-- `parseCredentials` only ever produces the three declared authentication methods: the `default:`
clause of `authenticate` is unreachable. -/
theorem parseCredentials_method (a : ReqAuth) (c : Creds) (h : parseCredentials a = some c) : c.method ≠ .other := by
  unfold parseCredentials at h
  cases hh : a.header <;> rw [hh] at h <;> simp only at h
  · split at h
    · injection h with h; subst h; simp
    · cases h
  · injection h with h; subst h; simp
  · split at h <;> (injection h with h; subst h; simp)
  · split at h
    · injection h with h; subst h; simp
    · cases h

theorem bearer_inner (svc : AuthSvc) (t : Bearer) (u : Account) (w : Bool)
    (h : authenticateCreds svc { method := .bearer, bearer := some t } = .inner u w) :
    w = false ∧ t.sigOK = true ∧ ∃ e, t.exp = some e ∧ e > 0 ∧ ∃ n, t.username = some n ∧ n ≠ [] ∧ svc.user n = some u := by
  rcases t with ⟨sig, exp, un⟩
  unfold authenticateCreds at h
  cases sig with
  | false => simp at h
  | true =>
    cases exp with
    | none => simp at h
    | some e =>
      by_cases he : e ≤ 0
      · simp [he] at h
      · cases un with
        | none => simp [he] at h
        | some n =>
          by_cases hn : n = []
          · simp [he, hn] at h
          · cases hu : svc.user n with
            | none => simp [he, hn, hu] at h
            | some u' =>
              simp [he, hn, hu] at h
              obtain ⟨rfl, rfl⟩ := h
              exact ⟨rfl, rfl, e, rfl, by omega, n, rfl, hn, hu⟩

theorem subscription_inner (svc : AuthSvc) (tok : List Char) (u : Account) (w : Bool)
    (h : authenticateCreds svc { method := .subscription, token := tok } = .inner u w) :
    w = false ∧ svc.subscriptionUser tok = some u := by
  unfold authenticateCreds at h
  cases hu : svc.subscriptionUser tok with
  | none => simp [hu] at h
  | some u' => simp [hu] at h; obtain ⟨rfl, rfl⟩ := h; exact ⟨rfl, rfl⟩

theorem user_inner (svc : AuthSvc) (n p : List Char) (u : Account) (w : Bool)
    (h : authenticateCreds svc { method := .user, username := n, password := p } = .inner u w) :
    w = false ∧ n ≠ [] ∧ svc.authenticate n p = some u := by
  unfold authenticateCreds at h
  by_cases hn : n = []
  · simp [hn] at h
  · cases hu : svc.authenticate n p with
    | none => simp [hn, hu] at h
    | some u' => simp [hn, hu] at h; obtain ⟨rfl, rfl⟩ := h; exact ⟨rfl, hn, rfl⟩

theorem query_valid (svc : AuthSvc) (a : ReqAuth) (u : Account) (w : Bool)
    (h : (match (if a.qu ≠ [] ∧ a.qp ≠ [] then some ({ method := .user, username := a.qu, password := a.qp } : Creds) else none) with
          | none => AuthN.rejected
          | some c => authenticateCreds svc c) = .inner u w) :
    w = false ∧ u ∈ (if a.qu = [] then [] else (svc.users.filter (fun e => e.1 = a.qu ∧ e.2.1 = a.qp)).map (·.2.2)) := by
  by_cases hq : a.qu ≠ [] ∧ a.qp ≠ []
  · rw [if_pos hq] at h
    simp only at h
    obtain ⟨hw, hn, hu⟩ := user_inner svc _ _ u w h
    rw [if_neg hq.1]
    exact ⟨hw, authenticate_user_valid svc _ _ _ hn hu⟩
  · rw [if_neg hq] at h
    cases h

/-- **Whoever `authenticate` lets through (with authentication enabled) presented valid credentials**, and
no error response had been written before the inner handler ran. -/
theorem authenticate_valid (svc : AuthSvc) (a : ReqAuth) (u : Account) (w : Bool)
    (h : authenticate true svc a = .inner u w) : w = false ∧ u ∈ validAccounts svc a := by
  unfold authenticate at h
  simp only [Bool.not_true, Bool.false_eq_true, if_false] at h
  unfold validAccounts
  simp only [List.mem_append]
  unfold parseCredentials at h
  cases hh : a.header with
  | absent =>
    rw [hh] at h; simp only at h
    have := query_valid svc a u w h
    exact ⟨this.1, Or.inr this.2⟩
  | other =>
    rw [hh] at h; simp only at h
    have := query_valid svc a u w h
    exact ⟨this.1, Or.inr this.2⟩
  | bearer t =>
    rw [hh] at h; simp only at h
    obtain ⟨hw, hs, e, he, hpos, n, hn, hne, hu⟩ := bearer_inner svc t u w h
    refine ⟨hw, Or.inl ?_⟩
    simp only [hs, he, hn, hne, Bool.true_and, if_false, decide_eq_true hpos, if_true]
    exact user_valid svc n u hu
  | basic n p =>
    rw [hh] at h; simp only at h
    by_cases hsub : n = Gen.subscriptionUser
    · rw [if_pos hsub] at h
      simp only at h
      obtain ⟨hw, hu⟩ := subscription_inner svc p u w h
      refine ⟨hw, Or.inl ?_⟩
      have : n = subscriber := by rw [← subscriber_eq]; exact hsub
      simp only [this, if_true]
      exact subscription_valid svc p u hu
    · rw [if_neg hsub] at h
      simp only at h
      obtain ⟨hw, hne, hu⟩ := user_inner svc n p u w h
      refine ⟨hw, Or.inl ?_⟩
      have : ¬ n = subscriber := by rw [← subscriber_eq]; exact hsub
      simp only [this, if_false, hne]
      exact authenticate_user_valid svc n p u hne hu


/-! ### the whole chain -/

theorem write_route_is_post : ∀ r ∈ builtinRoutes, r.kind = .write → r.method = "POST".toList := by decide

theorem serveWriteLine_wrote (req : Req) (u : Account) (h : (serveWriteLine req u).served = true ∨ (serveWriteLine req u).wrote = true) :
    (serveWriteLine req u).served = false ∧ authorizeAction u.user (databaseResource req.db) writePriv = .allow := by
  unfold serveWriteLine at h ⊢
  by_cases hdb : req.db = []
  · simp [hdb] at h
  · by_cases ha : authorizeAction u.user (databaseResource req.db) writePriv = .allow
    · simp [hdb, ha]
    · simp [hdb, ha] at h

/-- Everything a served / written request went through. -/
theorem serveHTTP_sound (cfg : Cfg) (hextra : ∀ r ∈ cfg.extra, r.kind = .recorder) (fuel : Nat) :
    ∀ (req : Req) (out : HttpOut), out = serveHTTP cfg fuel req → (out.served = true ∨ out.wrote = true) →
      muxCleanPath req.path = req.path ∧ allowedMethods.contains req.method = true ∧
      ∃ acc w, authenticate cfg.requireAuth cfg.svc req.auth = .inner acc w ∧
        authorizeRequest req.method req.path acc = true ∧
        (out.wrote = true → req.method = "POST".toList ∧
          authorizeAction acc.user (databaseResource req.db) writePriv = .allow) := by
  induction fuel with
  | zero => intro req out ho h; subst ho; simp [serveHTTP] at h
  | succ f ih =>
    intro req out ho h
    rw [serveHTTP] at ho
    by_cases hm : allowedMethods.contains req.method = true
    · simp only [hm, Bool.not_true, Bool.false_eq_true, if_false] at ho
      by_cases hcp : muxCleanPath req.path = req.path
      · simp only [hcp, ne_eq, not_true_eq_false, if_false] at ho
        cases hmm : muxMatch (builtinRoutes ++ cfg.extra) req.method req.path with
        | none => rw [hmm] at ho; subst ho; simp at h
        | some r =>
          rw [hmm] at ho
          simp only at ho
          obtain ⟨hrmem, hrm, _⟩ := muxMatch_spec _ _ _ _ hmm
          by_cases hopt : req.method = "OPTIONS".toList
          · rw [if_pos hopt] at ho; subst ho; simp at h
          · rw [if_neg hopt] at ho
            cases hau : authenticate cfg.requireAuth cfg.svc req.auth with
            | rejected => rw [hau] at ho; subst ho; simp at h
            | inner u w =>
              rw [hau] at ho
              simp only at ho
              by_cases haz : authorizeRequest req.method req.path u = true
              · simp only [haz, Bool.not_true, Bool.false_eq_true, if_false] at ho
                refine ⟨hcp, hm, u, w, rfl, haz, ?_⟩
                cases hk : r.kind with
                | notFound => rw [hk] at ho; subst ho; simp at h
                | ping => rw [hk] at ho; subst ho; simp
                | optionsWrite => rw [hk] at ho; subst ho; simp
                | recorder => rw [hk] at ho; subst ho; simp
                | write =>
                  rw [hk] at ho
                  simp only at ho
                  subst ho
                  intro _
                  refine ⟨?_, (serveWriteLine_wrote req u h).2⟩
                  rw [← hrm]
                  rcases List.mem_append.mp hrmem with hb | he
                  · exact write_route_is_post r hb hk
                  · have := hextra r he; rw [hk] at this; cases this
                | preview =>
                  rw [hk] at ho
                  simp only at ho
                  by_cases hpre : preview.isPrefixOf req.path = true
                  · simp only [hpre, if_true] at ho
                    obtain ⟨_, _, acc', w', hau', _, hw'⟩ := ih _ out ho h
                    simp only at hau' hw'
                    rw [hau] at hau'
                    injection hau' with e1 e2
                    subst e1
                    exact hw'
                  · simp only [hpre, Bool.false_eq_true, if_false] at ho
                    subst ho; simp at h
              · simp only [haz, Bool.not_false, if_true] at ho
                subst ho; simp at h
      · simp only [ne_eq, hcp, not_false_eq_true, if_true] at ho
        subst ho; simp at h
    · simp only [hm, Bool.not_false, if_true] at ho
      subst ho; simp at h

end Kap.C20
