/-
C20 — helper lemmas, part 5: the HTTP filter chain (`authenticate`, `authorize`, mux, `serveWriteLine`).
-/
import Kap.Proofs.C20Db
namespace Kap.C20
open Kap.C20.Spec

/-! ### mux -/

theorem muxMatch_aux (routes l : List Route) (m : List Char) (p : Path) (hl : ∀ x ∈ l, x ∈ routes)
    (best : Option Route)
    (hb : ∀ r, best = some r → r ∈ routes ∧ r.method = m ∧ pathMatch r.pattern p = true) :
    ∀ r, l.foldl (fun best r =>
        if r.method = m ∧ pathMatch r.pattern p then
          match best with
          | none => some r
          | some b => if r.pattern.length > b.pattern.length then some r else best
        else best) best = some r → r ∈ routes ∧ r.method = m ∧ pathMatch r.pattern p = true := by
  induction l generalizing best with
  | nil => simpa using hb
  | cons x xs ih =>
    simp only [List.foldl_cons]
    apply ih (fun y hy => hl y (by simp [hy]))
    intro r hr
    by_cases hc : x.method = m ∧ pathMatch x.pattern p = true
    · rw [if_pos hc] at hr
      cases best with
      | none => simp at hr; subst hr; exact ⟨hl x (by simp), hc.1, hc.2⟩
      | some b =>
        simp only at hr
        split at hr
        · simp at hr; subst hr; exact ⟨hl x (by simp), hc.1, hc.2⟩
        · exact hb r hr
    · rw [if_neg hc] at hr; exact hb r hr

theorem muxMatch_spec (routes : List Route) (m : List Char) (p : Path) (r : Route)
    (h : muxMatch routes m p = some r) : r ∈ routes ∧ r.method = m ∧ pathMatch r.pattern p = true :=
  muxMatch_aux routes routes m p (fun _ h => h) none (by simp) r h

/-! ### authenticate -/

theorem subscriber_eq : Gen.subscriptionUser = Spec.subscriber := by decide

theorem find_users (svc : AuthSvc) (n : List Char) (e : List Char × List Char × Account)
    (h : svc.users.find? (fun e => e.1 = n) = some e) : e ∈ svc.users ∧ e.1 = n := by
  have h1 := List.mem_of_find?_eq_some h
  have h2 := List.find?_some h
  exact ⟨h1, by simpa using h2⟩

theorem authenticate_user_valid (svc : AuthSvc) (n p : List Char) (u : Account) (_hn : n ≠ [])
    (h : svc.authenticate n p = some u) :
    u ∈ (svc.users.filter (fun e => e.1 = n ∧ e.2.1 = p)).map (·.2.2) := by
  unfold AuthSvc.authenticate at h
  split at h
  · rename_i n' p' u' hf
    obtain ⟨hm, he⟩ := find_users svc n _ hf
    split at h
    · rename_i hp
      injection h with h; subst h
      simp only [List.mem_map, List.mem_filter]
      exact ⟨(n', p', u'), ⟨hm, by simpa using ⟨he, hp⟩⟩, rfl⟩
    · cases h
  · cases h

theorem user_valid (svc : AuthSvc) (n : List Char) (u : Account) (h : svc.user n = some u) :
    u ∈ (svc.users.filter (fun e => e.1 = n)).map (·.2.2) := by
  unfold AuthSvc.user at h
  split at h
  · rename_i n' p' u' hf
    obtain ⟨hm, he⟩ := find_users svc n _ hf
    injection h with h; subst h
    simp only [List.mem_map, List.mem_filter]
    exact ⟨(n', p', u'), ⟨hm, by simpa using he⟩, rfl⟩
  · cases h

theorem subscription_valid (svc : AuthSvc) (t : List Char) (u : Account) (h : svc.subscriptionUser t = some u) :
    u ∈ (svc.subs.filter (fun e => e.1 = t)).map (·.2) := by
  unfold AuthSvc.subscriptionUser at h
  split at h
  · rename_i t' u' hf
    have h1 := List.mem_of_find?_eq_some hf
    have h2 := List.find?_some hf
    injection h with h; subst h
    simp only [List.mem_map, List.mem_filter]
    exact ⟨(t', u'), ⟨h1, by simpa using h2⟩, rfl⟩
  · cases h

/-- `parseCredentials` only ever produces the three declared authentication methods: the `default:`
clause of `authenticate` is unreachable. -/
theorem parseCredentials_method (a : ReqAuth) (c : Creds) (h : parseCredentials a = some c) : c.method ≠ .other := by
  unfold parseCredentials at h
  cases hh : a.header <;> rw [hh] at h <;> simp only at h
  · split at h
    · injection h with h; subst h; simp
    · cases h
  · injection h with h; subst h; simp
  · split at h <;> (injection h with h; subst h; simp)
  · split at h
    · injection h with h; subst h; simp
    · cases h

theorem bearer_inner (svc : AuthSvc) (t : Bearer) (u : Account) (w : Bool)
    (h : authenticateCreds svc { method := .bearer, bearer := some t } = .inner u w) :
    w = false ∧ t.sigOK = true ∧ ∃ e, t.exp = some e ∧ e > 0 ∧ ∃ n, t.username = some n ∧ n ≠ [] ∧ svc.user n = some u := by
  rcases t with ⟨sig, exp, un⟩
  unfold authenticateCreds at h
  cases sig with
  | false => simp at h
  | true =>
    cases exp with
    | none => simp at h
    | some e =>
      by_cases he : e ≤ 0
      · simp [he] at h
      · cases un with
        | none => simp [he] at h
        | some n =>
          by_cases hn : n = []
          · simp [he, hn] at h
          · cases hu : svc.user n with
            | none => simp [he, hn, hu] at h
            | some u' =>
              simp [he, hn, hu] at h
              obtain ⟨rfl, rfl⟩ := h
              exact ⟨rfl, rfl, e, rfl, by omega, n, rfl, hn, hu⟩

theorem subscription_inner (svc : AuthSvc) (tok : List Char) (u : Account) (w : Bool)
    (h : authenticateCreds svc { method := .subscription, token := tok } = .inner u w) :
    w = false ∧ svc.subscriptionUser tok = some u := by
  unfold authenticateCreds at h
  cases hu : svc.subscriptionUser tok with
  | none => simp [hu] at h
  | some u' => simp [hu] at h; obtain ⟨rfl, rfl⟩ := h; exact ⟨rfl, rfl⟩

theorem user_inner (svc : AuthSvc) (n p : List Char) (u : Account) (w : Bool)
    (h : authenticateCreds svc { method := .user, username := n, password := p } = .inner u w) :
    w = false ∧ n ≠ [] ∧ svc.authenticate n p = some u := by
  unfold authenticateCreds at h
  by_cases hn : n = []
  · simp [hn] at h
  · cases hu : svc.authenticate n p with
    | none => simp [hn, hu] at h
    | some u' => simp [hn, hu] at h; obtain ⟨rfl, rfl⟩ := h; exact ⟨rfl, hn, rfl⟩

theorem query_valid (svc : AuthSvc) (a : ReqAuth) (u : Account) (w : Bool)
    (h : (match (if a.qu ≠ [] ∧ a.qp ≠ [] then some ({ method := .user, username := a.qu, password := a.qp } : Creds) else none) with
          | none => AuthN.rejected
          | some c => authenticateCreds svc c) = .inner u w) :
    w = false ∧ u ∈ (if a.qu = [] then [] else (svc.users.filter (fun e => e.1 = a.qu ∧ e.2.1 = a.qp)).map (·.2.2)) := by
  by_cases hq : a.qu ≠ [] ∧ a.qp ≠ []
  · rw [if_pos hq] at h
    simp only at h
    obtain ⟨hw, hn, hu⟩ := user_inner svc _ _ u w h
    rw [if_neg hq.1]
    exact ⟨hw, authenticate_user_valid svc _ _ _ hn hu⟩
  · rw [if_neg hq] at h
    cases h

/-- **Whoever `authenticate` lets through (with authentication enabled) presented valid credentials**, and
no error response had been written before the inner handler ran. -/
theorem authenticate_valid (svc : AuthSvc) (a : ReqAuth) (u : Account) (w : Bool)
    (h : authenticate true svc a = .inner u w) : w = false ∧ u ∈ validAccounts svc a := by
  unfold authenticate at h
  simp only [Bool.not_true, Bool.false_eq_true, if_false] at h
  unfold validAccounts
  simp only [List.mem_append]
  unfold parseCredentials at h
  cases hh : a.header with
  | absent =>
    rw [hh] at h; simp only at h
    have := query_valid svc a u w h
    exact ⟨this.1, Or.inr this.2⟩
  | other =>
    rw [hh] at h; simp only at h
    have := query_valid svc a u w h
    exact ⟨this.1, Or.inr this.2⟩
  | bearer t =>
    rw [hh] at h; simp only at h
    obtain ⟨hw, hs, e, he, hpos, n, hn, hne, hu⟩ := bearer_inner svc t u w h
    refine ⟨hw, Or.inl ?_⟩
    simp only [hs, he, hn, hne, Bool.true_and, if_false, decide_eq_true hpos, if_true]
    exact user_valid svc n u hu
  | basic n p =>
    rw [hh] at h; simp only at h
    by_cases hsub : n = Gen.subscriptionUser
    · rw [if_pos hsub] at h
      simp only at h
      obtain ⟨hw, hu⟩ := subscription_inner svc p u w h
      refine ⟨hw, Or.inl ?_⟩
      have : n = subscriber := by rw [← subscriber_eq]; exact hsub
      simp only [this, if_true]
      exact subscription_valid svc p u hu
    · rw [if_neg hsub] at h
      simp only at h
      obtain ⟨hw, hne, hu⟩ := user_inner svc n p u w h
      refine ⟨hw, Or.inl ?_⟩
      have : ¬ n = subscriber := by rw [← subscriber_eq]; exact hsub
      simp only [this, if_false, hne]
      exact authenticate_user_valid svc n p u hne hu


/-! ### the whole chain -/

theorem write_route_facts : ∀ r ∈ builtinRoutes, r.kind = .write → r.method = "POST".toList ∧ r.forward = true := by decide

theorem preview_route_facts : ∀ r ∈ builtinRoutes, r.kind = .preview → r.bypass = false ∧ r.pattern = preview ++ ['/'] := by
  decide

/-- The routes that may skip authentication: GET, below "/kapacitor/v1/debug/", plain handlers. -/
theorem bypass_route_facts : ∀ r ∈ builtinRoutes, r.bypass = true →
    r.method = "GET".toList ∧ "/kapacitor/v1/debug/".toList.isPrefixOf r.pattern = true ∧ r.kind = .other := by decide

/-- What this file assumes of routes added later with `AddRoutes`: ordinary handlers without `BypassAuth`
(no caller in the repository sets it; the extractor checks that on every run). -/
def ExtraOK (cfg : Cfg) : Prop := ∀ r ∈ cfg.extra, r.kind = .recorder ∧ r.bypass = false

theorem serveWriteLine_wrote (req : Req) (u : Account) (h : (serveWriteLine req u).served = true ∨ (serveWriteLine req u).wrote = true) :
    (serveWriteLine req u).served = false ∧ authorizeAction u.user (databaseResource req.db) writePriv = .allow := by
  unfold serveWriteLine writeResource at h ⊢
  by_cases hdb : req.db = []
  · simp [hdb] at h
  · by_cases ha : authorizeAction u.user (databaseResource req.db) writePriv = .allow
    · simp [hdb, ha]
    · simp [hdb, ha] at h

/-- Everything a served / written request went through at ONE pass of the chain. -/
theorem serveLevel_sound (cfg : Cfg) (_hextra : ExtraOK cfg) (again : Req → HttpOut) (req : Req) (out : HttpOut)
    (ho : out = serveLevel cfg again req) (h : out.served = true ∨ out.wrote = true) :
    muxCleanPath req.path = req.path ∧ allowedMethods.contains req.method = true ∧
    ∃ r acc w, muxMatch (builtinRoutes ++ cfg.extra) req.method req.path = some r ∧
      authenticate (routeRequiresAuth cfg r) cfg.svc req.auth = .inner acc w ∧
      authorizeRequest req.method req.path acc = true ∧
      ((r.kind = .preview ∧ preview.isPrefixOf req.path = true ∧ out = again (rewritten req)) ∨
       (r.kind ≠ .preview ∧ r.kind ≠ .notFound ∧
        (out.wrote = true → r.kind = .write ∧ authorizeAction acc.user (databaseResource req.db) writePriv = .allow) ∧
        (out.served = true → r.kind ≠ .write))) := by
  unfold serveLevel at ho
  by_cases hm : allowedMethods.contains req.method = true
  · simp only [hm, Bool.not_true, Bool.false_eq_true, if_false] at ho
    by_cases hcp : muxCleanPath req.path = req.path
    · simp only [hcp, ne_eq, not_true_eq_false, if_false] at ho
      cases hmm : muxMatch (builtinRoutes ++ cfg.extra) req.method req.path with
      | none => rw [hmm] at ho; subst ho; simp at h
      | some r =>
        rw [hmm] at ho
        simp only at ho
        by_cases hopt : req.method = "OPTIONS".toList
        · rw [if_pos hopt] at ho; subst ho; simp at h
        · rw [if_neg hopt] at ho
          cases hau : authenticate (routeRequiresAuth cfg r) cfg.svc req.auth with
          | rejected => rw [hau] at ho; subst ho; simp at h
          | inner u w =>
            rw [hau] at ho
            simp only at ho
            by_cases haz : authorizeRequest req.method req.path u = true
            · simp only [haz, Bool.not_true, Bool.false_eq_true, if_false] at ho
              refine ⟨hcp, hm, r, u, w, rfl, hau, haz, ?_⟩
              cases hk : r.kind with
              | notFound => rw [hk] at ho; subst ho; simp at h
              | ping => rw [hk] at ho; subst ho; right; simp
              | optionsWrite => rw [hk] at ho; subst ho; right; simp
              | other => rw [hk] at ho; subst ho; right; simp
              | recorder => rw [hk] at ho; subst ho; right; simp
              | write =>
                rw [hk] at ho
                simp only at ho
                subst ho
                right
                have := serveWriteLine_wrote req u h
                refine ⟨by simp, by simp, fun _ => ⟨rfl, this.2⟩, fun hs => ?_⟩
                rw [this.1] at hs; cases hs
              | preview =>
                rw [hk] at ho
                simp only at ho
                by_cases hpre : preview.isPrefixOf req.path = true
                · simp only [hpre, if_true] at ho
                  left; exact ⟨rfl, hpre, ho⟩
                · simp only [hpre, Bool.false_eq_true, if_false] at ho
                  subst ho; simp at h
            · simp only [haz, Bool.not_false, if_true] at ho
              subst ho; simp at h
    · simp only [ne_eq, hcp, not_false_eq_true, if_true] at ho
      subst ho; simp at h
  · simp only [hm, Bool.not_false, if_true] at ho
    subst ho; simp at h

/-- The routes of the outer pass and of the pass that finally served the request. -/
structure Served (cfg : Cfg) (req : Req) (out : HttpOut) : Prop where
  cleanPath : muxCleanPath req.path = req.path
  method : allowedMethods.contains req.method = true
  chain : ∃ r acc w, muxMatch (builtinRoutes ++ cfg.extra) req.method req.path = some r ∧
      authenticate (routeRequiresAuth cfg r) cfg.svc req.auth = .inner acc w ∧
      authorizeRequest req.method req.path acc = true ∧
      (out.wrote = true → routeRequiresAuth cfg r = cfg.requireAuth ∧ req.method = "POST".toList ∧
          authorizeAction acc.user (databaseResource req.db) writePriv = .allow)

theorem routeRequiresAuth_nonbypass (cfg : Cfg) (r : Route) (h : r.bypass = false ∨ r.forward = true) :
    routeRequiresAuth cfg r = cfg.requireAuth := by
  unfold routeRequiresAuth
  rcases h with h | h
  · cases r.forward <;> simp [h]
  · simp [h]

theorem route_mem (cfg : Cfg) (hextra : ExtraOK cfg) (r : Route) (m : List Char) (p : Path)
    (h : muxMatch (builtinRoutes ++ cfg.extra) m p = some r) :
    (r ∈ builtinRoutes ∨ (r.kind = .recorder ∧ r.bypass = false)) ∧ r.method = m ∧ pathMatch r.pattern p = true := by
  obtain ⟨hmem, hm, hp⟩ := muxMatch_spec _ _ _ _ h
  refine ⟨?_, hm, hp⟩
  rcases List.mem_append.mp hmem with hb | he
  · exact Or.inl hb
  · exact Or.inr (hextra r he)

/-- Everything a served / written request went through (any number of preview re-entries). -/
theorem serveHTTP_sound (cfg : Cfg) (hextra : ExtraOK cfg) (fuel : Nat) :
    ∀ (req : Req) (out : HttpOut), out = serveHTTP cfg fuel req → (out.served = true ∨ out.wrote = true) →
      Served cfg req out := by
  induction fuel with
  | zero => intro req out ho h; subst ho; simp [serveHTTP] at h
  | succ f ih =>
    intro req out ho h
    rw [serveHTTP] at ho
    obtain ⟨hcp, hm, r, acc, w, hmm, hau, haz, hcase⟩ := serveLevel_sound cfg hextra _ req out ho h
    obtain ⟨hmem, hrm, _⟩ := route_mem cfg hextra r _ _ hmm
    refine ⟨hcp, hm, r, acc, w, hmm, hau, haz, ?_⟩
    rcases hcase with ⟨hk, _, hout⟩ | ⟨_, _, hw, _⟩
    · -- preview: the inner pass authenticates the same credentials
      have hnb : routeRequiresAuth cfg r = cfg.requireAuth := by
        apply routeRequiresAuth_nonbypass
        rcases hmem with hb | he
        · exact Or.inl (preview_route_facts r hb hk).1
        · exact Or.inl he.2
      intro hwr
      have hin := ih (rewritten req) out hout h
      obtain ⟨r', acc', w', _, hau', _, hw'⟩ := hin.chain
      obtain ⟨hra', hpost, hdb⟩ := hw' hwr
      rw [hra'] at hau'
      rw [hnb] at hau
      have e : AuthN.inner acc w = AuthN.inner acc' w' := by rw [← hau, ← hau']; rfl
      injection e with e1 _
      subst e1
      exact ⟨hnb, hpost, hdb⟩
    · intro hwr
      obtain ⟨hk, hdb⟩ := hw hwr
      rcases hmem with hb | he
      · obtain ⟨hpost, hfwd⟩ := write_route_facts r hb hk
        exact ⟨routeRequiresAuth_nonbypass cfg r (Or.inr hfwd), by rw [← hrm]; exact hpost, hdb⟩
      · rw [hk] at he; cases he.1

theorem pathMatch_prefix (pat p pre : Path) (h : pathMatch pat p = true) (hp : pre.isPrefixOf pat = true) :
    pre.isPrefixOf p = true := by
  unfold pathMatch at h
  split at h
  · cases h
  · exact List.isPrefixOf_iff_prefix.mpr ((List.isPrefixOf_iff_prefix.mp hp).trans (List.isPrefixOf_iff_prefix.mp h))
  · have : pat = p := by simpa using h
    rw [← this]; exact hp


/-! ### `rewritePreview` re-enters the handler at most once -/

theorem serveLevel_congr (cfg : Cfg) (again again' : Req → HttpOut) (req : Req)
    (h : ∀ r, muxMatch (builtinRoutes ++ cfg.extra) req.method req.path = some r → r.kind = .preview →
      again (rewritten req) = again' (rewritten req)) :
    serveLevel cfg again req = serveLevel cfg again' req := by
  unfold serveLevel
  cases hmm : muxMatch (builtinRoutes ++ cfg.extra) req.method req.path with
  | none => rfl
  | some r =>
    have h' := h r hmm
    obtain ⟨m, pat, kind, bp, fw⟩ := r
    cases kind with
    | preview => simp only [h' rfl]
    | _ => rfl

theorem preview_slash_not_prefix (rest : List Char) :
    (preview ++ ['/']).isPrefixOf (base ++ '/' :: rest) = false := by
  simp [preview, base, Gen.basePreviewPath, Gen.basePath, List.isPrefixOf]

/-- After the rewrite the path starts with "/kapacitor/v1/", which the preview pattern cannot match. -/
theorem rewritten_not_preview (cfg : Cfg) (hextra : ExtraOK cfg) (req : Req)
    (hpre : (preview ++ ['/']).isPrefixOf req.path = true) (r : Route)
    (hmm : muxMatch (builtinRoutes ++ cfg.extra) (rewritten req).method (rewritten req).path = some r) :
    r.kind ≠ .preview := by
  intro hk
  obtain ⟨hmem, _, hpm⟩ := route_mem cfg hextra r _ _ hmm
  rcases hmem with hb | he
  · have hpat := (preview_route_facts r hb hk).2
    have hp := pathMatch_prefix r.pattern _ r.pattern hpm (List.isPrefixOf_iff_prefix.mpr (List.prefix_refl _))
    rw [hpat] at hp
    obtain ⟨t, ht⟩ := List.isPrefixOf_iff_prefix.mp hpre
    have : (rewritten req).path = base ++ '/' :: t := by
      unfold rewritten
      simp only
      rw [← ht]
      simp
    rw [this, preview_slash_not_prefix] at hp
    cases hp
  · rw [hk] at he; cases he.1

theorem outer_preview_prefix (cfg : Cfg) (hextra : ExtraOK cfg) (req : Req) (r : Route)
    (hmm : muxMatch (builtinRoutes ++ cfg.extra) req.method req.path = some r) (hk : r.kind = .preview) :
    (preview ++ ['/']).isPrefixOf req.path = true := by
  obtain ⟨hmem, _, hpm⟩ := route_mem cfg hextra r _ _ hmm
  rcases hmem with hb | he
  · have hpat := (preview_route_facts r hb hk).2
    have hp := pathMatch_prefix r.pattern _ r.pattern hpm (List.isPrefixOf_iff_prefix.mpr (List.prefix_refl _))
    rw [hpat] at hp; exact hp
  · rw [hk] at he; cases he.1

/-- **Two passes are all that can happen**: more fuel changes nothing. -/
theorem serveHTTP_depth (cfg : Cfg) (hextra : ExtraOK cfg) (f : Nat) (req : Req) :
    serveHTTP cfg (f + 2) req = serveHTTP cfg 2 req := by
  rw [serveHTTP, serveHTTP]
  apply serveLevel_congr
  intro r hmm hk
  rw [serveHTTP, serveHTTP]
  apply serveLevel_congr
  intro r' hmm' hk'
  exact absurd hk' (rewritten_not_preview cfg hextra req (outer_preview_prefix cfg hextra req r hmm hk) r' hmm')

theorem serveWriteLine_status (req : Req) (u : Account) : (serveWriteLine req u).status ≠ 508 := by
  unfold serveWriteLine
  split
  · simp
  · split <;> simp

theorem serveLevel_status (cfg : Cfg) (again : Req → HttpOut) (req : Req)
    (h : ∀ r, muxMatch (builtinRoutes ++ cfg.extra) req.method req.path = some r → r.kind = .preview →
      (again (rewritten req)).status ≠ 508) :
    (serveLevel cfg again req).status ≠ 508 := by
  unfold serveLevel
  split
  · simp
  · split
    · simp
    · cases hmm : muxMatch (builtinRoutes ++ cfg.extra) req.method req.path with
      | none => simp
      | some r =>
        simp only
        split
        · simp
        · split
          · simp
          · rename_i u w _
            split
            · cases w <;> simp
            · cases hk : r.kind with
              | write => simp only; exact serveWriteLine_status req u
              | preview =>
                simp only
                split
                · exact h r hmm hk
                · simp
              | notFound => cases w <;> simp
              | ping => cases w <;> simp
              | optionsWrite => cases w <;> simp
              | other => cases w <;> simp
              | recorder => cases w <;> simp

/-- The model's "fuel exhausted" answer never shows with fuel ≥ 2. -/
theorem serveHTTP_never_exhausted (cfg : Cfg) (hextra : ExtraOK cfg) (f : Nat) (req : Req) :
    (serveHTTP cfg (f + 2) req).status ≠ 508 := by
  rw [serveHTTP_depth cfg hextra f req, serveHTTP]
  apply serveLevel_status
  intro r hmm hk
  rw [serveHTTP]
  apply serveLevel_status
  intro r' hmm' hk'
  exact absurd hk' (rewritten_not_preview cfg hextra req (outer_preview_prefix cfg hextra req r hmm hk) r' hmm')

end Kap.C20
