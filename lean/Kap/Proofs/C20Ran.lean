/-
C20 — the handler that RUNS is the one whose privilege was checked: soundness of `ranRoute wireMethod` (induction over the
depth of preview re-entry).
-/
import Kap.Proofs.C20Http
namespace Kap.C20

theorem ranRoute_wire_sound (cfg : Cfg) (hdrs : Headers) : ∀ (fuel : Nat) (req : Req) (r : Route),
    ranRoute wireMethod cfg hdrs fuel req = some r →
    r.method = req.method ∧
    ∃ (q : Req) (u : Account) (w : Bool), q.method = req.method ∧ q.auth = req.auth ∧
      authenticate (routeRequiresAuth cfg r) cfg.svc q.auth = .inner u w ∧
      authorizeRequest r.method q.path u = true ∧ pathMatch r.pattern q.path = true
  | 0, _, _, h => by simp [ranRoute] at h
  | fuel + 1, req, r, h => by
    unfold ranRoute ranLevel at h
    simp only [wireMethod] at h
    by_cases c1 : (!allowedMethods.contains req.method) = true
    · simp only [c1, ne_eq, not_false_eq_true, not_true_eq_false, ↓reduceIte, reduceCtorEq] at h
    · simp only [c1, ne_eq, not_false_eq_true, not_true_eq_false, ↓reduceIte] at h
      by_cases c2 : ¬ (muxCleanPath req.path = req.path)
      · simp only [c2, ne_eq, not_false_eq_true, not_true_eq_false, ↓reduceIte, reduceCtorEq] at h
      · simp only [c2, ne_eq, not_false_eq_true, not_true_eq_false, ↓reduceIte] at h
        cases hm : muxMatch (builtinRoutes ++ cfg.extra) req.method req.path with
        | none => rw [hm] at h; exact absurd h (by simp)
        | some r0 =>
          rw [hm] at h
          dsimp only at h
          obtain ⟨_, hmeth, hpat⟩ := muxMatch_spec _ _ _ _ hm
          by_cases c3 : req.method = "OPTIONS".toList
          · simp only [c3, ne_eq, not_false_eq_true, not_true_eq_false, ↓reduceIte, reduceCtorEq] at h
          · simp only [c3, ne_eq, not_false_eq_true, not_true_eq_false, ↓reduceIte] at h
            cases hauth : authenticate (routeRequiresAuth cfg r0) cfg.svc req.auth with
            | rejected => rw [hauth] at h; exact absurd h (by simp)
            | inner u w =>
              rw [hauth] at h
              dsimp only at h
              by_cases c4 : (!authorizeRequest req.method req.path u) = true
              · simp only [c4, ne_eq, not_false_eq_true, not_true_eq_false, ↓reduceIte, reduceCtorEq] at h
              · simp only [c4, ne_eq, not_false_eq_true, not_true_eq_false, ↓reduceIte] at h
                have hz : authorizeRequest req.method req.path u = true := by simpa using c4
                cases hk : r0.kind with
                | notFound => rw [hk] at h; exact absurd h (by simp)
                | preview =>
                  rw [hk] at h
                  dsimp only at h
                  by_cases c5 : List.isPrefixOf preview req.path = true
                  · simp only [c5, ne_eq, not_false_eq_true, not_true_eq_false, ↓reduceIte] at h
                    obtain ⟨h1, q, u', w', hq1, hq2, hq3⟩ := ranRoute_wire_sound cfg hdrs fuel (rewritten req) r h
                    exact ⟨by simpa [rewritten] using h1, q, u', w', by simpa [rewritten] using hq1, by simpa [rewritten] using hq2, hq3⟩
                  · rw [if_neg c5] at h; exact absurd h (by simp)
                | _ =>
                  rw [hk] at h
                  have : r0 = r := by simpa using h
                  subst this
                  exact ⟨hmeth, req, u, w, rfl, rfl, hauth, by rw [hmeth]; exact hz, hpat⟩


end Kap.C20
