/-
C20 — helper lemmas, part 2: the stack machine computes the node a path denotes; `path.Dir` on canonical
paths; the `for` loop of `AuthorizeAction` = "nearest ancestor-or-self carrying a grant".
-/
import Kap.Proofs.C20
namespace Kap.C20
open Kap.C20.Spec

/-! ### left-to-right stack machine = right-to-left skip counting -/

theorem cleanStep_true_stack (st : CS) (s : Seg) :
    (cleanStep true st s).stack =
      if s = [] ∨ s = dot then st.stack else if s = dotdot then st.stack.tail else s :: st.stack := by
  by_cases h1 : s = [] ∨ s = dot
  · rw [cleanStep_skip true st s h1]; simp [h1]
  · by_cases h2 : s = dotdot
    · subst h2
      rw [cleanStep_dotdot]
      simp only [h1, if_false, if_true]
      cases hst : st.stack <;> simp [popStep, hst]
    · rw [cleanStep_real true st s ⟨fun e => h1 (Or.inl e), fun e => h1 (Or.inr e), h2⟩]
      simp [h1, h2]

theorem drop_succ_eq_drop_tail {α} (l : List α) (k : Nat) : l.drop (k + 1) = l.tail.drop k := by
  cases l <;> simp

theorem resolveRev_skip (k : Nat) (s : Seg) (rest : List Seg) (h : s = [] ∨ s = dot) :
    resolveRev k (s :: rest) = resolveRev k rest := by
  simp only [dot] at h; simp [resolveRev, h]

theorem resolveRev_dotdot (k : Nat) (rest : List Seg) : resolveRev k (dotdot :: rest) = resolveRev (k + 1) rest := by
  simp [resolveRev, dotdot]

theorem resolveRev_real_zero (s : Seg) (rest : List Seg) (h : Real s) :
    resolveRev 0 (s :: rest) = s :: resolveRev 0 rest := by
  obtain ⟨h1, h2, h3⟩ := h
  simp only [dot, dotdot] at h2 h3
  simp [resolveRev, h1, h2, h3]

theorem resolveRev_real_succ (k : Nat) (s : Seg) (rest : List Seg) (h : Real s) :
    resolveRev (k + 1) (s :: rest) = resolveRev k rest := by
  obtain ⟨h1, h2, h3⟩ := h
  simp only [dot, dotdot] at h2 h3
  simp [resolveRev, h1, h2, h3]

theorem resolveRev_eq_stack (l : List Seg) :
    ∀ k, resolveRev k l = ((l.reverse.foldl (cleanStep true) {}).stack).drop k := by
  induction l with
  | nil => intro k; simp [resolveRev]
  | cons s rest ih =>
    intro k
    simp only [List.reverse_cons, List.foldl_append, List.foldl_cons, List.foldl_nil]
    rw [cleanStep_true_stack]
    by_cases h1 : s = [] ∨ s = dot
    · rw [resolveRev_skip k s rest h1, if_pos h1]; exact ih k
    · by_cases h2 : s = dotdot
      · subst h2
        rw [resolveRev_dotdot, if_neg h1, if_pos rfl, ih (k + 1), drop_succ_eq_drop_tail]
      · have hr : Real s := ⟨fun e => h1 (Or.inl e), fun e => h1 (Or.inr e), h2⟩
        rw [if_neg h1, if_neg h2]
        cases k with
        | zero => rw [resolveRev_real_zero s rest hr, ih 0]; simp
        | succ j => rw [resolveRev_real_succ j s rest hr, ih j]; simp

theorem cleanSegs_true_eq (segs : List Seg) : cleanSegs true segs = (segs.foldl (cleanStep true) {}).stack.reverse := by
  have inv := cleanSegs_inv true segs
  unfold cleanSegs
  simp [inv.ups rfl]

/-- **The segment stack machine computes the node the path denotes** (two different algorithms agree). -/
theorem cleanSegs_eq_resolve (segs : List Seg) : cleanSegs true segs = (resolveRev 0 segs.reverse).reverse := by
  rw [cleanSegs_true_eq, resolveRev_eq_stack]
  simp

theorem nodeOf_abs (cs : List Char) : nodeOf ('/' :: cs) = some (cleanSegs true (split ('/' :: cs))) := by
  unfold nodeOf
  simp [isAbs, cleanSegs_eq_resolve]

theorem nodeOf_rel (p : Path) (h : isAbs p = false) : nodeOf p = none := by
  unfold nodeOf; simp [h]

/-- The node of a rooted path is a normal element list and `clean` spells it canonically. -/
theorem nodeOf_normal (p : Path) (n : Node) (h : nodeOf p = some n) : NormalSegs n ∧ clean p = '/' :: join n := by
  cases hp : isAbs p with
  | false => rw [nodeOf_rel p hp] at h; cases h
  | true =>
    obtain ⟨cs, rfl⟩ := (isAbs_iff p).mp hp
    rw [nodeOf_abs] at h
    injection h with h
    subst h
    exact ⟨cleanSegs_rooted_normal _ (split_noslash _), clean_rooted cs⟩

/-! ### canonical spellings are injective -/

theorem join_normal_ne_nil (segs : List Seg) (h : NormalSegs segs) (hne : segs ≠ []) : join segs ≠ [] := by
  cases segs with
  | nil => exact absurd rfl hne
  | cons s rest =>
    cases s with
    | nil => exact absurd rfl (h [] (by simp)).1.1
    | cons c cs =>
      obtain ⟨t, ht⟩ := join_cons_cons c cs rest
      simp [ht]

theorem join_normal_inj (a b : List Seg) (ha : NormalSegs a) (hb : NormalSegs b) (h : join a = join b) : a = b := by
  by_cases hae : a = []
  · subst hae
    by_cases hbe : b = []
    · exact hbe.symm
    · exact absurd h.symm (by simpa [join] using join_normal_ne_nil b hb hbe)
  · by_cases hbe : b = []
    · subst hbe
      exact absurd h (by simpa [join] using join_normal_ne_nil a ha hae)
    · rw [← split_join a hae (fun s hs => (ha s hs).2), ← split_join b hbe (fun s hs => (hb s hs).2), h]

/-- `clean p` is the canonical spelling of node `a` exactly when `p` denotes `a`. -/
theorem clean_eq_canonical_iff (p : Path) (a : Node) (ha : NormalSegs a) :
    clean p = '/' :: join a ↔ nodeOf p = some a := by
  cases hp : isAbs p with
  | false =>
    rw [nodeOf_rel p hp]
    constructor
    · intro h
      have := isAbs_clean p
      rw [h, hp] at this
      simp [isAbs] at this
    · intro h; cases h
  | true =>
    obtain ⟨cs, rfl⟩ := (isAbs_iff p).mp hp
    rw [nodeOf_abs, clean_rooted]
    constructor
    · intro h
      injection h with _ h
      rw [join_normal_inj _ _ (cleanSegs_rooted_normal _ (split_noslash _)) ha h]
    · intro h; injection h with h; rw [h]

/-! ### `path.Dir` on canonical paths -/

theorem cleanSegs_true_pad (segs : List Seg) (h : NormalSegs segs) : cleanSegs true ([] :: (segs ++ [[]])) = segs := by
  rw [cleanSegs_true_eq]
  simp only [List.foldl_cons, List.foldl_append, List.foldl_nil]
  rw [cleanStep_skip true _ [] (Or.inl rfl), foldl_clean_real true segs (fun s hs => (h s hs).1),
    cleanStep_skip true _ [] (Or.inl rfl)]
  simp

theorem join_nil_cons (x : Seg) (xs : List Seg) : join ([] :: x :: xs) = '/' :: join (x :: xs) := by
  simp [join]

theorem normal_append (a b : List Seg) : NormalSegs (a ++ b) ↔ NormalSegs a ∧ NormalSegs b := by
  unfold NormalSegs
  constructor
  · intro h; exact ⟨fun s hs => h s (by simp [hs]), fun s hs => h s (by simp [hs])⟩
  · intro ⟨h1, h2⟩ s hs
    simp at hs
    rcases hs with hs | hs
    · exact h1 s hs
    · exact h2 s hs

/-- **`path.Dir` of a canonical path drops its last element.** -/
theorem dir_canonical (init : List Seg) (last : Seg) (h : NormalSegs (init ++ [last])) :
    dir ('/' :: join (init ++ [last])) = '/' :: join init := by
  have hi : NormalSegs init := ((normal_append _ _).mp h).1
  have hns : ∀ s ∈ init ++ [last], '/' ∉ s := fun s hs => (h s hs).2
  unfold dir dirPrefix
  rw [split_cons_slash, split_join _ (by simp) hns]
  have : ([] :: (init ++ [last])).dropLast = [] :: init := by
    rw [← List.cons_append, List.dropLast_concat]
  rw [this]
  have hj : join (([] : Seg) :: init ++ [[]]) = '/' :: join (init ++ [[]]) := by
    cases init with
    | nil => simp [join]
    | cons x xs => simp [join]
  rw [hj, clean_rooted, split_cons_slash]
  rw [split_join (init ++ [[]]) (by simp) (by
    intro s hs; simp at hs; rcases hs with hs | rfl
    · exact (hi s hs).2
    · simp)]
  rw [cleanSegs_true_pad init hi]

/-! ### ancestors -/

theorem ancestors_nil : ancestors ([] : Node) = [[]] := by decide

theorem ancestors_concat (init : Node) (last : Seg) :
    ancestors (init ++ [last]) = (init ++ [last]) :: ancestors init := by
  unfold ancestors
  simp only [List.length_append, List.length_cons, List.length_nil]
  rw [List.range_succ]
  simp only [List.reverse_append, List.reverse_cons, List.reverse_nil, List.nil_append, List.singleton_append,
    List.map_cons]
  congr 1
  · exact List.take_of_length_le (by simp)
  · apply List.map_congr_left
    intro k hk
    simp at hk
    rw [List.take_append_of_le_length (by omega)]

theorem ancestors_normal (n : Node) (h : NormalSegs n) : ∀ a ∈ ancestors n, NormalSegs a := by
  intro a ha
  unfold ancestors at ha
  simp at ha
  obtain ⟨k, _, rfl⟩ := ha
  intro s hs
  exact h s (List.mem_of_mem_take hs)

/-! ### the loop -/

/-- What the loop computes, said without a loop: the first ancestor-or-self (nearest first) whose canonical
spelling is a key of the table decides. -/
def walkSpec (privs : List (Path × Nat)) (want : Nat) (n : Node) : Decision :=
  match (ancestors n).findSome? (fun a => lookup privs ('/' :: join a)) with
  | some p => if authorized p want then .allow else .deny
  | none => .deny

theorem walk_eq_walkSpec (privs : List (Path × Nat)) (want : Nat) (l : List Seg) :
    NormalSegs l.reverse → ∀ fuel, fuel ≥ l.length + 1 →
      walk privs want fuel ('/' :: join l.reverse) = walkSpec privs want l.reverse := by
  induction l with
  | nil =>
    intro _ fuel hf
    obtain ⟨f, rfl⟩ : ∃ f, fuel = f + 1 := ⟨fuel - 1, by simp at hf; omega⟩
    simp only [List.reverse_nil, join, walk, walkSpec, ancestors_nil, List.findSome?_cons, List.findSome?_nil]
    cases lookup privs ['/'] <;> simp
  | cons s rest ih =>
    intro hn fuel hf
    obtain ⟨f, rfl⟩ : ∃ f, fuel = f + 1 := ⟨fuel - 1, by simp at hf; omega⟩
    simp only [List.reverse_cons] at hn ⊢
    have hi : NormalSegs rest.reverse := ((normal_append _ _).mp hn).1
    rw [walk, walkSpec, ancestors_concat, List.findSome?_cons]
    cases hl : lookup privs ('/' :: join (rest.reverse ++ [s])) with
    | some p => simp
    | none =>
      simp only
      have hne : ('/' :: join (rest.reverse ++ [s])) ≠ ['/'] := by
        intro e
        injection e with _ e
        exact join_normal_ne_nil _ hn (by simp) e
      rw [if_neg hne, dir_canonical _ _ hn, ih hi f (by simp at hf ⊢; omega)]
      rfl

theorem walk_canonical (privs : List (Path × Nat)) (want : Nat) (n : Node) (h : NormalSegs n) (fuel : Nat)
    (hf : fuel ≥ n.length + 1) : walk privs want fuel ('/' :: join n) = walkSpec privs want n := by
  have := walk_eq_walkSpec privs want n.reverse (by simpa using h) fuel (by simpa using hf)
  simpa using this

theorem join_length_ge (n : List Seg) (h : ∀ s ∈ n, s ≠ []) : (join n).length ≥ n.length := by
  induction n with
  | nil => simp [join]
  | cons s rest ih =>
    have hs : s.length ≥ 1 := by
      cases s with
      | nil => exact absurd rfl (h [] (by simp))
      | cons _ _ => simp
    have ih' := ih (fun x hx => h x (by simp [hx]))
    cases rest with
    | nil => simp [join]; omega
    | cons t ts => simp [join] at ih' ⊢; omega

end Kap.C20
