/-
C20 — helper lemmas, part 8: the URL parameters of the write path. `serveWriteLine` authorises against
`DatabaseResource(qp.Get("db"))` and nothing else of the query: `rp`, `precision`, `consistency`, … never reach
the decision (`serveHTTP_ignores_rp_params`); `url.Values.Get` = first value (`qGet_*`).
-/
import Kap.Proofs.C20Http
namespace Kap.C20
open Kap.C20.Spec

/-- Replace the parameters the authorisation must not look at. -/
def Req.setRp (req : Req) (rp : List Char) (params : Query) : Req := { req with rp := rp, params := params }

@[simp] theorem Req.setRp_method (req : Req) (rp : List Char) (q : Query) : (req.setRp rp q).method = req.method := rfl
@[simp] theorem Req.setRp_path (req : Req) (rp : List Char) (q : Query) : (req.setRp rp q).path = req.path := rfl
@[simp] theorem Req.setRp_auth (req : Req) (rp : List Char) (q : Query) : (req.setRp rp q).auth = req.auth := rfl
@[simp] theorem Req.setRp_db (req : Req) (rp : List Char) (q : Query) : (req.setRp rp q).db = req.db := rfl

theorem rewritten_setRp (req : Req) (rp : List Char) (q : Query) :
    rewritten (req.setRp rp q) = (rewritten req).setRp rp q := rfl

theorem writeResource_setRp (req : Req) (rp : List Char) (q : Query) :
    writeResource (req.setRp rp q) = writeResource req := rfl

theorem serveWriteLine_setRp (req : Req) (rp : List Char) (q : Query) (u : Account) :
    serveWriteLine (req.setRp rp q) u = serveWriteLine req u := rfl

/-- One pass of the chain does not look at `rp` / the other parameters, provided the re-entry does not. -/
theorem serveLevel_setRp (cfg : Cfg) (again : Req → HttpOut) (req : Req) (rp : List Char) (q : Query)
    (h : again ((rewritten req).setRp rp q) = again (rewritten req)) :
    serveLevel cfg again (req.setRp rp q) = serveLevel cfg again req := by
  unfold serveLevel
  simp only [Req.setRp_method, Req.setRp_path, Req.setRp_auth, serveWriteLine_setRp, rewritten_setRp, h]

/-- **The whole handler is blind to `rp` and to every parameter other than `db`** (and `u`/`p`, which are part of
the credentials). -/
theorem serveHTTP_ignores_rp_params (cfg : Cfg) (fuel : Nat) (req : Req) (rp : List Char) (q : Query) :
    serveHTTP cfg fuel (req.setRp rp q) = serveHTTP cfg fuel req := by
  induction fuel generalizing req with
  | zero => rfl
  | succ n ih =>
    rw [serveHTTP, serveHTTP]
    exact serveLevel_setRp cfg _ req rp q (ih (rewritten req))

/-! ### `url.Values.Get` -/

theorem qGet_nil (k : List Char) : qGet [] k = [] := rfl

/-- The FIRST value of a key decides; later values of the same key are never read. -/
theorem qGet_cons_same (k v : List Char) (rest : Query) : qGet ((k, v) :: rest) k = v := by
  simp [qGet, List.find?]

theorem qGet_cons_other (k k' v : List Char) (rest : Query) (h : k' ≠ k) : qGet ((k', v) :: rest) k = qGet rest k := by
  simp [qGet, List.find?, h]

/-- What is appended AFTER a key's first occurrence does not change `Get`. -/
theorem qGet_append_of_mem (q q' : Query) (k : List Char) (h : ∃ e ∈ q, e.1 = k) : qGet (q ++ q') k = qGet q k := by
  induction q with
  | nil => obtain ⟨e, he, _⟩ := h; cases he
  | cons x xs ih =>
    by_cases hx : x.1 = k
    · obtain ⟨a, b⟩ := x
      simp only at hx; subst hx
      rw [List.cons_append, qGet_cons_same, qGet_cons_same]
    · obtain ⟨a, b⟩ := x
      rw [List.cons_append, qGet_cons_other _ _ _ _ hx, qGet_cons_other _ _ _ _ hx]
      apply ih
      obtain ⟨e, he, hk⟩ := h
      rcases List.mem_cons.mp he with rfl | he
      · exact absurd hk hx
      · exact ⟨e, he, hk⟩

/-- `withQuery` reads `db` from the first `db` pair and nothing else decides the write resource. -/
theorem writeResource_withQuery (req : Req) (q : Query) :
    writeResource (req.withQuery q) = databaseResource (qGet q "db".toList) := rfl

end Kap.C20
