/-
C01 — property theorems (every `theorem` in this module is a proof obligation; `bin/check C01` audits each one's
axioms). Helper lemmas live in Kap/Proofs/C01*.lean.

Statement (properties.jsonl): for every alert ID, the level attached to each data point is the highest severity
whose condition holds (held back by a reset condition when one is configured), and an event reaches the alert's
handlers exactly when that level is not OK or it has just returned to OK from a non-OK level; with
state-changes-only, only when the level differs from the previous one (or the configured interval has elapsed), and
with no-recoveries the OK event is withheld. Each event carries the level, the time of the triggering point and a
duration equal to the time since the ID last left OK.

The theorems are about the model `Kap.Model.C01` (a transcription of alert.go whose guards and constants are
REGENERATED from the Go source into `Kap.C01.Gen` on every run, so a changed guard is re-proved or breaks here) and the
history spec `Kap.Spec.C01`. They hold for EVERY flap-detection function `flap` (the float arithmetic of
`percentChange` is a parameter, tied to the code by the correspondence run only): flap detection enters the spec as
the per-point input flag "the ID is flapping here".
-/
import Kap.Proofs.C01Flap
import Kap.Proofs.C01Decl
import Kap.Proofs.C01Window
import Kap.Proofs.C01Restart
import Kap.Proofs.C01Inhibit
namespace Kap.Props.C01
open Kap.C01

/-! ### What the extractor must have recognised in the source (regenerated on every run) -/

/-- `alert.Level`: OK < Info < Warning < Critical, in this order (alert/types.go). -/
theorem level_order_recognised :
    Gen.levelNames = some ["OK", "Info", "Warning", "Critical", "maxLevel"] := by decide

/-- `BufferedBatch` returns before touching anything when the batch has no points. -/
theorem batch_empty_guard_recognised : Gen.batchEmptyReturns = true := by decide

/-- The ring always has at least two slots: default 21, and `History < 2 ⇒ 2`. This is what makes "the slot before
idx" a different slot from idx (`ring_tracks_history`; `history_one_breaks_previous_level` shows it is needed). -/
theorem history_at_least_two (h : Option Int) : 2 ≤ effHistory h := effHistory_ge_two h

/-! ### The level of a point -/

/-- **The level attached to a point is the highest severity whose condition holds, held back by the reset condition
of the current level when one is configured** — for every configuration, every outcome of the predicates
(including evaluation errors) and every current level. (`findFirstMatchLevel` up, reset gate, `findFirstMatchLevel`
down = `specLevel`.) -/
theorem determineLevel_spec (c : Cfg) (p : Pt) (cur : Nat) :
    determineLevel c p cur = specLevel c p cur :=
  determineLevel_eq_specLevel c p cur

/-- Without reset expressions the level is simply the highest severity whose condition holds. -/
theorem determineLevel_no_resets (c : Cfg) (p : Pt) (cur : Nat)
    (h : c.infoReset = false ∧ c.warnReset = false ∧ c.critReset = false) :
    determineLevel c p cur = highestHolding c p :=
  determineLevel_of_no_resets c p cur h

/-- The level never leaves `OK … Critical`. -/
theorem determineLevel_in_range (c : Cfg) (p : Pt) (cur : Nat) (h : cur ≤ 3) : determineLevel c p cur ≤ 3 :=
  determineLevel_le c p cur h

/-- The documented example (pipeline/alert.go:100-127): values 61 73 64 85 62 56 47 give
INFO WARNING WARNING CRITICAL INFO INFO OK. (A test of the model, labelled as such; the same case runs on the real
code with the documented lambdas: corpus/C01/doc-example.ops.) -/
theorem documented_example :
    let c : Cfg := { info := true, warn := true, crit := true, infoReset := true, warnReset := true, critReset := true }
    let pt (v : Int) : Pt := { t := 0, i := some (decide (v > 60)), ri := some (decide (v < 50)), w := some (decide (v > 70)),
                               rw := some (decide (v < 60)), c := some (decide (v > 80)), rc := some (decide (v < 70)) }
    ([61, 73, 64, 85, 62, 56, 47].foldl (fun (acc : Nat × List Nat) v =>
        let l := determineLevel c (pt v) acc.1
        (l, acc.2 ++ [l])) (0, [])).2 = [1, 2, 2, 3, 1, 1, 0] := by
  decide

/-! ### The ring -/

/-- **The ring tracks the history** (needs `History ≥ 2`): after `addEvent(t, l)` the current level is `l`, the slot
`triggered` looks at (`idx-1`, wrapping) holds the level the ID had before, and `changed` says whether they differ;
`firstTriggered` moves exactly when the ID leaves OK; `lastTriggered` is untouched; `expired` is the
state-changes-only interval test against `lastTriggered`. For every ring position, including the wrap. -/
theorem ring_tracks_history (c : Cfg) (flap : FlapFn) (s : St) (t : Int) (l : Nat) (h : RingOK c s) :
    let s' := addEvent c flap s t l
    RingOK c s' ∧ currentLevel s' = l ∧ prevLevel s' = currentLevel s ∧ s'.changed = (currentLevel s != l) ∧
    s'.firstTriggered = (if (currentLevel s != l && currentLevel s == 0) then some t else s.firstTriggered) ∧
    s'.lastTriggered = s.lastTriggered ∧
    s'.expired = (!(currentLevel s != l) && c.scoDur != 0 && decide (subTime t s.lastTriggered ≥ c.scoDur)) :=
  let F := addEvent_facts c flap s t l h
  ⟨F.ring, F.cur, F.prev, F.changed, F.first, F.last, F.expired⟩

/-- Why the clamp `History < 2 ⇒ 2` is load-bearing: with a one-slot ring "the slot before idx" IS the current
slot, so `triggered` would take the new level for the previous one. -/
theorem history_one_breaks_previous_level :
    let c : Cfg := { warn := true, history := 1 }
    let s' := addEvent c (fun f _ _ => f) (newAlertState c) 10 2
    currentLevel (newAlertState c) = 0 ∧ prevLevel s' = 2 := by
  decide

/-! ### Emission, payload, duration: one step -/

/-- **Stream form, one point** (any flap detector): under the simulation relation, `alertState.Point` delivers
exactly the event the property statement asks for — an event iff the level is not OK or the ID just returned to OK
(`due`), under state-changes-only only on a level change or when the interval since the last alert has elapsed, not
while the ID is flapping, the OK event withheld under no-recoveries; carrying the point's level, the point's time
and `time − (time the ID last left OK)` — and the relation is re-established. -/
theorem emit_iff (c : Cfg) (hc : c.WF) (flap : FlapFn) (s : St) (tr : Track) (p : Pt) (h : Rel c s tr) :
    let r := pointStep c flap s p
    let fl := c.useFlap && r.1.flapping
    Rel c r.1 (specPoint c tr p fl).1 ∧ r.2 = (specPoint c tr p fl).2 :=
  point_refines c hc flap s tr p h

/-- **Batch form, one batch** incl. `all()`: every point is levelled against the SAME current level; the batch level
is the highest (`all()`: lowest) point level; the event time is the first highest point's time (batch time for
`all()` / OK); same emission rule, except that flap detection lets the recovery through (as the comment in
`BufferedBatch` documents). -/
theorem emit_iff_batch (c : Cfg) (hc : c.WF) (flap : FlapFn) (s : St) (tr : Track) (b : Batch) (h : Rel c s tr) :
    let r := batchStep c flap s b
    let fl := c.useFlap && r.1.flapping
    Rel c r.1 (specBatch c tr b fl).1 ∧ r.2 = (specBatch c tr b fl).2 :=
  batch_refines c hc flap s tr b h

/-- **Payload of a stream event**: the level of the triggering point, its time, and a duration equal to the time since
the ID last left OK (`leftOK` of the history spec: the time of the last point that took the ID from OK to non-OK). -/
theorem event_payload (c : Cfg) (hc : c.WF) (flap : FlapFn) (s : St) (tr : Track) (p : Pt) (h : Rel c s tr)
    (e : Ev) (he : (pointStep c flap s p).2 = some e) :
    e.level = specLevel c p tr.level ∧ e.time = p.t ∧
    ∃ since, (if tr.level == 0 && e.level != 0 then some p.t else tr.leftOK) = some since ∧ e.dur = p.t - since := by
  obtain ⟨hrel, hev⟩ := point_refines c hc flap s tr p h
  rw [he] at hev
  simp only [specPoint, advance] at hev hrel
  split at hev
  · cases hev
    refine ⟨rfl, rfl, ?_⟩
    rename_i hd
    have hleft := hrel.left
    simp only [] at hleft
    -- an event is due only when the level is not OK or the ID was not OK: in both cases `leftOK` is known
    have hdue : specLevel c p tr.level ≠ 0 ∨ tr.level ≠ 0 := by
      simp only [due, Bool.and_eq_true, Bool.or_eq_true, bne_iff_ne] at hd
      exact hd.1.1.1
    have hs : (if (tr.level == 0 && specLevel c p tr.level != 0) = true then some p.t else tr.leftOK).isSome = true := by
      rcases hdue with h1 | h1
      · exact hleft h1
      · have := h.left h1
        simp [h1, this]
    cases hq : (if (tr.level == 0 && specLevel c p tr.level != 0) = true then some p.t else tr.leftOK) with
    | none => rw [hq] at hs; cases hs
    | some since => exact ⟨since, rfl, by simp⟩
  · cases hev

/-- **"the time since the ID last left OK"**, without any running state: the quantity `leftOK` the durations of
`event_payload` are measured from is, after any stream history, the time of the LAST position `j` of the plain level
sequence with `level j ≠ OK` and `level (j−1) = OK` (OK before the first point) — or untouched when the history has no
such position. A theorem about the spec itself: its fold is the declarative reading of the statement. -/
theorem duration_since_left_ok (c : Cfg) (ps : List Pt) (fls : List Bool) (tr : Track) (h : fls.length = ps.length) :
    let L := levelsOf c tr.level ps
    let r := (trackAfter c tr (ps.zip fls)).leftOK
    (∃ j, j < ps.length ∧ leavesOKAt tr.level L j ∧ (∀ j', j < j' → j' < ps.length → ¬ leavesOKAt tr.level L j') ∧
          r = some ((ps.map (·.t)).getD j 0)) ∨
    ((∀ j, j < ps.length → ¬ leavesOKAt tr.level L j) ∧ r = tr.leftOK) :=
  leftOK_is_last_departure c ps fls tr h

/-! ### Whole histories -/

/-- **Stream form, every history** (all point sequences, all configurations in `Cfg.WF`, every flap detector): the
events the handlers receive for an ID are exactly the events of the history spec, in order, with level, time and
duration. -/
theorem stream_events_exact (c : Cfg) (hc : c.WF) (flap : FlapFn) (ps : List Pt) :
    (runStream c flap (newAlertState c) ps).2 = specStream c {} (ps.zip (streamFlags c flap (newAlertState c) ps)) :=
  stream_run_refines c hc flap ps _ _ (rel_init c hc)

/-- **Batch form, every history.** -/
theorem batch_events_exact (c : Cfg) (hc : c.WF) (flap : FlapFn) (bs : List Batch) :
    (runBatches c flap (newAlertState c) bs).2 = specBatches c {} (bs.zip (batchFlags c flap (newAlertState c) bs)) :=
  batch_run_refines c hc flap bs _ _ (rel_init c hc)

/-- Flap detection off (the default): the spec without any flapping input. -/
theorem stream_events_exact_no_flapping (c : Cfg) (hc : c.WF) (flap : FlapFn) (hf : c.useFlap = false) (ps : List Pt) :
    (runStream c flap (newAlertState c) ps).2 = specStream c {} (ps.map (fun p => (p, false))) := by
  rw [stream_events_exact c hc, streamFlags_off c flap hf, List.zip_map_right]
  congr 1
  induction ps with
  | nil => rfl
  | cons p ps ih => simp [ih]

theorem batch_events_exact_no_flapping (c : Cfg) (hc : c.WF) (flap : FlapFn) (hf : c.useFlap = false) (bs : List Batch) :
    (runBatches c flap (newAlertState c) bs).2 = specBatches c {} (bs.map (fun b => (b, false))) := by
  rw [batch_events_exact c hc, batchFlags_off c flap hf, List.zip_map_right]
  congr 1
  induction bs with
  | nil => rfl
  | cons b bs ih => simp [ih]

/-- **Flap detection only suppresses** (no state-changes-only interval configured): whatever the detector, the events
delivered with `.flapping()` are a sub-sequence — same level, time AND duration — of those delivered without it. -/
theorem flapping_only_suppresses (c : Cfg) (hc : c.WF) (h0 : c.scoDur = 0) (flap : FlapFn) (ps : List Pt) :
    ((runStream c flap (newAlertState c) ps).2).Sublist
      ((runStream { c with useFlap := false } flap (newAlertState c) ps).2) := by
  have hc' : Cfg.WF { c with useFlap := false } := ⟨hc.two, hc.dur⟩
  have e1 := stream_events_exact c hc flap ps
  have e2 := stream_events_exact_no_flapping { c with useFlap := false } hc' flap rfl ps
  have hn : newAlertState { c with useFlap := false } = newAlertState c := rfl
  rw [hn, specStream_useFlap] at e2
  rw [e1, e2]
  exact specStream_sub c h0 ps _ _ _ ⟨rfl, rfl⟩

theorem flapping_only_suppresses_batch (c : Cfg) (hc : c.WF) (h0 : c.scoDur = 0) (flap : FlapFn) (bs : List Batch) :
    ((runBatches c flap (newAlertState c) bs).2).Sublist
      ((runBatches { c with useFlap := false } flap (newAlertState c) bs).2) := by
  have hc' : Cfg.WF { c with useFlap := false } := ⟨hc.two, hc.dur⟩
  have e1 := batch_events_exact c hc flap bs
  have e2 := batch_events_exact_no_flapping { c with useFlap := false } hc' flap rfl bs
  have hn : newAlertState { c with useFlap := false } = newAlertState c := rfl
  rw [hn, specBatches_useFlap] at e2
  rw [e1, e2]
  exact specBatches_sub c h0 bs _ _ _ ⟨rfl, rfl⟩

/-- With an interval (`stateChangesOnly(d)`) "only suppresses" is FALSE, by design of the interval: a suppressed event
does not restart the interval, so the flapping run can re-send earlier than the run without flap detection. Witness:
interval 10, WARNING@0, CRITICAL@1, WARNING@2 (suppressed: detector says flapping), WARNING@11 — sent with flapping
(11−1 ≥ 10), not sent without (11−2 < 10). -/
theorem flapping_with_interval_can_add_an_event :
    let c : Cfg := { warn := true, crit := true, sco := true, scoDur := 10, useFlap := true, history := 2 }
    let flap : FlapFn := fun _ ring idx => ring.getD idx 0 == 2 && ring.getD (1 - idx) 0 == 3   -- "flapping" on CRITICAL→WARNING
    let ps : List Pt := [{ t := 0, w := some true }, { t := 1, w := some true, c := some true }, { t := 2, w := some true },
                         { t := 11, w := some true }]
    ¬ ((runStream c flap (newAlertState c) ps).2).Sublist ((runStream { c with useFlap := false } flap (newAlertState c) ps).2) := by
  decide

/-! ### Flap detection: the flag itself -/

/-- The loop of `percentChange` was recognised and starts two slots after `idx` (= at the second oldest entry). -/
theorem flap_loop_recognised : Gen.flapStartOffset = some 2 := by decide

/-- **All-slots ring theorem**: after `addEvent(t, l)` EVERY slot of the ring holds the level that many steps back in
the history extended by `l` (levels before the first point: OK) — every ring size, every position of `idx`, the wrap. -/
theorem ring_holds_last_levels (c : Cfg) (flap : FlapFn) (s : St) (t : Int) (l : Nat) (recent : List Nat)
    (hidx : s.idx < s.history.length) (h : RingRep s recent) :
    RingRep (addEvent c flap s t l) (l :: recent) :=
  addEvent_rep c flap s t l recent hidx h

/-- **`percentChange` compares what the documentation says**: the `history − 1` adjacent pairs of the last `history`
levels in chronological order, oldest pair first (so the weights grow with recency). -/
theorem flap_comparisons_documented (s : St) (recent : List Nat) (hidx : s.idx < s.history.length) (h : RingRep s recent) :
    ringDiffs ((Gen.flapStartOffset).getD 0) s.history s.idx = docDiffs s.history.length recent :=
  ringDiffs_eq_docDiffs s recent hidx h

/-- the `if … else if …` of `updateFlapping` is the documented hysteresis: a flapping ID stays flapping until the
percentage is below `low`; a quiet one starts flapping when it is above `high`. -/
theorem flap_hysteresis (flapping belowLow aboveHigh : Bool) :
    hysteresis flapping belowLow aboveHigh = (if flapping then !belowLow else aboveHigh) := by
  cases flapping <;> cases belowLow <;> cases aboveHigh <;> decide

/-- **The flapping flag of the code is the documented one, for every history** (stream form; every decision `dec` on
the comparison outcomes: the float64 arithmetic the driver executes, the exact one, any other). -/
theorem stream_flags_documented (c : Cfg) (hc : c.WF) (dec : FlapDecide) (ps : List Pt) :
    streamFlags c (codeFlap dec) (newAlertState c) ps = specStreamFlags c dec {} ps :=
  stream_flags_eq c dec ps _ _ (frel_init c (by have := hc.two; omega))

theorem batch_flags_documented (c : Cfg) (hc : c.WF) (dec : FlapDecide) (bs : List Batch) :
    batchFlags c (codeFlap dec) (newAlertState c) bs = specBatchFlags c dec {} bs :=
  batch_flags_eq c dec bs _ _ (frel_init c (by have := hc.two; omega))

/-- **Closed form, stream**: with the code's flap detection the events are those of the history spec with the
DOCUMENTED flapping flags — nothing of the code's state is left in the statement. -/
theorem stream_events_closed (c : Cfg) (hc : c.WF) (dec : FlapDecide) (ps : List Pt) :
    (runStream c (codeFlap dec) (newAlertState c) ps).2 = specStream c {} (ps.zip (specStreamFlags c dec {} ps)) := by
  rw [stream_events_exact c hc, stream_flags_documented c hc]

theorem batch_events_closed (c : Cfg) (hc : c.WF) (dec : FlapDecide) (bs : List Batch) :
    (runBatches c (codeFlap dec) (newAlertState c) bs).2 = specBatches c {} (bs.zip (specBatchFlags c dec {} bs)) := by
  rw [batch_events_exact c hc, batch_flags_documented c hc]

/-- The defect repaired by the third `fix:` commit of findings/C01.txt: with the loop starting AT `idx` (offset 0)
one single change OK→WARNING in a ring of 3 is seen by BOTH comparisons (newest≠previous, and oldest≠newest across
the seam): percentage 0.9 instead of the documented 0.5, so with flapping(0.25, 0.6) the old code declared the ID
flapping at its first alert; the documented rule and the repaired code do not. Exact arithmetic.
Replayed on the real code by corpus/C01/flap-window.ops. -/
theorem old_flap_window_counts_one_change_twice :
    let ring := [0, 2, 0]     -- idx = 1: newest WARNING, previous OK (slot 0), oldest OK (slot 2)
    ringDiffs 0 ring 1 = [true, true] ∧ ringDiffs 2 ring 1 = [false, true] ∧ docDiffs 3 [2] = [false, true] ∧
    weighNum [true, true] * 10 = 9 * (5 * 2 * 2) ∧ weighNum [false, true] * 10 = 5 * (5 * 2 * 2) ∧
    exactDecide 1 4 3 5 false (ringDiffs 0 ring 1) = true ∧ exactDecide 1 4 3 5 false (ringDiffs 2 ring 1) = false := by
  decide

/-- The level sequence of upstream's integration test `TestStream_AlertFlapping` (history 21, flapping(0.25, 0.5)):
9 events, the last two alerts dropped — with the repaired loop and exact arithmetic, as the test expects. -/
theorem upstream_flapping_test_sequence :
    let c : Cfg := { info := true, warn := true, crit := true, useFlap := true, history := 21 }
    let pt (t : Int) (l : Nat) : Pt := { t := t, i := some (decide (l ≥ 1)), w := some (decide (l ≥ 2)), c := some (decide (l ≥ 3)) }
    let ps := [pt 1 0, pt 2 3, pt 3 0, pt 4 2, pt 5 3, pt 6 0, pt 7 3, pt 8 0, pt 9 2, pt 10 0, pt 11 3, pt 12 0]
    ((runStream c (codeFlap (exactDecide 1 4 1 2)) (newAlertState c) ps).2.map (fun e => (e.level, e.time)))
      = [(3, 2), (0, 3), (2, 4), (3, 5), (0, 6), (3, 7), (0, 8), (2, 9), (0, 10)] := by
  decide

/-! ### The defect repaired by the `fix:` commit of findings/C01.txt -/

/-- Full-strength duration claim for the code AS IT WAS (`pointStepOld`: `addEvent` without the leftOK bookkeeping). -/
def old_duration_since_left_ok_stmt : Prop :=
  ∀ (c : Cfg) (flap : FlapFn) (s : St) (tr : Track) (p : Pt), c.WF → Rel c s tr →
    ∀ e, (pointStepOld c flap s p).2 = some e →
      ∃ since, (if tr.level == 0 && e.level != 0 then some p.t else tr.leftOK) = some since ∧ e.dur = p.t - since

/-- It was false: flap detection suppresses the OK→WARNING event at t=10 (so `triggered` is not reached), the next
WARNING at t=20 is delivered with duration `maxDuration` (firstTriggered still the zero time) instead of 10.
Replayed on the real code by corpus/C01/flapping-duration.ops. -/
theorem old_duration_wrong_under_flapping :
    let c : Cfg := { warn := true, useFlap := true, history := 2 }
    let flap : FlapFn := fun _ ring idx => ring.getD idx 0 != ring.getD (1 - idx) 0   -- any change = flapping (history 2, high < 0.8)
    let s1 := (pointStepOld c flap (newAlertState c) { t := 10, w := some true }).1
    (pointStepOld c flap (newAlertState c) { t := 10, w := some true }).2 = none ∧
    (pointStepOld c flap s1 { t := 20, w := some true }).2 = some { level := 2, time := 20, dur := maxDuration } := by
  decide

/-- The repaired code on the same input: duration 10. -/
theorem fixed_duration_under_flapping :
    let c : Cfg := { warn := true, useFlap := true, history := 2 }
    let flap : FlapFn := fun _ ring idx => ring.getD idx 0 != ring.getD (1 - idx) 0
    (runStream c flap (newAlertState c) [{ t := 10, w := some true }, { t := 20, w := some true }]).2
      = [{ level := 2, time := 20, dur := 10 }] := by
  decide

/-! ### Restore (task restart) -/

/-- **A restart resumes the ID from the last event its handlers received — in every configuration** (no-recoveries,
flapping, state-changes-only included): after `restoreEventState` from the stored event state `e` the state machine
is in the simulation relation with `specRestart (some e)` (at `e`'s level, last alert at `e`'s time, left OK `e.dur`
before it) and its ring / flapping flag with `flapRestart` (flap detection starts over, knowing that level only). By
`emit_iff` / `emit_iff_batch` / `stream_flags_documented` everything continues from there as the spec says. -/
theorem restore_resumes (c : Cfg) (hc : c.WF) (dec : FlapDecide) (t : Int) (e : Ev) (hl : e.level ≠ 0) :
    Rel c (restoreEventState c (codeFlap dec) t e.level e.time e.dur) (specRestart (some e)) ∧
    FRel c (restoreEventState c (codeFlap dec) t e.level e.time e.dur) (flapRestart c dec (some e)) := by
  have hne : (e.level != 0) = true := by simpa using hl
  refine ⟨?_, ?_⟩
  · simp only [specRestart, hne, if_true]
    exact restore_rel c hc (codeFlap dec) t e.level e.time e.dur hl
  · simp only [flapRestart, hne, if_true]
    exact restore_frel c (by have := hc.two; omega) dec t e.level e.time e.dur hl

/-- … and an ID without a delivered event, or whose last delivered event was its recovery, starts as new. -/
theorem restore_fresh (c : Cfg) (hc : c.WF) (flap : FlapFn) (t : Int) (stored dur : Int) :
    restoreEventState c flap t 0 stored dur = newAlertState c ∧ Rel c (newAlertState c) (specRestart none) ∧
    FRel c (newAlertState c) {} :=
  ⟨rfl, rel_init c hc, frel_init c (by have := hc.two; omega)⟩

/-- **Without no-recoveries and flap suppression a restart is invisible** (stream form): after ANY history `ps1`,
resuming from the last delivered event (`specRestart`) gives for ANY continuation `ps2` exactly the events the
uninterrupted history gives — levels, emission, times and durations. (With no-recoveries or flap suppression the
last delivered event need not carry the ID's level; then `specRestart` is what the statement can ask for.) -/
theorem restart_invisible (c : Cfg) (hn : c.noRec = false) (ps1 ps2 : List Pt) :
    let h1 := ps1.map (fun p => (p, false))
    specStream c (specRestart (lastDelivered c {} none h1)) (ps2.map (fun p => (p, false)))
      = specStream c (trackAfter c {} h1) (ps2.map (fun p => (p, false))) := by
  intro h1
  have hd : Describes ({} : Track) none := ⟨fun h => absurd rfl h, fun _ => Or.inl rfl⟩
  exact specStream_same c ps2 _ _ (describes_restart _ _ (describes_run c hn ps1 {} none hd))

/-- The same claim for the code AS IT WAS before the second `fix:` commit of findings/C01.txt … -/
def old_restore_keeps_duration_stmt : Prop :=
  ∀ (c : Cfg) (flap : FlapFn) (t : Int) (level : Nat) (stored dur : Int), c.WF → level ≠ 0 →
    Rel c (restoreEventStateOld c flap t level stored)
      { level := level, leftOK := some (stored - dur), lastAlert := some stored }

/-- … was false: the old code resumed with "left OK at the stored event's time" … -/
theorem old_restore_restarted_duration (c : Cfg) (hc : c.WF) (flap : FlapFn) (t : Int) (level : Nat) (stored : Int) (hl : level ≠ 0) :
    Rel c (restoreEventStateOld c flap t level stored) { level := level, leftOK := some stored, lastAlert := some stored } :=
  restore_rel_old c hc flap t level stored hl

/-- … witness: WARNING since t=0, last event at t=20 (duration 20); restart; the next WARNING at t=30 reported 10
(now 30). Replayed on the real code by corpus/C01/restart-duration.ops. -/
theorem old_restore_witness :
    let c : Cfg := { warn := true, history := 2 }
    (pointStep c (fun f _ _ => f) (restoreEventStateOld c (fun f _ _ => f) 30 2 20) { t := 30, w := some true }).2
      = some { level := 2, time := 30, dur := 10 } ∧
    (pointStep c (fun f _ _ => f) (restoreEventState c (fun f _ _ => f) 30 2 20 20) { t := 30, w := some true }).2
      = some { level := 2, time := 30, dur := 30 } := by
  decide

/-! ### Inhibition (`.inhibit(category, tags…)` / `.category(c)`) -/

/-- `handleEvent` drops the event of an inhibited category first, and alert/inhibit.go + the inhibitor set-up of
`newAlertState` are the transcribed source. -/
theorem inhibition_recognised : Gen.inhibitionRecognised = true := by decide

/-- **The inhibition an ID exerts tracks its level**: after EVERY stream history the flag on its inhibitors is set iff
the ID's current level is not OK — for every combination of no-recoveries and state-changes-only (with or without
interval) on the inhibiting alert; flap detection off. In particular a recovery withheld by no-recoveries, or a
repeat swallowed by state-changes-only, still leaves the flag right. -/
theorem inhibition_tracks_level (c : Cfg) (hc : c.WF) (hf : c.useFlap = false) (flap : FlapFn) (ps : List Pt) :
    let s := (runStream c flap (newAlertState c) ps).1
    s.inhibiting = (currentLevel s != 0) :=
  stream_irel c hc hf flap ps _ _ (rel_init c hc) (irel_init c)

theorem inhibition_tracks_level_batch (c : Cfg) (hc : c.WF) (hf : c.useFlap = false) (flap : FlapFn) (bs : List Batch) :
    let s := (runBatches c flap (newAlertState c) bs).1
    s.inhibiting = (currentLevel s != 0) :=
  batches_irel c hc hf flap bs _ _ (rel_init c hc) (irel_init c)

/-- The same claim WITH flap detection on the inhibiting alert (stated, NOT proved, false of the code): -/
def inhibition_tracks_level_under_flapping_stmt : Prop :=
  ∀ (c : Cfg) (flap : FlapFn) (ps : List Pt), c.WF →
    let s := (runStream c flap (newAlertState c) ps).1
    s.inhibiting = (currentLevel s != 0)

/-- … `triggered()` is the only place that sets the inhibitors and a flap-suppressed point never reaches it: an ID that
goes WARNING while flapping does not inhibit, and one that returns to OK while flapping keeps inhibiting (stream
form). Model-level witness; inhibiting alerts with flap detection are outside the correspondence (see assumptions). -/
theorem inhibition_stale_under_flap_suppression :
    let c : Cfg := { warn := true, useFlap := true, history := 2 }
    let always : FlapFn := fun _ _ _ => true
    let s1 := (runStream c always (newAlertState c) [{ t := 1, w := some true }]).1
    let never_then_always : FlapFn := fun _ ring idx => ring.getD idx 0 == 0
    let s2 := (runStream c never_then_always (newAlertState c) [{ t := 1, w := some true }, { t := 2 }]).1
    (currentLevel s1 = 2 ∧ s1.inhibiting = false) ∧ (currentLevel s2 = 0 ∧ s2.inhibiting = true) := by
  decide

/-- **B's emission rule under inhibition** (two-ID world, every interleaving of the two IDs' points, every
configuration of both alerts without flap detection): an event of B reaches B's handlers exactly when C01's rule
delivers it AND the inhibiting ID A (whose declaration matches B's category and tags: `hit`) is OK at that moment —
judged on A's LEVEL history, so with no-recoveries on A the inhibition still ends when A returns to OK. A's own
events and B's state machine (levels, durations, "last alert") are untouched by the inhibition. -/
theorem inhibited_event_rule (ca cb : Cfg) (hca : ca.WF) (hcb : cb.WF) (hfa : ca.useFlap = false) (hfb : cb.useFlap = false)
    (fa fb : FlapFn) (hit : Bool) (ops : List WOp) :
    runWorld ca cb fa fb hit { a := newAlertState ca, b := newAlertState cb } ops = specRunWorld ca cb hit {} ops :=
  world_refines ca cb hca hcb hfa hfb fa fb hit ops _ _ (rel_init ca hca) (rel_init cb hcb) (irel_init ca)

/-- non-vacuity: A = `.warn().noRecoveries().stateChangesOnly().inhibit(…)`, B = `.warn()`: B@2 dropped while A is WARNING,
A's recovery @3 withheld, B@4 delivered again (this is the history the seeded change C01-5 gets wrong). -/
example :
    let ca : Cfg := { warn := true, noRec := true, sco := true, history := 2 }
    let cb : Cfg := { warn := true, history := 2 }
    let id : FlapFn := fun f _ _ => f
    runWorld ca cb id id true { a := newAlertState ca, b := newAlertState cb }
      [.pa { t := 1, w := some true }, .pb { t := 2, w := some true }, .pa { t := 3 }, .pb { t := 4, w := some true }]
      = [(some { level := 2, time := 1, dur := 0 }, none), (none, none), (none, none),
         (none, some { level := 2, time := 4, dur := 2 })] := by
  decide

/-! ### Non-vacuity: the hypotheses are met, and the theorems say something on a concrete non-trivial history -/

example : Cfg.WF { warn := true, crit := true, warnReset := true, sco := true, scoDur := 5, noRec := true, history := 2 } :=
  ⟨by decide, by decide⟩

example : ∀ h : Option Int, Cfg.WF { history := effHistory h } :=
  fun h => ⟨history_at_least_two h, by show (0 : Int) ≤ maxDuration; decide⟩

/-- a history with a level change, a held reset, an interval re-send, a suppressed repeat and a withheld recovery -/
example :
    let c : Cfg := { warn := true, crit := true, critReset := true, sco := true, scoDur := 5, noRec := true, history := 2 }
    (runStream c (fun f _ _ => f) (newAlertState c)
      [{ t := 0, w := some true }, { t := 1, w := some true, c := some true }, { t := 2, w := some true, rc := some false },
       { t := 6, w := some true, rc := some false }, { t := 7, w := some true, rc := some true }, { t := 9 }]).2
      = [{ level := 2, time := 0, dur := 0 }, { level := 3, time := 1, dur := 1 }, { level := 3, time := 6, dur := 6 },
         { level := 2, time := 7, dur := 7 }] := by
  decide

example : Rel { history := 2 } (newAlertState { history := 2 }) {} := rel_init _ ⟨by decide, by decide⟩

/-- `duration_since_left_ok` on WARNING, OK, WARNING, WARNING at times 1 2 3 4: positions 0 and 2 leave OK, 2 is the last -/
example :
    let c : Cfg := { warn := true }
    let ps : List Pt := [{ t := 1, w := some true }, { t := 2 }, { t := 3, w := some true }, { t := 4, w := some true }]
    levelsOf c 0 ps = [2, 0, 2, 2] ∧ (trackAfter c {} (ps.zip [false, false, false, false])).leftOK = some 3 := by
  decide

end Kap.Props.C01
