/-
C01 — property theorems (every `theorem` in this module is a proof obligation; `bin/check C01` audits each one's
axioms). Helper lemmas live in Kap/Proofs/C01*.lean.
-/
import Kap.Proofs.C01
namespace Kap.Props.C01
open Kap.C01

/-! ### What the extractor must have recognised in the source (regenerated on every run) -/

/-- `alert.Level`: OK < Info < Warning < Critical, in this order (alert/types.go). -/
theorem level_order_recognised :
    Gen.levelNames = some ["OK", "Info", "Warning", "Critical", "maxLevel"] := by decide

/-- The ring always has at least two slots: default 21, and `History < 2 ⇒ 2` (this is what
`ring_tracks_history` needs). -/
theorem history_at_least_two (h : Option Int) : 2 ≤ effHistory h := by
  unfold effHistory
  simp only [Gen.defaultHistory, Gen.historyClamp]
  cases h with
  | none => decide
  | some h =>
    by_cases hh : h < 2
    · simp [hh]
    · simp only [hh, if_false]; omega

/-! ### The level of a point -/

/-- **The level attached to a point is the highest severity whose condition holds, held back by the reset condition
of the current level when one is configured** — for every configuration, every outcome of the predicates
(including evaluation errors) and every current level. -/
theorem determineLevel_spec (c : Cfg) (p : Pt) (cur : Nat) :
    determineLevel c p cur = specLevel c p cur :=
  determineLevel_eq_specLevel c p cur

/-- Without reset expressions the level is simply the highest severity whose condition holds. -/
theorem determineLevel_no_resets (c : Cfg) (p : Pt) (cur : Nat)
    (h : c.infoReset = false ∧ c.warnReset = false ∧ c.critReset = false) :
    determineLevel c p cur = highestHolding c p := by
  rw [determineLevel_eq_specLevel]
  obtain ⟨h1, h2, h3⟩ := h
  have : heldBack c p cur = false := by
    unfold heldBack resetExpr
    match cur with
    | 0 => rfl
    | 1 => simp [h1]
    | 2 => simp [h2]
    | 3 => simp [h3]
    | _ + 4 => rfl
  simp [specLevel, this]

/-- The documented example (pipeline/alert.go:100-127): values 61 73 64 85 62 56 47 give
INFO WARNING WARNING CRITICAL INFO INFO OK. (A test of the model, also run on the real code: corpus/C01/doc-example.ops.) -/
theorem documented_example :
    let c : Cfg := { info := true, warn := true, crit := true, infoReset := true, warnReset := true, critReset := true }
    let pt (v : Int) : Pt := { t := 0, i := some (decide (v > 60)), ri := some (decide (v < 50)), w := some (decide (v > 70)),
                               rw := some (decide (v < 60)), c := some (decide (v > 80)), rc := some (decide (v < 70)) }
    ([61, 73, 64, 85, 62, 56, 47].foldl (fun (acc : Nat × List Nat) v =>
        let l := determineLevel c (pt v) acc.1
        (l, acc.2 ++ [l])) (0, [])).2 = [1, 2, 2, 3, 1, 1, 0] := by
  decide

end Kap.Props.C01
