/-
C02 — property theorems (every `theorem` in this module is a proof obligation; `bin/check C02` audits each one's axioms).
Helper lemmas live in Kap/Proofs/C02*.lean.

Statement (properties.jsonl): every point written to a database/retention policy is delivered to each enabled stream task that
declared that pair and whose from() selection matches it, exactly once per matching from() node and in the order written; it is
never delivered to a task that did not declare the pair, and starting, stopping or deleting other tasks does not lose, duplicate
or reorder points of a running task.

Model: Kap/Model/C02.lean (fork table of task_master.go, from-node matching of stream.go). Spec: Kap/Spec/C02.lean.
All theorems quantify over EVERY history of start / failing start / stop / delete / write operations (no well-formedness hypothesis:
since the third fix a start of an executing id is refused, in the code, the model and the spec), every default retention policy,
every task id and from-node index; nothing is bounded.
-/
import Kap.Proofs.C02Bounded
import Kap.Proofs.C02Opts
import Kap.Proofs.C02Http
import Kap.Gen.C02Cap
namespace Kap.Props.C02
open Kap.C02

/-! ### The defect of the snapshot (repaired by the `fix:` commit of findings/C02.txt) -/

/-- A task with `from().measurement('cpu')` and an unfiltered `from()`, one cpu point. -/
def witness : List Op :=
  [.start ⟨"t", [("d", "autogen")], [{ name := "cpu" }, {}]⟩, .write "d" "autogen" [⟨1, "cpu", [], {}⟩]]

/-- Counterexample: with the snapshot's `forkPoint` (both lookups unconditionally) the point reaches each sink twice, whereas the
spec asks for once (replayed on the real code by corpus/C02/double-delivery-exact-and-wildcard-key.ops). -/
theorem old_forkPoint_delivers_twice :
    (runWith forkPointOld "autogen" witness).delivered "t" 0 = [1, 1] ∧
    (runWith forkPointOld "autogen" witness).delivered "t" 1 = [1, 1] ∧
    specDelivered "autogen" "t" 0 witness = [1] ∧ specDelivered "autogen" "t" 1 witness = [1] := by
  decide

/-- Second shape of the same defect: a point without measurement name has exact key = empty-measurement key
(corpus/C02/double-delivery-empty-measurement-name.ops). -/
theorem old_forkPoint_delivers_twice_empty_name :
    (runWith forkPointOld "" [.start ⟨"t", [("d", "r")], [{}]⟩, .write "d" "r" [⟨7, "", [], {}⟩]]).delivered "t" 0 = [7, 7] ∧
    specDelivered "" "t" 0 [.start ⟨"t", [("d", "r")], [{}]⟩, .write "d" "r" [⟨7, "", [], {}⟩]] = [7] := by
  decide

/-- Second defect of the snapshot (repaired by the second `fix:` commit of findings/C02.txt): when `StartTask` fails AFTER `newFork`
(the task's snapshot cannot be loaded) the error return left the new edge registered although no task executes: the fork table holds
an entry for an id that is not executing, and the next point of that (db, rp) is collected on an edge nobody reads. (On the real code
the 1001st such point blocks the forking goroutine for ever, so EVERY running task stops receiving:
corpus/C02/failed-start-blocks-ingestion.ops.) -/
theorem old_failed_start_leaves_stale_subscription :
    let d : TaskDef := ⟨"u", [("d", "r")], [{}]⟩
    let s := startTaskFailOld (init "") d
    s.tasks "u" = none ∧ (s.forks ("d", "r", "")).map (·.1) = ["u"] ∧
    ((forkPoint s ⟨1, "d", "r", "m", [], {}⟩).log.map (·.1.task.id)) = ["u"] ∧
    -- the repaired code leaves nothing behind
    (startTaskFail (init "") d).forks ("d", "r", "") = [] ∧ (forkPoint (startTaskFail (init "") d) ⟨1, "d", "r", "m", [], {}⟩).log = [] := by
  decide

/-- Third defect of the snapshot (repaired by the third `fix:` commit of findings/C02.txt): `StartTask` did not look whether the id is
already executing. Starting `t` again under another definition left the OLD edge registered under the old keys, so both incarnations
record under the same node names (the sink sees points of the old AND the new selection), and `delFork` then closes the old edge
and never the input edge of the ExecutingTask it stops (on the real code `StopTask` waits for ever while holding the lock:
corpus/C02/start-of-executing-id.ops). -/
theorem old_start_of_executing_id_corrupts_routing :
    let a : TaskDef := ⟨"t", [("d", "r")], [{ name := "a" }]⟩
    let b : TaskDef := ⟨"t", [("d", "r")], [{ name := "b" }]⟩
    let s := writePointsWith forkPoint (startTaskOld (startTaskOld (init "") a) b) "d" "r" [⟨1, "a", [], {}⟩, ⟨2, "b", [], {}⟩]
    s.delivered "t" 0 = [1, 2] ∧
    specDelivered "" "t" 0 [.start a, .start b, .write "d" "r" [⟨1, "a", [], {}⟩, ⟨2, "b", [], {}⟩]] = [1] ∧
    (run "" [.start a, .start b, .write "d" "r" [⟨1, "a", [], {}⟩, ⟨2, "b", [], {}⟩]]).delivered "t" 0 = [1] ∧
    -- stopping it closes the stale edge #0, not the input edge #1 of the task being stopped
    (s.tasks "t").map (·.eid) = some 1 ∧ (stopTask s "t").closed.map (·.eid) = [0] := by
  decide

/-! ### The fork table -/

/-- **The fork table is exactly the set of subscriptions of the live tasks** — after every history: an entry `(id ↦ e)` sits under
key `k` iff `id` is live (in `tm.tasks` with input edge `e`, still holding fork keys) and `k` is one of its dbrp × measurement keys.
In particular stop/delete/drain leave no stale key, and start misses none (every from-node's measurement is covered). -/
theorem fork_table_exact (drp : String) (ops : List Op) (k : Key) (id : String) (e : Edge) :
    (id, e) ∈ (run drp ops).forks k ↔
      ((run drp ops).tasks id = some e ∧ (run drp ops).isLive id = true ∧ k ∈ e.task.keys) := by
  have hi : Inv (run drp ops) := run_inv drp ops
  constructor
  · intro h
    have h1 := hi.entry k id e h
    have h2 := hi.listed k id e h
    refine ⟨h1.1, ?_, h1.2⟩
    have hne : (run drp ops).forkKeysOf id ≠ [] := fun h0 => by rw [h0] at h2; cases h2
    simp [TM.isLive, h1.1, hne]
  · rintro ⟨h1, h2, h3⟩
    have hne : (run drp ops).forkKeysOf id ≠ [] := by
      intro h0; simp [TM.isLive, h0] at h2
    exact hi.reg id e h1 hne k h3

/-- **`Drain` ends every execution**: afterwards the fork table is empty and no id is live — so (fourth fix) every id may be started
again, although `tm.tasks` still holds the ended executions. -/
theorem drain_ends_every_execution (drp : String) (ops : List Op) (k : Key) (id : String) :
    (run drp (ops ++ [.drain])).forks k = [] ∧ (run drp (ops ++ [.drain])).isLive id = false := by
  have hrun : run drp (ops ++ [.drain]) = drain (run drp ops) := by
    simp [run, List.foldl_append, step, stepWith]
  have hi := run_inv drp ops
  rw [hrun]
  constructor
  · cases hf : (drain (run drp ops)).forks k with
    | nil => rfl
    | cons x rest =>
      exfalso
      have hm : (x.1, x.2) ∈ (drain (run drp ops)).forks k := by rw [hf]; exact List.mem_cons_self ..
      have := hi.drain.listed k x.1 x.2 hm
      rw [drain_keysOf hi] at this
      cases this
  · simp [TM.isLive, drain_keysOf hi]

/-- … and no inner map holds an id twice (it is a map). -/
theorem fork_table_functional (drp : String) (ops : List Op) (k : Key) :
    (((run drp ops).forks k).map (·.1)).Nodup :=
  (run_inv drp ops).nodup k

/-- **Routing never touches a closed edge.** After every history no `forkPoint` has collected on an edge that `delFork`
had closed (in Go: `send on closed channel`, a panic in the forking goroutine that kills the process), and every edge still
registered is open. -/
theorem never_sends_on_closed_edge (drp : String) (ops : List Op) :
    (run drp ops).sentOnClosed = false ∧ ∀ k id e, (id, e) ∈ (run drp ops).forks k → e ∉ (run drp ops).closed :=
  ⟨(run_invC drp ops).good, (run_invC drp ops).openE⟩

/-! ### Bounded edges: the forking goroutine never blocks -/

/-- The capacity of a task's input edge was recognised in the source (edge.go `defaultEdgeBufferSize` handed to
`edge.NewChannelEdge`; regenerated on every run by extract/c02cap — an unrecognised shape makes this obligation fail). -/
theorem edge_capacity_known : ∃ n, Gen.edgeCap = Gen.Cap.known n ∧ 0 < n := by
  refine ⟨_, rfl, ?_⟩; decide

/-- **`forkPoint` never waits on an edge nobody reads**: in every reachable state, every edge registered in the fork table is the
input of the ExecutingTask stored under its id, i.e. it has a reader that drains it. -/
theorem registered_edges_have_readers (drp : String) (ops : List Op) (k : Key) (id : String) (e : Edge)
    (h : (id, e) ∈ (run drp ops).forks k) : hasReader (run drp ops) e = true := by
  have := (run_inv drp ops).reader k (id, e) h
  simp [hasReader, this]

/-- **Progress / refinement**: whatever the capacity of the edges (even 0), on every history the model with bounded edges never
reaches `blocked` and is, state for state, the unbounded model all other theorems are about. -/
theorem bounded_edges_never_block (cap : Nat) (drp : String) (ops : List Op) :
    runB cap drp ops = ⟨run drp ops, false⟩ :=
  foldB_eq cap ops (init drp) (Inv.init drp)

/-- Counterexample for the snapshot's failing `StartTask` (second defect), now in the bounded model, with capacity 2 for the kernel:
task `t` runs, the start of `u` fails after `newFork`; the third point finds `u`'s orphaned edge full, the forking goroutine blocks,
and `t` — whose own pipeline is perfectly healthy — gets 3 = cap+1 of 4 points (on the real code, capacity 1000: 1001 of 1500,
corpus/C02/failed-start-blocks-ingestion.ops). -/
theorem old_failed_start_blocks_every_task :
    let ops : List Op := [.start ⟨"t", [("d", "r")], [{}]⟩, .startfail ⟨"u", [("d", "r")], [{}]⟩,
                          .write "d" "r" [⟨1, "m", [], {}⟩, ⟨2, "m", [], {}⟩, ⟨3, "m", [], {}⟩, ⟨4, "m", [], {}⟩]]
    let b := ops.foldl (stepBWith startTask startTaskFailOld 2) { tm := init "" }
    b.blocked = true ∧ b.tm.delivered "t" 0 = [1, 2, 3] ∧ specDelivered "" "t" 0 ops = [1, 2, 3, 4] ∧
    (runB 2 "" ops).blocked = false ∧ (runB 2 "" ops).tm.delivered "t" 0 = [1, 2, 3, 4] := by
  decide

/-! ### Routing -/

/-- **Master theorem: exactly once, in order, only what was selected.** For every history, the sequence recorded under
from-node #`i` of task `t` IS the sequence of the points written while `t` was enabled, to a (db, rp) its definition declares and
that the from-node selects — each once, in write order (`specDelivered` is literally `filter` + `map` over the written points). -/
theorem route_refines_spec (drp : String) (ops : List Op) (t : String) (i : Nat) :
    (run drp ops).delivered t i = specDelivered drp t i ops :=
  run_delivered_eq_spec drp ops t i

/-- **Multiplicity = 1, not ≥ 1 and not ≤ 1.** When the written points carry distinct ids, each id is recorded exactly once if some
write of it qualifies (task enabled, pair declared, from-node selects) and not at all otherwise. -/
theorem route_exactly_once (drp : String) (ops : List Op) (hid : (writtenIds ops).Nodup)
    (t : String) (i : Nat) (pid : Nat) :
    ((run drp ops).delivered t i).count pid =
      if ∃ w ∈ writeEvents drp t none ops, qualifies i w = true ∧ w.pt.id = pid then 1 else 0 := by
  rw [route_refines_spec drp ops]
  unfold specDelivered
  have hnd : (((writeEvents drp t none ops).filter (qualifies i)).map (·.pt.id)).Nodup := by
    apply List.Nodup.sublist _ hid
    rw [← writeEvents_ids drp t ops none]
    exact List.Sublist.map _ List.filter_sublist
  rw [hnd.count]
  have hiff : pid ∈ ((writeEvents drp t none ops).filter (qualifies i)).map (·.pt.id) ↔
      ∃ w ∈ writeEvents drp t none ops, qualifies i w = true ∧ w.pt.id = pid := by
    constructor
    · intro hm
      obtain ⟨w, hw, hp⟩ := List.mem_map.mp hm
      exact ⟨w, (List.mem_filter.mp hw).1, (List.mem_filter.mp hw).2, hp⟩
    · rintro ⟨w, hw, hq, hp⟩
      exact List.mem_map.mpr ⟨w, List.mem_filter.mpr ⟨hw, hq⟩, hp⟩
  by_cases h : ∃ w ∈ writeEvents drp t none ops, qualifies i w = true ∧ w.pt.id = pid
  · rw [if_pos (hiff.mpr h), if_pos h]
  · rw [if_neg (fun hm => h (hiff.mp hm)), if_neg h]

/-- **Never to a task that did not declare the pair, never while it is not enabled, never past its from() selection**: whatever a
sink records was written while the task was enabled under a definition that declares the written (db, rp) and whose from-node #`i`
selects the point. -/
theorem route_only_declared (drp : String) (ops : List Op) (t : String) (i : Nat) (pid : Nat)
    (h : pid ∈ (run drp ops).delivered t i) :
    ∃ w ∈ writeEvents drp t none ops, w.pt.id = pid ∧
      ∃ d, w.enabled = some d ∧ (w.db, w.rp) ∈ d.dbrps ∧ selectedBy d.froms (i + 1) i w.db w.rp w.pt = true := by
  rw [route_refines_spec drp ops] at h
  obtain ⟨w, hw, hp⟩ := List.mem_map.mp h
  obtain ⟨hw1, hq⟩ := List.mem_filter.mp hw
  refine ⟨w, hw1, hp, ?_⟩
  unfold qualifies at hq
  cases he : w.enabled with
  | none => simp [he] at hq
  | some d =>
    simp only [he, Bool.and_eq_true, decide_eq_true_eq] at hq
    exact ⟨d, rfl, hq.1, hq.2⟩

/-- **Order**: what a sink records is a subsequence of the written points in write order (nothing reordered, nothing invented). -/
theorem route_order (drp : String) (ops : List Op) (t : String) (i : Nat) :
    ((run drp ops).delivered t i).Sublist (writtenIds ops) := by
  rw [route_refines_spec drp ops, ← writeEvents_ids drp t ops none]
  exact List.Sublist.map _ List.filter_sublist

/-- **Frame theorem: other tasks are irrelevant.** Two histories that agree on the writes and on the operations of task
`t` deliver the same sequence to every from-node of `t` — whatever starts, stops and deletes of OTHER tasks either of them contains,
wherever they are interleaved. -/
theorem other_tasks_irrelevant (drp : String) (ops₁ ops₂ : List Op) (t : String)
    (hsame : ops₁.filter (relevant t) = ops₂.filter (relevant t)) (i : Nat) :
    (run drp ops₁).delivered t i = (run drp ops₂).delivered t i := by
  rw [route_refines_spec drp ops₁, route_refines_spec drp ops₂]
  unfold specDelivered
  rw [← writeEvents_filter_relevant drp t ops₁, ← writeEvents_filter_relevant drp t ops₂, hsame]

/-- The frame theorem in its "insertion" form: putting a start/stop/delete of another task anywhere into a history changes
nothing for `t`. -/
theorem insert_other_task_op (drp : String) (pre post : List Op) (op : Op) (t : String) (hop : relevant t op = false)
    (i : Nat) :
    (run drp (pre ++ op :: post)).delivered t i = (run drp (pre ++ post)).delivered t i := by
  apply other_tasks_irrelevant drp _ _ t
  simp [List.filter_append, hop]

/-- **Concurrent writers.** `WritePoints` hands its points to the forking goroutine one by one, so several writers at once amount to
SOME interleaving of their points that keeps each writer's order. A call with `a ++ b` delivers exactly what the two calls `a`, `b`
deliver, anywhere in any history — hence every such interleaving is a history of single-point writes, to which `route_refines_spec`
applies: each sink gets the selected points of THAT interleaving, once, in that order (the driver reconstructs the interleaving
from the sinks and rejects recordings no single interleaving explains). -/
theorem write_call_splits (drp : String) (pre post : List Op) (db rp : String) (a b : List RawPoint) (t : String) (i : Nat) :
    (run drp (pre ++ .write db rp (a ++ b) :: post)).delivered t i =
      (run drp (pre ++ .write db rp a :: .write db rp b :: post)).delivered t i := by
  rw [route_refines_spec, route_refines_spec]
  unfold specDelivered
  congr 2
  -- the prefix is the same history, and leaves `t` in the same state
  have key : ∀ (pre : List Op) cur, writeEvents drp t cur (pre ++ .write db rp (a ++ b) :: post) =
      writeEvents drp t cur (pre ++ .write db rp a :: .write db rp b :: post) := by
    intro pre
    induction pre with
    | nil => intro cur; exact writeEvents_write_append drp t cur db rp a b post
    | cons op rest ih =>
      intro cur
      cases op <;> simp [writeEvents, ih]
  exact key pre none

/-! ### The from() options: the recorded point is the documented function of the written point -/

/-- **Master theorem, whole points.** For every history — every combination of `groupBy(tags…)`, `groupBy(*)`,
`groupByMeasurement()`, `truncate(d)`, `round(d)` on every from-node, chained or not, any durations (also ≤ 0) — the sequence of
POINTS recorded under from-node #`i` of task `t` is the sequence of the qualifying written points (`route_refines_spec`), each
being the documented point `docRec`: name, database, retention policy (default substituted), tags and fields as written; time
truncated then rounded by every from() of its chain from the top down; dimensions = those of its own from(). -/
theorem from_options_exact (drp : String) (ops : List Op) (t : String) (i : Nat) :
    (run drp ops).deliveredPts t i = specDeliveredPts drp t i ops :=
  run_deliveredPts_eq_spec drp ops t i

/-- The whole-point view and the id view of a sink are the same recording. -/
theorem from_options_keep_routing (drp : String) (ops : List Op) (t : String) (i : Nat) :
    ((run drp ops).deliveredPts t i).map (·.id) = (run drp ops).delivered t i := by
  rw [deliveredPts_eq_with, deliveredWith_map]
  rfl

/-- What `docTruncate` MEANS: `r` is the recorded time under `truncate(d)` iff it is the multiple of `d` (counted from Go's zero
time, year 1) with `r ≤ t < r + d`; for `d ≤ 0` iff it is `t`. -/
theorem truncate_is_last_multiple (d t r : Int) : IsTruncation d t r ↔ r = docTruncate d t :=
  ⟨isTruncation_unique, fun h => h ▸ docTruncate_isTruncation d t⟩

/-- What `docRound` MEANS: the multiple of `d` at distance ≤ d/2 from `t`, the upper one when two are. -/
theorem round_is_nearest_multiple (d t r : Int) : IsRounding d t r ↔ r = docRound d t :=
  ⟨isRounding_unique, fun h => h ▸ docRound_isRounding d t⟩

/-- What `docTagNames` MEANS under `*`: all tag keys of the point in sorted order — the one sorted permutation. -/
theorem tagNames_star_is_sorted_keys (o : FromOpts) (tags : List (String × String)) (r : List String) (hs : o.star = true) :
    IsSortedPermOf (tags.map (·.1)) r ↔ r = docTagNames o tags := by
  unfold docTagNames; simp only [hs, if_true]
  exact ⟨fun h => sorted_perm_unique h (mergeSort_isSortedPerm _), fun h => h ▸ mergeSort_isSortedPerm _⟩

/-- What `docTagNames` MEANS for listed names: the listed names in strictly increasing order — sorted, each ONCE however often
the script repeats it, nothing else; there is one such list. (Before `fix:` 6ba92e9 a repeated name was kept twice:
`old_duplicate_dimension_kept`.) -/
theorem tagNames_is_sorted_listing (o : FromOpts) (tags : List (String × String)) (r : List String) (hs : o.star = false) :
    IsSortedListingOf o.dims r ↔ r = docTagNames o tags := by
  have hd : docTagNames o tags = C06.uniqueSorted (sortStrings o.dims) := by
    unfold docTagNames; simp only [hs, Bool.false_eq_true, if_false]; rw [sortStrings_eq_mergeSort]
  rw [hd]
  exact ⟨fun h => sorted_listing_unique h (uniqueSorted_sort_isListing _), fun h => h ▸ uniqueSorted_sort_isListing _⟩

/-- Counterexample about the code before `fix:` 6ba92e9: `from().groupBy('host','dc','host')` stamped the dimension list
dc, host, host — not a listing of the named dimensions (host twice), and a different group id spelling than `groupBy('dc','host')`. -/
theorem old_duplicate_dimension_kept :
    let o : FromOpts := { dims := ["host", "dc", "host"] }
    o.determineTagNamesOld.2 = ["dc", "host", "host"] ∧ o.determineTagNames.2 = ["dc", "host"] ∧
    ¬ IsSortedListingOf o.dims o.determineTagNamesOld.2 := by
  refine ⟨by decide, by decide, ?_⟩
  intro h
  have := h.1
  simp only [FromOpts.determineTagNamesOld] at this
  have h2 : (["dc", "host", "host"] : List String).Pairwise (· < ·) := by
    have e : sortStrings ["host", "dc", "host"] = ["dc", "host", "host"] := by decide
    rw [e] at this; exact this
  have : ("host" : String) < "host" := by
    have := List.pairwise_cons.mp (List.Pairwise.of_cons h2)
    exact this.1 "host" (List.mem_cons_self ..)
  exact String.lt_irrefl _ this

/-- **Shallow-copy discipline.** The stream node (and a parent from-node) hands ONE message to all its children, `forkPoint` hands
it to all subscribed tasks. Whatever the children are and in whatever order they run, each forwards exactly what it would forward
had it received the original alone, and the shared message is unchanged at the end: no from() — with any options — alters what
its siblings see. -/
theorem from_does_not_alter_siblings (children : List From) (p : Point) (m : Msg) :
    fanOutWith From.point children p m = (children.map (fun f => (f.point p m).1), m) := by
  have := fanOut_point children p m []
  simpa [fanOutWith] using this

/-- … and what from-node #`i` forwards is determined by the from-nodes of its own chain: replacing, adding or re-optioning any other
from-node of the task (`froms'` agrees with `froms` on the chain of #`i`) does not change it. -/
theorem forwarded_point_depends_on_own_chain_only (froms froms' : List From) (i : Nat) (p : Point)
    (h : ∀ j, onChain froms (i + 1) i j = true → froms'[j]? = froms[j]?) :
    chainEmits froms' (i + 1) i p = chainEmits froms (i + 1) i p :=
  chainEmits_chain_only froms froms' p (i + 1) i h

/-- Why the copy matters (the spec tells the two apart): the same from-node WITHOUT `ShallowCopy` — a sibling `from()` behind a
`from().truncate(1s)` would record the truncated time, and grouped by host. -/
theorem in_place_from_would_alter_siblings :
    let a : From := { opts := { truncate := 1000000000, dims := ["host"] } }
    let b : From := {}
    let p : Point := ⟨1, "d", "r", "cpu", [], { time := 1700000000300000000, tags := [("host", "a")] }⟩
    fanOutWith From.pointInPlace [a, b] p p.msg =
      ([some ⟨1700000000000000000, false, ["host"]⟩, some ⟨1700000000000000000, false, []⟩], ⟨1700000000000000000, false, []⟩) ∧
    fanOutWith From.point [a, b] p p.msg =
      ([some ⟨1700000000000000000, false, ["host"]⟩, some ⟨1700000000300000000, false, []⟩], p.msg) := by
  decide

/-! ### HTTP ingestion (`serveWrite` + `serveWriteLine`) -/

/-- **A request is written whole or not at all.** Whatever the body encoding (plain, gzip, broken gzip), precision (also `m`, `h`,
unknown ones), lines (malformed, comments, time stamps that leave the int64 range under the precision), `db` / `rp` parameters and
whether the TaskMaster still accepts writes: either the answer is 204 and ONE `WritePoints` call is made, to `db` and the `rp`
parameter as given ("" when absent: the default retention policy is substituted by `WritePoints`), with every point line of the body
in body order, each stamped `time stamp × precision`; or the answer is 400 / 500 and nothing at all is written. -/
theorem http_write_all_or_nothing (enc : BodyEnc) (db rp precision : String) (lines : List Line) (closed : Bool) :
    ((serveWrite enc db rp precision lines closed).1 = 204 ∧
      (serveWrite enc db rp precision lines closed).2 =
        some (.write db rp (lines.filterMap (lineAsWritten (if precision == "" then "n" else precision))))) ∨
    (((serveWrite enc db rp precision lines closed).1 = 400 ∨ (serveWrite enc db rp precision lines closed).1 = 500) ∧
      (serveWrite enc db rp precision lines closed).2 = none) := by
  cases enc
  · rw [serveWrite_readable (Or.inl rfl)]; exact serveCore_all_or_nothing ..
  · rw [serveWrite_readable (Or.inr rfl)]; exact serveCore_all_or_nothing ..
  · rw [serveWrite_unreadable (Or.inl rfl)]; right; exact ⟨Or.inl rfl, rfl⟩
  · rw [serveWrite_unreadable (Or.inr rfl)]; right; exact ⟨Or.inl rfl, rfl⟩

/-- When exactly a request is accepted. -/
theorem http_write_accepted_iff (enc : BodyEnc) (db rp precision : String) (lines : List Line) (closed : Bool) :
    (serveWrite enc db rp precision lines closed).1 = 204 ↔
      ((enc = .plain ∨ enc = .gzip) ∧ db ≠ "" ∧ closed = false ∧
        ∀ l ∈ lines, parseLine (if precision == "" then "n" else precision) l ≠ some none) := by
  cases enc
  · rw [serveWrite_readable (Or.inl rfl), serveCore_accepted_iff]; simp
  · rw [serveWrite_readable (Or.inr rfl), serveCore_accepted_iff]; simp
  · rw [serveWrite_unreadable (Or.inl rfl)]; simp
  · rw [serveWrite_unreadable (Or.inr rfl)]; simp

/-! ### Non-vacuity: the hypotheses are met by concrete, non-trivial histories -/

/-- two tasks, one with the exact+wildcard subscription, a stop of the other task between two writes, default-rp substitution -/
def sample : List Op :=
  [.start ⟨"t", [("d", "autogen")], [{ name := "cpu" }, { wh := some 0 }, { name := "mem", parent := some 1 }]⟩,
   .start ⟨"u", [("d", "autogen"), ("e", "r2")], [{ name := "cpu" }]⟩,
   .write "d" "" [⟨1, "cpu", [0], {}⟩, ⟨2, "mem", [], {}⟩],
   .stop "u",
   .write "d" "autogen" [⟨3, "cpu", [], {}⟩, ⟨4, "mem", [0], {}⟩],
   .startfail ⟨"u", [("d", "autogen")], [{}]⟩,
   .write "e" "r2" [⟨5, "cpu", [0], {}⟩],
   .delete "t",
   .write "d" "autogen" [⟨6, "cpu", [0], {}⟩]]

example : (writtenIds sample).Nodup ∧
    (run "autogen" sample).delivered "t" 0 = [1, 3] ∧ (run "autogen" sample).delivered "t" 1 = [1, 4] ∧
    (run "autogen" sample).delivered "t" 2 = [4] ∧   -- chained below from-node #1: only what #1 passes AND is 'mem'
    (run "autogen" sample).delivered "u" 0 = [1] := by decide

example : (sample.filter (relevant "t")).length < sample.length := by decide

/-- Restart after the execution has ended vs. start of a live id (third + fourth fix): `t` runs, a second start is refused (the task
keeps from-node 'cpu'); after `drain` the id is still in `tm.tasks` but not live, the start under the new definition is accepted and
receives; the first execution got nothing after the drain. -/
example :
    let ops : List Op :=
      [.start ⟨"t", [("d", "r")], [{ name := "cpu" }]⟩, .start ⟨"t", [("d", "r")], [{ name := "mem" }]⟩,
       .write "d" "r" [⟨1, "cpu", [], {}⟩, ⟨2, "mem", [], {}⟩], .drain, .write "d" "r" [⟨3, "cpu", [], {}⟩],
       .start ⟨"t", [("d", "r")], [{ name := "mem" }]⟩, .write "d" "r" [⟨4, "cpu", [], {}⟩, ⟨5, "mem", [], {}⟩]]
    (run "" ops).delivered "t" 0 = [1, 5] ∧ specDelivered "" "t" 0 ops = [1, 5] ∧
    ((run "" (ops.take 4)).tasks "t").isSome = true ∧ (run "" (ops.take 4)).isLive "t" = false := by decide

/-- `never_sends_on_closed_edge` is not vacuous: edges do get closed. -/
example : (run "autogen" sample).closed.length = 3 ∧ (run "autogen" sample).sentOnClosed = false := by decide

/-- `from_options_exact` on a history with every option: chained truncate(7s) (7 s does not divide a day: the year-1 origin shows)
then round(1s), groupBy('zone','host') listing a tag the point lacks, groupBy(*), groupByMeasurement, a sibling that must see the
original time, a halfway value rounding up. -/
def optSample : List Op :=
  [.start ⟨"t", [("d", "autogen")],
     [{ name := "cpu", opts := { truncate := 7000000000, dims := ["zone", "host"] } },
      { opts := { star := true, byName := true, round := 1000000000 } },
      { parent := some 0, opts := { round := 1000000000, truncate := -5 } }]⟩,
   .write "d" "" [⟨1, "cpu", [], { time := 1700000000300000000, tags := [("host", "a"), ("dc", "x")], fields := [("v", 4)] }⟩,
                  ⟨2, "mem", [], { time := 1700000001500000000, tags := [], fields := [("v", 5)] }⟩]]

example :
    (run "autogen" optSample).deliveredPts "t" 0 =
      [⟨1, "cpu", "d", "autogen", [("host", "a"), ("dc", "x")], [("v", 4)], 1699999997000000000, false, ["host", "zone"]⟩] ∧
    (run "autogen" optSample).deliveredPts "t" 1 =
      [⟨1, "cpu", "d", "autogen", [("host", "a"), ("dc", "x")], [("v", 4)], 1700000000000000000, true, ["dc", "host"]⟩,
       ⟨2, "mem", "d", "autogen", [], [("v", 5)], 1700000002000000000, true, []⟩] ∧
    (run "autogen" optSample).deliveredPts "t" 2 =
      [⟨1, "cpu", "d", "autogen", [("host", "a"), ("dc", "x")], [("v", 4)], 1699999997000000000, false, []⟩] := by decide

example : IsTruncation 7000000000 1700000000300000000 1699999997000000000 ∧ IsRounding 1000000000 1700000001500000000 1700000002000000000 ∧
    IsSortedPermOf ["zone", "host"] ["host", "zone"] ∧ IsSortedListingOf ["zone", "host", "zone"] ["host", "zone"] := by
  refine ⟨by decide, by decide, ⟨?_, ?_⟩, ⟨?_, ?_⟩⟩
  · decide
  · exact List.Perm.swap _ _ _
  · refine List.pairwise_cons.mpr ⟨?_, List.pairwise_singleton _ _⟩
    intro x hx; rw [List.mem_singleton.mp hx]; decide
  · intro t; simp only [List.mem_cons, List.not_mem_nil, or_false]; constructor
    · rintro (h | h) <;> simp [h]
    · rintro (h | h | h) <;> simp [h]

/-- `forwarded_point_depends_on_own_chain_only` is not vacuous: node #1 is off the chain of #2 (= {2, 0}). -/
example : onChain [({} : From), {}, { parent := some 0 }] 3 2 1 = false ∧ onChain [({} : From), {}, { parent := some 0 }] 3 2 0 = true := by
  decide

/-- `serveWrite`: the same large time stamp is refused under precision `h` (it leaves the int64 ns range: the whole body is refused)
and written under `m`; a gzip body is read like a plain one, a broken one refused; a comment line is skipped; after a drain: 500. -/
example :
    let a : RawPoint := ⟨1, "cpu", [], {}⟩
    let b : RawPoint := ⟨2, "cpu", [], {}⟩
    (serveWrite .plain "d" "" "h" [.point a 472222, .point b 2562048]).1 = 400 ∧
    (serveWrite .gzip "d" "" "m" [.point a 28333333, .skip, .point b 2562048]).1 = 204 ∧
    (lineAsWritten "m" (.point b 2562048)).map (·.pl.time) = some 153722880000000000 ∧
    (serveWrite .gzipTruncated "d" "" "" [.point a 5]).1 = 400 ∧ (serveWrite .plain "d" "r" "" [.point a 5, .bad]).1 = 400 ∧
    (serveWrite .plain "" "r" "" [.point a 5]).1 = 400 ∧ (serveWrite .plain "d" "r" "" [.point a 5] true).1 = 500 := by decide

end Kap.Props.C02
