/-
C02, fourth layer: the interleavings INSIDE one forkPoint (which the sequential histories of Kap.Props.C02 assume away by
"tm.mu linearises forkPoint against newFork/delFork").

  1. THE LOCK DISCIPLINE IS A REGENERATED FACT, not an assumption: extract/c02locks reads task_master.go on every run
     into Kap/Gen/C02Locks.lean (every read / write of tm.forks and tm.taskToForkKeys, every Collect / Close on a fork
     edge, with the lock on tm.mu held there; every call of a method that reaches one). `disciplined` decides: every
     touch happens under tm.mu (a write / Close under the WRITE lock), or in a function that takes no lock itself and
     whose every call site is under the write lock (transitively; never through `go`, never from a function literal or
     another file, never an exported function). Theorem `fork_edges_only_touched_under_lock`.
  2. Under that discipline forkPoint's fan-out and delFork are atomic with respect to each other: the interleaving model
     Kap.C02.Lock (Model/C02Lock.lean) — EVERY schedule of fork steps, stops and starts — never sends on a closed edge and
     delivers to a task that stays subscribed exactly the points forked so far, once each, in order, whatever happens to
     the other tasks. The variant that snapshots the subscribers under the lock and collects after releasing it has
     schedules that send on a closed edge (in Go: a panic on the forking goroutine = the process dies) and starve a task
     that was never stopped (counterexample theorems).
-/
import Kap.Gen.C02Locks
import Kap.Proofs.C02Lock
open Kap.C02

namespace Kap.Props.C02Lock

open Kap.C02.Gen in
/-- one round: functions with a touch at a place where they hold no lock, and callers (holding no lock at the call) of such -/
def needsStep (s : List Nat) : List Nat :=
  ((touches.filter (·.held == .none)).map (·.fn)
    ++ ((callSites.filter (fun c => c.held == .none && s.contains c.callee)).map (·.caller))).eraseDups

def iter (f : List Nat → List Nat) : Nat → List Nat → List Nat
  | 0, s => s
  | k + 1, s => iter f k (f s)

/-- the functions that rely on THEIR CALLER for the lock (least fixpoint: at most one new function per round) -/
def needs : List Nat := iter needsStep (Gen.fns.length + 1) []

open Kap.C02.Gen in
/-- the lock discipline of the fork table, decided on the generated facts -/
def disciplined : Bool :=
  touches.all (fun t =>
    t.kind != .unknown
    && (t.held != .none || needs.contains t.fn)
    && (!(t.kind == .write || t.kind == .close) || t.held == .w || (t.held == .none && needs.contains t.fn)))
  && callSites.all (fun c =>
    !needs.contains c.callee || (!c.viaGo && (c.held == .w || (c.held == .none && needs.contains c.caller))))
  && needs.all (fun f =>
    match fns.find? (·.id == f) with
    | some fn => !fn.exported && !fn.opaqueCaller && callSites.any (·.callee == f)
    | none => false)
  && needs == needsStep needs      -- the iteration has reached the fixpoint

set_option maxRecDepth 20000 in
/-- EVERY read / write of tm.forks and tm.taskToForkKeys and every Collect / Close on a fork edge in the checked tree
happens under tm.mu (writes and Close under the write lock), directly or in a helper whose every call site holds the write
lock. Regenerated from the source on every run; a forkPoint that collects after releasing the lock breaks it. -/
theorem fork_edges_only_touched_under_lock : disciplined = true := by decide

/-- non-vacuity: the generated lists are not empty — forkPoint's Collect under the read lock and delFork's Close are seen -/
theorem lock_facts_cover_collect_and_close :
    (Gen.touches.any (fun t => t.kind == .collect && t.held == .r)) = true
    ∧ (Gen.touches.any (fun t => t.kind == .close)) = true
    ∧ (Gen.touches.any (fun t => t.kind == .write)) = true := by decide

open Kap.C02.Lock

/-- under the lock discipline NO schedule of fork steps, stops (delFork) and starts makes forkPoint send on a closed edge -/
theorem locked_never_sends_on_closed_edge (n : Nat) (subs : List Nat) (hn : subs.Nodup) (sched : List Ev) :
    (run .locked n subs sched).panicked = false :=
  locked_never_sends_on_closed n subs hn sched

/-- a task that is never stopped receives exactly the points forked so far — each once, in order — under EVERY schedule,
whatever stops and starts of OTHER tasks are interleaved -/
theorem running_task_unaffected_by_stops_of_others (n : Nat) (subs : List Nat) (k : Nat) (hn : subs.Nodup) (hk : k ∈ subs)
    (sched : List Ev) (hs : ∀ e, e ∈ sched → e ≠ .del k) :
    deliveredTo (run .locked n subs sched) k = List.range (min n (forks sched)) :=
  locked_keeper_unaffected n subs k hn hk sched hs

example : deliveredTo (run .locked 3 [0, 1, 2] [.fork, .del 1, .add 3, .fork, .del 2, .fork, .fork]) 0 = [0, 1, 2] := by decide

/-- the snapshot variant (copy the subscribers under the lock, collect after releasing it) has a schedule that sends on a
closed edge: snapshot, stop of task 1, collect into 0, collect into 1 -/
theorem snapshot_forkPoint_can_send_on_closed_edge : ∃ sched, (run .snapshot 1 [0, 1] sched).panicked = true :=
  snapshot_variant_can_send_on_closed

/-- … and then a task that was NEVER stopped loses every later point (the process died), where the locked variant delivers -/
theorem snapshot_forkPoint_starves_running_task : ∃ sched, (∀ e, e ∈ sched → e ≠ .del 0)
    ∧ 2 ≤ forks sched
    ∧ deliveredTo (run .snapshot 2 [0, 1] sched) 0 = [0]
    ∧ (run .snapshot 2 [0, 1] sched).panicked = true
    ∧ deliveredTo (run .locked 2 [0, 1] sched) 0 = [0, 1]
    ∧ (run .locked 2 [0, 1] sched).panicked = false :=
  snapshot_variant_starves_keeper

end Kap.Props.C02Lock
