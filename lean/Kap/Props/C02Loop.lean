/-
C02 — property theorems, second part: ALL sources of points (external writers, kapacitorLoopback() nodes of stream tasks,
kapacitorLoopback() nodes of batch tasks) and the update of an enabled task (changed dbrps).
Every `theorem` in this module is a proof obligation. Model: Kap/Model/C02Loop.lean, spec: Kap/Spec/C02Loop.lean.
All theorems quantify over EVERY history (any interleaving of external operations with loopback steps of any node, also of
tasks that are stopped, never started, or refused), every default retention policy, task id, from-node and loopback index.
-/
import Kap.Proofs.C02Loop
namespace Kap.Props.C02Loop
open Kap.C02

/-! ### a point written back is a written point -/

/-- **A history with loopback steps IS the plain history `flat` makes of it**: the TaskMaster state (fork table, edges, Collect log)
after any history of external operations, loopback steps and batch-task loopback writes equals the state after the plain history
in which every loopback step is replaced by the writes the specification prescribes for it (`specFeed`: documented points, in
hand-over order, none after `Drain`) and every refused self-looping start is dropped. So every theorem of Kap.Props.C02 (fork table
exact, never a send on a closed edge, bounded edges never block, …) holds with loopback nodes present. -/
theorem loop_history_is_its_flat_history (drp : String) (h : List LOp) :
    (lrun drp h).tm = run drp (flat drp h) ∧ (lrun drp h).done = (frun drp h).done ∧ (lrun drp h).closed = (frun drp h).closed :=
  ⟨(lrun_agree drp h).tm, (lrun_agree drp h).done, (lrun_agree drp h).closed⟩

/-- **Master theorem over all sources: delivered exactly to the matching tasks, once, in order.** Whatever wrote a point — an
external writer, a loopback node of a stream task, the loopback node of a batch task — the sequence recorded under from-node #`i` of
task `t` is the sequence of the points written (by any source) while `t` was enabled, to a pair its definition declares, that the
from-node selects: each once, in the order they were forked. -/
theorem delivered_exactly_matching (drp : String) (h : List LOp) (t : String) (i : Nat) :
    (lrun drp h).tm.delivered t i = specDelivered drp t i (flat drp h) := by
  rw [(lrun_agree drp h).tm]; exact run_delivered_eq_spec drp _ t i

/-- … and the recorded POINTS are the documented ones (a point written back carries the loopback node's database, retention policy,
measurement and tags, the time its from() chain stamped, and is re-stamped / re-grouped by the from() that records it). -/
theorem delivered_points_exactly_matching (drp : String) (h : List LOp) (t : String) (i : Nat) :
    (lrun drp h).tm.deliveredPts t i = specDeliveredPts drp t i (flat drp h) := by
  rw [(lrun_agree drp h).tm]; exact run_deliveredPts_eq_spec drp _ t i

/-- **What a loopback node is handed is exactly what the sink beside it records**, as documented points: for every plain history,
the feed of loopback node #`k` below from-node #`i` of task `t` is the sequence of the qualifying written points (task enabled,
pair declared, from-node chain selects), each turned into the documented write-back — once, in order. -/
theorem loopback_feed_exact (drp : String) (ops : List Op) (t : String) (i k : Nat) :
    (run drp ops).loopFeed t i k = specFeed drp t i k ops :=
  run_loopFeed_eq_spec drp ops t i k

/-- The same in the second layer: at every moment of every history, what a loopback node still has to write
(`outstanding`) is the documented feed minus the points it has dealt with. -/
theorem loopback_outstanding_exact (drp : String) (h : List LOp) (src : Src) :
    (lrun drp h).outstanding src = (specFeed drp src.1 src.2.1 src.2.2 (flat drp h)).drop ((frun drp h).done src) := by
  unfold LTM.outstanding
  rw [(lrun_agree drp h).tm, (lrun_agree drp h).done, run_loopFeed_eq_spec]
  rfl

/-- **One loopback step** (`n` points of node (`t`, `i`, `k`) are forked) appends to every sink exactly what the plain writes of the
next `n` documented points append; after `Drain` it appends nothing (the writes are refused and the points dropped). -/
theorem loop_step_exact (drp : String) (h : List LOp) (t : String) (i k n : Nat) (t' : String) (i' : Nat) :
    (lrun drp (h ++ [.loop t i k n])).tm.delivered t' i' =
      specDelivered drp t' i' (flat drp h ++
        (if (frun drp h).closed then []
         else (((specFeed drp t i k (flat drp h)).drop ((frun drp h).done (t, i, k))).take n).map asWrite)) := by
  rw [delivered_exactly_matching]
  congr 1
  unfold flat frun
  rw [List.foldl_append]
  simp only [List.foldl_cons, List.foldl_nil, fstep]
  by_cases hc : (List.foldl (fstep drp) {} h).closed = true
  · simp [hc, FSt.hist]
  · simp [hc, FSt.hist, List.map_map, Function.comp_def]

/-- **Stopping the task does not cancel its loopback node's backlog, and nothing is handed to it afterwards.** After `stop t` (or
delete) the feed of every loopback node of `t` is what it was, whatever external operations follow as long as `t` is not started
again: the points it was handed before the stop are still written back (`StopTask` waits for the node to drain into
`write_points`; they are forked after the stop), in order, once — and no point written after the stop reaches it. -/
theorem stop_keeps_backlog_and_ends_feed (drp : String) (ops more : List Op) (t : String) (del : Bool) (i k : Nat)
    (hno : ∀ op ∈ more, ∀ d, op = .start d → d.id ≠ t) :
    specFeed drp t i k (ops ++ (if del then .delete t else .stop t) :: more) = specFeed drp t i k ops := by
  unfold specFeed
  obtain ⟨cur', hcur⟩ := writeEvents_append drp t ops ((if del then Op.delete t else Op.stop t) :: more) none
  rw [hcur]
  -- after the stop the task is not enabled, and stays so: no later write event qualifies
  have hstop : writeEvents drp t cur' ((if del then Op.delete t else Op.stop t) :: more) = writeEvents drp t none more := by
    cases del <;> simp [writeEvents, enabledAfter]
  rw [hstop]
  have hnone : ∀ (more : List Op), (∀ op ∈ more, ∀ d, op = .start d → d.id ≠ t) →
      ∀ w ∈ writeEvents drp t none more, w.enabled = none := by
    intro more
    induction more with
    | nil => intro _ w hw; simp [writeEvents] at hw
    | cons op rest ih =>
      intro hno w hw
      have hrest : ∀ op ∈ rest, ∀ d, op = .start d → d.id ≠ t := fun op hop => hno op (List.mem_cons_of_mem _ hop)
      cases op with
      | start d =>
        have hd : d.id ≠ t := hno _ (List.mem_cons_self ..) d rfl
        simp only [writeEvents, enabledAfter, hd, false_and, if_false] at hw
        exact ih hrest w hw
      | startfail d => simp only [writeEvents, enabledAfter] at hw; exact ih hrest w hw
      | stop id =>
        simp only [writeEvents, enabledAfter] at hw
        have : (if id = t then (none : Option TaskDef) else none) = none := by split <;> rfl
        rw [this] at hw; exact ih hrest w hw
      | delete id =>
        simp only [writeEvents, enabledAfter] at hw
        have : (if id = t then (none : Option TaskDef) else none) = none := by split <;> rfl
        rw [this] at hw; exact ih hrest w hw
      | drain => simp only [writeEvents, enabledAfter] at hw; exact ih hrest w hw
      | write db rp pts =>
        simp only [writeEvents, List.mem_append, List.mem_map] at hw
        rcases hw with ⟨p, _, rfl⟩ | hw
        · rfl
        · exact ih hrest w hw
  rw [List.filterMap_append]
  have : (writeEvents drp t none more).filterMap (specLoopOut i k) = [] := by
    apply List.filterMap_eq_nil_iff.mpr
    intro w hw
    have he := hnone more hno w hw
    simp [specLoopOut, qualifies, he]
  rw [this, List.append_nil]

/-- Does the history leave loopback node `src` its tag: no `Drain`, and no batch task runs under the same task id? -/
def plainFor (src : Src) : LOp → Bool
  | .ext .drain => false
  | .batch t _ _ _ => t != src.1
  | _ => true

/-- STATED, NOT PROVED (the per-step form `loop_step_exact` and `loopback_outstanding_exact` are proved): per-source order over a
whole history — the writes tagged with loopback node `src` in the flattened history, concatenated, are exactly the first
`done src` points of its documented feed (nothing lost, duplicated or reordered between hand-over and write-back). -/
def loop_source_order_stmt : Prop :=
  ∀ (drp : String) (h : List LOp) (src : Src), h.all (plainFor src) = true →
    writesOf src (frun drp h).thist =
      ((specFeed drp src.1 src.2.1 src.2.2 (flat drp h)).take ((frun drp h).done src)).map asTriple

/-- Defect of the snapshot (repaired by the `fix:` commit of findings/C02.txt): on a BATCH edge the loopback node ignored its
`measurement` property — `batch|query()|kapacitorLoopback().measurement('m')` wrote every point under the name of the incoming
batch, so a task subscribed with `from().measurement('m')` never got them, whereas the documentation of the property (and the stream
path) rename. The repaired code and the spec deliver (replayed on the real code by
corpus/C02/batch-loopback-measurement-property.ops). -/
theorem old_batch_loopback_ignores_measurement :
    let L : Loop := { db := "lo", rp := "lr", name := "m" }
    let B : TaskDef := ⟨"B", [("lo", "lr")], [{ name := "m" }]⟩
    let r : RawPoint := ⟨1, "x", [], {}⟩
    (L.batchPointOld "bat" r).name = "bat" ∧
    (forkAll (startTask (init "") B) [L.batchPointOld "bat" r]).delivered "B" 0 = [] ∧
    (docBatchWrite L "bat" r).name = "m" ∧
    specDelivered "" "B" 0 (flat "" [.ext (.start B), .batch "X" L "bat" [r]]) = [1] ∧
    (lrun "" [.ext (.start B), .batch "X" L "bat" [r]]).tm.delivered "B" 0 = [1] := by
  decide

/-- **A loop into the task's own pair is refused**: `StartTask` of a definition one of whose loopback nodes writes into a
(database, retention policy) the task declares changes nothing — the task does not become enabled, no fork is made. -/
theorem self_loop_refused (s : LTM) (d : TaskDef) (f : From) (L : Loop)
    (hf : f ∈ d.froms) (hL : L ∈ f.loops) (hd : (L.db, L.rp) ∈ d.dbrps) :
    lstep s (.ext (.start d)) = s ∧ lstep s (.ext (.startfail d)) = s := by
  have : d.selfLoop = true := by
    unfold TaskDef.selfLoop
    simp only [List.any_eq_true, Bool.and_eq_true, beq_iff_eq]
    exact ⟨f, hf, L, hL, (L.db, L.rp), hd, rfl, rfl⟩
  simp [lstep, this]

/-- What `tags[k] = v` MEANS on the tag list (any list, sorted or not): afterwards `k` reads `v` and every other key reads what it
read before. (A loopback node's static tags are set this way, one after the other.) -/
theorem loop_tag_is_map_update (k v k' : String) (tags : List (String × String)) :
    tagLookup k' (setTag k v tags) = if k' = k then some v else tagLookup k' tags := by
  induction tags with
  | nil => simp [setTag, tagLookup]
  | cons ab l ih =>
    obtain ⟨a, b⟩ := ab
    simp only [setTag]
    by_cases hka : k = a
    · subst hka
      by_cases hk : k' = k <;> simp [tagLookup, hk]
    · simp only [hka, if_false]
      by_cases hlt : k < a
      · simp only [hlt, if_true]
        by_cases hk : k' = k
        · simp [tagLookup, hk]
        · simp [tagLookup, hk]
      · simp only [hlt, if_false, tagLookup, ih]
        by_cases hk'a : k' = a
        · have : ¬ k' = k := fun h => hka (h ▸ hk'a)
          simp [hk'a]
          intro h; exact absurd h.symm hka
        · simp [hk'a]

/-! ### update of an enabled task (the task store's `StopTask` + `StartTask` under a changed definition) -/

/-- **After the update exactly the new subscriptions route to the task**: when an enabled (or idle) task `d'.id` is updated to the
definition `d'` (any change: dbrps renamed, from-nodes, loopback nodes) by stop + start, the fork table holds an entry of that id
under key `k` iff `k` is one of the NEW dbrps × measurements — no key of the old definition survives (`delFork`), none of the new is
missing (`newFork`) — and the entry is the input edge of the new execution. -/
theorem update_routes_exactly_new_dbrps (drp : String) (ops : List Op) (d' : TaskDef) (k : Key) :
    (∃ e, (d'.id, e) ∈ (run drp (ops ++ [.stop d'.id, .start d'])).forks k) ↔ (d'.dbrps ≠ [] ∧ k ∈ d'.keys) := by
  have hrun : run drp (ops ++ [.stop d'.id, .start d']) = startTask (stopTask (run drp ops) d'.id) d' := by
    simp [run, List.foldl_append, step, stepWith]
  have hi : Inv (stopTask (run drp ops) d'.id) := (run_inv drp ops).stopTask d'.id
  have hnl : (stopTask (run drp ops) d'.id).isLive d'.id = false := by
    simp [TM.isLive, stopTask_tasks_apply]
  rw [hrun]
  by_cases hd : d'.dbrps = []
  · rw [startTask_nodbrp hd]
    constructor
    · rintro ⟨e, he⟩
      exact absurd rfl (hi.no_entry hnl k (d'.id, e) he)
    · rintro ⟨h, _⟩; exact absurd hd h
  · have hi' : Inv (startTask (stopTask (run drp ops) d'.id) d') := hi.startTask hnl
    have htask := startTask_tasks (s := stopTask (run drp ops) d'.id) hd hnl
    have hkeys := startTask_keysOf (s := stopTask (run drp ops) d'.id) hd hnl d'.id
    have hk0 : (stopTask (run drp ops) d'.id).forkKeysOf d'.id = [] := hi.notLive_keys hnl
    constructor
    · rintro ⟨e, he⟩
      have h1 := hi'.entry k d'.id e he
      rw [htask] at h1
      simp only [upd, if_true] at h1
      have : e.task = d' := by
        have := Option.some.inj h1.1
        rw [← this]
      exact ⟨hd, this ▸ h1.2⟩
    · rintro ⟨_, hk⟩
      refine ⟨⟨(stopTask (run drp ops) d'.id).nextEdge, d'⟩, ?_⟩
      apply hi'.reg d'.id _ (by rw [htask]; simp [upd])
      · rw [hkeys]; simp only [if_true, hk0, List.nil_append]
        intro h0; rw [h0] at hk; cases hk
      · exact hk

/-- … and, on the delivery side: a write that follows the update is delivered to from-node #`i` of the updated task exactly when
the NEW definition declares its pair and the new from-node selects it (appended, in order, to what the sink recorded before). -/
theorem update_then_write (drp : String) (ops : List Op) (d' : TaskDef) (hd : d'.dbrps ≠ []) (hf : d'.froms ≠ [])
    (db rp : String) (pts : List RawPoint) (i : Nat) :
    specDelivered drp d'.id i (ops ++ [.stop d'.id, .start d', .write db rp pts]) =
      specDelivered drp d'.id i ops ++
        (pts.filter (fun p => decide ((db, writtenRP drp rp) ∈ d'.dbrps) &&
          selectedBy d'.froms (i + 1) i db (writtenRP drp rp) p)).map (·.id) := by
  unfold specDelivered
  obtain ⟨cur', hcur⟩ := writeEvents_append drp d'.id ops [.stop d'.id, .start d', .write db rp pts] none
  rw [hcur, List.filter_append, List.map_append]
  congr 1
  simp only [writeEvents, enabledAfter, if_true, hd, hf, ne_eq, not_false_eq_true, and_self, List.append_nil]
  rw [List.filter_map, List.map_map]
  congr 1

/-! ### non-vacuity -/

/-- task A (d.autogen, `from().measurement('cpu').truncate(1s)` with a loopback node into lo.lr that renames to `looped` and sets
two tags), task B on lo.lr and d.autogen, a task that loops into its own pair, a batch task's loopback node; the loopback node lags
behind the second external write; A is stopped with one point outstanding, which is still written back. -/
def loopSample : List LOp :=
  let A : TaskDef := ⟨"A", [("d", "autogen")],
    [{ name := "cpu", opts := { truncate := 1000000000 }, loops := [{ db := "lo", rp := "lr", name := "looped", tags := [("dc", "z"), ("lb", "1")] }] }]⟩
  let B : TaskDef := ⟨"B", [("lo", "lr"), ("d", "autogen")], [{}]⟩
  let S : TaskDef := ⟨"S", [("d", "autogen")], [{ loops := [{ db := "d", rp := "autogen" }] }]⟩
  [.ext (.start A), .ext (.start B), .ext (.start S),
   .ext (.write "d" "" [⟨1, "cpu", [], { time := 1700000000300000000, tags := [("dc", "x"), ("host", "a")] }⟩, ⟨2, "mem", [], {}⟩]),
   .ext (.write "d" "autogen" [⟨3, "cpu", [], { time := 1700000000900000000 }⟩]),
   .loop "A" 0 0 1,
   .batch "X" { db := "lo", rp := "lr", name := "renamed" } "bat" [⟨4, "m", [], {}⟩],
   .ext (.stop "A"),
   .loop "A" 0 0 5,
   .ext (.write "d" "autogen" [⟨5, "cpu", [], {}⟩]),
   .loop "A" 0 0 5]

example :
    (lrun "autogen" loopSample).tm.delivered "B" 0 = [1, 2, 3, 1, 4, 3, 5] ∧
    (lrun "autogen" loopSample).tm.delivered "S" 0 = [] ∧
    (lrun "autogen" loopSample).done ("A", 0, 0) = 2 ∧ (lrun "autogen" loopSample).outstanding ("A", 0, 0) = [] ∧
    ((lrun "autogen" loopSample).tm.deliveredPts "B" 0)[3]? =
      some ⟨1, "looped", "lo", "lr", [("dc", "z"), ("host", "a"), ("lb", "1")], [], 1700000000000000000, false, []⟩ ∧
    (flat "autogen" loopSample).length = 9 := by decide

example : tagLookup "dc" (setTag "dc" "z" [("dc", "x"), ("host", "a")]) = some "z" ∧
    setTag "lb" "1" [("dc", "x"), ("host", "a")] = [("dc", "x"), ("host", "a"), ("lb", "1")] := by decide

/-- `update_routes_exactly_new_dbrps`: the dbrp of a running task is renamed from d.r to e.r — afterwards d.r routes nothing to it. -/
example :
    let ops : List Op := [.start ⟨"t", [("d", "r")], [{}]⟩, .write "d" "r" [⟨1, "m", [], {}⟩]]
    let d' : TaskDef := ⟨"t", [("e", "r")], [{}]⟩
    (run "" (ops ++ [.stop "t", .start d', .write "d" "r" [⟨2, "m", [], {}⟩], .write "e" "r" [⟨3, "m", [], {}⟩]])).delivered "t" 0 = [1, 3] ∧
    (run "" (ops ++ [.stop "t", .start d'])).forks ("d", "r", "") = [] ∧
    ((run "" (ops ++ [.stop "t", .start d'])).forks ("e", "r", "")).map (·.1) = ["t"] := by decide

end Kap.Props.C02Loop
