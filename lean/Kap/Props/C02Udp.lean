/-
C02 — property theorems, third layer: the UDP listener (`services/udp/service.go`) as an ingestion entry point in front of
`TaskMaster.WritePoints`. Every `theorem` here is a proof obligation (audited by `bin/check C02`). Helper lemmas: Kap/Proofs/C02Udp.lean.

Model: Kap/Model/C02Udp.lean (serve() with ONE receive buffer that every datagram overwrites, the private copy handed to
processPackets, the zero-copy parse: `WritePoints` reads the packet's memory when it runs). Spec: Kap/Spec/C02Udp.lean.

All theorems quantify over EVERY schedule of the two goroutines (`recv` / `parse` / `write` steps in any order and number: serve()
may read any number of later datagrams while `WritePoints` is still busy with an earlier packet — back-pressure) and every
sequence of datagrams (well-formed, malformed, comment-only, empty); nothing is bounded.
-/
import Kap.Proofs.C02Udp
import Kap.Props.C02
namespace Kap.Props.C02Udp
open Kap.C02 Kap.C02.Udp

/-- **Each packet exactly once, in order, whatever happens to the receive buffer.** At every moment of every schedule: the point
lists handed to `WritePoints` so far, followed by what the parsed / queued packets will hand on, ARE the documented writes of the
datagrams read so far — one per well-formed datagram, in arrival order, with exactly its points. -/
theorem udp_hands_on_each_packet_once_in_order (steps : List Step) :
    (Udp.run .copy steps).calls ++ pending (Udp.run .copy steps) = docCalls (received steps) := by
  have h := (runFrom_copy steps {} inv_init).2.1
  have hw : writeOf = docPacket := funext writeOf_eq_docPacket
  simpa [Udp.run, pending, docCalls, hw] using h

/-- Nothing is ever handed on that is not a packet, and never out of order: the calls made so far are a PREFIX of the documented ones. -/
theorem udp_calls_prefix_at_all_times (steps : List Step) :
    (Udp.run .copy steps).calls <+: docCalls (received steps) :=
  ⟨pending (Udp.run .copy steps), udp_hands_on_each_packet_once_in_order steps⟩

/-- Once the service is quiet (nothing queued, nothing in flight) the `WritePoints` calls made are EXACTLY the documented ones, and
points_parse_fail counts exactly the dropped datagrams. -/
theorem udp_quiet_calls_exact (steps : List Step) (hq : (Udp.run .copy steps).quiet = true) :
    (Udp.run .copy steps).calls = docCalls (received steps) ∧
    (Udp.run .copy steps).parseFail = ((received steps).filter (fun dg => (docPacket dg).isNone)).length := by
  obtain ⟨hp, hb⟩ := pending_quiet hq
  constructor
  · have h := udp_hands_on_each_packet_once_in_order steps
    rwa [hp, List.append_nil] at h
  · have h := (runFrom_copy steps {} inv_init).2.2
    have hw : writeOf = docPacket := funext writeOf_eq_docPacket
    have h0 : pendingBad ({} : Svc) = 0 := rfl
    have hb' : pendingBad (runFrom .copy {} steps) = 0 := hb
    have hpf : ({} : Svc).parseFail = 0 := rfl
    rw [hb', h0, hpf, hw] at h
    simpa [Udp.run] using h

/-- **Frame: a later datagram does not touch a pending packet.** In every reachable state, reading one more datagram — which
overwrites the receive buffer — leaves everything that is parsed or queued exactly as it was and appends the newcomer. -/
theorem later_datagram_leaves_pending_packets_alone (steps : List Step) (dg : Datagram) :
    pending (Udp.run .copy (steps ++ [.recv dg])) = pending (Udp.run .copy steps) ++ (docPacket dg).toList ∧
    (Udp.run .copy (steps ++ [.recv dg])).calls = (Udp.run .copy steps).calls := by
  have hinv := (runFrom_copy steps {} inv_init).1
  have hs := step_copy (runFrom .copy {} steps) hinv (.recv dg)
  have hrun : Udp.run .copy (steps ++ [.recv dg]) = step .copy (runFrom .copy {} steps) (.recv dg) := by
    simp [Udp.run, runFrom, List.foldl_append]
  have hcalls : (step .copy (runFrom .copy {} steps) (.recv dg)).calls = (runFrom .copy {} steps).calls := rfl
  rw [hrun]
  refine ⟨?_, hcalls⟩
  have h2 := hs.2.1
  rw [hcalls, List.append_assoc] at h2
  have := List.append_cancel_left h2
  simpa [emits, writeOf_eq_docPacket, Udp.run] using this

/-- **End to end.** UDP ingestion composed with the routing: after any history `pre`, let the listener for (db, rp) read any
datagrams under any schedule until it is quiet, then any history `post`: under every from-node the recorded ids and the recorded
points are what the routing spec says of the history in which every well-formed datagram is ONE write of its points. -/
theorem udp_ingestion_delivers_exactly (drp : String) (pre post : List Op) (db rp : String) (steps : List Step)
    (hq : (Udp.run .copy steps).quiet = true) (t : String) (i : Nat) :
    (Kap.C02.run drp (pre ++ (Udp.run .copy steps).calls.map (.write db rp) ++ post)).delivered t i =
      specDelivered drp t i (pre ++ udpHistory db rp (received steps) ++ post) ∧
    (Kap.C02.run drp (pre ++ (Udp.run .copy steps).calls.map (.write db rp) ++ post)).deliveredPts t i =
      specDeliveredPts drp t i (pre ++ udpHistory db rp (received steps) ++ post) := by
  rw [(udp_quiet_calls_exact steps hq).1]
  exact ⟨Kap.Props.C02.route_refines_spec .., Kap.Props.C02.from_options_exact ..⟩

/-! ### Why the private copy matters: the same service handing on the receive buffer itself -/

def ptA : RawPoint := ⟨1, "cpu", [], {}⟩
def ptB : RawPoint := ⟨2, "mem", [], {}⟩

/-- serve() reads datagram B while `WritePoints` has not yet converted the points of datagram A (back-pressure). -/
def overlapped : List Step := [.recv [.point ptA 10], .parse, .recv [.point ptB 20], .write, .parse, .write]

/-- Counterexample: without the copy (`Policy.share`: `s.packets <- buf[:n]`) the points of packet A are never handed on and those
of packet B are handed on twice — on a schedule on which the copying service hands on A then B (replayed on the real code by
corpus/C02/udp-later-datagram-read-while-write-pending.ops). -/
theorem shared_receive_buffer_would_replace_pending_packet :
    (Udp.run .share overlapped).quiet = true ∧
    (Udp.run .share overlapped).calls.map (·.map (·.id)) = [[2], [2]] ∧
    (Udp.run .copy overlapped).calls.map (·.map (·.id)) = [[1], [2]] ∧
    (docCalls (received overlapped)).map (·.map (·.id)) = [[1], [2]] := by
  decide

/-! ### Non-vacuity -/

/-- a schedule that ends quiet, with a malformed datagram (dropped whole, counted), a comment line, an out-of-range time stamp -/
example :
    let steps : List Step := [.recv [.point ptA 10, .skip, .point ptB 11], .recv [.point ptB 20, .bad], .parse,
      .recv [.point ptA 9223372036854775807], .write, .parse, .parse, .recv [.skip], .parse, .write]
    (Udp.run .copy steps).quiet = true ∧ (Udp.run .copy steps).calls.map (·.map (·.id)) = [[1, 2], []] ∧ (Udp.run .copy steps).parseFail = 2 := by
  decide

/-- the schedules the driver replays end quiet -/
example : (Udp.run .copy (heldSchedule [[.point ptA 10], [.bad], [.point ptB 20]])).quiet = true ∧
    (Udp.run .copy (flowSchedule [[.point ptA 10], [.bad], [.point ptB 20]])).quiet = true ∧
    (Udp.run .copy (heldSchedule [[.bad], [.point ptB 20]])).calls.map (·.map (·.id)) = [[2]] := by
  decide

end Kap.Props.C02Udp
