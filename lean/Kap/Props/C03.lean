/-
C03 — property theorems (every `theorem` in this module is a proof obligation; `bin/check C03` audits each
one's axioms). Helper lemmas live in Kap/Proofs/C03{Ring,Time,Count}.lean.

Statement (properties.jsonl): for each group, a time window emitted with end time T contains exactly the
points of that group received so far whose timestamps lie in [T-period, T) (for every()=0: in (t-period, t] of
the triggering point), in arrival order, and nothing older or newer; windows are emitted once per 'every' step
of data time (first one delayed to a full period with fillPeriod, edges truncated to multiples of 'every' with
align). A count window emitted after the k-th point contains exactly the last min(k, periodCount) points,
every everyCount points.

The theorems are about the model `Kap/Model/C03.lean` (a transcription of window.go AFTER the repair
eba8482); `bin/check C03` ties the model to the code on every run. Groups: the window node keeps one
receiver per group (`edge.GroupedConsumer`), so the per-group statement below is the whole statement; that
the real node routes interleaved groups to separate receivers is checked by the task cases of the harness.
-/
import Kap.Proofs.C03Buf
import Kap.Proofs.C03Count
namespace Kap.Props.C03
open Kap.C03

/-! ### The defect found by this check (repaired by commit eba8482) -/

/-- Counterexample on the model of the code as it was at snapshot ef0888e (`insertOld`): period 2, every 10,
points at 0, 1, 10, 19, 20 — the window ending at 20 contains the point received at 10. Replayed on the real
code by corpus/C03/drained-at-end-then-refilled.ops. -/
theorem old_insert_keeps_expired_point :
    runTimeWith Buf.insertOld ⟨2, 10, false, false⟩
      [.point ⟨0, 1⟩, .point ⟨1, 2⟩, .point ⟨10, 3⟩, .point ⟨19, 4⟩, .point ⟨20, 5⟩]
    = [none, none, some ⟨10, []⟩, none, some ⟨20, [⟨10, 3⟩, ⟨19, 4⟩]⟩] := by
  decide

/-- … which the property rejects: the content clause fails at step 4. -/
theorem old_insert_violates_property :
    let ms : List Msg := [.point ⟨0, 1⟩, .point ⟨1, 2⟩, .point ⟨10, 3⟩, .point ⟨19, 4⟩, .point ⟨20, 5⟩]
    stepViolation ⟨2, 10, false, false⟩ 0
      ((ms.zip (runTimeWith Buf.insertOld ⟨2, 10, false, false⟩ ms)).take 4)
      (.point ⟨20, 5⟩) (some ⟨20, [⟨10, 3⟩, ⟨19, 4⟩]⟩) ≠ none := by
  decide

/-- The mechanism: after the ring (cap 2) drained with `stop == len == cap`, the old `insert` leaves
`start == len`; once refilled (`start == stop == len`, a full ring) `purge` inspects the NEWEST point and
purges nothing. The repaired `insert` wraps `start` as well. -/
theorem old_insert_reaches_unpurgeable_state :
    let drained : Buf := { window := [⟨0, 1⟩, ⟨1, 2⟩], cap := 2, start := 2, stop := 2, size := 0 }
    let old := (drained.insertOld ⟨10, 3⟩).insertOld ⟨19, 4⟩
    let new := (drained.insert ⟨10, 3⟩).insert ⟨19, 4⟩
    (old.start, old.stop, old.size) = (2, 2, 2) ∧ (old.purge 18 true).points = [⟨10, 3⟩, ⟨19, 4⟩] ∧
    (new.start, new.stop, new.size) = (0, 2, 2) ∧ (new.purge 18 true).points = [⟨19, 4⟩] := by
  decide

/-! ### The ring buffer refines a list — for EVERY reachable shape (start, stop, size, len, cap)

`Ring b live stale` (Kap/Proofs/C03Ring.lean) is an explicit decomposition of the slice covering the linear
shapes (live run anywhere in the slice, possibly empty, possibly with `start == stop == len`), the wrapped
shapes (both runs non-empty, slice at capacity, including the full ring `start == stop`) and the stale slots
outside the live region, which the Go code reads (`window[l-1]`, `window[0:stop]` of a drained ring). -/

/-- The empty buffer is a ring. -/
theorem ring_initial : Ring {} [] [] := ring_init

/-- `points()` returns exactly the live points, oldest first, whatever the shape (two-segment copy). -/
theorem points_is_live {b : Buf} {live stale : List Pt} (h : Ring b live stale) : b.points = live :=
  ring_points h

/-- **insert = append.** Every shape (full ⇒ growth ×2(size+1) from the linear or the wrapped layout; at the
end of a slice at capacity ⇒ wrap-around, of `start` too when the ring had drained there; otherwise append or
overwrite of a stale slot): the ring relation is preserved, the point is appended to the live list, no stale
point becomes live again, none of the two explicit `panic`s is reached, `size` stays the number of live points. -/
theorem insert_refines_append {b : Buf} {live stale : List Pt} (p : Pt) (h : Ring b live stale) :
    ∃ stale', Ring (b.insert p) (live ++ [p]) stale' ∧ (∀ q ∈ stale', q ∈ stale) ∧
      (b.insert p).points = b.points ++ [p] ∧ (b.insert p).panicked = false ∧
      (b.insert p).size = live.length + 1 := by
  obtain ⟨stale', hr, hsub⟩ := ring_insert nilPt p h
  change Ring (b.insert p) (live ++ [p]) stale' at hr
  refine ⟨stale', hr, hsub, ?_, ring_panicked hr, ?_⟩
  · rw [ring_points hr, ring_points h]
  · rw [ring_size hr]; simp

/-- The nil slot that `make([]T, size+1, c)` creates is always overwritten: the result of `insert` does not
depend on what a nil slot holds (so no `.Time()` is ever called on a nil interface). -/
theorem insert_nil_irrelevant {b : Buf} {live stale : List Pt} (n1 n2 p : Pt) (h : Ring b live stale) :
    b.insertWith n1 p = b.insertWith n2 p :=
  insertWith_nil_irrelevant n1 n2 p h

/-- **purge = dropWhile = filter.** On a ring whose live points are sorted by time and whose stale slots are
all excluded by the bound (this is what the Go code silently relies on), `purge` — in each of its three
branches — keeps the ring relation, keeps exactly the included live points, and leaves only excluded points
in the stale slots (so the hypothesis is re-established for every later bound that is not smaller). -/
theorem purge_refines_filter {b : Buf} {live stale : List Pt} (oldest : Int) (inclusive : Bool)
    (h : Ring b live stale) (hstale : ∀ q ∈ stale, includes oldest inclusive q.t = false)
    (hsorted : SortedT live) :
    ∃ stale', Ring (b.purge oldest inclusive) (live.filter (fun q => includes oldest inclusive q.t)) stale' ∧
      (∀ q ∈ stale', includes oldest inclusive q.t = false) ∧
      (b.purge oldest inclusive).points = b.points.dropWhile (fun q => !includes oldest inclusive q.t) ∧
      (b.purge oldest inclusive).points = b.points.filter (fun q => includes oldest inclusive q.t) := by
  obtain ⟨stale', hr, hs⟩ := ring_purge oldest inclusive h hstale hsorted
  refine ⟨stale', hr, hs, ?_, ?_⟩
  · rw [ring_points hr, ring_points h, dropWhile_eq_filter _ (includes_mono oldest inclusive) live hsorted]
  · rw [ring_points hr, ring_points h]

/-- A later (not smaller) bound excludes everything an earlier bound excluded: with non-decreasing bounds the
stale-slot hypothesis of `purge_refines_filter` is maintained from one purge to the next. -/
theorem excluded_stays_excluded (o o' : Int) (inclusive : Bool) (t : Int) (h : o ≤ o')
    (hx : includes o inclusive t = false) : includes o' inclusive t = false :=
  includes_antitone o o' inclusive t h hx

/-- **The buffer over ANY history of inserts and purges — no hypothesis on states, only on the input**
(`wfFrom`: inserted times never decrease, purge bounds never decrease, an inserted point is not already
expired for the last bound — exactly what `windowByTime` feeds it): `points()` is the filter of everything
inserted so far by the last purge bound, in arrival order, and no panic site is reached. The stale-slot
invariant and the sortedness that `purge_refines_filter` assumes are established and maintained inside the
proof for every reachable state. -/
theorem buffer_history_exact (inclusive : Bool) (ops : List BOp) (hwf : wfFrom inclusive none none ops = true) :
    (runBuf inclusive {} ops).points
      = (insertedOf ops).filter (fun q => incBy inclusive (boundOf none ops) q.t) ∧
    (runBuf inclusive {} ops).panicked = false := by
  have h := runBuf_inv inclusive ops {} [] none none ⟨[], [], ring_init, rfl, by simp⟩
    (by simp [SortedT]) (by simp) hwf
  obtain ⟨live, stale, hr, hl, _⟩ := h
  rw [List.nil_append] at hl
  exact ⟨by rw [ring_points hr, hl], ring_panicked hr⟩

/-! ### Time windows: content, end time and schedule — for every configuration and every history -/

/-- **Main theorem.** For every period > 0, every ≥ 0 (0, < period, = period, > period), align and fillPeriod
flags, and EVERY sequence of points and barriers with non-decreasing timestamps (any gaps, repeated timestamps,
silences that drain the ring at any index phase): each message emits a batch iff its time has reached the due
time; the batch's end time is the due time (every = 0: the time of the message); it contains exactly the points
received so far with T - period ≤ t < T (every = 0: T - period < t ≤ T), in arrival order. -/
theorem time_window_exact (c : TCfg) (ms : List Msg) (hp : 0 < c.period) (he : 0 ≤ c.every)
    (hmono : nondecreasing (ms.map Msg.t) = true) :
    TimeWindowOK c (ms.zip (runTime c ms)) := by
  rw [timeWindowOK_iff]
  cases ms with
  | nil => rfl
  | cons m ms =>
    have hinit := tinv_init c m.t hp he
    have hm : nondecreasing (lastT m.t [] :: (m :: ms).map Msg.t) = true := by
      simp only [lastT, List.getLast?_nil, Option.map_none, Option.getD_none, List.map_cons, nondecreasing,
        Bool.and_eq_true, decide_eq_true_eq]
      exact ⟨Int.le_refl _, by simpa [nondecreasing] using hmono⟩
    exact (run_inv c m.t hp he (m :: ms) [] _ hinit hm).2

/-- Readable consequences of `time_window_exact`, clause by clause. For every step `k` of every run:
(1) no batch ⇒ the message is earlier than the due time; (2) a batch ⇒ the message has reached the due time,
the end time is the due time (every = 0: the message time); (3) NOTHING OLDER OR NEWER: every point of the batch
lies in [T - period, T) (every = 0: (T - period, T]); (4) NOTHING MISSING: every point received so far (the
triggering one included) that lies in that interval is in the batch; (5) arrival order: the batch is a sublist
of the received points. -/
theorem window_clauses (c : TCfg) (ms : List Msg) (hp : 0 < c.period) (he : 0 ≤ c.every)
    (hmono : nondecreasing (ms.map Msg.t) = true)
    (k : Nat) (m0 m : Msg) (o : Option Batch) (h0 : ms[0]? = some m0)
    (hk : (ms.zip (runTime c ms))[k]? = some (m, o)) :
    let tr := ms.zip (runTime c ms)
    let d := due c m0.t (tr.take k)
    let hist := received ((tr.take k).map (·.1) ++ [m])
    match o with
    | none => m.t < d
    | some b =>
      d ≤ m.t ∧ b.tmax = (if c.every = 0 then m.t else d) ∧
      (∀ q ∈ b.pts, if c.every = 0 then b.tmax - c.period < q.t ∧ q.t ≤ b.tmax
                    else b.tmax - c.period ≤ q.t ∧ q.t < b.tmax) ∧
      (∀ q ∈ hist, (if c.every = 0 then b.tmax - c.period < q.t ∧ q.t ≤ b.tmax
                    else b.tmax - c.period ≤ q.t ∧ q.t < b.tmax) → q ∈ b.pts) ∧
      b.pts.Sublist hist := by
  have hok := time_window_exact c ms hp he hmono
  have h00 : (∃ o0, (ms.zip (runTime c ms))[0]? = some (m0, o0)) ∨ ms = [] := by
    cases ms with
    | nil => right; rfl
    | cons a ms =>
      left
      simp at h0; subst h0
      exact ⟨_, zip_run_head c a ms⟩
  rcases h00 with ⟨o0, h00⟩ | h00
  · have hs := hok k m0 o0 m o h00 hk
    cases o with
    | none => exact sv_none_inv _ _ _ _ hs
    | some b =>
      obtain ⟨h1, h2, h3⟩ := sv_some_inv _ _ _ _ _ hs
      refine ⟨by omega, h2, ?_, ?_, ?_⟩
      · intro q hq
        rw [h3] at hq
        unfold specContent at hq
        by_cases hev : c.every = 0
        · simp only [hev, if_true, List.mem_filter, Bool.and_eq_true, decide_eq_true_eq] at hq ⊢
          exact hq.2
        · simp only [hev, if_false, List.mem_filter, Bool.and_eq_true, decide_eq_true_eq] at hq ⊢
          exact hq.2
      · intro q hq hin
        rw [h3]
        unfold specContent
        by_cases hev : c.every = 0
        · simp only [hev, if_true, List.mem_filter, Bool.and_eq_true, decide_eq_true_eq] at hin ⊢
          exact ⟨hq, hin⟩
        · simp only [hev, if_false, List.mem_filter, Bool.and_eq_true, decide_eq_true_eq] at hin ⊢
          exact ⟨hq, hin⟩
      · rw [h3]; unfold specContent; split <;> exact List.filter_sublist
  · subst h00; simp at h0

/-- The hypothesis "timestamps never decrease" is needed, not decoration: a late point (t = 5 after t = 12) is
buffered behind a newer one and is emitted in the window [12, 22) although it is older than its left edge. -/
theorem nondecreasing_is_needed :
    let c : TCfg := ⟨10, 10, false, false⟩
    let ms : List Msg := [.point ⟨0, 1⟩, .point ⟨12, 2⟩, .point ⟨5, 3⟩, .point ⟨22, 4⟩]
    nondecreasing (ms.map Msg.t) = false ∧
    runTime c ms = [none, some ⟨10, [⟨0, 1⟩]⟩, none, some ⟨22, [⟨12, 2⟩, ⟨5, 3⟩]⟩] ∧
    (traceViolation c (ms.zip (runTime c ms))).map (·.1) = some 3 := by
  decide

/-- The executable oracle that the driver evaluates on the implementation's observed output decides exactly
the property (so a SPECFAIL of the driver is a violation of `TimeWindowOK`, and vice versa). -/
theorem oracle_decides_property (c : TCfg) (tr : Trace) : TimeWindowOK c tr ↔ traceViolation c tr = none :=
  timeWindowOK_iff c tr

/-- **Schedule and buffer state after any history**: `nextEmit` of the window is the spec's due time of the
trace so far (first due time per the four align × fillPeriod cases, afterwards trigger time + every, truncated
under align); the buffer holds exactly the received points not excluded by the last purge bound `wm`, with
`wm + period ≤` the time of the last message; no panic site was reached; and for every ≠ 0 every message
received so far is earlier than `nextEmit` (so nothing newer than the window end can be in a batch). -/
theorem emit_schedule (c : TCfg) (m0 : Msg) (ms : List Msg) (hp : 0 < c.period) (he : 0 ≤ c.every)
    (hmono : nondecreasing ((m0 :: ms).map Msg.t) = true) :
    let w := TW.after (TW.init c m0.t) (m0 :: ms)
    let tr := TW.traceFrom (TW.init c m0.t) (m0 :: ms)
    w.nextEmit = due c m0.t tr ∧
    (∃ wm, w.buf.points = (received (m0 :: ms)).filter (fun q => includes wm (c.every != 0) q.t) ∧
           wm + c.period ≤ lastT m0.t tr) ∧
    w.buf.panicked = false ∧
    (c.every ≠ 0 → lastT m0.t tr < w.nextEmit) := by
  have hinit := tinv_init c m0.t hp he
  have hm : nondecreasing (lastT m0.t [] :: (m0 :: ms).map Msg.t) = true := by
    simp only [lastT, List.getLast?_nil, Option.map_none, Option.getD_none, List.map_cons, nondecreasing,
      Bool.and_eq_true, decide_eq_true_eq]
    exact ⟨Int.le_refl _, by simpa [nondecreasing] using hmono⟩
  obtain ⟨hinv, _⟩ := run_inv c m0.t hp he (m0 :: ms) [] _ hinit hm
  simp only [List.nil_append] at hinv
  obtain ⟨_, hne, ⟨wm, hring, hwm⟩, _, _, hahead⟩ := hinv
  have hhist : histOf (TW.traceFrom (TW.init c m0.t) (m0 :: ms)) = received (m0 :: ms) := by
    unfold histOf TW.traceFrom
    congr 1
    have : ∀ (w : TW) (l : List Msg), (TW.runFrom Buf.insert w l).length = l.length := by
      intro w l; induction l generalizing w with
      | nil => rfl
      | cons a l ih => simp [TW.runFrom, ih]
    rw [List.map_fst_zip (by rw [this]; exact Nat.le_refl _)]
  refine ⟨hne, ⟨wm, ?_, hwm⟩, ringst_panicked hring, hahead⟩
  obtain ⟨live, stale, hr, hl, _⟩ := hring
  rw [ring_points hr, hl, hhist]

/-- **Every reachable window state satisfies the ring invariant with all side conditions** — for every
configuration and every non-decreasing history: the buffer is a `Ring`, its live points are sorted by time and
are exactly the received points the last purge bound `wm` includes, every stale slot is excluded by `wm`, and
`wm` is at least one period behind the last message (so every later purge bound is ≥ `wm`). -/
theorem reachable_ring (c : TCfg) (m0 : Msg) (ms : List Msg) (hp : 0 < c.period) (he : 0 ≤ c.every)
    (hmono : nondecreasing ((m0 :: ms).map Msg.t) = true) :
    let w := TW.after (TW.init c m0.t) (m0 :: ms)
    ∃ live stale wm, Ring w.buf live stale ∧ SortedT live ∧ w.buf.points = live ∧
      live = (received (m0 :: ms)).filter (fun q => includes wm (c.every != 0) q.t) ∧
      (∀ q ∈ stale, includes wm (c.every != 0) q.t = false) ∧
      wm + c.period ≤ lastT m0.t (TW.traceFrom (TW.init c m0.t) (m0 :: ms)) := by
  obtain ⟨_, _, ⟨wm, ⟨live, stale, hr, hl, hs⟩, hwm⟩, _, hsorted, _⟩ := tinv_after c m0 ms hp he hmono
  rw [histOf_traceFrom] at hl hsorted
  exact ⟨live, stale, wm, hr, by rw [hl]; exact sortedT_filter _ hsorted, ring_points hr, hl, hs, hwm⟩

/-- **Every purge the window ever performs meets the hypotheses of `purge_refines_filter`**: after any
non-decreasing history, for any next message `m` (not earlier than the last one) that triggers an emission, the
buffer handed to `purge` (for every = 0 the point is inserted first) is a ring with sorted live points whose
stale slots are all excluded by the bound the code computes (`nextEmit - period`, every = 0: `m.t - period`). -/
theorem every_purge_meets_its_preconditions (c : TCfg) (m0 : Msg) (ms : List Msg) (m : Msg)
    (hp : 0 < c.period) (he : 0 ≤ c.every)
    (hmono : nondecreasing ((m0 :: ms ++ [m]).map Msg.t) = true) :
    let w := TW.after (TW.init c m0.t) (m0 :: ms)
    let b := if c.every = 0 then (match m with | .point p => w.buf.insert p | .barrier _ => w.buf) else w.buf
    let oldest := if c.every = 0 then m.t - c.period else w.nextEmit - c.period
    ¬ m.t < w.nextEmit →
    ∃ live stale, Ring b live stale ∧ SortedT live ∧
      ∀ q ∈ stale, includes oldest (c.every != 0) q.t = false := by
  have hmono1 : nondecreasing ((m0 :: ms).map Msg.t) = true ∧
      lastT m0.t (TW.traceFrom (TW.init c m0.t) (m0 :: ms)) ≤ m.t := by
    have hl : ∀ (w : TW) (l : List Msg), (TW.runFrom Buf.insert w l).length = l.length := by
      intro w l; induction l generalizing w with
      | nil => rfl
      | cons a l ih => simp [TW.runFrom, ih]
    have hlast : lastT m0.t (TW.traceFrom (TW.init c m0.t) (m0 :: ms)) = ((m0 :: ms).getLast?.map Msg.t).getD m0.t := by
      unfold lastT TW.traceFrom
      have : ((m0 :: ms).zip (TW.runFrom Buf.insert (TW.init c m0.t) (m0 :: ms))).getLast?.map (·.1)
          = (m0 :: ms).getLast? := by
        rw [← List.getLast?_map, List.map_fst_zip (by rw [hl]; exact Nat.le_refl _)]
      rw [← this]; simp [Option.map_map, Function.comp_def]
    rw [hlast]
    have key : ∀ (l : List Msg) (a : Msg), nondecreasing ((a :: l ++ [m]).map Msg.t) = true →
        nondecreasing ((a :: l).map Msg.t) = true ∧ (((a :: l).getLast?.map Msg.t).getD a.t) ≤ m.t := by
      intro l
      induction l with
      | nil => intro a h; simp [nondecreasing] at h ⊢; exact h
      | cons x l ih =>
        intro a h
        simp only [List.cons_append, List.map_cons, nondecreasing, Bool.and_eq_true, decide_eq_true_eq] at h
        have := ih x (by simpa [nondecreasing] using h.2)
        refine ⟨by simp only [List.map_cons, nondecreasing, Bool.and_eq_true, decide_eq_true_eq]; exact ⟨h.1, by simpa using this.1⟩, ?_⟩
        have h2 := this.2
        simp only [List.getLast?_cons_cons] at h2 ⊢
        cases hx : (x :: l).getLast? with
        | none => simp at hx
        | some y => rw [hx] at h2; simpa using h2
    exact key ms m0 hmono
  obtain ⟨hm1, hm2⟩ := hmono1
  obtain ⟨hcfg, hne, ⟨wm, hring, hwm⟩, hle, hsorted, hahead⟩ := tinv_after c m0 ms hp he hm1
  intro w b oldest htrig
  by_cases h0 : c.every = 0
  · have hincl : (c.every != 0) = false := by simp [h0]
    rw [hincl] at hring ⊢
    have hb : RingSt false (histOf (TW.traceFrom (TW.init c m0.t) (m0 :: ms)) ++ msgPts m) wm b := by
      cases m with
      | point p =>
        have hm2' : lastT m0.t (TW.traceFrom (TW.init c m0.t) (m0 :: ms)) ≤ p.t := hm2
        have hinp : includes wm false p.t = true := by unfold includes; simp; omega
        simpa [b, h0, msgPts] using ringst_insert p hring hinp
      | barrier t => simpa [b, h0, msgPts] using hring
    have hs' : SortedT (histOf (TW.traceFrom (TW.init c m0.t) (m0 :: ms)) ++ msgPts m) := by
      have := (hist_step (t0 := m0.t) m none hle hsorted hm2).2
      rwa [histOf_snoc] at this
    obtain ⟨⟨live, stale, hr, _, hs⟩, _⟩ := ringst_purge (incl := false) oldest hb hs' (by simp [oldest, h0]; omega)
    obtain ⟨live0, stale0, hr0, hl0, hs0⟩ := hb
    refine ⟨live0, stale0, hr0, by rw [hl0]; exact sortedT_filter _ hs', ?_⟩
    intro q hq
    exact includes_antitone wm oldest false q.t (by simp [oldest, h0]; omega) (hs0 q hq)
  · have hincl : (c.every != 0) = true := by simp [h0]
    rw [hincl] at hring ⊢
    have hah : lastT m0.t (TW.traceFrom (TW.init c m0.t) (m0 :: ms)) < w.nextEmit := hahead h0
    obtain ⟨live0, stale0, hr0, hl0, hs0⟩ := hring
    refine ⟨live0, stale0, by simpa [b, h0] using hr0, by rw [hl0]; exact sortedT_filter _ hsorted, ?_⟩
    intro q hq
    exact includes_antitone wm oldest true q.t (by simp [oldest, h0]; omega) (hs0 q hq)

/-- The four cases of the first due time, as `newWindowByTime` computes them. -/
theorem first_due_cases (c : TCfg) (t0 : Int) (he : 0 ≤ c.every) :
    (TW.init c t0).nextEmit = firstDue c t0 := init_nextEmit c t0 he

/-- After a trigger at `t` the next window is due strictly later, and at a multiple of `every` under align
(multiples counted from Go's zero time, as `time.Truncate` does). -/
theorem due_after_trigger (c : TCfg) (t : Int) (he : 0 < c.every) :
    t < dueAfter c t ∧ dueAfter c t ≤ t + c.every ∧
    (c.align = true → (dueAfter c t + goEpochOffset) % c.every = 0) := by
  refine ⟨dueAfter_gt c t he, ?_, ?_⟩
  · unfold dueAfter
    have : ¬ c.every = 0 := by omega
    rw [if_neg this]; split
    · exact floorMultiple_le _ _ he
    · exact Int.le_refl _
  · intro ha
    unfold dueAfter
    have : ¬ c.every = 0 := by omega
    rw [if_neg this, if_pos ha]
    unfold floorMultiple
    rw [Int.sub_add_cancel]
    exact Int.mul_emod_left _ _

/-- Go's `Truncate` counts from the year 1, not from the Unix epoch: `Unix(13s).Truncate(7s) = Unix(10s)`. -/
theorem go_truncate_is_year1_based : truncate 13000000000 7000000000 = 10000000000 := by decide

/-! ### Count windows -/

/-- **Count windows.** For every periodCount ≥ 1, everyCount ≥ 1, fillPeriod flag and every sequence of points:
after the k-th point a batch is emitted iff `k = first + j·everyCount` (`first` = periodCount with fillPeriod,
else everyCount); it holds exactly the last `min k periodCount` points in arrival order and is stamped with
the time of the last one. -/
theorem count_window_exact (period every : Nat) (fill : Bool) (ps : List Pt) (hP : 1 ≤ period) (hE : 1 ≤ every) :
    countViolationFrom period every fill [] (ps.zip (runCount period every fill ps)) = none :=
  count_run period every fill hP hE ps [] _ (cinv_init period every fill hP hE)

/-- The same, step by step: what the k-th point (counted from 0) emits is exactly what the spec requires after
the first k+1 points. -/
theorem count_window_steps (period every : Nat) (fill : Bool) (ps : List Pt) (hP : 1 ≤ period) (hE : 1 ≤ every)
    (k : Nat) (p : Pt) (o : Option Batch) (hk : (ps.zip (runCount period every fill ps))[k]? = some (p, o)) :
    o = specCountOut period every fill (ps.take (k + 1)) := by
  have h := cvf_none_steps period every fill _ [] (count_window_exact period every fill ps hP hE) k p o hk
  have hlen : ∀ (w : CW) (l : List Pt), (CW.runFrom w l).length = l.length := by
    intro w l; induction l generalizing w with
    | nil => rfl
    | cons a l ih => simp [CW.runFrom, ih]
  have hfst : (ps.zip (runCount period every fill ps)).map (·.1) = ps := by
    rw [List.map_fst_zip (by unfold runCount; rw [hlen]; exact Nat.le_refl _)]
  have hp : ps[k]? = some p := by
    have := congrArg (fun l => l[k]?) hfst
    simp only [List.getElem?_map, hk, Option.map_some] at this
    exact this.symm
  rw [h]
  congr 1
  simp only [List.nil_append]
  rw [List.map_take, hfst, List.take_succ, hp]
  rfl

/-- The ring of the count window returns the last `min k period` points for every index phase. -/
theorem count_ring_points {P : Nat} {hist : List Pt} {w : CW} (hP : 1 ≤ P) (h : CRing P hist w) :
    w.points = lastN (min hist.length P) hist := cring_points hP h

/-! ### Non-vacuity: the hypotheses are met by concrete, non-trivial instances -/

/-- a wrapped, partly stale ring satisfies `Ring`; purging it drops the expired point and keeps order -/
example :
    let b : Buf := { window := [⟨30, 3⟩, ⟨5, 0⟩, ⟨10, 1⟩, ⟨20, 2⟩], cap := 4, start := 2, stop := 1, size := 3 }
    Ring b [⟨10, 1⟩, ⟨20, 2⟩, ⟨30, 3⟩] [⟨5, 0⟩] ∧ (∀ q ∈ [(⟨5, 0⟩ : Pt)], includes 15 true q.t = false) ∧
    SortedT [⟨10, 1⟩, ⟨20, 2⟩, ⟨30, 3⟩] ∧ (b.purge 15 true).points = [⟨20, 2⟩, ⟨30, 3⟩] := by
  refine ⟨Ring.wr [⟨10, 1⟩, ⟨20, 2⟩] [⟨5, 0⟩] [⟨30, 3⟩] rfl rfl rfl rfl rfl rfl (by simp) (by simp) rfl rfl,
    by decide, by simp [SortedT], by decide⟩

/-- a history that meets the hypotheses of `time_window_exact` and emits non-empty, overlapping windows,
one of them after the ring drained and wrapped (the formerly defective pattern) -/
example :
    let c : TCfg := ⟨2, 10, false, false⟩
    let ms : List Msg := [.point ⟨0, 1⟩, .point ⟨1, 2⟩, .point ⟨10, 3⟩, .point ⟨19, 4⟩, .point ⟨20, 5⟩]
    0 < c.period ∧ 0 ≤ c.every ∧ nondecreasing (ms.map Msg.t) = true ∧
    runTime c ms = [none, none, some ⟨10, []⟩, none, some ⟨20, [⟨19, 4⟩]⟩] := by
  decide

/-- a well-formed buffer history that drains the ring at the end of the slice, refills it to capacity and
purges partially (the formerly defective pattern) -/
example :
    let ops : List BOp := [.ins ⟨0, 1⟩, .ins ⟨1, 2⟩, .purge 8, .ins ⟨10, 3⟩, .ins ⟨19, 4⟩, .purge 18, .ins ⟨20, 5⟩]
    wfFrom true none none ops = true ∧ (runBuf true {} ops).points = [⟨19, 4⟩, ⟨20, 5⟩] := by decide

example : runTime ⟨10, 0, false, false⟩ [.point ⟨0, 1⟩, .point ⟨10, 2⟩, .barrier 20]
    = [some ⟨0, [⟨0, 1⟩]⟩, some ⟨10, [⟨10, 2⟩]⟩, some ⟨20, []⟩] := by decide

example : runCount 2 3 false [⟨1, 1⟩, ⟨2, 2⟩, ⟨3, 3⟩, ⟨4, 4⟩]
    = [none, none, some ⟨3, [⟨2, 2⟩, ⟨3, 3⟩]⟩, none] := by decide

end Kap.Props.C03
