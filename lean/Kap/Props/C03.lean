/-
C03 — property theorems (every `theorem` in this module is a proof obligation).
-/
import Kap.Spec.C03
namespace Kap.Props.C03
open Kap.C03

/-- Counterexample (the defect repaired by commit eba8482): with `insert` as it was at snapshot ef0888e the
window of period 2 ending at 20 contains the point received at 10. Replayed on the real code by
corpus/C03/drained-at-end-then-refilled.ops. -/
theorem old_insert_keeps_expired_point :
    runTimeWith Buf.insertOld ⟨2, 10, false, false⟩
      [.point ⟨0, 1⟩, .point ⟨1, 2⟩, .point ⟨10, 3⟩, .point ⟨19, 4⟩, .point ⟨20, 5⟩]
    = [none, none, some ⟨10, []⟩, none, some ⟨20, [⟨10, 3⟩, ⟨19, 4⟩]⟩] := by
  decide

end Kap.Props.C03
