/-
C03 — source-structure obligations: the statement skeletons regenerated from window.go by extract/c03
(Kap/Gen/C03.lean) are the ones the model was transcribed from (Kap/Model/C03Src.lean), and the extractor
classified every statement (fail closed). Every theorem here is a proof obligation of `bin/check C03`.
-/
import Kap.Gen.C03
namespace Kap.Props.C03Src

/-- no statement of the extracted functions has an unrecognised shape, none of the functions is missing -/
theorem extractor_classified_everything : Kap.Gen.C03.unknownCount = 0 := by
  first | decide | fail "window.go: extract/c03 met a statement shape it does not recognise or a transcribed function is missing (Kap.Props.C03Src.extractor_classified_everything)"

theorem src_insert : Kap.Gen.C03.insert = Kap.C03.Src.insert := by
  first | rfl | fail "window.go: the statement skeleton of `insert` differs from the one the model was transcribed from (Kap.Props.C03Src.src_insert)"
theorem src_purge : Kap.Gen.C03.purge = Kap.C03.Src.purge := by
  first | rfl | fail "window.go: the statement skeleton of `purge` differs from the one the model was transcribed from (Kap.Props.C03Src.src_purge)"
theorem src_points : Kap.Gen.C03.points = Kap.C03.Src.points := by
  first | rfl | fail "window.go: the statement skeleton of `points` differs from the one the model was transcribed from (Kap.Props.C03Src.src_points)"
theorem src_newWindowByTime : Kap.Gen.C03.newWindowByTime = Kap.C03.Src.newWindowByTime := by
  first | rfl | fail "window.go: the statement skeleton of `newWindowByTime` differs from the one the model was transcribed from (Kap.Props.C03Src.src_newWindowByTime)"
theorem src_timePoint : Kap.Gen.C03.timePoint = Kap.C03.Src.timePoint := by
  first | rfl | fail "window.go: the statement skeleton of `timePoint` differs from the one the model was transcribed from (Kap.Props.C03Src.src_timePoint)"
theorem src_timeBarrier : Kap.Gen.C03.timeBarrier = Kap.C03.Src.timeBarrier := by
  first | rfl | fail "window.go: the statement skeleton of `timeBarrier` differs from the one the model was transcribed from (Kap.Props.C03Src.src_timeBarrier)"
theorem src_timeBatch : Kap.Gen.C03.timeBatch = Kap.C03.Src.timeBatch := by
  first | rfl | fail "window.go: the statement skeleton of `timeBatch` differs from the one the model was transcribed from (Kap.Props.C03Src.src_timeBatch)"
theorem src_newWindowByCount : Kap.Gen.C03.newWindowByCount = Kap.C03.Src.newWindowByCount := by
  first | rfl | fail "window.go: the statement skeleton of `newWindowByCount` differs from the one the model was transcribed from (Kap.Props.C03Src.src_newWindowByCount)"
theorem src_countPoint : Kap.Gen.C03.countPoint = Kap.C03.Src.countPoint := by
  first | rfl | fail "window.go: the statement skeleton of `countPoint` differs from the one the model was transcribed from (Kap.Props.C03Src.src_countPoint)"
theorem src_countBarrier : Kap.Gen.C03.countBarrier = Kap.C03.Src.countBarrier := by
  first | rfl | fail "window.go: the statement skeleton of `countBarrier` differs from the one the model was transcribed from (Kap.Props.C03Src.src_countBarrier)"
theorem src_countBatch : Kap.Gen.C03.countBatch = Kap.C03.Src.countBatch := by
  first | rfl | fail "window.go: the statement skeleton of `countBatch` differs from the one the model was transcribed from (Kap.Props.C03Src.src_countBatch)"
theorem src_countPoints : Kap.Gen.C03.countPoints = Kap.C03.Src.countPoints := by
  first | rfl | fail "window.go: the statement skeleton of `countPoints` differs from the one the model was transcribed from (Kap.Props.C03Src.src_countPoints)"
theorem src_newWindow : Kap.Gen.C03.newWindow = Kap.C03.Src.newWindow := by
  first | rfl | fail "window.go: the statement skeleton of `newWindow` differs from the one the model was transcribed from (Kap.Props.C03Src.src_newWindow)"

end Kap.Props.C03Src
