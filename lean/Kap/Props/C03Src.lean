/-
C03 — source-structure obligations: the statement skeletons regenerated from window.go by extract/c03
(Kap/Gen/C03.lean) are the ones the model was transcribed from (Kap/Model/C03Src.lean), and the extractor
classified every statement (fail closed). Every theorem here is a proof obligation of `bin/check C03`.
-/
import Kap.Gen.C03
namespace Kap.Props.C03Src

/-- no statement of the extracted functions has an unrecognised shape, none of the functions is missing -/
theorem extractor_classified_everything : Kap.Gen.C03.unknownCount = 0 := by decide

theorem src_insert : Kap.Gen.C03.insert = Kap.C03.Src.insert := rfl
theorem src_purge : Kap.Gen.C03.purge = Kap.C03.Src.purge := rfl
theorem src_points : Kap.Gen.C03.points = Kap.C03.Src.points := rfl
theorem src_newWindowByTime : Kap.Gen.C03.newWindowByTime = Kap.C03.Src.newWindowByTime := rfl
theorem src_timePoint : Kap.Gen.C03.timePoint = Kap.C03.Src.timePoint := rfl
theorem src_timeBarrier : Kap.Gen.C03.timeBarrier = Kap.C03.Src.timeBarrier := rfl
theorem src_timeBatch : Kap.Gen.C03.timeBatch = Kap.C03.Src.timeBatch := rfl
theorem src_newWindowByCount : Kap.Gen.C03.newWindowByCount = Kap.C03.Src.newWindowByCount := rfl
theorem src_countPoint : Kap.Gen.C03.countPoint = Kap.C03.Src.countPoint := rfl
theorem src_countBarrier : Kap.Gen.C03.countBarrier = Kap.C03.Src.countBarrier := rfl
theorem src_countBatch : Kap.Gen.C03.countBatch = Kap.C03.Src.countBatch := rfl
theorem src_countPoints : Kap.Gen.C03.countPoints = Kap.C03.Src.countPoints := rfl
theorem src_newWindow : Kap.Gen.C03.newWindow = Kap.C03.Src.newWindow := rfl

end Kap.Props.C03Src
