/-
C04 — property theorems (every `theorem` here is a proof obligation, axiom-audited by `bin/check C04`).
Statement (properties.jsonl): a lambda expression evaluated against a point yields the value of TICKscript's
typed semantics (documented operator × type matrix, no implicit int/float coercion in arithmetic, AND/OR
short circuit, …; type mismatch / missing field / arithmetic fault = error for that point), and the result
depends only on the expression, the point and the earlier points of the same group — never on which field
types or other groups the compiled expression saw before.
-/
import Kap.Proofs.C04
import Kap.Gen.C04
namespace Kap.Props.C04
open Kap.C04

/-! ### The operator table, regenerated from `evaluation_funcs.go` on every run -/

/-- Every extracted entry is the canonical one for its key (decided on the regenerated table). -/
theorem table_canonical : Gen.table.all canon = true := by decide

/-- **table_sound.** For every key `(op, lt, rt)` of the table as it is in the source now: the entry
evaluates the left operand with the `EvalX` of `lt` and the right one with that of `rt`, AND/OR (and only
they) short-circuit, the declared return type is the documented result type, and on EVERY pair of values of
these types the entry computes exactly the reference operator `refBinop` — for any float arithmetic and any
regex matcher. -/
theorem table_sound {F : Type} (ops : FOps F) (reMatch : String → String → Option Bool) :
    ∀ e ∈ Gen.table,
      e.lm = e.lt ∧ e.rm = e.rt ∧ binType e.op e.lt e.rt = some e.ret ∧
      (e.shape = .andSC ↔ e.op = .and) ∧ (e.shape = .orSC ↔ e.op = .or) ∧ e.shape ≠ .unknown ∧
      ∀ vl vr : Value F, vl.ty = e.lt → vr.ty = e.rt →
        e.compute ops reMatch vl vr = refBinop ops reMatch e.op vl vr := by
  intro e he
  have hc : canon e = true := List.all_eq_true.mp table_canonical e he
  have hs := hc
  simp only [canon, Bool.and_eq_true, beq_iff_eq] at hs
  obtain ⟨⟨⟨⟨⟨h1, h2⟩, _⟩, h4⟩, h5⟩, _⟩ := hs
  refine ⟨h1, h2, h4, ?_, ?_, ?_, fun vl vr hl hr => (canon_sound ops reMatch e hc vl vr hl hr).1⟩
  · rw [h5]; cases e.op <;> simp
  · rw [h5]; cases e.op <;> simp
  · rw [h5]; cases e.op <;> simp

/-- No key occurs twice, so `lookup` finds THE entry of a key. -/
theorem table_keys_unique : (Gen.table.map (fun e => (e.op, e.lt, e.rt))).Nodup := by decide

/-- **table_complete_no_coercion.** The key set of the table is exactly the documented matrix `binType`:
an operator applies to a pair of types iff the documentation says so, with the documented result type. -/
theorem table_complete (op : BOp) (lt rt : Ty) :
    (lookup Gen.table op lt rt).map (·.ret) = binType op lt rt := by
  cases op <;> cases lt <;> cases rt <;> decide

/-- … in particular there is no arithmetic between an int and a float in either order. -/
theorem no_int_float_arithmetic :
    ∀ op ∈ [BOp.plus, .minus, .mult, .div, .mod],
      lookup Gen.table op .int .float = none ∧ lookup Gen.table op .float .int = none := by decide

/-- No entry panics on operands of its key types (zero divisors of `/` and `%` are guarded). -/
theorem table_no_trap {F : Type} (ops : FOps F) (reMatch : String → String → Option Bool) :
    ∀ e ∈ Gen.table, ∀ vl vr : Value F, vl.ty = e.lt → vr.ty = e.rt → e.compute ops reMatch vl vr ≠ .trap := by
  intro e he vl vr hl hr
  exact (canon_sound ops reMatch e (List.all_eq_true.mp table_canonical e he) vl vr hl hr).2

end Kap.Props.C04
