/-
C04 — property theorems (every `theorem` here is a proof obligation, axiom-audited by `bin/check C04`).
Statement (properties.jsonl): a lambda expression evaluated against a point yields the value of TICKscript's
typed semantics (documented operator × type matrix, no implicit int/float coercion in arithmetic, AND/OR
short circuit, …; type mismatch / missing field / arithmetic fault = error for that point), and the result
depends only on the expression, the point and the earlier points of the same group — never on which field
types or other groups the compiled expression saw before.
-/
import Kap.Proofs.C04
import Kap.Proofs.C04Cache
import Kap.Proofs.C04Trap
import Kap.Proofs.C04Ref
import Kap.Proofs.C04Point
import Kap.Proofs.C04World
import Kap.Proofs.C04Re
import Kap.Gen.C04Sigs
import Kap.Model.C04Legacy
import Kap.Gen.C04
namespace Kap.Props.C04
open Kap.C04

/-! ### The operator table, regenerated from `evaluation_funcs.go` on every run -/

/-- Every extracted entry is the canonical one for its key (decided on the regenerated table). -/
theorem table_canonical : Gen.table.all canon = true := by decide

/-- **table_sound.** For every key `(op, lt, rt)` of the table as it is in the source now: the entry
evaluates the left operand with the `EvalX` of `lt` and the right one with that of `rt`, AND/OR (and only
they) short-circuit, the declared return type is the documented result type, and on EVERY pair of values of
these types the entry computes exactly the reference operator `refBinop` — for any float arithmetic and any
regex matcher. -/
theorem table_sound {F : Type} (ops : FOps F) (reMatch : Bytes → Bytes → Option Bool) :
    ∀ e ∈ Gen.table,
      e.lm = e.lt ∧ e.rm = e.rt ∧ binType e.op e.lt e.rt = some e.ret ∧
      (e.shape = .andSC ↔ e.op = .and) ∧ (e.shape = .orSC ↔ e.op = .or) ∧ e.shape ≠ .unknown ∧
      ∀ vl vr : Value F, vl.ty = e.lt → vr.ty = e.rt →
        e.compute ops reMatch vl vr = refBinop ops reMatch e.op vl vr := by
  intro e he
  have hc : canon e = true := List.all_eq_true.mp table_canonical e he
  have hs := hc
  simp only [canon, Bool.and_eq_true, beq_iff_eq] at hs
  obtain ⟨⟨⟨⟨⟨h1, h2⟩, _⟩, h4⟩, h5⟩, _⟩ := hs
  refine ⟨h1, h2, h4, ?_, ?_, ?_, fun vl vr hl hr => (canon_sound ops reMatch e hc vl vr hl hr).1⟩
  · rw [h5]; cases e.op <;> simp
  · rw [h5]; cases e.op <;> simp
  · rw [h5]; cases e.op <;> simp

/-- No key occurs twice, so `lookup` finds THE entry of a key. -/
theorem table_keys_unique : (Gen.table.map (fun e => (e.op, e.lt, e.rt))).Nodup := by decide

/-- **table_complete_no_coercion.** The key set of the table is exactly the documented matrix `binType`:
an operator applies to a pair of types iff the documentation says so, with the documented result type. -/
theorem table_complete (op : BOp) (lt rt : Ty) :
    (lookup Gen.table op lt rt).map (·.ret) = binType op lt rt := by
  cases op <;> cases lt <;> cases rt <;> decide

/-- … in particular there is no arithmetic between an int and a float in either order. -/
theorem no_int_float_arithmetic :
    ∀ op ∈ [BOp.plus, .minus, .mult, .div, .mod],
      lookup Gen.table op .int .float = none ∧ lookup Gen.table op .float .int = none := by decide

/-- No entry panics on operands of its key types (zero divisors of `/` and `%` are guarded). -/
theorem table_no_trap {F : Type} (ops : FOps F) (reMatch : Bytes → Bytes → Option Bool) :
    ∀ e ∈ Gen.table, ∀ vl vr : Value F, vl.ty = e.lt → vr.ty = e.rt → e.compute ops reMatch vl vr ≠ .trap := by
  intro e he vl vr hl hr
  exact (canon_sound ops reMatch e (List.all_eq_true.mp table_canonical e he) vl vr hl hr).2

/-! ### The specialisation cache is transparent -/

/-- **cache_transparent.** For every expression (lambda nodes nested in it included), scope, requested type, function
state (the functions handed to the evaluation AND those owned by the lambda nodes, `FnState.lams`) and EVERY cache
satisfying `Inv` (nodes with a dynamic operand may hold arbitrary, stale types and an arbitrary or no
function; nodes with constant operands hold the function chosen at construction), the evaluator `evalC`
— which reads and writes the cache as the Go code does — returns the outcome and the function state of the
cache-erased evaluator `evalN`, and leaves a cache satisfying `Inv`. Holds for any table, signatures, float
operations and oracles. -/
theorem cache_transparent {F : Type} (ctx : Ctx F) (σ : Scope F) (e : Expr F) (w : Ty) (c : Cache)
    (st : FnState F) (h : Inv ctx e c) :
    (evalC ctx σ w e c st).1 = (evalN ctx σ w e st).1 ∧
    (evalC ctx σ w e c st).2.2 = (evalN ctx σ w e st).2 ∧
    Inv ctx e (evalC ctx σ w e c st).2.1 :=
  evalC_eq_evalN ctx σ e w c st h

/-- The cache after `NewExpression` and after ANY sequence of evaluations (any entry path, any scope, the
function state of any group) satisfies `Inv`. -/
theorem reachable_cache_inv {F : Type} (ctx : Ctx F) (e : Expr F) (pre : List (Path × Scope F × FnState F)) :
    Inv ctx e (reach ctx e pre) :=
  reach_inv ctx e pre

/-- **history_independent.** What a point answers through any entry path (`Eval`, `Type`+`EvalBool`, direct
`EvalX`, `Type`) and the function state it leaves depend on the expression, the scope and the function
state `st` only: two arbitrary pre-histories of the SAME compiled expression — other field types, ill-typed
points, other groups (`CopyReset` copies share the node evaluators without a lambda node below them, and their
cache), other entry paths — give the same answer: the specialisation CACHE carries nothing from one evaluation to
the next. No bound on the histories or on the expression. `st` is the state of the asking copy alone: its own
functions and those of its own lambda nodes (`st.lams`; they were shared between the copies until `fix:` 8ed14ac,
see `old_nested_lambda_state_shared` / `nested_lambda_per_copy` below, where the cache a copy sees is put together
from its own and the shared node evaluators and satisfies the same invariant). -/
theorem history_independent {F : Type} (ctx : Ctx F) (e : Expr F)
    (pre₁ pre₂ : List (Path × Scope F × FnState F)) (p : Path) (σ : Scope F) (st : FnState F) :
    (runPath ctx σ p e (reach ctx e pre₁) st).1 = (runPath ctx σ p e (reach ctx e pre₂) st).1 ∧
    (runPath ctx σ p e (reach ctx e pre₁) st).2.2 = (runPath ctx σ p e (reach ctx e pre₂) st).2.2 := by
  obtain ⟨a1, a2, _⟩ := runPath_eq ctx σ p e _ st (reach_inv ctx e pre₁)
  obtain ⟨b1, b2, _⟩ := runPath_eq ctx σ p e _ st (reach_inv ctx e pre₂)
  exact ⟨a1.trans b1.symm, a2.trans b2.symm⟩

/-- non-vacuity: `Inv` admits a stale cache on a dynamic node (`"a" + 1` specialised to float + string,
which is not even a key) … -/
example {F : Type} (ctx : Ctx F) :
    Inv ctx (.bin .plus (.ref "a") (.lit (.int 1))) (.node .float .string none .leaf .leaf .leaf) := by
  simp [Kap.C04.Inv, isDyn]

/-! ### No evaluation panics -/

/-- **no_trap.** With the operator table as it is in the source now, no evaluation of any expression against
any scope, through any entry path, in any function state, after any history, panics: zero divisors of the
integer and duration `/` and `%` are errors, `strSubstring` checks `0 ≤ start ≤ stop ≤ len` before slicing, a
call with too many arguments is a signature error. (External library calls are outside the model; they are
total Go functions.) -/
theorem no_trap {F : Type} (ctx : Ctx F) (htbl : ctx.tbl = Gen.table) (e : Expr F)
    (pre : List (Path × Scope F × FnState F)) (p : Path) (σ : Scope F) (st : FnState F) :
    (runPath ctx σ p e (reach ctx e pre) st).1 ≠ .trap := by
  have ht : TblNoTrap ctx := by
    intro ent hm vl vr hl hr
    rw [htbl] at hm
    obtain ⟨h1, h2, _⟩ := table_sound ctx.ops ctx.reMatch ent hm
    exact table_no_trap ctx.ops ctx.reMatch ent hm vl vr (hl.trans h1) (hr.trans h2)
  rw [(runPath_eq ctx σ p e _ st (reach_inv ctx e pre)).1]
  exact runPathN_trap ctx σ ht p e st

/-- Every value an `EvalX` returns has type X (the type guards are complete). -/
theorem result_has_requested_type {F : Type} (ctx : Ctx F) (σ : Scope F) (e : Expr F) (w : Ty) (st : FnState F)
    (v : Value F) (h : (evalN ctx σ w e st).1 = .ok v) : v.ty = w :=
  evalN_ty ctx σ e w st v h

/-! ### Agreement with the reference semantics -/

/-- the regenerated table has what the agreement proof needs (completeness + canonical entries). -/
theorem gen_table_ok : TblOK Gen.table :=
  ⟨table_complete, fun e he => List.all_eq_true.mp table_canonical e he⟩

/-- the signatures of the linked kapacitor declare, for the builtins the model defines itself, the type
these builtins return (`count` int, `sigma`/`spread` float, `isPresent` bool, `if(bool, T, T)` T), and no
builtin is declared to return a missing or invalid value. Decided on the regenerated signature table. -/
theorem gen_sigs_ok : Gen.sigs.all nativeSigOK = true := by decide

/-- **builtins_classified** (fail closed). Every builtin registered in functions.go as it is now (names extracted
from the source) and every name with a signature in the linked package is either defined by the model and the
reference themselves (`Lib.nativeFns`, the rune-set string functions `strTrim strTrimLeft strTrimRight strContainsAny
strIndexAny strLastIndexAny` included), or explicitly an external library call (`Lib.oracleFns`: transcendental and
rounding math, regex, time-zone, float/duration parsing and formatting, Unicode case mapping and white space,
`humanBytes`), or explicitly outside the model (`rand`, `now`). A builtin added to functions.go breaks this theorem
instead of being silently answered by the oracle; a name in none of the lists evaluates to an error in the model. -/
theorem builtins_classified :
    (Gen.builtinNames.all fun n => Lib.nativeFns.contains n || Lib.oracleFns.contains n || Lib.unmodelledFns.contains n) = true ∧
    (Gen.sigs.all fun s => Lib.nativeFns.contains s.name || Lib.oracleFns.contains s.name || Lib.unmodelledFns.contains s.name) = true ∧
    (Lib.nativeFns.all fun n => Gen.builtinNames.contains n) = true ∧
    (Lib.oracleFns.all fun n => Gen.builtinNames.contains n) = true := by decide

/-- **agrees_with_reference** — the headline claim. For the operator table and the builtin signatures as
they are in the source now, any float arithmetic, any regex matcher and any library oracle that returns
values of the declared types: on EVERY point at which the expression is well typed in the reference typing
`typeRef` (documented operator matrix, signatures; expression of any size, no missing-value literal — the
language has none), the evaluator asked for that type returns exactly the outcome of the big-step reference
semantics `valRef` — the value, or an error when evaluation faults (zero divisor, rejected library call) —
and steps the stateful functions exactly as the reference's histories do (`StateRel` is preserved). Lambda nodes
nested in the expression are covered: the body runs with the lambda node's own functions, which `StateRel` relates
to the lambda's own history (`Hist.lams`) — for ONE evaluation context; who shares that state with whom is the
subject of `nested_lambda_per_copy`. -/
theorem agrees_with_reference {F : Type} (ctx : Ctx F) (htbl : ctx.tbl = Gen.table) (hsigs : ctx.sigs = Gen.sigs)
    (horacle : ∀ fn args v t, ctx.call fn args = some (.ok v) → sigType ctx fn (args.map Value.ty) = some t → v.ty = t)
    (σ : Scope F) (e : Expr F) (t : Ty) (st : FnState F) (h : Hist F)
    (hwf : noMissingLit e = true) (hr : StateRel ctx st h) (ht : typeRef ctx σ e = some t) :
    (evalN ctx σ t e st).1 = (valRef ctx σ e h).1 ∧ StateRel ctx (evalN ctx σ t e st).2 (valRef ctx σ e h).2 := by
  have hT : TblOK ctx.tbl := htbl ▸ gen_table_ok
  have hF : FnOK ctx := ⟨fun s hs => List.all_eq_true.mp gen_sigs_ok s (hsigs ▸ hs), horacle⟩
  exact agree_all ctx σ hT hF e hwf t st h hr ht

/-- the state of a fresh expression instance (`NewExpression`, `CopyReset`) represents the empty history. -/
theorem fresh_state_is_empty_history {F : Type} (ctx : Ctx F) : StateRel ctx (FnState.init ctx.ops) {} :=
  stateRel_init ctx

/-- the answers of one group: `Expression.Eval` on each of its points in turn (cache and state threaded). -/
def runEvals {F : Type} (ctx : Ctx F) (e : Expr F) : List (Scope F) → Cache → FnState F → List (Outcome (Value F))
  | [], _, _ => []
  | σ :: rest, c, st =>
    (runPath ctx σ .eval e c st).1 :: runEvals ctx e rest (runPath ctx σ .eval e c st).2.1 (runPath ctx σ .eval e c st).2.2

/-- the reference answers for the same points: `valRef` with the history threaded. -/
def refEvals {F : Type} (ctx : Ctx F) (e : Expr F) : List (Scope F) → Hist F → List (Outcome (Value F))
  | [], _ => []
  | σ :: rest, h => (valRef ctx σ e h).1 :: refEvals ctx e rest (valRef ctx σ e h).2

/-- **eval_history_is_reference.** Through the real entry path (`Expression.Eval`: `Type`, `EvalX` by type,
with the specialisation cache): for a compiled expression in ANY cache state the evaluator can be in
(`Inv`: after any earlier evaluations for any groups, see `reachable_cache_inv`) and a group whose function
state represents its history, the answers to ANY sequence of points that are well typed with a value type are
exactly the reference answers for that sequence — values, run-time faults as errors, stateful functions
over the group's own history. No bound on the sequence or the expression. -/
theorem eval_history_is_reference {F : Type} (ctx : Ctx F) (htbl : ctx.tbl = Gen.table) (hsigs : ctx.sigs = Gen.sigs)
    (horacle : ∀ fn args v t, ctx.call fn args = some (.ok v) → sigType ctx fn (args.map Value.ty) = some t → v.ty = t)
    (e : Expr F) (hwf : noMissingLit e = true) (pts : List (Scope F)) :
    (∀ σ ∈ pts, ∃ t, typeRef ctx σ e = some t ∧ isValTy t = true) →
    ∀ (c : Cache) (st : FnState F) (h : Hist F), Inv ctx e c → StateRel ctx st h →
      runEvals ctx e pts c st = refEvals ctx e pts h := by
  have hT : TblOK ctx.tbl := htbl ▸ gen_table_ok
  have hF : FnOK ctx := ⟨fun s hs => List.all_eq_true.mp gen_sigs_ok s (hsigs ▸ hs), horacle⟩
  induction pts with
  | nil => intro _ c st h _ _; rfl
  | cons σ rest ih =>
    intro hall c st h hinv hr
    obtain ⟨t, ht, hv⟩ := hall σ (List.mem_cons_self ..)
    obtain ⟨p1, p2, p3⟩ := runPath_eq ctx σ .eval e c st hinv
    obtain ⟨q1, q2⟩ := runPathN_agree ctx σ hT hF e .eval t st h hwf hr ht (Or.inl ⟨rfl, hv⟩)
    simp only [runEvals, refEvals]
    rw [p1, q1]
    congr 1
    exact ih (fun σ' hm => hall σ' (List.mem_cons_of_mem _ hm)) _ _ _ p3 (p2 ▸ q2)

/-- the predicate path (`EvalPredicate` after `fillScope`: `Type`, then `EvalBool`) on a boolean point, in any
reachable cache state. -/
theorem predicate_is_reference {F : Type} (ctx : Ctx F) (htbl : ctx.tbl = Gen.table) (hsigs : ctx.sigs = Gen.sigs)
    (horacle : ∀ fn args v t, ctx.call fn args = some (.ok v) → sigType ctx fn (args.map Value.ty) = some t → v.ty = t)
    (e : Expr F) (hwf : noMissingLit e = true) (pre : List (Path × Scope F × FnState F))
    (σ : Scope F) (st : FnState F) (h : Hist F) (hr : StateRel ctx st h) (ht : typeRef ctx σ e = some .bool) :
    (runPath ctx σ .pred e (reach ctx e pre) st).1 = (valRef ctx σ e h).1 ∧
    StateRel ctx (runPath ctx σ .pred e (reach ctx e pre) st).2.2 (valRef ctx σ e h).2 := by
  have hT : TblOK ctx.tbl := htbl ▸ gen_table_ok
  have hF : FnOK ctx := ⟨fun s hs => List.all_eq_true.mp gen_sigs_ok s (hsigs ▸ hs), horacle⟩
  obtain ⟨p1, p2, _⟩ := runPath_eq ctx σ .pred e _ st (reach_inv ctx e pre)
  obtain ⟨q1, q2⟩ := runPathN_agree ctx σ hT hF e .pred .bool st h hwf hr ht (Or.inr (Or.inl ⟨rfl, rfl⟩))
  exact ⟨p1.trans q1, p2 ▸ q2⟩

/-- **fillScope_denotes.** `fillScope` (root package, `EvalPredicate`) fails exactly when some reference of the
expression names both a field and a tag of the point, and otherwise binds every reference to what it denotes:
`time` the point's time, else the field, else the tag (as a string), else the missing value. -/
theorem fillScope_denotes {F : Type} (refs : List String) (p : Point F) :
    (fillScope refs p = none ↔ ∃ n ∈ refs, denote p n = none) ∧
    (∀ σ, fillScope refs p = some σ → ∀ n ∈ refs, Scope.get σ n = denote p n) :=
  fillScope_spec refs p

/-- **point_predicate_is_reference.** `kapacitor.EvalPredicate` against a point, in any reachable cache state:
an ambiguous reference is an error; otherwise, when the predicate is well typed (boolean) under the bindings
`fillScope` made (characterised by `fillScope_denotes`), the answer is the reference value of the predicate
under these bindings, and the group's stateful functions step as the reference's. -/
theorem point_predicate_is_reference {F : Type} (ctx : Ctx F) (htbl : ctx.tbl = Gen.table) (hsigs : ctx.sigs = Gen.sigs)
    (horacle : ∀ fn args v t, ctx.call fn args = some (.ok v) → sigType ctx fn (args.map Value.ty) = some t → v.ty = t)
    (e : Expr F) (hwf : noMissingLit e = true) (pre : List (Path × Scope F × FnState F))
    (p : Point F) (st : FnState F) (h : Hist F) (hr : StateRel ctx st h) :
    ((∃ n ∈ refsOf e, denote p n = none) → (evalPoint ctx e p (reach ctx e pre) st).1 = .err) ∧
    (∀ σ, fillScope (refsOf e) p = some σ → typeRef ctx σ e = some .bool →
      (evalPoint ctx e p (reach ctx e pre) st).1 = (valRef ctx σ e h).1 ∧
      StateRel ctx (evalPoint ctx e p (reach ctx e pre) st).2.2 (valRef ctx σ e h).2) := by
  constructor
  · intro hamb
    have := ((fillScope_spec (refsOf e) p).1).mpr hamb
    simp [evalPoint, this]
  · intro σ hσ ht
    simp only [evalPoint, hσ]
    exact predicate_is_reference ctx htbl hsigs horacle e hwf pre σ st h hr ht

/-- non-vacuity: `count() * "a" > 15` is well typed for an integer and for a duration-free scope, the fresh state
represents the empty history, and the reference counts across the two points (10·1 > 15 is false, 10·2 > 15 true). -/
example :
    let ctx : Ctx Int := { ops := Legacy.toyOps, tbl := Gen.table, sigs := Gen.sigs, reMatch := fun _ _ => none, call := fun _ _ => none }
    let e : Expr Int := .bin .gt (.bin .mult (.call0 "count") (.ref "a")) (.lit (.int 15))
    noMissingLit e = true ∧ typeRef ctx [("a", .int 10)] e = some .bool ∧
    refEvals ctx e [[("a", .int 10)], [("a", .int 10)]] {} = [.ok (.bool false), .ok (.bool true)] := by
  decide

/-! ### Counterexamples: the evaluator of snapshot ef0888e (model `Kap.C04.Legacy`) is NOT transparent -/

open Kap.C04.Legacy in
/-- `"a" + 1` asked directly: after ONE point with a float `a` the node holds no function, and the
well-typed point `a = 2` is an error — a fresh node answers 3 (repaired by 043a5af;
corpus/C04/poison-direct-evalint.ops). -/
theorem legacy_poisoned_by_one_point :
    let l := Leaf.ref "a"; let r := Leaf.lit (.int 1)
    let c0 := initCache Gen.table .plus l r
    let c1 := (direct Gen.table [("a", .float 1)] .plus l r c0 0).2.1
    out (direct Gen.table [("a", .int 2)] .plus l r c0 0) = some (some (.int 3)) ∧
    out (direct Gen.table [("a", .int 2)] .plus l r c1 0) = some none ∧
    out (viaType Gen.table [("a", .int 2)] .plus l r c1 0) = some none := by decide

open Kap.C04.Legacy in
/-- `!"x" AND TRUE` (constant operand types): one point with an integer `x` destroys the specialisation;
`x = false` is an error for ever, a fresh node answers TRUE (repaired by 325c5ee;
corpus/C04/poison-constant-node.ops). -/
theorem legacy_constant_node_poisoned :
    let l := Leaf.notRef "x"; let r := Leaf.lit (.bool true)
    let c0 := initCache Gen.table .and l r
    let c1 := (direct Gen.table [("x", .int 1)] .and l r c0 0).2.1
    out (direct Gen.table [("x", .bool false)] .and l r c0 0) = some (some (.bool true)) ∧
    out (direct Gen.table [("x", .bool false)] .and l r c1 0) = some none := by decide

open Kap.C04.Legacy in
/-- `count() * "a"` through `Eval`: `a` an int at the first point, a duration at the second. The retry after
the right operand's guard failure evaluates `count()` again: 3·10s instead of 2·10s (repaired by 043a5af;
corpus/C04/stateful-left-evaluated-twice.ops). -/
theorem legacy_retry_steps_twice :
    let l := Leaf.count; let r := Leaf.ref "a"
    let c0 := initCache Gen.table .mult l r
    let s1 := viaType Gen.table [("a", .int 10)] .mult l r c0 0
    out s1 = some (some (.int 10)) ∧
    out (viaType Gen.table [("a", .dur 10)] .mult l r s1.2.1 s1.2.2) = some (some (.dur 30)) ∧
    out (viaType Gen.table [("a", .dur 10)] .mult l r c0 1) = some (some (.dur 20)) := by decide

open Kap.C04.Legacy in
/-- `-'a' == 'b'`: the guard failure reports the type the node already has, the retry changes nothing and
recurses: 40 nested calls later the node is in the state it started in (Go: fatal stack overflow; repaired
by 325c5ee; corpus/C04/unary-minus-on-string-recursion.ops). -/
theorem legacy_retry_never_terminates :
    let l := Leaf.negLit (.str [97]); let r := Leaf.lit (.str [98])
    out (direct Gen.table [] .eq l r (initCache Gen.table .eq l r) 0) = none := by decide

/-! ### Lambda nodes nested in an expression, and the groups that use copies of it

`World` (Kap/Model/C04.lean) is what exists at run time for one compiled expression used by several groups since
`fix:` 8ed14ac: every `CopyReset` copy has its own `Funcs`, its own lambda nodes with their states and its own copies of
the node evaluators above a lambda node; all other node evaluators (and their cache) exist once. `OldWorld` is the code
before the fix: ONE state per lambda node for all copies. `refRun` gives every group its own histories. -/

/-- a toy context (integers for floats) with the real table and signatures, for the decided witnesses. -/
def toyCtx : Ctx Int :=
  { ops := Legacy.toyOps, tbl := Gen.table, sigs := Gen.sigs, reMatch := fun _ _ => none, call := fun _ _ => none }

/-- Counterexample about the code BEFORE 8ed14ac (was finding `nested-lambda-state-shared`, regression witness
corpus/C04/fixed-nested-lambda-state-shared.ops): `(lambda: count()) > 1` asked once by group 0 and once by group 1
through the predicate path, both points well typed: the lambda node's single counter made group 1's FIRST point answer
true; the reference answers false twice — and so does the world of today's code. -/
theorem old_nested_lambda_state_shared :
    let e : Expr Int := .bin .gt (.lam 0 (.call0 "count")) (.lit (.int 1))
    let qs : List (Question Int) := [(0, .pred, []), (1, .pred, [])]
    noMissingLit e = true ∧ (∀ q ∈ qs, askable toyCtx e q = true) ∧ statefulLam e = true ∧
    OldWorld.run toyCtx e (OldWorld.init toyCtx e) qs = [.ok (.bool false), .ok (.bool true)] ∧
    refRun toyCtx e (fun _ => {}) qs = [.ok (.bool false), .ok (.bool false)] ∧
    World.run toyCtx e (World.init toyCtx e) qs = [.ok (.bool false), .ok (.bool false)] := by decide

/-- **nested_lambda_per_copy** — agreement with the reference for SEVERAL groups using `CopyReset` copies of one
compiled expression, lambda nodes included, with no exception. For the table and signatures as they are in the source
now, any float arithmetic, regex matcher and type-respecting library oracle, any expression (lambda nodes nested to any
depth, stateful functions anywhere), any sequence of questions (group, entry path, scope) at well-typed points, asked in
any interleaving of the groups of the freshly compiled expression and its copies: the answers of the code's world — the
copies share every node evaluator without a lambda node below it, cache included, and own everything else — are exactly
the reference answers, in which every group has its own histories. (Until 8ed14ac this needed the proviso "no nested
lambda calls a stateful function, or one group asks": `old_nested_lambda_state_shared`.) -/
theorem nested_lambda_per_copy {F : Type} (ctx : Ctx F) (htbl : ctx.tbl = Gen.table) (hsigs : ctx.sigs = Gen.sigs)
    (horacle : ∀ fn args v t, ctx.call fn args = some (.ok v) → sigType ctx fn (args.map Value.ty) = some t → v.ty = t)
    (e : Expr F) (hwf : noMissingLit e = true) (qs : List (Question F))
    (hq : ∀ q ∈ qs, askable ctx e q = true) :
    World.run ctx e (World.init ctx e) qs = refRun ctx e (fun _ => {}) qs := by
  have hT : TblOK ctx.tbl := htbl ▸ gen_table_ok
  have hF : FnOK ctx := ⟨fun s hs => List.all_eq_true.mp gen_sigs_ok s (hsigs ▸ hs), horacle⟩
  exact world_agree ctx hT hF e hwf qs hq _ _ (world_init_inv ctx e) (fun g => world_init_rel ctx e g)

/-- **copy_reset_any_time** — the same with `CopyReset` at ANY time (not only before the first evaluation, as in
`World.init`): any sequence of questions at well-typed points and of `CopyReset`s that (re)make a copy from the compiled
expression, which may itself have been evaluated in between. The answers are the reference answers in which a copy
starts with empty histories when it is made and no group's history is touched by another group's questions or copies. -/
theorem copy_reset_any_time {F : Type} (ctx : Ctx F) (htbl : ctx.tbl = Gen.table) (hsigs : ctx.sigs = Gen.sigs)
    (horacle : ∀ fn args v t, ctx.call fn args = some (.ok v) → sigType ctx fn (args.map Value.ty) = some t → v.ty = t)
    (e : Expr F) (hwf : noMissingLit e = true) (ops : List (WOp F))
    (hq : ∀ o ∈ ops, o.askable ctx e = true) :
    World.runOps ctx e (World.init ctx e) ops = refRunOps ctx e (fun _ => {}) ops := by
  have hT : TblOK ctx.tbl := htbl ▸ gen_table_ok
  have hF : FnOK ctx := ⟨fun s hs => List.all_eq_true.mp gen_sigs_ok s (hsigs ▸ hs), horacle⟩
  exact world_agree_ops ctx hT hF e hwf ops hq _ _ (world_init_inv ctx e) (fun g => world_init_rel ctx e g)

/-- non-vacuity of `nested_lambda_per_copy`: the stateful nested lambda of the former finding, two groups interleaved
through three entry paths — each group's lambda counts that group's points only … -/
example :
    let e : Expr Int := .bin .gt (.lam 0 (.call0 "count")) (.lit (.int 1))
    let qs : List (Question Int) := [(4, .pred, []), (7, .pred, []), (4, .eval, []), (7, .direct .bool, []), (4, .direct .bool, [])]
    noMissingLit e = true ∧ (∀ q ∈ qs, askable toyCtx e q = true) ∧ statefulLam e = true ∧
    World.run toyCtx e (World.init toyCtx e) qs =
      [.ok (.bool false), .ok (.bool false), .ok (.bool true), .ok (.bool true), .ok (.bool true)] := by decide

/-- … and a STATELESS nested lambda (`lambda: "a" * 2`) inside a stateful expression, two groups interleaved: each
group counts its own points. -/
example :
    let e : Expr Int := .bin .gt (.bin .mult (.call0 "count") (.lam 0 (.bin .mult (.ref "a") (.lit (.int 2))))) (.lit (.int 15))
    let σ : Scope Int := [("a", .int 5)]
    let qs : List (Question Int) := [(0, .pred, σ), (1, .pred, σ), (0, .pred, σ), (1, .eval, σ)]
    noMissingLit e = true ∧ (∀ q ∈ qs, askable toyCtx e q = true) ∧ statefulLam e = false ∧
    refRun toyCtx e (fun _ => {}) qs = [.ok (.bool false), .ok (.bool false), .ok (.bool true), .ok (.bool true)] := by decide

/-- non-vacuity of `copy_reset_any_time`: a copy made after the original has counted two points starts counting at
one, and re-making it resets it; the original goes on counting. -/
example :
    let e : Expr Int := .bin .gt (.lam 0 (.call0 "count")) (.lit (.int 1))
    let ops : List (WOp Int) := [.ask (0, .pred, []), .ask (0, .pred, []), .copy 3, .ask (3, .pred, []), .ask (0, .pred, []),
      .ask (3, .pred, []), .copy 3, .ask (3, .eval, [])]
    (∀ o ∈ ops, o.askable toyCtx e = true) ∧
    World.runOps toyCtx e (World.init toyCtx e) ops =
      [.ok (.bool false), .ok (.bool true), .ok (.bool false), .ok (.bool true), .ok (.bool true), .ok (.bool false)] := by
  decide

/-- the lambda node keeps its OWN functions, separate from the enclosing expression's (`count()` outside and inside
count independently: 1·1, 2·2, 3·3), in the evaluator and in the reference alike. -/
example :
    let e : Expr Int := .bin .mult (.call0 "count") (.lam 7 (.call0 "count"))
    let qs : List (Question Int) := [(0, .eval, []), (0, .eval, []), (0, .eval, [])]
    World.run toyCtx e (World.init toyCtx e) qs = [.ok (.int 1), .ok (.int 4), .ok (.int 9)] ∧
    refRun toyCtx e (fun _ => {}) qs = [.ok (.int 1), .ok (.int 4), .ok (.int 9)] := by decide

/-! ### The defined regex fragment behind `=~` / `!~`: literal bytes and the text anchors `^ \A $ \z`

For patterns of this fragment (`Re.atoms`, Model/C04Re.lean) the matcher is DEFINED in the model (`Re.matchB`) and used by
model and reference alike instead of the library oracle; the correspondence run compares it with the real evaluator and
with `regexp.MatchString` on pattern / subject pairs generated to separate the readings of a pattern. -/

/-- **regex_fragment_is_search_semantics.** For EVERY sequence of atoms (byte, beginning of text, end of text - in any order
and number) and EVERY subject, the scanning matcher answers true exactly when the pattern matches the subject in the
declarative semantics of an unanchored regex search (`Re.Matches`: the subject can be cut at a position from which the atoms
match one after the other, a byte consuming that byte, `^` holding only with nothing before, `$` only with nothing after). -/
theorem regex_fragment_is_search_semantics (as : List Re.Atom) (s : Bytes) :
    Re.matchB as s = true ↔ Re.Matches as s := Re.matchB_iff as s

/-- **regex_anchored_literal_closed_form.** What literals and anchors mean: for a pattern of the shape `[^] literal [$]`
(`Re.shape`), on EVERY subject: both anchors - the subject IS the literal; `^` only - the literal is a prefix; `$` only - a
suffix; no anchor - the literal occurs somewhere in the subject. (An evaluator that answers an anchored literal by a
substring search, or drops one of the anchors, contradicts this on every subject that contains the literal properly.) -/
theorem regex_anchored_literal_closed_form (as : List Re.Atom) (st en : Bool) (w s : Bytes)
    (h : Re.shape as = some (st, w, en)) :
    Re.matchB as s = true ↔
      (match st, en with
       | true, true => s = w
       | true, false => w <+: s
       | false, true => w <:+ s
       | false, false => w <:+: s) := by
  have hs := Re.shape_sound as st en w h
  subst hs
  rw [Re.matchB_iff]
  cases st <;> cases en
  · simpa [Re.ofShape] using Re.matches_lits w s
  · simpa [Re.ofShape] using Re.matches_lits_eol w s
  · simpa [Re.ofShape] using Re.matches_bol_lits w s
  · simpa [Re.ofShape] using Re.matches_bol_lits_eol w s

/-- non-vacuity: `/^web01$/`, `/\Aweb01\z/` and `/^a\.b$/` are patterns of the fragment, of the anchored-literal shape. -/
example :
    (Re.atoms [0x5E, 0x77, 0x65, 0x62, 0x30, 0x31, 0x24]).bind Re.shape = some (true, [0x77, 0x65, 0x62, 0x30, 0x31], true) ∧
    (Re.atoms [0x5C, 0x41, 0x77, 0x65, 0x62, 0x30, 0x31, 0x5C, 0x7A]).bind Re.shape = some (true, [0x77, 0x65, 0x62, 0x30, 0x31], true) ∧
    (Re.atoms [0x5E, 0x61, 0x5C, 0x2E, 0x62, 0x24]).bind Re.shape = some (true, [0x61, 0x2E, 0x62], true) ∧
    Re.atoms [0x5E, 0x61, 0x2E, 0x62, 0x24] = none ∧          -- `/^a.b$/`: an unescaped dot is outside the fragment
    Re.atoms [0x28, 0x3F, 0x69, 0x29, 0x61] = none := by decide  -- `/(?i)a/` too

/-- **regex_operator_on_anchored_literal.** The reference operators on such a pattern, for any matcher that answers the
patterns of the fragment by the definition (as the driver's does): `s =~ /^w$/` is `s = w` and `s !~ /^w$/` is `s ≠ w` -
whatever else `s` contains. With `table_sound` this is what the `=~` / `!~` entries of evaluation_funcs.go compute. -/
theorem regex_operator_on_anchored_literal {F : Type} (ops : FOps F) (reMatch : Bytes → Bytes → Option Bool)
    (hre : ∀ p s b, Re.native p s = some b → reMatch p s = some b)
    (p w s : Bytes) (as : List Re.Atom) (hp : Re.atoms p = some as) (hs : Re.shape as = some (true, w, true)) :
    refBinop ops reMatch .reEq (.str s) (.regex p) = .ok (.bool (decide (s = w))) ∧
    refBinop ops reMatch .reNe (.str s) (.regex p) = .ok (.bool (!decide (s = w))) := by
  have hcf := regex_anchored_literal_closed_form as true true w s hs
  have hb : Re.matchB as s = decide (s = w) := by
    cases hm : Re.matchB as s
    · have : ¬ s = w := fun e => by rw [hcf.2 e] at hm; cases hm
      simp [this]
    · simp [hcf.1 hm]
  have hn : reMatch p s = some (decide (s = w)) := hre p s _ (by simp [Re.native, hp, hb])
  simp [refBinop, hn]

/-- **anchored_literal_is_not_a_substring_search** (the separating input). `/^web01$/` against `web011`: the subject
contains the literal (`strings.Contains` is true), the pattern does not match it; against `web01` it does. -/
theorem anchored_literal_is_not_a_substring_search :
    let p : Bytes := [0x5E, 0x77, 0x65, 0x62, 0x30, 0x31, 0x24]
    let w : Bytes := [0x77, 0x65, 0x62, 0x30, 0x31]
    Re.native p (w ++ [0x31]) = some false ∧ Lib.contains (w ++ [0x31]) w = true ∧
    Re.native p ([0x78] ++ w) = some false ∧ Lib.contains ([0x78] ++ w) w = true ∧
    Re.native p w = some true := by decide

end Kap.Props.C04
