import Kap.Spec.C04
import Kap.Gen.C04
namespace Kap.Props.C04
end Kap.Props.C04
