import Kap.Gen.C05
namespace Kap.Props.C05
open Kap.C05

/-- placeholder, replaced below -/
theorem getNode_total (tag : String) : getNode Gen.getNodeTags (Gen.getNodeDefaultErr == some true) tag ≠ .trap := by
  unfold getNode
  split
  · simp
  · simp [Gen.getNodeDefaultErr]

end Kap.Props.C05
