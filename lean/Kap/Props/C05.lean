/-
C05 — property theorems (every `theorem` in this module is a proof obligation; `bin/check C05` audits each
one's axioms). Helper lemmas live in Kap/Proofs/C05*.lean; `Kap.C05.Gen` is regenerated from the Go
source by extract/c05shapes on every run, so the theorems that mention `Gen.*` are re-checked against what
the code says now.

Statement (properties.jsonl): for every TICKscript text, template/vars document, JSON pipeline or lambda,
defining it returns either a task or an error: it never panics, hangs, leaks goroutines or terminates the
process. For every data point and every message from a UDF process, a running task reports an error for
that point/peer at most and keeps processing subsequent points; the process and all other tasks are
unaffected.

A panic is the explicit outcome `trap` / `propagates` of every model, a hang is `fuel`.
Nothing is left as a stated-only `…_stmt`. What is ASSUMED rather than proved is explicit in the statements:
`evaluate_never_panics` takes the answers of the library calls `eval` makes outside the closure of `evalFunc`
(`stateful.NewExpression` / `expr.Eval`, the property read path of `evalChain`) as inputs that are not
panics; node implementations and pipeline construction behind the reflective calls are not modelled (their
panics are inputs, shown to become errors); see checks/C05.json.
-/
import Kap.Proofs.C05
import Kap.Proofs.C05Udf
import Kap.Proofs.C05Rr
import Kap.Proofs.C05Bnd
import Kap.Proofs.C05Term
import Kap.Proofs.C05Part
import Kap.Proofs.C05Typ
import Kap.Proofs.C05Json
import Kap.Proofs.C05Len
import Kap.Proofs.C05Parse
import Kap.Proofs.C05Pos
import Kap.Proofs.C05Tags
import Kap.Proofs.C05PTerm
import Kap.Proofs.C05Eval
import Kap.Spec.C05
import Kap.Gen.C05
namespace Kap.Props.C05
open Kap.C05

/-! ### The scanner (tick/ast/lex.go), for EVERY byte string and every character-class oracle -/

/-- The repaired `peek` is what the source contains (extracted). -/
theorem source_peek_restores_width : Gen.peekRestoresWidth = some true := by decide

/-- **lexer_total + lexer_no_trap**: the scanner goroutine terminates within `10·len + 10` state-function
iterations, never evaluates a slice expression out of range (no run-time panic), and closes its channel. -/
theorem lexer_total (c : Ctx) (hf : c.fixed = true) : ∃ toks, lexRun c = .done toks := by
  have hg : Good c {} := ⟨rfl, by simp, by simp, by simp [Ctx.len], ⟨by simp, by simp⟩⟩
  obtain ⟨l', h, _⟩ := run_ok c hf (lexFuel c) {} .token hg trivial (by simp [mu, rank, lexFuel, Ctx.len])
  exact ⟨_, h⟩

/-- **lexer_in_bounds**: every token the scanner emits is a slice `[pos, pos+len)` inside the input, and the
tokens come in order without overlap (error tokens count with length 0). -/
theorem lexer_in_bounds (c : Ctx) (hf : c.fixed = true) (toks : List Tok) (h : lexRun c = .done toks) :
    (∀ t ∈ toks, 0 ≤ t.pos ∧ 0 ≤ tlen t ∧ t.pos + tlen t ≤ c.len) ∧
    toks.Pairwise (fun a b => a.pos + tlen a ≤ b.pos) := by
  have hg : Good c {} := ⟨rfl, by simp, by simp, by simp [Ctx.len], ⟨by simp, by simp⟩⟩
  obtain ⟨l', h', hfin⟩ := run_ok c hf (lexFuel c) {} .token hg trivial (by simp [mu, rank, lexFuel, Ctx.len])
  have e : toks = l'.toks.reverse := by
    have : LexOut.done toks = LexOut.done l'.toks.reverse := by rw [← h, ← h']; rfl
    exact LexOut.done.inj this
  subst e
  refine ⟨fun t ht => hfin.ti.tb t (List.mem_reverse.mp ht), ?_⟩
  exact List.pairwise_reverse.mpr hfin.ti.srt

example : lexRun { inp := [0x2F, 0xC3, 0xA9, 0x2F], cls := Cls.none } =
    .done [⟨tRegex, 0, some 4⟩, ⟨tEOF, 4, some 0⟩] := by decide

/-- **Exactly one terminal token, at the end**: the stream is `init ++ [last]`; every token of `init`
carries text and is not EOF; `last` is the error token or the EOF token, and the EOF token ends exactly at
the end of the input (the scanner never stops early and never emits anything after EOF / an error). -/
theorem lexer_single_terminal (c : Ctx) (hf : c.fixed = true) (toks : List Tok) (h : lexRun c = .done toks) :
    ∃ init last, toks = init ++ [last] ∧ (∀ t ∈ init, t.len ≠ none ∧ t.typ ≠ tEOF) ∧
      ((last.typ = tError ∧ last.len = none) ∨ (last.typ = tEOF ∧ last.len ≠ none ∧ last.pos + tlen last = c.len)) := by
  have hg : Good c {} := ⟨rfl, by simp, by simp, by simp [Ctx.len], ⟨by simp, by simp⟩⟩
  have hQ : Q ({} : Lx).toks := by intro t ht; cases ht
  obtain ⟨t, ts, h', h1, h2⟩ := run_term c hf (lexFuel c) {} .token hg trivial hQ (by simp [mu, rank, lexFuel, Ctx.len])
  have e : toks = (t :: ts).reverse := by
    have : LexOut.done toks = LexOut.done (t :: ts).reverse := by rw [← h, ← h']; rfl
    exact LexOut.done.inj this
  refine ⟨ts.reverse, t, by rw [e]; simp, fun u hu => h1 u (List.mem_reverse.mp hu), h2⟩

/-- **Tokens partition the input** (full strength): the property's own check `Kap.C05.lexSpec` — the walk
that the driver runs over the IMPLEMENTATION's token stream — accepts the model's token stream for every
input: tokens in order inside the input, the gaps between them WHITE SPACE only, no operator token typed
`TokenError`, exactly one terminal token, EOF with empty text at the end of the input. -/
theorem lexer_partition (c : Ctx) (hf : c.fixed = true) (toks : List Tok) (h : lexRun c = .done toks) :
    lexSpec c (.toks toks true) = none := by
  have hg : Good c {} := ⟨rfl, by simp, by simp, by simp [Ctx.len], ⟨by simp, by simp⟩⟩
  have hP : PI c {} := ⟨0, fun rest => by simp, by simp, SpaceRun.nil 0⟩
  obtain ⟨toks', h', hp⟩ := run_part c hf (lexFuel c) {} .token hg trivial hP rfl (by simp [mu, rank, lexFuel, Ctx.len])
  have e : toks = toks' := by
    have : LexOut.done toks = LexOut.done toks' := by rw [← h, ← h']; rfl
    exact LexOut.done.inj this
  subst e
  simpa [lexSpec] using hp

example : lexSpec { inp := [0x61, 0x20, 0x2F, 0xC3, 0xA9, 0x2F], cls := Cls.none }
    (.toks [⟨tIdent, 0, some 1⟩, ⟨tDiv, 2, some 1⟩, ⟨tError, 3, none⟩] true) = none := by decide

/-- **Real token types only**: every token the scanner emits carries one of the `TokenType` constants the
lexer uses — never a `begin_…/end_…` range marker, never a value above `TokenRegexNotEqual`. -/
theorem lexer_token_types_valid (c : Ctx) (hf : c.fixed = true) (toks : List Tok) (h : lexRun c = .done toks) :
    ∀ t ∈ toks, validType t.typ = true := by
  have hg : Good c {} := ⟨rfl, by simp, by simp, by simp [Ctx.len], ⟨by simp, by simp⟩⟩
  have hV : V ({} : Lx).toks := by intro t ht; cases ht
  obtain ⟨l', h', hv⟩ := run_valid c hf (lexFuel c) {} .token hg trivial hV (by simp [mu, rank, lexFuel, Ctx.len])
  have e : toks = l'.toks.reverse := by
    have : LexOut.done toks = LexOut.done l'.toks.reverse := by rw [← h, ← h']; rfl
    exact LexOut.done.inj this
  subst e
  exact fun t ht => hv t (List.mem_reverse.mp ht)

/-- … hence the parser's `precedence[look.typ]` behind `IsExprOperator(look.typ)` (markers extracted from the
`iota` block) indexes inside the 46-entry table: every real token type that passes `IsExprOperator` is at
most `TokenRegexNotEqual` = 45 and is a genuine operator. -/
theorem precedence_index_in_table :
    Gen.tokenConsts.lookup "begin_tok_operator" = some 25 ∧ Gen.tokenConsts.lookup "end_tok_operator" = some 47 ∧
    ∀ t ∈ validTypes, isExprOperator 25 47 t = true → t ≤ tRegexNotEqual ∧
      (t = tPlus ∨ t = tMinus ∨ t = tMult ∨ t = tDiv ∨ t = tMod ∨ t = tAnd ∨ t = tOr ∨ t = tEqual ∨ t = tNotEqual ∨
       t = tLess ∨ t = tGreater ∨ t = tLessEqual ∨ t = tGreaterEqual ∨ t = tRegexEqual ∨ t = tRegexNotEqual) := by
  decide

/-- **On rune boundaries**: every token starts and ends where a rune of the input starts (offsets reached
from 0 by decoding one rune after the other, `Bnd`) — no token ever cuts a multi-byte rune, which is what
the snapshot's `peek` got wrong. -/
theorem lexer_rune_boundaries (c : Ctx) (hf : c.fixed = true) (toks : List Tok) (h : lexRun c = .done toks) :
    ∀ t ∈ toks, Bnd c.inp t.pos ∧ Bnd c.inp (t.pos + tlen t) := by
  have hg : Good c {} := ⟨rfl, by simp, by simp, by simp [Ctx.len], ⟨by simp, by simp⟩⟩
  have hB : B c {} := ⟨Bnd.zero, Bnd.zero, by intro t ht; cases ht⟩
  obtain ⟨l', h', _, hb⟩ := run_bnd c hf (lexFuel c) {} .token hg trivial hB (by simp [mu, rank, lexFuel, Ctx.len])
  have e : toks = l'.toks.reverse := by
    have : LexOut.done toks = LexOut.done l'.toks.reverse := by rw [← h, ← h']; rfl
    exact LexOut.done.inj this
  subst e
  exact fun t ht => hb.bt t (List.mem_reverse.mp ht)

/-- Non-vacuity / counterexample: offset 2 of `/é/` (inside `é`) is no rune boundary, offsets 1 and 3 are. -/
theorem bnd_example : Bnd [0x2F, 0xC3, 0xA9, 0x2F] 1 ∧ Bnd [0x2F, 0xC3, 0xA9, 0x2F] 3 ∧ ¬ Bnd [0x2F, 0xC3, 0xA9, 0x2F] 2 := by
  have b1 : Bnd [0x2F, 0xC3, 0xA9, 0x2F] 1 := Bnd.step (p := 0) Bnd.zero (by decide) (by decide)
  have b3 : Bnd [0x2F, 0xC3, 0xA9, 0x2F] 3 := Bnd.step (p := 1) b1 (by decide) (by decide)
  refine ⟨b1, b3, ?_⟩
  -- every boundary is 0, 1, 3 or 4
  have key : ∀ p, Bnd [0x2F, 0xC3, 0xA9, 0x2F] p → p = 0 ∨ p = 1 ∨ p = 3 ∨ p = 4 := by
    intro p hp
    induction hp with
    | zero => exact Or.inl rfl
    | step _ h0 hlt ih =>
      rcases ih with rfl | rfl | rfl | rfl
      · right; left; decide
      · right; right; left; decide
      · right; right; right; decide
      · simp at hlt
  intro h2
  have := key 2 h2
  omega

/-- Counterexample (defect repaired by af76a39): with `peek` as it was at the snapshot, `/é/` drives the
cursor to -1 and the next `l.input[l.pos:]` panics in the lexer goroutine (the process dies). -/
theorem oldLexer_traps :
    (lexRun { inp := [0x2F, 0xC3, 0xA9, 0x2F], cls := Cls.none, fixed := false }).isTrap = true := by decide

/-- … and where it does not panic it mis-positions: in `a/,(/𝄞` the old scanner emits the single byte `/`
at offset 4 as a regex token after re-reading `/,(/` from offset 1. -/
theorem oldLexer_mispositions :
    lexRun { inp := [0x61, 0x2F, 0x2C, 0x28, 0x2F, 0xF0, 0x9D, 0x84, 0x9E], cls := Cls.none, fixed := false } =
      .done [⟨tIdent, 0, some 1⟩, ⟨tDiv, 1, some 1⟩, ⟨tComma, 2, some 1⟩, ⟨tLParen, 3, some 1⟩, ⟨tRegex, 4, some 1⟩,
             ⟨tError, 5, none⟩] := by decide

/-- The model's token numbering is the `iota` block of lex.go (extracted). -/
theorem token_constants_agree :
    Gen.tokenConsts.lookup "TokenError" = some tError ∧ Gen.tokenConsts.lookup "TokenEOF" = some tEOF ∧
    Gen.tokenConsts.lookup "TokenVar" = some tVar ∧ Gen.tokenConsts.lookup "TokenDBRP" = some tDBRP ∧
    Gen.tokenConsts.lookup "TokenAsgn" = some tAsgn ∧ Gen.tokenConsts.lookup "TokenDot" = some tDot ∧
    Gen.tokenConsts.lookup "TokenPipe" = some tPipe ∧ Gen.tokenConsts.lookup "TokenAt" = some tAt ∧
    Gen.tokenConsts.lookup "TokenIdent" = some tIdent ∧ Gen.tokenConsts.lookup "TokenReference" = some tReference ∧
    Gen.tokenConsts.lookup "TokenLambda" = some tLambda ∧ Gen.tokenConsts.lookup "TokenNumber" = some tNumber ∧
    Gen.tokenConsts.lookup "TokenString" = some tString ∧ Gen.tokenConsts.lookup "TokenDuration" = some tDuration ∧
    Gen.tokenConsts.lookup "TokenLParen" = some tLParen ∧ Gen.tokenConsts.lookup "TokenRParen" = some tRParen ∧
    Gen.tokenConsts.lookup "TokenLSBracket" = some tLSBracket ∧ Gen.tokenConsts.lookup "TokenRSBracket" = some tRSBracket ∧
    Gen.tokenConsts.lookup "TokenComma" = some tComma ∧ Gen.tokenConsts.lookup "TokenNot" = some tNot ∧
    Gen.tokenConsts.lookup "TokenTrue" = some tTrue ∧ Gen.tokenConsts.lookup "TokenFalse" = some tFalse ∧
    Gen.tokenConsts.lookup "TokenRegex" = some tRegex ∧ Gen.tokenConsts.lookup "TokenComment" = some tComment ∧
    Gen.tokenConsts.lookup "TokenStar" = some tStar ∧ Gen.tokenConsts.lookup "TokenPlus" = some tPlus ∧
    Gen.tokenConsts.lookup "TokenMinus" = some tMinus ∧ Gen.tokenConsts.lookup "TokenMult" = some tMult ∧
    Gen.tokenConsts.lookup "TokenDiv" = some tDiv ∧ Gen.tokenConsts.lookup "TokenMod" = some tMod ∧
    Gen.tokenConsts.lookup "TokenAnd" = some tAnd ∧ Gen.tokenConsts.lookup "TokenOr" = some tOr ∧
    Gen.tokenConsts.lookup "TokenEqual" = some tEqual ∧ Gen.tokenConsts.lookup "TokenNotEqual" = some tNotEqual ∧
    Gen.tokenConsts.lookup "TokenLess" = some tLess ∧ Gen.tokenConsts.lookup "TokenGreater" = some tGreater ∧
    Gen.tokenConsts.lookup "TokenLessEqual" = some tLessEqual ∧ Gen.tokenConsts.lookup "TokenGreaterEqual" = some tGreaterEqual ∧
    Gen.tokenConsts.lookup "TokenRegexEqual" = some tRegexEqual ∧ Gen.tokenConsts.lookup "TokenRegexNotEqual" = some tRegexNotEqual := by
  decide

/-! ### The lexer goroutine and the parser that stops early -/

/-- **parser_stops_lexer**: `stopParse` drains the token channel (extracted), so after ANY parse — accepted,
or rejected after any number of tokens — the lexer goroutine has run to `close(l.tokens)` and is gone.
Needs `lexer_total`: draining a scanner that does not terminate would hang. -/
theorem parser_stops_lexer (c : Ctx) (hf : c.fixed = true) (consumed : Nat) :
    lexerGoroutineExits c (Gen.stopParseDrains == some true) consumed = true := by
  obtain ⟨toks, h⟩ := lexer_total c hf
  simp [lexerGoroutineExits, h, Gen.stopParseDrains]

example : lexerGoroutineExits { inp := [0x61, 0x20, 0x62], cls := Cls.none } (Gen.stopParseDrains == some true) 1 = true := by decide

/-- Counterexample (defect repaired by 10171bf): without the drain, a parser that stops after one token of
`a b` leaves the lexer goroutine blocked in `emit` for ever. -/
theorem oldParser_leaks_lexer :
    lexerGoroutineExits { inp := [0x61, 0x20, 0x62], cls := Cls.none } false 1 = false := by decide

/-! ### Go's defer/recover discipline on the shapes extracted from the source -/

/-- **node_panic_becomes_error**: whatever a node's run function does — return, fail, or panic with any
value — `node.start` hands an error-or-nil to `errCh` and the panic does not leave the goroutine: the
process survives, the task fails. -/
theorem node_panic_becomes_error (b : Body) :
    runDeferred Gen.nodeStart b = .returns (match b with | .ret e => e | .panics _ => true) := by
  cases b with
  | ret e => rfl
  | panics v => cases v <;> decide

example : runDeferred Gen.nodeStart (.panics .runtimeErr) = .returns true := by decide

/-- Counterexample (defect repaired by 42547c8): with `recover()` under `if err != nil` the panic of the
run function is never recovered. -/
theorem oldNodeStart_panic_kills_process (v : PanicVal) :
    runDeferred { guard := .ifErrNonNil, rethrow := .nothing, assertsError := false } (.panics v) = .propagates v := by
  cases v <;> rfl

/-- `parser.recover` turns every panic raised by `p.errorf` — the only `panic(` calls of parser.go pass
`fmt.Errorf(…)` values (extracted) — into the error result of `Parse`/`ParseLambda`. -/
theorem parser_error_panics_become_errors :
    Gen.parserPanicsWithErrorsOnly = some true ∧
    runDeferred Gen.parserRecover (.panics .errorVal) = .returns true ∧
    ∀ e, runDeferred Gen.parserRecover (.ret e) = .returns e := by
  refine ⟨by decide, by decide, fun e => rfl⟩

/-- **Delimited tokens hold both delimiters**: every string, regex and reference token the scanner emits has
at least two bytes of text — what `txt[1 : len(txt)-1]` in `newString` / `newRegex` / `newReference` needs. -/
theorem lexer_delimited_tokens (c : Ctx) (hf : c.fixed = true) (toks : List Tok) (h : lexRun c = .done toks) :
    ∀ t ∈ toks, isLenTy t.typ = true → 2 ≤ tlen t := by
  have hg : Good c {} := ⟨rfl, by simp, by simp, by simp [Ctx.len], ⟨by simp, by simp⟩⟩
  have hW : W ({} : Lx).toks := by intro t ht; cases ht
  have hLI : LI ({} : Lx) .token := by intro h; exact absurd h (by decide)
  obtain ⟨l', h', hw⟩ := run_len c hf (lexFuel c) {} .token hg trivial hW hLI (by simp [mu, rank, lexFuel, Ctx.len])
  have e : toks = l'.toks.reverse := by
    have : LexOut.done toks = LexOut.done l'.toks.reverse := by rw [← h, ← h']; rfl
    exact LexOut.done.inj this
  subst e
  exact fun t ht => hw t (List.mem_reverse.mp ht)

example : lexRun { inp := [0x27, 0x27, 0x20, 0x22, 0x61, 0x22], cls := Cls.none } =
    .done [⟨tString, 0, some 2⟩, ⟨tReference, 3, some 3⟩, ⟨tEOF, 6, some 0⟩] := by decide

/-- The token stream of the scanner satisfies the parser's invariant: tokens inside the text, in order, of real
token types, delimited tokens of at least two bytes (from the five scanner theorems above). -/
theorem lexer_stream_meets_parser_invariant (e : PEnv) (hf : e.c.fixed = true) (toks : List Tok)
    (h : lexRun e.c = .done toks) : Inv e { rest := pstream toks } := by
  obtain ⟨hb, hs⟩ := lexer_in_bounds e.c hf toks h
  exact init_inv e toks hb hs (lexer_token_types_valid e.c hf toks h) (lexer_delimited_tokens e.c hf toks h)

/-- **parser_never_panics**: for EVERY byte string, every character-class oracle, every verdict of the literal
library calls (`strconv`, `influxql.ParseDuration`, `regexp.Compile`) and every recursion depth, the model of
`ast.Parse` (scanner, then `parser.parse`: two-token lookahead, every production, the literal constructors) and
of `ast.ParseLambda` never reaches `trap`: no `p.token[…]` / `p.comments[…]` index leaves the two-slot buffer,
no `p.text[…]`, `l.input[:pos]`, `txt[…]`, `literal[…]`, `args[l-1]`, `precedence[…]` expression goes out of
range, no `.(*ReferenceNode)` assertion fails. What remains is a node, the error outcome (`p.errorf`), or — for
a depth that is too small — `fuel`. -/
theorem parser_never_panics (e : PEnv) (hf : e.c.fixed = true) (k : Nat) :
    parseScript e k ≠ .trap ∧ parseLambda e k ≠ .trap := by
  obtain ⟨toks, h⟩ := lexer_total e.c hf
  have hi := lexer_stream_meets_parser_invariant e hf toks h
  simp only [parseScript, parseLambda, h]
  exact ⟨parseToks_safe k _ hi, parseLambdaToks_safe k _ hi⟩

/-- … on ANY token stream that satisfies the invariant (not only the scanner's), e.g. with the lookahead
buffer about to be read past the closed channel. -/
theorem parser_never_panics_on_streams (e : PEnv) (k : Nat) (toks : List PTok) (h : Inv e { rest := toks }) :
    (parseToks e k toks).out ≠ .trap ∧ (parseLambdaToks e k toks).out ≠ .trap :=
  ⟨parseToks_safe k toks h, parseLambdaToks_safe k toks h⟩

/-- How `parser.parse` ends, as `parser.recover` sees it: a return, a `p.errorf` panic (an error value) or a
run-time panic. -/
def parseBody : POut → Option Body
  | .ok => some (.ret false)
  | .err => some (.panics .errorVal)
  | .trap => some (.panics .runtimeErr)
  | .fuel => none

/-- **ast.Parse returns**: whenever the parser model finishes, the deferred `parser.recover` (shape extracted
from the source) hands the caller a node or an error — the re-panic of `runtime.Error`s is never reached. -/
theorem parse_returns_node_or_error (e : PEnv) (hf : e.c.fixed = true) (k : Nat) (b : Body)
    (h : parseBody (parseScript e k) = some b ∨ parseBody (parseLambda e k) = some b) :
    ∃ r, runDeferred Gen.parserRecover b = .returns r := by
  obtain ⟨h1, h2⟩ := parser_never_panics e hf k
  have key : ∀ o : POut, o ≠ .trap → parseBody o = some b → ∃ r, runDeferred Gen.parserRecover b = .returns r := by
    intro o ho hb
    cases o with
    | ok => simp [parseBody] at hb; subst hb; exact ⟨false, rfl⟩
    | err => simp [parseBody] at hb; subst hb; exact ⟨true, by decide⟩
    | trap => exact absurd rfl ho
    | fuel => simp [parseBody] at hb
  rcases h with h | h
  · exact key _ h1 h
  · exact key _ h2 h

/-- Non-vacuity (kept tiny: kernel evaluation of the nine mutually recursive productions is slow): the empty
script is accepted, a dangling property operator `a.` is an error, the lambda `-"x"` (unary, reference literal
with its delimiter slices) is accepted. -/
def exLit : Lit := ⟨fun _ => true, fun _ => true, fun _ => true⟩
example : parseScript ⟨{ inp := [], cls := Cls.none }, exLit⟩ 3 = .ok := by decide
example : parseScript ⟨{ inp := /- a. -/ [0x61, 0x2E], cls := Cls.none }, exLit⟩ 12 = .err := by decide
example : parseLambda ⟨{ inp := /- -"x" -/ [0x2D, 0x22, 0x78, 0x22], cls := Cls.none }, exLit⟩ 12 = .ok := by decide

/-- The trap sites are live in the model: a reference token of one byte (which the scanner never emits) makes
`newReference` slice `txt[1:0]`; a third `backup` makes `next` index `p.token[2]`. -/
theorem parser_model_traps_outside_invariant :
    (parseToks ⟨{ inp := [0x22], cls := Cls.none }, exLit⟩ 9 [⟨tDBRP, 0, 0⟩, ⟨tReference, 0, 1⟩]).out = .trap ∧
    (pnext (pbackup (pbackup (pbackup { rest := [] })))).out = .trap := by decide

/-- **No empty token**: every token the scanner emits that carries text and is not the EOF token has at least
one byte (a seventh pass over the state functions) … -/
theorem lexer_tokens_nonempty (c : Ctx) (hf : c.fixed = true) (toks : List Tok) (h : lexRun c = .done toks) :
    ∀ t ∈ toks, t.typ ≠ tEOF → t.len ≠ none → 1 ≤ tlen t :=
  Kap.C05.lexer_tokens_nonempty c hf toks h

/-- … hence a script of `n` bytes yields at most `n + 1` tokens (disjoint non-empty slices, then the single
terminal token). -/
theorem lexer_token_count (c : Ctx) (hf : c.fixed = true) (toks : List Tok) (h : lexRun c = .done toks) :
    toks.length ≤ c.inp.length + 1 :=
  Kap.C05.lexer_token_count c hf toks h

example : lexRun { inp := [0x61, 0x2E], cls := Cls.none } = .done [⟨tIdent, 0, some 1⟩, ⟨tDot, 1, some 1⟩, ⟨tEOF, 2, some 0⟩] := by
  decide

/-- **Enough depth never runs out**, on ANY token stream satisfying the parser's invariant: a recursion depth of
`2·(number of tokens) + 4` (`+ 3` for a lambda) is never exhausted — every production consumes a token of
non-zero type within a bounded number of nested calls (measure: the pending tokens of non-zero type; offsets
per production; the inner precedence loop needs that `precedence` entered on an operator of sufficient
precedence consumes it). -/
theorem parser_depth_suffices_on_streams (e : PEnv) (k : Nat) (toks : List PTok) (h : Inv e { rest := toks })
    (hk : 2 * toks.length + 4 ≤ k) :
    (parseToks e k toks).out ≠ .fuel ∧ (parseLambdaToks e k toks).out ≠ .fuel :=
  ⟨parseToks_nofuel' e k toks h hk, parseLambdaToks_nofuel' e k toks h (by omega)⟩

/-- **parser_terminates**: the depth the driver gives the model (`parseDepth` = 8·len + 16) is enough for EVERY
byte string, class oracle and literal-library verdict: the model's verdict on `ast.Parse` and
`ast.ParseLambda` is never `fuel` — with `parser_never_panics` it is `ok` or `err`. -/
theorem parser_terminates (e : PEnv) (hf : e.c.fixed = true) :
    parseScript e (parseDepth e) ≠ .fuel ∧ parseLambda e (parseDepth e) ≠ .fuel := by
  obtain ⟨toks, h⟩ := lexer_total e.c hf
  have hi := lexer_stream_meets_parser_invariant e hf toks h
  have hc := lexer_token_count e.c hf toks h
  have hl : (pstream toks).length ≤ toks.length := by
    simp only [pstream, List.length_map]; exact List.length_filter_le _ _
  have hk : 2 * (pstream toks).length + 4 ≤ parseDepth e := by unfold parseDepth; omega
  simp only [parseScript, parseLambda, h]
  exact parser_depth_suffices_on_streams e _ _ hi hk

/-- … so the parser model decides every script: `ok` or `err`. -/
theorem parser_decides (e : PEnv) (hf : e.c.fixed = true) :
    (parseScript e (parseDepth e) = .ok ∨ parseScript e (parseDepth e) = .err) ∧
    (parseLambda e (parseDepth e) = .ok ∨ parseLambda e (parseDepth e) = .err) := by
  obtain ⟨t1, t2⟩ := parser_never_panics e hf (parseDepth e)
  obtain ⟨f1, f2⟩ := parser_terminates e hf
  constructor
  · cases h : parseScript e (parseDepth e) <;> simp_all
  · cases h : parseLambda e (parseDepth e) <;> simp_all

/-- Non-vacuity: the depth matters — with depth 1 the model does run out on `a`. -/
theorem parser_model_runs_out_of_small_depth :
    parseScript ⟨{ inp := [0x61], cls := Cls.none }, exLit⟩ 1 = .fuel := by decide

example : parseScript ⟨{ inp := [], cls := Cls.none }, exLit⟩ (parseDepth ⟨{ inp := [], cls := Cls.none }, exLit⟩) = .ok := by
  decide

/-- What the shape does give: exactly the run-time errors and non-error panic values get through. -/
theorem parser_recover_characterised (v : PanicVal) :
    runDeferred Gen.parserRecover (.panics v) = (match v with
      | .errorVal | .emptyStack => .returns true
      | .runtimeErr => .propagates .runtimeErr
      | .other => .propagates .runtimeErr) := by
  cases v <;> decide

/-- `tick.Evaluate` recovers `ErrEmptyStack` only; every other panic raised while the script is evaluated
against the node API is re-panicked into `CreatePipeline` / `TaskMaster.NewTask`. -/
theorem evaluate_recover_characterised (v : PanicVal) :
    runDeferred Gen.evaluate (.panics v) = (if v = .emptyStack then .returns true else .propagates v) := by
  cases v <;> decide

/-- **Reflective calls are protected** (extracted shapes): the function value `evalFunc` builds starts with
`defer rec(obj, &err)`, `rec` evaluates `recover()` unconditionally and re-panics nothing — so a panic of ANY
value raised inside a reflective call (a node method, a chain method, a property setter, a global
function, `NewReflectionDescriber`) comes out of `tick.Evaluate` as an error. -/
theorem reflective_call_panic_becomes_error (v : PanicVal) :
    Gen.evalFuncDefersRec = some true ∧
    evaluateOutcome Gen.evalFuncRecover Gen.evaluate .inReflectiveCall v = .returns true := by
  refine ⟨by decide, ?_⟩
  cases v <;> decide

/-- … and outside the reflective calls exactly the stack-discipline panic (`ErrEmptyStack`, the only
explicit `panic(` of tick/stack.go) is turned into an error; anything else there is re-panicked. -/
theorem evaluate_outcomes_characterised (site : EvalSite) (v : PanicVal) :
    evaluateOutcome Gen.evalFuncRecover Gen.evaluate site v =
      (if site = .inReflectiveCall ∨ v = .emptyStack then .returns true else .propagates v) := by
  cases site <;> cases v <;> decide

/-- Every slice / index / unchecked type-assertion site of tick/eval.go and tick/stack.go is one of the
reviewed sites (a new one breaks this; review notes, not proofs). In particular there is NO unchecked type
assertion in the evaluator. -/
theorem eval_sites_reviewed : ∀ s ∈ Gen.evalSliceSites, evalSiteReviewed s = true := by decide

/-! ### The evaluator `tick.Evaluate` (Kap/Model/C05Eval.lean) -/

section Evaluator
open Kap.C05.Ev

/-- The evaluator model's environment with the closure shape the SOURCE has (extracted): does the function
value built by `evalFunc` start with `defer rec(obj, &err)`, and what does `rec` do. -/
def srcEnv (refl lib : List OAns) (pre : List PVar) (ignoreMissing : Bool) : Env :=
  { refl := refl, lib := lib, pre := pre, ignoreMissing := ignoreMissing,
    defersRec := Gen.evalFuncDefersRec == some true, recShape := Gen.evalFuncRecover }

/-- The hypothesis on the oracle, decidable: no library call `eval` makes OUTSIDE the closure of `evalFunc`
(`stateful.NewExpression`, `expr.Eval`, the property read path of `evalChain`) answers with a panic. -/
def libCallsReturn (lib : List OAns) : Bool := lib.all fun a => match a with | .panic _ => false | _ => true

theorem src_env_protected (refl lib : List OAns) (pre : List PVar) (im : Bool) (hlib : libCallsReturn lib = true) :
    Prot (srcEnv refl lib pre im) :=
  ⟨by show (Gen.evalFuncDefersRec == some true) = true; decide,
   fun v => ⟨true, by show runDeferred Gen.evalFuncRecover (.panics v) = .returns true; cases v <;> decide⟩, hlib⟩

/-- **evaluate_no_trap**: for EVERY tree (not only those the parser builds), scope, predefined vars,
`ignoreMissingVars`, and every oracle — reflective calls that return a value, fail or PANIC with any value,
library calls that return a value or fail — the evaluator model never reaches a run-time panic: every
`stck.data[l]` / `data[:l]` is behind the empty check, `nodes[i]` / `args[i]` stay below `len`, `args[0]` is
behind `len(args) == 1`, the `list[i]` / `values[i]` copy loops and the `node.Args[i]` / `node.Nodes[i]` range
writes stay in range, and a panic inside the function value of `evalFunc` is turned into an error by its
deferred `rec` (shape extracted from the source). -/
theorem evaluate_no_trap (refl lib : List OAns) (pre : List PVar) (im : Bool) (root : Ast)
    (scope : List (String × Val)) (hlib : libCallsReturn lib = true) :
    (evalTop (srcEnv refl lib pre im) root scope).out ≠ .trap := by
  intro h
  exact eval_nt (src_env_protected refl lib pre im hlib) root _ (R.out_trap.mp h)

/-- **evaluate_never_panics**: … hence, over the extracted shape of the deferred closure of `tick.Evaluate`,
evaluating any tree RETURNS (a result or an error): nothing is re-panicked into `CreatePipeline` /
`TaskMaster.NewTask`. ASSUMED (the hypothesis): the library calls outside the closure return. Not modelled:
what the node API does behind the reflective calls — its panics are inputs here (`OAns.panic`), and become
errors. -/
theorem evaluate_never_panics (refl lib : List OAns) (pre : List PVar) (im : Bool) (root : Ast)
    (scope : List (String × Val)) (hlib : libCallsReturn lib = true) :
    ∃ e, runDeferred Gen.evaluate (body (evalTop (srcEnv refl lib pre im) root scope)) = .returns e := by
  have h := evaluate_no_trap refl lib pre im root scope hlib
  cases hr : evalTop (srcEnv refl lib pre im) root scope with
  | ok a s => exact ⟨false, by show runDeferred Gen.evaluate (.ret false) = .returns false; decide⟩
  | err => exact ⟨true, by decide⟩
  | empty => exact ⟨true, by decide⟩
  | trap => rw [hr] at h; exact absurd rfl h

/-- **Stack discipline** (pops never exceed pushes): on a tree of the shape `parser.program` builds — a
`ProgramNode` of statements; declarations only at statement level; the children of unary, chain, list and
function nodes are expressions; unary operators are `-` / `!` — the evaluator NEVER pops the empty stack, for
every environment and oracle (no hypothesis): `ErrEmptyStack` is unreachable from a parsed script. The driver
checks on every run that the AST the real parser returned has this shape. -/
theorem evaluate_stack_discipline (E : Env) (root : Ast) (scope : List (String × Val))
    (h : parserShaped root = true) : (evalTop E root scope).out ≠ .empty := by
  intro he
  exact evalTop_ne E root scope h (R.out_empty.mp he)

/-- The invariant behind it: evaluating an expression node that succeeds leaves EXACTLY one more value on the
stack, whatever the stack, scope and oracle. -/
theorem expression_pushes_one (E : Env) (a : Ast) (s s' : Ev.St) (u : Unit) (h : isExpr a = true)
    (hr : eval E a s = .ok u s') : s'.stk.length = s.stk.length + 1 := by
  have := eval_expr_dp E a s h
  rw [hr] at this
  exact this

/-- Non-vacuity: `var x = 1` / `var y = -x` / `f(y)` on an empty scope: two declarations succeed, the
global function is not defined (an error, no oracle consulted). -/
example : (evalTop (srcEnv [] [] [] false)
    (.program (.cons (.decl "x" (.lit .int)) (.cons (.decl "y" (.unary tMinus (.ident "x"))) .nil))) []).out = .ok := by
  decide
example : (evalTop (srcEnv [] [] [] false)
    (.program (.cons (.decl "x" (.lit .int)) (.cons (.func .global "f" (.cons (.ident "x") .nil)) .nil))) []).out = .err := by
  decide

/-- Counterexample for the CLASS (the closure shape matters): without the `defer rec(…)` a panic inside the
reflective call of a global function `f()` leaves `tick.Evaluate` as a run-time panic. -/
theorem unprotected_closure_traps :
    (evalTop { refl := [.panic .runtimeErr], lib := [], defersRec := false, recShape := Gen.evalFuncRecover }
      (.program (.cons (.func .global "f" .nil) .nil)) [("f", .other)]).out = .trap ∧
    (evalTop (srcEnv [.panic .runtimeErr] [] [] false)
      (.program (.cons (.func .global "f" .nil) .nil)) [("f", .other)]).out = .err := by
  decide

/-- Counterexample (the hypothesis is needed; the class of defect 7803d70): a panic of a library call OUTSIDE
the closure — here while the property `x.y` is read — is re-panicked by `tick.Evaluate`. -/
theorem lib_panic_propagates :
    runDeferred Gen.evaluate (body (evalTop (srcEnv [] [.panic .runtimeErr] [] false)
      (.program (.cons (.chain (.ident "x") (.ident "y")) .nil)) [("x", .other)])) = .propagates .runtimeErr := by
  decide

/-- Counterexample (the shape is needed): a tree the parser never builds — a chain whose left operand is a
type declaration — pops the empty stack; `tick.Evaluate` turns exactly this panic into an error. -/
theorem unshaped_tree_pops_empty_stack :
    (evalTop (srcEnv [] [] [] true) (.program (.cons (.chain (.typeDecl "x" "int") (.ident "y")) .nil)) []).out = .empty ∧
    runDeferred Gen.evaluate (body (evalTop (srcEnv [] [] [] true)
      (.program (.cons (.chain (.typeDecl "x" "int") (.ident "y")) .nil)) [])) = .returns true := by
  decide

end Evaluator

/-! ### The UDF peer -/

/-- **udf_total (responses)**: for every sequence of responses a UDF process can send — negative or absurd
batch sizes, `End` without `Begin`, empty or undecodable messages, absurd frame sizes — `readData` /
`handleResponse` end with end-of-stream or an error, never a run-time panic. -/
theorem udf_total (st : Option Nat) (rs : List Resp) : (udfRun true st rs).2 ≠ .trap :=
  udfRun_no_trap st rs

/-- … and what was delivered before the offending message stays delivered: a later message can only end
the stream, never retract or alter earlier output. -/
theorem udf_delivered_prefix (st : Option Nat) (rs rs' : List Resp) :
    (∃ tail, (udfRun true st (rs ++ rs')).1 = (udfRun true st rs).1 ++ tail) ∧
    ((udfRun true st rs).2 ≠ .clean → udfRun true st (rs ++ rs') = udfRun true st rs) :=
  udfRun_prefix st rs rs'

example : udfRun true none [.point, .begin 2, .point, .point, .endB, .endB, .point] = ([.p, .b 2], .err) := by decide

/-- Counterexamples (defects repaired by d3f3121, 34570d1, 3b7bb8e): each of these single responses killed
the process at the snapshot. -/
theorem oldUdf_traps :
    (udfRun false none [.begin (-1)]).2 = .trap ∧ (udfRun false none [.endB]).2 = .trap ∧
    (udfRun false none [.nilMsg]).2 = .trap ∧ (udfRun false none [.huge (2 ^ 62)]).2 = .trap := by decide

/-- **udf_total (bytes)**: for every byte stream on the UDF socket the frame reader never panics … -/
theorem udf_read_no_trap (bs : Bytes) : Frame.trap ∉ readAll true bs := readAll_no_trap bs

/-- … and always comes to an end (end of stream or an error), i.e. the read loop is not starved of fuel:
the last result is not a message. -/
theorem udf_read_terminates (bs : Bytes) :
    ∃ pre t, readAll true bs = pre ++ [t] ∧ ∀ off, t ≠ .msg off := readAll_ends bs

example : readAll true [0x02, 0x08, 0x01, 0x00, 0x05, 0x01] = [.msg 3, .msg 4, .ueof] := by decide

/-- Counterexample (defect repaired by 8b0f657): a length prefix of 2^62 made `make([]byte, size)` panic. -/
theorem oldUdfRead_traps :
    readAll false [0x80, 0x80, 0x80, 0x80, 0x80, 0x80, 0x80, 0x80, 0x40] = [.trap] := by decide

/-- **Data points on their way to a UDF**: whatever the field types of the points (durations from `eval`,
nil, times …), every point is written to the UDF process and the writer never panics; a field the protocol
cannot carry costs that field only. -/
theorem udf_write_total (ks : List FKind) :
    (udfWrite true ks).2 = .clean ∧ (udfWrite true ks).1.length = ks.length := udfWrite_total ks

/-- Counterexample (defect repaired by the fieldsToTypedMaps fix): one duration field killed the process. -/
theorem oldUdfWrite_traps : (udfWrite false [.int, .dur, .int]).2 = .trap := by decide

/-- No explicit `panic(` is left anywhere in udf/server.go and udf/agent/io.go (extracted call sites);
the driver uses this fact to choose the repaired writer model. -/
theorem udf_has_no_explicit_panic : Gen.udfPanicSites = [] := by decide

/-! ### The UDF peer: answers to Info / Init / Snapshot / Restore, asked for or not

`Info()`, `Init()`, `Snapshot()`, `Restore()` assert the type of the response they are handed WITHOUT a check:
a response of another kind is a run-time panic in the calling goroutine - for `Snapshot()` the task's
snapshotter, which has no recover (the process dies). What keeps a peer from causing that is only the
routing: one one-slot channel per kind. -/

section Pairing
open Kap.C05.Rr

/-- The routing the SOURCE has now (extracted on every run). -/
def srcRouting : Routing := Routing.ofLists Gen.udfRoute Gen.udfReads Gen.udfAsserts

/-- **udf_response_reaches_only_its_own_request**: with one channel per kind, for EVERY interleaving of
peer messages (well-formed responses of any kind, asked for or not, in any number and order, keepalives,
messages that abort the server) with calls of Info / Init / Snapshot / Restore, no call ever meets a response of
another kind: none panics, and every response that is delivered is delivered to a request of its own kind. -/
theorem udf_response_reaches_only_its_own_request (R : Routing) (h : R.perKind = true) (steps : List Rr.Step) :
    ∀ kr ∈ (run R steps).1, (∀ j, kr.2 ≠ .trap j) ∧ (∀ j tag, kr.2 = .got j tag → j = kr.1) := by
  intro kr hkr
  have := run_ok h steps kr hkr
  constructor
  · intro j e; rw [e] at this; exact this
  · intro j tag e; rw [e] at this; exact this

/-- The source routes per kind: every response kind has its own one-slot channel, every request reads the
channel of its kind and asserts its kind; the extractor recognised every shape. (A shared channel, a
swapped channel, another buffer size or an unrecognised shape breaks this theorem.) -/
theorem udf_routing_is_per_kind :
    wellFormed Gen.udfRoute Gen.udfReads Gen.udfAsserts Gen.udfChans Gen.udfRrOdd = true ∧
    srcRouting.perKind = true := by decide

/-- Hence, for the code as it is: whatever a UDF peer sends and whenever the daemon asks, no goroutine of the
daemon panics on an answer. -/
theorem udf_request_never_panics (steps : List Rr.Step) :
    ∀ kr ∈ (run srcRouting steps).1, ∀ j, kr.2 ≠ .trap j :=
  fun kr hkr => (udf_response_reaches_only_its_own_request srcRouting udf_routing_is_per_kind.2 steps kr hkr).1

/-- Non-vacuity: an unsolicited restore response right after the init answer is parked in ITS channel; the
snapshot request gets the snapshot answer, a later restore request gets the stale restore response. -/
example : run srcRouting [.req .init, .send .init 1, .send .restore 2, .wait .init, .req .snapshot, .send .snapshot 3,
      .wait .snapshot, .req .restore, .wait .restore] =
    ([(.init, .got .init 1), (.snapshot, .got .snapshot 3), (.restore, .got .restore 2)], false) := by decide

/-- a second unsolicited response of a kind whose slot is taken is dropped; a request nobody answers is released
by the abort at the end -/
example : run srcRouting [.send .info 1, .send .info 2, .req .info, .wait .info, .req .info, .wait .info] =
    ([(.info, .got .info 1), (.info, .blocked), (.info, .abort)], false) := by decide

/-- One channel for all four kinds ("a request blocks its caller until it is answered, so one slot is
enough"). -/
def foldedRouting : Routing := { route := fun _ => 0, reads := fun _ => 0, asserts := fun k => k }

/-- Counterexample: with a shared channel ONE well-formed response nobody asked for is handed to the next
request of another kind, whose type assertion panics (in `Snapshot()`: the snapshotter goroutine, the
process dies). So `perKind` is needed. -/
theorem folded_channels_trap :
    foldedRouting.perKind = false ∧
    run foldedRouting [.req .init, .send .init 1, .wait .init, .send .restore 2, .req .snapshot, .wait .snapshot] =
      ([(.init, .got .init 1), (.snapshot, .trap .restore)], false) := by decide

/-- … and so is the agreement between the channel a request reads and the type it asserts. -/
theorem swapped_assert_traps :
    run { srcRouting with asserts := fun k => if k = .snapshot then .restore else k }
      [.req .snapshot, .send .snapshot 1, .wait .snapshot] = ([(.snapshot, .trap .snapshot)], false) := by decide

/-- **udf_call_before_open_is_an_error**: whatever the order in which the snapshotter's `Snapshot()`, a stop's
`Abort()` and the node's `Open()` happen, a wrapper that checks for the missing server never dereferences it: a
snapshot asked for too early is an error (which `runSnapshotter` logs and retries), an early abort a no-op. -/
theorem udf_call_before_open_is_an_error (opened : Bool) (es : List WEv) :
    WRes.trap ∉ wrapper true true opened es := wrapper_no_trap opened es

/-- `UDFProcess` and `UDFSocket` both check (extracted from udf.go on every run; a wrapper method of another
shape, or a missing one, breaks this theorem). -/
theorem udf_wrappers_guard_missing_server :
    guardOf Gen.udfWrapperGuards .processSnapshot = true ∧ guardOf Gen.udfWrapperGuards .processAbort = true ∧
    guardOf Gen.udfWrapperGuards .socketSnapshot = true ∧ guardOf Gen.udfWrapperGuards .socketAbort = true := by decide

example : wrapper true true false [.snapshot, .abort, .opened, .snapshot] = [.err, .ok, .ok, .ok] := by decide

/-- Counterexample (the code before the repair): a UDF that takes longer to start than the snapshot interval, or a
task stopped while its UDF is starting, dereferenced the nil server - on the snapshotter goroutine the process
died. -/
theorem old_udf_call_before_open_traps :
    wrapper false false false [.snapshot] = [.trap] ∧ wrapper false false false [.abort] = [.trap] ∧
    wrapper true false false [.abort, .opened] = [.trap, .ok] := by decide

end Pairing

/-! ### Slice expressions of the builtin functions (data-dependent indexes) -/

/-- Every slice / index expression in the builtins' `Call` methods (tick/stateful/functions.go) has one of the two recognised guarded
shapes (extracted; anything else — a slice of a converted value such as `[]rune(str)[a:b]`, a guard on a
different length, a new unguarded index — is emitted as `unknown` and breaks this theorem). -/
theorem builtin_slice_sites_recognised : ∀ s ∈ Gen.funcSliceSites, s.recognised = true := by decide

/-- … and the recognised shapes never panic, for all lengths and index arguments, PROVIDED the guard
compares with the length of the operand that is sliced (`glen = slen`: what `guardedString` certifies). -/
theorem guarded_slice_never_traps (slen lo hi : Int) : guardedSlice slen slen lo hi ≠ .trap := by
  unfold guardedSlice; repeat' split
  all_goals first | (intro h; cases h; done) | (exfalso; omega)

theorem range_slice_never_traps (len i : Int) : rangeSlice len i ≠ .trap := by
  unfold rangeSlice; repeat' split
  all_goals first | (intro h; cases h; done) | (exfalso; omega)

/-- Counterexample for the CLASS (a guard on the byte length, a slice of the rune slice): 40 two-byte
runes, `stop = 48 ≤ 80 = len(str)` but `48 > 40 = len([]rune(str))`. -/
theorem mismatched_guard_traps : guardedSlice 40 80 0 48 = .trap := by decide

/-! ### Slice expressions of the parser and the node constructors (the comment path included) -/

/-- Every slice / index expression that tick/ast/parser.go and tick/ast/node.go contain NOW (extracted) is
one of the reviewed sites of `reviewedAstSites`; a new one (such as `comment[len("//"):]`) breaks this. -/
theorem ast_slice_sites_reviewed : ∀ s ∈ Gen.astSliceSites, astSiteReviewed s = true := by decide

/-- `newComment` (comment tokens → `CommentNode`) and `parser.nextToken` (comment collection) contain no
slice or index expression at all: they are compositions of total library calls (`strings.Split`,
`TrimSpace`, `TrimPrefix`, `append`), so every comment token stream builds a node without a trap site. -/
theorem comment_path_has_no_slice_site :
    ∀ s ∈ Gen.astSliceSites, s.1 ≠ "newComment" ∧ s.1 ≠ "parser.nextToken" := by decide

/-! ### The JSON node factory -/

/-- **getNode_total**: over the extracted `typeOf` switch, every tag either allocates a concrete node or is
reported as an error; no tag reaches the method call on a nil `Node`. -/
theorem getNode_total (tag : String) :
    getNode Gen.getNodeTags (Gen.getNodeDefaultErr == some true) tag ≠ .trap := by
  unfold getNode
  split
  · simp
  · simp [Gen.getNodeDefaultErr]

/-- every case of the switch has the plain shape `n = &XNode{}` (nothing the model does not cover). -/
theorem getNode_switch_is_plain : Gen.getNodeOddCases = [] := by decide

/-- Counterexample (defect repaired by 7705ef8): without the `default:` any unknown tag — including
"chain", which every marshalled program contains — dereferenced nil. -/
theorem oldGetNode_traps : getNode Gen.getNodeTags false "chain" = .trap ∧ getNode Gen.getNodeTags false "bogus" = .trap := by
  decide

/-! ### JSON documents → AST → evaluation -/

/-- No pointer / interface returning accessor of `JSONNode` (`Regex`, `Node`, `IDNode`, `RefNode`) answers
`(nil, nil)` for a JSON null (extracted from tick/ast/json.go). -/
theorem json_accessors_reject_null : Gen.jsonNullAccepting = [] := by decide

/-- **decode ok → well-formed**: over the decoder as the source has it (flags from the extracted accessor
shapes), every JSON document that decodes yields an AST without a nil node and without a nil regexp — for
every document and every nesting depth. -/
theorem json_decode_ok_wf (k : Nat) (j : JV) (n : ENode)
    (h : decodeJ (Gen.jsonNullAccepting.contains "Regex") (Gen.jsonNullAccepting.contains "Node") k j = some n) :
    n.wf = true := by
  have e1 : Gen.jsonNullAccepting.contains "Regex" = false := by decide
  have e2 : Gen.jsonNullAccepting.contains "Node" = false := by decide
  rw [e1, e2] at h
  exact decodeJ_wf k j n h

/-- **no trap under well-formedness**: formatting / evaluating a well-formed decoded AST reaches no nil
dereference (no method call on a nil `Node`, no `MatchString` on a nil regexp). -/
theorem wf_ast_never_traps (n : ENode) (h : n.wf = true) : n.evalTraps = false := wf_no_trap n h

/-- Counterexample for the CLASS (an accessor that accepts null): with `Regex` answering `(nil, nil)`,
`{"typeOf":"binary","operator":"=~","left":{"typeOf":"reference"},"right":{"typeOf":"regex","regex":null}}`
decodes, is not well-formed, and its evaluation dereferences the nil regexp. -/
theorem null_accepting_regex_traps :
    ∃ n, decodeJ true false 3
      (.ocons "typeOf" (.str "binary") (.ocons "operator" (.str "=~")
        (.ocons "left" (.ocons "typeOf" (.str "reference") .onil)
        (.ocons "right" (.ocons "typeOf" (.str "regex") (.ocons "regex" .null .onil)) .onil)))) = some n ∧
      n.wf = false ∧ n.evalTraps = true :=
  ⟨.binary "=~" (.leaf "reference") (.regex none), by decide, by decide, by decide⟩

example : decodeJ false false 3
    (.ocons "typeOf" (.str "func") (.ocons "args" (.acons (.ocons "typeOf" (.str "star") .onil) .anil) .onil)) =
    some (.func (.acons (.leaf "star") .anil)) := by decide

/-! ### Tag sets: the nodes that write into a copy of a point's tags (default().tag, eval().tags, alert levelTag/idTag,
sideload().tag, loopback) — model `Kap.C05.Tags`, tied by the `tagscopy` op (the real `models.Tags.Copy` on nil /
empty / populated maps followed by an assignment) and, end to end, by `live <tag node> <notags|emptytagval|hastarget>`. -/

/-- **the copy of ANY tag set accepts a write**: `Tags.Copy` of the nil map, of an empty map, of any map is an
allocated map, so the one-write nodes never assign into a nil map — whatever tags the data point carries. -/
theorem copied_tags_accept_a_write (m : Tags.GoMap) (k v : String) : ((Tags.copy m).set k v).isSome = true := rfl

/-- the copy holds exactly the bindings of the original (reads agree on every key) -/
theorem copy_keeps_every_binding (m : Tags.GoMap) (k : String) : (Tags.copy m).get k = m.get k := rfl

/-- **`default()` never panics on a point's tag set**: for every incoming tag map (nil, empty, anything) and every
list of tag defaults the tag loop of `setDefaults` returns a map. -/
theorem default_tags_never_trap (tags : Tags.GoMap) (ds : List (String × String)) :
    (Tags.defaultTags Tags.copy tags ds).isSome = true :=
  Tags.setDefaultTags_copy_isSome tags ds tags false (by intro h; cases h)

/-- … and what it returns is the defaulting it promises: a defaulted key reads as the FIRST default listed for
it when the point had no (or an empty) value, every key the point had keeps its value. -/
theorem default_tags_keep_present_values (tags : Tags.GoMap) (ds : List (String × String)) (k : String)
    (hk : tags.get k ≠ "") :
    ∀ m, Tags.defaultTags Tags.copy tags ds = some m → m.get k = tags.get k :=
  fun m h => Tags.setDefaultTags_keeps tags k hk ds tags false m h rfl

/-- Counterexample for the CLASS (a copy that answers nil for an empty tag set — "no allocation for untagged
series"): a point without tags kills `default().tag('t','v')` and every one-write node. -/
theorem lazy_copy_traps_on_untagged_point :
    Tags.defaultTags Tags.copyLazy (.mk []) [("t", "v")] = none ∧
    Tags.defaultTags Tags.copyLazy .nil [("t", "v")] = none ∧
    (Tags.copyLazy (.mk [])).set "lvl" "x" = none ∧
    -- a tagged point hides it
    (Tags.defaultTags Tags.copyLazy (.mk [("host", "a")]) [("t", "v")]).isSome = true := by decide

example : Tags.defaultTags Tags.copy (.mk []) [("t", "v"), ("host", "h")] = some (.mk [("host", "h"), ("t", "v")]) := by decide

end Kap.Props.C05
