/-
C06 — property theorems (every `theorem` here is a proof obligation, axiom-audited by `bin/check C06`).

Statement (properties.jsonl): two points belong to the same group exactly when they agree on the measurement
(if grouping by measurement) and on every group-by tag value. The output a task produces for one group is the
same whether or not points of other groups are interleaved with it: per-group state is never shared.

Part 1 (identity) is about `toGroupID` (= `models.ToGroupID`) against the relation `sameGroup` of the spec.
Part 2 (isolation) is about `runNode` (= `edge.groupedConsumer` driving an arbitrary grouped receiver) for ALL
streams — every interleaving of single messages and whole batches of any number of groups — and is then
instantiated for the receivers whose state the code creates in `NewGroup`; the two places where the code keeps
node-wide state (InfluxQL createFn cache, alert level expressions) get their own theorems.
-/
import Kap.Proofs.C06
import Kap.Proofs.C06Demux
import Kap.Proofs.C06Iql
import Kap.Proofs.C06Slot
namespace Kap.Props.C06
open Kap.C06

/-! ## Part 1 — group identity -/

def idOf (p : GPoint) : String := toGroupID p.byName p.name p.tags p.dims

/-- "⇐" of the property, unconditionally: points of the same group get the same id (the id reads nothing but the
measurement — when grouping by it — and the group-by tag values). -/
theorem same_group_same_id (p q : GPoint) (h : sameGroup p q = true) : idOf p = idOf q := by
  obtain ⟨hb, hd, hn, hv⟩ := (sameGroup_iff p q).mp h
  unfold idOf toGroupID
  rw [← hd, ← hb, pairsOf_congr hv]
  cases hbn : p.byName with
  | true => rw [hn hbn]
  | false => cases p.dims <;> simp [toGroupIDChars, pairsOf]

/-- The full-strength statement: ids identify groups (for every pair of points under the same by-name flag).
FALSE of the code — see `groupid_not_injective`; recorded as finding `groupid-delimiter-collision`. -/
def groupid_injective_stmt : Prop :=
  ∀ p q : GPoint, p.byName = q.byName → (idOf p = idOf q ↔ sameGroup p q = true)

/-- Counterexample (replayed on the real code by corpus/C06/finding-groupid-delimiter-collision.ops):
tags {a:"x,b=y", b:"z"} and {a:"x", b:"y,b=z"} grouped by a,b are different groups with the same id. -/
theorem groupid_collision :
    let p : GPoint := { byName := false, name := "m", tags := [("a", "x,b=y"), ("b", "z")], dims := ["a", "b"] }
    let q : GPoint := { byName := false, name := "m", tags := [("a", "x"), ("b", "y,b=z")], dims := ["a", "b"] }
    sameGroup p q = false ∧ idOf p = idOf q := by
  decide

theorem groupid_not_injective : ¬ groupid_injective_stmt := by
  intro h
  have c := groupid_collision
  simp only at c
  have := (h { byName := false, name := "m", tags := [("a", "x,b=y"), ("b", "z")], dims := ["a", "b"] }
    { byName := false, name := "m", tags := [("a", "x"), ("b", "y,b=z")], dims := ["a", "b"] } rfl).mp c.2
  rw [c.1] at this
  cases this

/-- further collision shapes: `groupBy(*)` over different tag sets, '=' in a tag name, the "\n" delimiter inside a
measurement grouped by name — each needs exactly one of the three excluded characters -/
theorem groupid_collision_shapes :
    (let p : GPoint := { byName := false, name := "m", tags := [("a", "1,b=2")], dims := ["a"] }
     let q : GPoint := { byName := false, name := "m", tags := [("a", "1"), ("b", "2")], dims := ["a", "b"] }
     sameGroup p q = false ∧ idOf p = idOf q) ∧
    (let p : GPoint := { byName := false, name := "m", tags := [("a=b", "c")], dims := ["a=b"] }
     let q : GPoint := { byName := false, name := "m", tags := [("a", "b=c")], dims := ["a"] }
     sameGroup p q = false ∧ idOf p = idOf q) ∧
    (let p : GPoint := { byName := true, name := "m", tags := [("a", "1\na=2")], dims := ["a"] }
     let q : GPoint := { byName := true, name := "m\na=1", tags := [("a", "2")], dims := ["a"] }
     sameGroup p q = false ∧ idOf p = idOf q) := by
  decide

/-- **Identity, partial**: on points that are `cleanPoint` (no ',' in a group-by value, no '=' in a group-by tag
name, no "\n" in a measurement grouped by name) ids identify groups exactly — also when the two points have
DIFFERENT group-by tag lists (`groupBy(*)`). Missing from the full statement: the excluded characters. -/
theorem groupid_injective_partial (p q : GPoint) (hb : p.byName = q.byName)
    (hp : cleanPoint p = true) (hq : cleanPoint q = true) :
    idOf p = idOf q ↔ sameGroup p q = true := by
  refine ⟨fun h => ?_, same_group_same_id p q⟩
  unfold idOf toGroupID at h
  have h := String.ofList_injective h
  rw [← hb] at h
  have hn : p.byName = true → '\n' ∉ p.name.toList ∧ '\n' ∉ q.name.toList :=
    fun e => ⟨cleanPoint_name hp e, cleanPoint_name hq (hb ▸ e)⟩
  obtain ⟨hps, hne⟩ := toGroupIDChars_inj p.byName _ _ _ _ hn (cleanPoint_pairs hp) (cleanPoint_pairs hq) h
  obtain ⟨hd, hv⟩ := pairsOf_inj hps
  exact (sameGroup_iff p q).mpr ⟨hb, hd, fun e => String.toList_inj.mp (hne e), hv⟩

/-- **Identity, partial, one groupBy with named dimensions** (both points have the same group-by tag list): the
tag NAMES may contain anything; only ',' in a group-by value (and "\n" in a measurement grouped by name) is
excluded. -/
theorem groupid_injective_same_dims_partial (p q : GPoint) (hb : p.byName = q.byName) (hd : p.dims = q.dims)
    (hn : p.byName = true → hasChar '\n' p.name = false ∧ hasChar '\n' q.name = false)
    (hv : ∀ d ∈ p.dims, hasChar ',' (tagVal p.tags d) = false ∧ hasChar ',' (tagVal q.tags d) = false) :
    idOf p = idOf q ↔ sameGroup p q = true := by
  refine ⟨fun h => ?_, same_group_same_id p q⟩
  unfold idOf toGroupID at h
  have h := String.ofList_injective h
  rw [← hb, ← hd] at h
  unfold pairsOf at h
  have e1 : p.dims.map (fun d => (d.toList, (tagVal p.tags d).toList)) =
      (p.dims.map String.toList).map (fun d => (d, (tagVal p.tags (String.ofList d)).toList)) := by
    simp [List.map_map, Function.comp_def, String.ofList_toList]
  have e2 : p.dims.map (fun d => (d.toList, (tagVal q.tags d).toList)) =
      (p.dims.map String.toList).map (fun d => (d, (tagVal q.tags (String.ofList d)).toList)) := by
    simp [List.map_map, Function.comp_def, String.ofList_toList]
  rw [e1, e2] at h
  have hc : ∀ d ∈ p.dims.map String.toList,
      ',' ∉ (tagVal p.tags (String.ofList d)).toList ∧ ',' ∉ (tagVal q.tags (String.ofList d)).toList := by
    intro d hd'
    obtain ⟨s, hs, rfl⟩ := List.mem_map.mp hd'
    rw [String.ofList_toList]
    exact ⟨hasChar_false (hv s hs).1, hasChar_false (hv s hs).2⟩
  obtain ⟨hne, hvs⟩ := toGroupIDChars_inj_same_dims p.byName _ _ _ _ _
    (fun e => ⟨hasChar_false (hn e).1, hasChar_false (hn e).2⟩) hc h
  refine (sameGroup_iff p q).mpr ⟨hb, hd, fun e => String.toList_inj.mp (hne e), fun d hd' => ?_⟩
  have := hvs d.toList (List.mem_map.mpr ⟨d, hd', rfl⟩)
  rw [String.ofList_toList] at this
  exact String.toList_inj.mp this

/-- every violation of identity the code can show is the recorded deviation: the driver's KNOWN clause
`devDelimiter` is exactly "different groups, same id", and it implies that a point is not clean -/
theorem collision_is_recorded_deviation (p q : GPoint) (hb : p.byName = q.byName)
    (hne : sameGroup p q = false) (hid : idOf p = idOf q) :
    devDelimiter p q = true ∧ (cleanPoint p = false ∨ cleanPoint q = false) := by
  have hcl : ¬ (cleanPoint p = true ∧ cleanPoint q = true) := by
    rintro ⟨hp, hq⟩
    have := (groupid_injective_partial p q hb hp hq).mp hid
    rw [hne] at this; cases this
  have hpair : cleanPair p q = (cleanPoint p && cleanPoint q) := by
    unfold cleanPair; simp [hb]
  constructor
  · unfold devDelimiter
    unfold idOf at hid
    rw [hpair]
    simp only [hne, hid, Bool.not_false, Bool.true_and, beq_self_eq_true, Bool.and_true, Bool.not_eq_true',
      Bool.and_eq_false_iff]
    cases hp : cleanPoint p <;> cases hq : cleanPoint q <;> simp_all
  · cases hp : cleanPoint p <;> cases hq : cleanPoint q <;> simp_all

/-- **Identity across different by-name flags, partial** (two differently grouped streams merged by a union): a point
grouped by measurement and a point that is not never share an id when the pair is `cleanMixed` — the measurement is
non-empty and has no '=', no group-by tag name of the other point has "\n" (`cleanPoint` of the second point gives
the rest). -/
theorem groupid_mixed_flags_partial (p q : GPoint) (hp : p.byName = true) (hq : q.byName = false)
    (hcq : cleanPoint q = true) (hm : cleanMixed p q = true) : idOf p ≠ idOf q := by
  unfold cleanMixed at hm
  simp only [Bool.and_eq_true, bne_iff_ne, ne_eq, Bool.not_eq_true', List.all_eq_true] at hm
  obtain ⟨⟨hne, heq⟩, hdn⟩ := hm
  intro h
  unfold idOf toGroupID at h
  have h := String.ofList_injective h
  rw [hp, hq] at h
  refine toGroupIDChars_mixed_ne _ _ _ _ (fun e => hne (String.toList_inj.mp (by simpa using e))) (hasChar_false heq)
    (cleanPoint_pairs hcq) ?_ h
  intro pr hpr
  unfold pairsOf at hpr
  obtain ⟨d, hd, rfl⟩ := List.mem_map.mp hpr
  exact hasChar_false (hdn d hd)

/-- … and without that condition they can: a measurement named like a `tag=value` pair. -/
theorem mixed_flags_collision :
    let p : GPoint := { byName := true, name := "a=1", tags := [], dims := [] }
    let q : GPoint := { byName := false, name := "m", tags := [("a", "1")], dims := ["a"] }
    cleanPoint p = true ∧ cleanPoint q = true ∧ idOf p = idOf q ∧ devDelimiter p q = true := by
  decide

/-- `groupBy`: for `*` the dimension list consists exactly of the point's tag keys that are not excluded; for named
dimensions exactly of the configured ones. -/
theorem group_by_dimensions (tags : Tags) (star : Bool) (dims excl : List String) (t : String) :
    t ∈ computeTagNames tags star (determineTagNames dims excl) excl ↔
      (if star then t ∈ tags.map (·.1) else t ∈ dims) ∧ t ∉ excl := by
  unfold computeTagNames determineTagNames filterExcluded
  cases star <;> simp [mem_sortStrings, mem_uniqueSorted, List.mem_filter]

/-- named dimensions come out STRICTLY increasing — sorted, every dimension once — whatever order the script lists
them in and however often it repeats one (`fix:` 6ba92e9; `sort.Strings` then `uniqueSorted`). -/
theorem named_dimensions_sorted (dims excl : List String) :
    sortedLt (determineTagNames dims excl) = true ∧ (determineTagNames dims excl).Nodup :=
  ⟨sortedLt_of_pairwise _ (determineTagNames_pairwise dims excl), nodup_of_pairwise_lt (determineTagNames_pairwise dims excl)⟩

/-- **One group-by, one dimension list**: two `groupBy` argument lists naming the same dimensions — in any order, with
any repetitions — give the SAME dimension list, hence the same `Dimensions` on every point and the same id for the same
tag values. -/
theorem dimension_list_canonical (d1 d2 excl : List String) (h : ∀ t, t ∈ d1 ↔ t ∈ d2) :
    determineTagNames d1 excl = determineTagNames d2 excl := by
  apply pairwise_lt_ext _ _ (determineTagNames_pairwise d1 excl) (determineTagNames_pairwise d2 excl)
  intro t
  rw [mem_determineTagNames, mem_determineTagNames, h t]

/-- non-vacuity of `dimension_list_canonical`: `groupBy('host','dc','host')` and `groupBy('dc','host')`. -/
example : determineTagNames ["host", "dc", "host"] [] = ["dc", "host"] ∧ determineTagNames ["dc", "host"] [] = ["dc", "host"] := by
  decide

/-- … so a group is spelled the same on the stream edge (dimension list of the `groupBy`) and on the batch edge behind
a window (`NewBeginBatchMessage`: the sorted tag KEYS of the group, duplicate-free by construction): the batch-edge list
`eraseDups` of a named dimension list IS that list. -/
theorem one_spelling_on_both_edges (dims excl : List String) :
    (determineTagNames dims excl).eraseDups = determineTagNames dims excl :=
  eraseDups_of_nodup _ (named_dimensions_sorted dims excl).2

/-- Counterexample about the code BEFORE `fix:` 6ba92e9 (`determineTagNamesOld`: sorted, repetitions kept): a dimension
listed twice (`groupBy('host','host')`) was kept twice on the stream edge, and the window node dropped the duplicate
when it built the batch header — the same tag values were spelled by two different ids on the two edges (and a UDF
re-derived the batch-edge spelling: C19's former finding batch-dims-rederived). Today both edges carry `[host]`.
(About `ToGroupID` itself nothing changed: none of the identity theorems assumes distinct dimensions.) -/
theorem duplicate_dimension_respells_id :
    let old := determineTagNamesOld ["host", "host"] []
    let p : GPoint := { byName := false, name := "m", tags := [("host", "A")], dims := old }
    let q : GPoint := { p with dims := old.eraseDups }
    old = ["host", "host"] ∧ idOf p = "host=A,host=A" ∧ idOf q = "host=A" ∧ sameGroup p q = false ∧
    determineTagNames ["host", "host"] [] = ["host"] := by
  decide

/-! ## Part 2 — isolation -/

/-- **Non-interference of the demultiplexer** (generic): for EVERY grouped receiver whose node-wide state is
transparent (`Transparent`: on the reachable node-wide states a receiver's new state and output do not depend on
it), every stream of items (any interleaving of points, barriers, buffered batches, group deletions and whole
unbuffered batches of any groups) and every group `g`: what the node emits for `g` on the full stream is what it
emits when fed `g`'s items alone. -/
theorem demux_noninterference {Γ σ π ο : Type} (N : Node Γ σ π ο) (I : Γ → Prop) (T : Transparent N I)
    (γ : Γ) (hγ : I γ) (items : List (Item π)) (g : GroupID) :
    (runNode N γ items).filter (fun o => o.1 == g) = runNode N γ (items.filter (fun it => it.group == g)) :=
  run_sim T g items (Demux.init γ) (Demux.init γ) ⟨rfl, rfl, rfl, hγ, hγ⟩

/-- Receivers with NO node-wide state (everything is created in `NewGroup`): isolation holds outright. In the
code these are window, where, eval, stateCount/stateDuration, derivative, changeDetect, sample, default, flatten's
per-group buffers, … — the transcribed instances are `sampleNode`, `stateCountNode`, `whereCountNode`,
`evalCountNode`, `alertNode`. -/
theorem demux_noninterference_pure {σ π ο : Type} (N : Node Unit σ π ο) (items : List (Item π)) (g : GroupID) :
    (runNode N () items).filter (fun o => o.1 == g) = runNode N () (items.filter (fun it => it.group == g)) :=
  demux_noninterference N (fun _ => True) (Transparent.ofUnit N) () trivial items g

/-- nothing is emitted under the label of a group that has no item in the stream -/
theorem no_output_without_input {σ π ο : Type} (N : Node Unit σ π ο) (items : List (Item π)) (g : GroupID)
    (h : ∀ it ∈ items, it.group ≠ g) : (runNode N () items).filter (fun o => o.1 == g) = [] := by
  rw [demux_noninterference_pure]
  have : items.filter (fun it => it.group == g) = [] := by
    apply List.filter_eq_nil_iff.mpr
    intro it hit
    simpa using h it hit
  rw [this]; rfl

/-! ### node-wide state 1: the InfluxQL `currentKind/createFn` cache -/

/-- **The createFn cache is keyed by kind**: after ANY history of requests (by any groups, in any order) the
node-wide cache answers a request for kind `k` exactly like an uncached `determineReduceContextCreateFn`. -/
theorem cache_keyed_by_kind (m : Method) (hist : List Kind) (k : Kind) :
    (getCreateFn m (hist.foldl (fun c k' => (getCreateFn m c k').1) {}) k).2 = determine m k := by
  have inv : ∀ (hist : List Kind) (c : Cache), CacheOk m c → CacheOk m (hist.foldl (fun c k' => (getCreateFn m c k').1) c) := by
    intro hist
    induction hist with
    | nil => intro c h; exact h
    | cons k' ks ih => intro c h; exact ih _ (getCreateFn_ok m c k' h).2
  exact (getCreateFn_ok m _ k (inv hist {} (fun f hf => by cases hf))).1

/-- Counterexample for the code as it was at the snapshot (repaired by `fix:` cce1e44): after an int group and a
string group have been seen, `sum` hands the STALE integer createFn to the string group. -/
theorem getCreateFnOld_stale :
    (getCreateFnOld .sum ([Kind.int, Kind.str].foldl (fun c k' => (getCreateFnOld .sum c k').1) {}) .str).2 = some .int ∧
    determine .sum .str = none := by
  decide

/-- … and with it isolation failed: a group of string points emits a bogus `sum = 0` point only when an integer
group is interleaved with it. -/
theorem iqlOld_interferes :
    let a (t : Int) : Item Pt := .point "A" { name := "m", key := "A", v := .int 1, time := t }
    let b (t : Int) : Item Pt := .point "B" { name := "m", key := "B", v := .str "u", time := t }
    let items := [a 1, b 1, b 1, b 2]
    (runNode (iqlNodeOld .sum) {} items).filter (fun o => o.1 == "B") ≠
      runNode (iqlNodeOld .sum) {} (items.filter (fun it => it.group == "B")) := by
  decide

/-- **InfluxQL node isolated** although `currentKind/createFn` is shared by all groups: for every stream and
every group (stream side, `sum`/`count`, as transcribed). -/
theorem iql_isolated (m : Method) (items : List (Item Pt)) (g : GroupID) :
    (runNode (iqlNode m) {} items).filter (fun o => o.1 == g) = runNode (iqlNode m) {} (items.filter (fun it => it.group == g)) :=
  demux_noninterference (iqlNode m) (CacheOk m) (iqlTransparent m) {} (fun f hf => by cases hf) items g

/-! ### node-wide state 2: the alert node's level expressions -/

/-- Counterexample for the code as it was at the snapshot (`AlertNode.levels` evaluated for every group, so the
state of `count()` is shared): `groupBy('host')|alert().crit(lambda: count() > 3)` with 3 points per host raises
CRITICAL for host B — only because host A's points were counted too. -/
theorem alert_shared_interferes :
    let mk (g : String) (t : Int) : Item Pt := .point g { name := "m", key := g, v := .int 1, time := t }
    let items := [mk "A" 1, mk "A" 2, mk "A" 3, mk "B" 1, mk "B" 2, mk "B" 3]
    ((runNode (alertNodeShared (.gt 3)) 0 items).filter (fun o => o.1 == "B")).map (·.2.proj) = ["s:CRITICAL", "s:CRITICAL", "s:CRITICAL"] ∧
    runNode (alertNodeShared (.gt 3)) 0 (items.filter (fun it => it.group == "B")) = [] := by
  decide

/-- **Alert node isolated** with per-group copies of the level expressions (today's code), for every level
predicate over `count()`, every stream, every group. -/
theorem alert_isolated (pr : CountPred) (items : List (Item Pt)) (g : GroupID) :
    (runNode (alertNode pr) () items).filter (fun o => o.1 == g) = runNode (alertNode pr) () (items.filter (fun it => it.group == g)) :=
  demux_noninterference_pure _ items g

/-! ### node-wide state 3 (gone): the ExecutionState of a nested lambda node (was finding nested-lambda-state-shared) -/

/-- Counterexample about the code BEFORE `fix:` 8ed14ac (regression witness
corpus/C06/fixed-nested-lambda-state-shared.ops): `var nc = lambda: count()` …
`groupBy('host')|eval(lambda: nc * 1000 + count())`: host B's first point got 2001 in the interleaved run and 1001
alone — the nested lambda's `count()` was one per node, the outer one per group. Today's receiver answers 1001 in
both runs. -/
theorem nested_lambda_interferes :
    let mk (g : String) (t : Int) : Item Pt := .point g { name := "m", key := g, v := .int 1, time := t }
    let items := [mk "A" 1, mk "B" 1, mk "A" 2]
    ((runNode evalNestedNodeShared 0 items).filter (fun o => o.1 == "B")).map (·.2.proj) = ["i:2001"] ∧
    (runNode evalNestedNodeShared 0 (items.filter (fun it => it.group == "B"))).map (·.2.proj) = ["i:1001"] ∧
    ((runNode evalNestedNode () items).filter (fun o => o.1 == "B")).map (·.2.proj) = ["i:1001"] := by
  decide

/-- **Nested lambdas isolated** (today's code, unconditional): where / eval whose lambda uses a lambda var with a
stateful function — every `CopyReset` copy, i.e. every group, has its own lambda nodes and so its own state of the
functions inside them — for every stream and every group; `alert().crit(lambda: nl)` is `alert_isolated`. -/
theorem nested_lambda_isolated (m r : Nat) (items : List (Item Pt)) (g : GroupID) :
    ((runNode (whereNestedNode m r) () items).filter (fun o => o.1 == g) =
      runNode (whereNestedNode m r) () (items.filter (fun it => it.group == g))) ∧
    ((runNode evalNestedNode () items).filter (fun o => o.1 == g) =
      runNode evalNestedNode () (items.filter (fun it => it.group == g))) :=
  ⟨demux_noninterference_pure _ items g, demux_noninterference_pure _ items g⟩

/-- non-vacuity / the witness of the former finding on today's receiver: the interleaved hosts of
`where-nested` (corpus) each pass their own second point only. -/
example :
    let mk (g : String) (t : Int) : Item Pt := .point g { name := "m", key := g, v := .int 1, time := t }
    let items := [mk "A" 1, mk "B" 1, mk "A" 2, mk "B" 2, mk "A" 3, mk "B" 3]
    (runNode (whereNestedNode 2 0) () items).map (fun o => (o.1, o.2.time)) = [("A", 2), ("B", 2)] ∧
    (runNode (whereNestedNodeShared 2 0) 0 items).map (fun o => (o.1, o.2.time)) = [("B", 1), ("B", 3)] := by
  decide

/-! ### identity and isolation together -/

/-- Isolation stated with the property's own notion of group: when the points of a stream are clean, have pairwise
the same by-name flag and carry the id `idOf`, selecting "the items of the group of `p`" by the structured
relation `sameGroup` is the same as selecting by id — so `demux_noninterference` speaks about groups, not about
id strings. -/
theorem group_filter_is_id_filter (pts : List GPoint) (p : GPoint) (hp : cleanPoint p = true)
    (hc : ∀ q ∈ pts, cleanPoint q = true ∧ q.byName = p.byName) :
    pts.filter (fun q => sameGroup q p) = pts.filter (fun q => idOf q == idOf p) := by
  apply List.filter_congr
  intro q hq
  obtain ⟨hcq, hb⟩ := hc q hq
  have := groupid_injective_partial q p hb hcq hp
  cases h : sameGroup q p
  · have : ¬ idOf q = idOf p := fun e => by rw [this.mp e] at h; cases h
    simp [this]
  · simp [this.mpr h]

/-- **The property in its own terms, partial** (identity and isolation composed): a stream of points, each
carrying the id the code gives it (`idOf`), through ANY receiver without node-wide state. If all points are clean
and under the same by-name flag, then for every point `g` of the stream the output labelled with `g`'s id on the
full stream is the output of the run fed exactly the points that are in the SAME GROUP as `g` (by measurement and
group-by tag values) — whatever other groups are interleaved. Missing from the full statement: points with the
excluded characters (finding groupid-delimiter-collision). -/
theorem isolation_per_group_partial {σ π ο : Type} (N : Node Unit σ π ο) (ps : List (GPoint × π)) (g : GPoint)
    (hg : cleanPoint g = true) (hc : ∀ q ∈ ps, cleanPoint q.1 = true ∧ q.1.byName = g.byName) :
    (runNode N () (ps.map (fun q => Item.point (idOf q.1) q.2))).filter (fun o => o.1 == idOf g) =
      runNode N () ((ps.filter (fun q => sameGroup q.1 g)).map (fun q => Item.point (idOf q.1) q.2)) := by
  rw [demux_noninterference_pure, List.filter_map]
  congr 2
  apply List.filter_congr
  intro q hq
  obtain ⟨hcq, hb⟩ := hc q hq
  have := groupid_injective_partial q.1 g hb hcq hg
  simp only [Function.comp, Item.group]
  cases h : sameGroup q.1 g
  · have : ¬ idOf q.1 = idOf g := fun e => by rw [this.mp e] at h; cases h
    simp [this]
  · simp [this.mpr h]

/-- the transcribed receivers with per-group state only, by name (instances of `demux_noninterference_pure`) -/
theorem modelled_nodes_isolated (items : List (Item Pt)) (g : GroupID) :
    (∀ n, (runNode (sampleNode n) () items).filter (fun o => o.1 == g) = runNode (sampleNode n) () (items.filter (fun it => it.group == g))) ∧
    (∀ t, (runNode (stateCountNode t) () items).filter (fun o => o.1 == g) = runNode (stateCountNode t) () (items.filter (fun it => it.group == g))) ∧
    (∀ m r, (runNode (whereCountNode m r) () items).filter (fun o => o.1 == g) = runNode (whereCountNode m r) () (items.filter (fun it => it.group == g))) ∧
    ((runNode evalCountNode () items).filter (fun o => o.1 == g) = runNode evalCountNode () (items.filter (fun it => it.group == g))) :=
  ⟨fun _ => demux_noninterference_pure _ items g, fun _ => demux_noninterference_pure _ items g,
   fun _ _ => demux_noninterference_pure _ items g, demux_noninterference_pure _ items g⟩

/-- … and the receivers transcribed from stateDuration, changeDetect, derivative, windowByCount and the alert node with
threshold levels (stateChangesOnly or not): all their state lives in the per-group receiver, so each is isolated on
every stream. (Floats occur only inside opaque per-group state; the theorem does not look at them.) -/
theorem more_nodes_isolated (items : List (Item Pt)) (g : GroupID) :
    (∀ t, (runNode (stateDurationNode t) () items).filter (fun o => o.1 == g) = runNode (stateDurationNode t) () (items.filter (fun it => it.group == g))) ∧
    ((runNode changeDetectNode () items).filter (fun o => o.1 == g) = runNode changeDetectNode () (items.filter (fun it => it.group == g))) ∧
    (∀ nn, (runNode (derivativeNode nn) () items).filter (fun o => o.1 == g) = runNode (derivativeNode nn) () (items.filter (fun it => it.group == g))) ∧
    (∀ p e f, (runNode (windowCountNode p e f) () items).filter (fun o => o.1 == g) = runNode (windowCountNode p e f) () (items.filter (fun it => it.group == g))) ∧
    (∀ thr sco, (runNode (alertThrNode thr sco) () items).filter (fun o => o.1 == g) = runNode (alertThrNode thr sco) () (items.filter (fun it => it.group == g))) :=
  ⟨fun _ => demux_noninterference_pure _ items g, demux_noninterference_pure _ items g,
   fun _ => demux_noninterference_pure _ items g, fun _ _ _ => demux_noninterference_pure _ items g,
   fun _ _ => demux_noninterference_pure _ items g⟩

/-- the BATCH side of receivers (behind a window, on the batch edge's own group ids): sample, stateCount, where with
`count()` (state kept across batches), changeDetect, derivative — isolated on every stream of buffered batches. The
InfluxQL batch side (`iqlNodeB`, shares the createFn cache) is `Kap.Props.C06Pipe.iqlB_isolated`. -/
theorem batch_side_nodes_isolated (items : List (Item Batch)) (g : GroupID) :
    (∀ n, (runNode (sampleNodeB n) () items).filter (fun o => o.1 == g) = runNode (sampleNodeB n) () (items.filter (fun it => it.group == g))) ∧
    (∀ t, (runNode (stateCountNodeB t) () items).filter (fun o => o.1 == g) = runNode (stateCountNodeB t) () (items.filter (fun it => it.group == g))) ∧
    ((runNode whereCountNodeB () items).filter (fun o => o.1 == g) = runNode whereCountNodeB () (items.filter (fun it => it.group == g))) ∧
    ((runNode changeDetectNodeB () items).filter (fun o => o.1 == g) = runNode changeDetectNodeB () (items.filter (fun it => it.group == g))) ∧
    ((runNode derivativeNodeB () items).filter (fun o => o.1 == g) = runNode derivativeNodeB () (items.filter (fun it => it.group == g))) :=
  ⟨fun _ => demux_noninterference_pure _ items g, fun _ => demux_noninterference_pure _ items g,
   demux_noninterference_pure _ items g, demux_noninterference_pure _ items g, demux_noninterference_pure _ items g⟩

/-- the window's batches, as a node of its own (first stage of `|window()…|NODE` pipelines) -/
theorem window_batches_isolated (p e : Nat) (f : Bool) (items : List (Item Pt)) (g : GroupID) :
    (runNode (windowCountNodeB p e f) () items).filter (fun o => o.1 == g) =
      runNode (windowCountNodeB p e f) () (items.filter (fun it => it.group == g)) :=
  demux_noninterference_pure _ items g

/-- the recording receiver of the harness (the tie of `Demux.step` on all message types) is isolated too: on
streams with barriers, buffered/unbuffered batches and deletions -/
theorem recording_node_isolated (items : List (Item Nat)) (g : GroupID) :
    (runNode recNode () items).filter (fun o => o.1 == g) = runNode recNode () (items.filter (fun it => it.group == g)) :=
  demux_noninterference_pure _ items g

/-! ## Slot tables next to the demultiplexer's map (httpOut: n.indexes / n.result.Series / httpOutGroup.idx)

Added after seeded change C06-8 (deleteGroup splicing first and renumbering the same range afterwards) went unseen: no
generated history sent a DeleteGroup to a node that keeps its own per-group table. -/

/-- Full statement, in the property's own terms: after EVERY history of points and group deletions, the rows httpOut
serves under a group's tags are the rows it serves when that group's operations are fed alone. Stated, not proved here
(the content half of the invariant - slot k holds the last row of the group numbered k - is tied by the correspondence
runs and the relational clause on the real node only); the numbering half is `slot_numbering_invariant`. -/
def httpout_isolated_stmt : Prop :=
  ∀ (h : List Slot.Op) (g : String),
    Slot.servedFor (Slot.run h) g = Slot.servedFor (Slot.run (h.filter (fun o => o.group == g))) g

/-- and against the history spec: what is served for g is g's last value since its last deletion -/
def httpout_serves_last_row_stmt : Prop :=
  ∀ (h : List Slot.Op) (g : String), Slot.servedFor (Slot.run h) g = Slot.expectFor g h

/-- The numbering half of the slot-table invariant, for EVERY history (any number of groups, deletions in any
position, re-creations): the receiver at position k of n.indexes carries idx k and Series has exactly one entry per
receiver - so `deleteGroup(g.idx)` removes g's own receiver and g's own row, and no update is ever out of range. -/
theorem slot_numbering_invariant (h : List Slot.Op) : Slot.Numbered (Slot.run h) :=
  Slot.numbered_foldl h _ Slot.numbered_empty

/-- every live group's idx is a valid slot: `updateResultWithRow` never takes its out-of-range branch -/
theorem slot_index_in_range (h : List Slot.Op) (g : String) (i : Nat) (hf : Slot.find (Slot.run h) g = some i) :
    i < (Slot.run h).series.length := by
  have hn := slot_numbering_invariant h
  rw [hn.2]
  exact Slot.find_lt _ g i hn hf

/-- Counterexample about the deleteGroup that splices first and renumbers indexes[idx+1:] of the SPLICED slice: after
A, B, C are created and A (the first slot) is deleted, B keeps number 1 = C's slot; B's next row lands there, C
overwrites it, and B is served with its stale row 2 instead of 4 - what is served for B depends on whether A existed.
The numbering invariant fails in the same state. -/
theorem slot_splice_first_interferes :
    ∃ (h : List Slot.Op) (g : String),
      Slot.servedFor (Slot.runWith Slot.deleteAtSplicedFirst h) g
        ≠ Slot.servedFor (Slot.runWith Slot.deleteAtSplicedFirst (h.filter (fun o => o.group == g))) g ∧
      ¬ Slot.Numbered (Slot.runWith Slot.deleteAtSplicedFirst h) :=
  ⟨[.point "A" 1, .point "B" 2, .point "C" 3, .delete "A", .point "B" 4, .point "C" 5], "B", by decide, by
    unfold Slot.Numbered; decide⟩

/-- regression witness: the same history, and deletions of the first, a middle and the newest slot followed by more
rows of every survivor and a re-creation, through the code as it is: every group is served its own last row -/
theorem slot_table_regression_witness :
    let h1 : List Slot.Op := [.point "A" 1, .point "B" 2, .point "C" 3, .delete "A", .point "B" 4, .point "C" 5]
    let h2 : List Slot.Op := [.point "A" 1, .point "B" 2, .point "C" 3, .point "D" 4, .delete "B", .point "C" 5, .point "D" 6,
      .point "A" 7, .delete "D", .point "A" 8, .point "C" 9, .point "B" 10, .delete "A", .point "C" 11, .point "B" 12]
    Slot.served (Slot.run h1) = [("B", 4), ("C", 5)] ∧
    (∀ g ∈ ["A", "B", "C", "D"], Slot.servedFor (Slot.run h2) g = Slot.expectFor g h2 ∧
      Slot.servedFor (Slot.run h2) g = Slot.servedFor (Slot.run (h2.filter (fun o => o.group == g))) g) ∧
    Slot.served (Slot.run h2) = [("C", 11), ("B", 12)] := by decide

example : Slot.find (Slot.run [.point "A" 1, .point "B" 2, .delete "A"]) "B" = some 0 := by decide

/-! ### Non-vacuity -/

example : cleanPoint { byName := true, name := "cpu", tags := [("host", "a b"), ("dc", "k=1")], dims := ["dc", "host"] } = true := by decide
example : CacheOk .sum {} := fun f hf => by cases hf
example :
    let mk (g : String) (t : Int) : Item Pt := .point g { name := "m", key := g, v := .int 1, time := t }
    let items := [mk "A" 1, mk "B" 1, mk "A" 2, mk "B" 2, mk "A" 3, mk "B" 3, mk "A" 4, mk "B" 4]
    ((runNode (alertNode (.gt 3)) () items).filter (fun o => o.1 == "B")).map (·.2.time) = [4] := by decide
example :
    let it (g : String) (t : Int) (v : Val) : Item Pt := .point g { name := "m", key := g, v := v, time := t }
    (runNode (iqlNode .sum) {} [it "A" 1 (.int 2), it "B" 1 (.str "u"), it "A" 1 (.int 3), it "B" 2 (.str "u"), it "A" 2 (.int 1)]).map (·.2.proj)
      = ["i:5"] := by decide

example :
    let mk (g : String) (t : Int) (v : Int) : Item Pt := .point g { name := "m", key := g, v := .int v, time := t }
    let items := [mk "A" 1 9, mk "B" 1 0, mk "A" 2 9, mk "B" 2 3, mk "A" 3 0, mk "B" 3 9]
    (runNode (windowCountNode 2 2 false) () items).map (fun o => (o.1, o.2.proj)) = [("A", "n:2/1/2"), ("B", "n:2/1/2")] ∧
    ((runNode (alertThrNode (fun l => if l == 3 then some 5 else none) true) () items).filter (fun o => o.1 == "B")).map (·.2.proj) = ["s:CRITICAL"] := by
  decide

example :
    let items : List (Item Nat) := [.point "A" 0, .batch "B" 0 [0, 0] 0, .buffered "A" 2, .delete "B" 0, .barrier "B" 0, .delete "Z" 0]
    ((runNode recNode () items).filter (fun o => o.1 == "B")).map (fun o => (o.2.call, o.2.n)) =
      [("B", 1), ("p", 2), ("p", 3), ("E", 4), ("D", 5), ("R", 1)] := by decide

end Kap.Props.C06
