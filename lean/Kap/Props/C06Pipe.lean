/-
C06 — property theorems, second module: isolation of PIPELINES and of further transcribed receivers (every `theorem`
here is a proof obligation, axiom-audited by `bin/check C06`).

* `demux_noninterference_sets`: the generic theorem for a SET of groups (needed to compose: a later stage may regroup);
* `iqlB_isolated`: the InfluxQL batch-side receiver, which shares the node-wide createFn cache, as an instance;
* `pipeline_noninterference` / `pipeline_isolated_per_group`: two isolated nodes in a row are isolated when the second
  node's grouping is a function of the first node's (same ids, ids renamed edge by edge, or a regrouping);
  instances: window|aggregate (count and time windows, any transparent batch receiver, InfluxQL sum/count by name),
  groupBy|stateCount (in the property's own terms: groups by measurement and tag values), groupBy|window|aggregate;
* receivers transcribed in this round: windowByTime (C03's proved model, imported), the alert node with its history
  ring and flapping flag (for EVERY flapping decision function), the batch side of the alert node;
* stateless STAGES behind a groupBy that rebuild a point's group identity (`Kap.C06.Stage`: delete of group-by tags, a
  further groupBy, default / eval writing a tag): `delete_keeps_by_measurement`, `delete_regroups_by_remaining_tags`,
  `stage_grouping_as_spec` (every stage leaves the grouping the spec clause `groupingOkAfter` asks for),
  `groupBy_stages_node_isolated` (groupBy | stages | NODE in the property's own terms) and the counterexample
  `delete_without_flag_merges_measurements` (a delete that rebuilds the dimensions without the by-name flag).
-/
import Kap.Props.C06
import Kap.Proofs.C06Pipe
namespace Kap.Props.C06Pipe
open Kap.C06 Kap.Props.C06

/-! ## sets of groups -/

/-- **Non-interference for sets of groups**: for every grouped receiver with transparent node-wide state, every
stream and every set `S` of group ids, the outputs labelled with a group of `S` on the full stream — in their
order, across the groups of `S` — are the outputs of the run fed the items of the groups of `S` alone.
(`demux_noninterference` is the case `S = {g}`.) -/
theorem demux_noninterference_sets {Γ σ π ο : Type} (N : Node Γ σ π ο) (I : Γ → Prop) (T : Transparent N I)
    (γ : Γ) (hγ : I γ) (items : List (Item π)) (S : GroupID → Bool) :
    (runNode N γ items).filter (fun o => S o.1) = runNode N γ (items.filter (fun it => S it.group)) :=
  runNode_filter_set T γ hγ items S

/-! ## the InfluxQL batch-side receiver -/

/-- **InfluxQL node, batch side, isolated** (`sum` / `count` behind a window, as transcribed in `iqlNodeB`) although
every batch of every group goes through the node-wide `currentKind/createFn` cache: an instance of
`demux_noninterference` with the cache invariant `CacheOk`. -/
theorem iqlB_isolated (m : Method) (items : List (Item Batch)) (g : GroupID) :
    (runNode (iqlNodeB m) {} items).filter (fun o => o.1 == g) =
      runNode (iqlNodeB m) {} (items.filter (fun it => it.group == g)) :=
  demux_noninterference (iqlNodeB m) (CacheOk m) (iqlBTransparent m) {} (fun f hf => by cases hf) items g

/-! ## composition -/

/-- **Two isolated nodes in a row are isolated.** A and B are grouped receivers with transparent node-wide state;
`conv` carries A's output to B's input edge and decides the group id it travels under there. If B's grouping is
tied to A's by class functions (`clsB` of the id on B's edge = `clsA` of the id A emitted under — `clsA = clsB = id`
when the ids are the same, `clsB = id, clsA = r` when ids are renamed by `r`, `clsA = id, clsB = up` when B regroups
finer), then for every class `k`: what the pipeline emits for `k` on the full stream is what it emits when fed the
items of class `k` alone. The tie is only required of what A actually emits on this stream. -/
theorem pipeline_noninterference {ΓA σA π μ ΓB σB μ' ο K : Type} [DecidableEq K]
    (A : Node ΓA σA π μ) (IA : ΓA → Prop) (TA : Transparent A IA) (γA : ΓA) (hA : IA γA)
    (B : Node ΓB σB μ' ο) (IB : ΓB → Prop) (TB : Transparent B IB) (γB : ΓB) (hB : IB γB)
    (conv : GroupID × μ → Item μ') (clsA clsB : GroupID → K) (items : List (Item π))
    (hc : ∀ x ∈ runNode A γA items, clsB (conv x).group = clsA x.1) (k : K) :
    (runPipe A γA conv B γB items).filter (fun o => clsB o.1 == k) =
      runPipe A γA conv B γB (items.filter (fun it => clsA it.group == k)) :=
  pipe_isolated (runNode A γA) (runNode B γB) conv (fun it => clsA it.group == k) (fun g => clsA g == k)
    (fun g => clsB g == k) (fun g => clsB g == k) items
    (runNode_filter_set TA γA hA items (fun g => clsA g == k)) (fun mids => runNode_filter_set TB γB hB mids (fun g => clsB g == k))
    (fun x hx => by rw [hc x hx])

/-- … per group: when the id on B's edge is a function `r` of the id on A's edge (`r = id`: same group ids) that
tells the groups of this stream apart, the pipeline's output for group `g` on the full stream is its output on
`g`'s items alone. -/
theorem pipeline_isolated_per_group {ΓA σA π μ ΓB σB μ' ο : Type}
    (A : Node ΓA σA π μ) (IA : ΓA → Prop) (TA : Transparent A IA) (γA : ΓA) (hA : IA γA)
    (B : Node ΓB σB μ' ο) (IB : ΓB → Prop) (TB : Transparent B IB) (γB : ΓB) (hB : IB γB)
    (conv : GroupID × μ → Item μ') (r : GroupID → GroupID) (items : List (Item π))
    (hc : ∀ x ∈ runNode A γA items, (conv x).group = r x.1)
    (g : GroupID) (hinj : ∀ it ∈ items, r it.group = r g → it.group = g) :
    (runPipe A γA conv B γB items).filter (fun o => o.1 == r g) =
      runPipe A γA conv B γB (items.filter (fun it => it.group == g)) := by
  have h := pipeline_noninterference A IA TA γA hA B IB TB γB hB conv r (fun x => x) items hc (r g)
  rw [h]
  congr 1
  apply List.filter_congr
  intro it hit
  by_cases e : it.group = g
  · simp [e]
  · have : r it.group ≠ r g := fun e' => e (hinj it hit e')
    have h1 : (r it.group == r g) = false := beq_eq_false_iff_ne.mpr this
    have h2 : (it.group == g) = false := beq_eq_false_iff_ne.mpr e
    rw [h1, h2]

/-! ### window | batch receiver -/

/-- **window(count) | NODE isolated**, for every transparent batch receiver `B`, on every stream edge (points,
barriers, group deletions) whose points carry the batch-edge id `r g` of their group: the pipeline the driver runs
for the `win…` chains (`onBatchEdge`: a window's batch travels under its own batch-edge id). -/
theorem windowCount_then_node_isolated {ΓB σB ο : Type} (B : Node ΓB σB Batch ο) (IB : ΓB → Prop)
    (TB : Transparent B IB) (γB : ΓB) (hB : IB γB) (pd ev : Nat) (fill : Bool) (r : GroupID → GroupID)
    (items : List (Item Pt)) (hw : ∀ it ∈ items, ∀ m ∈ it.msgs, StreamLabelled r m)
    (g : GroupID) (hinj : ∀ it ∈ items, r it.group = r g → it.group = g) :
    (runPipe (windowCountNodeB pd ev fill) () onBatchEdge B γB items).filter (fun o => o.1 == r g) =
      runPipe (windowCountNodeB pd ev fill) () onBatchEdge B γB (items.filter (fun it => it.group == g)) :=
  pipeline_isolated_per_group _ (fun _ => True) (Transparent.ofUnit _) () trivial B IB TB γB hB onBatchEdge r items
    (windowCount_bid pd ev fill r items hw) g hinj

/-- **window(time) | NODE isolated**, likewise, with C03's window model as the first stage. -/
theorem windowTime_then_node_isolated {ΓB σB ο : Type} (B : Node ΓB σB Batch ο) (IB : ΓB → Prop)
    (TB : Transparent B IB) (γB : ΓB) (hB : IB γB) (c : Kap.C03.TCfg) (r : GroupID → GroupID)
    (items : List (Item Pt)) (hw : ∀ it ∈ items, ∀ m ∈ it.msgs, StreamLabelled r m)
    (g : GroupID) (hinj : ∀ it ∈ items, r it.group = r g → it.group = g) :
    (runPipe (windowTimeNodeB c) () onBatchEdge B γB items).filter (fun o => o.1 == r g) =
      runPipe (windowTimeNodeB c) () onBatchEdge B γB (items.filter (fun it => it.group == g)) :=
  pipeline_isolated_per_group _ (fun _ => True) (Transparent.ofUnit _) () trivial B IB TB γB hB onBatchEdge r items
    (windowTime_bid c r items hw) g hinj

/-- **window | aggregate isolated**: `|window()…|sum('v')` / `|count('v')` — per-group window state in the first
node, the node-wide createFn cache in the second. -/
theorem window_then_aggregate_isolated (m : Method) (r : GroupID → GroupID) (items : List (Item Pt))
    (hw : ∀ it ∈ items, ∀ m ∈ it.msgs, StreamLabelled r m)
    (g : GroupID) (hinj : ∀ it ∈ items, r it.group = r g → it.group = g) :
    (∀ pd ev fill,
      (runPipe (windowCountNodeB pd ev fill) () onBatchEdge (iqlNodeB m) {} items).filter (fun o => o.1 == r g) =
        runPipe (windowCountNodeB pd ev fill) () onBatchEdge (iqlNodeB m) {} (items.filter (fun it => it.group == g))) ∧
    (∀ c,
      (runPipe (windowTimeNodeB c) () onBatchEdge (iqlNodeB m) {} items).filter (fun o => o.1 == r g) =
        runPipe (windowTimeNodeB c) () onBatchEdge (iqlNodeB m) {} (items.filter (fun it => it.group == g))) :=
  ⟨fun pd ev fill => windowCount_then_node_isolated (iqlNodeB m) (CacheOk m) (iqlBTransparent m) {}
      (fun f hf => by cases hf) pd ev fill r items hw g hinj,
   fun c => windowTime_then_node_isolated (iqlNodeB m) (CacheOk m) (iqlBTransparent m) {}
      (fun f hf => by cases hf) c r items hw g hinj⟩

/-- every batch a window emits (count or time) travels under the batch-edge id its group's points carry -/
theorem window_batches_carry_edge_id (r : GroupID → GroupID) (items : List (Item Pt))
    (hw : ∀ it ∈ items, ∀ m ∈ it.msgs, StreamLabelled r m) :
    (∀ pd ev fill, ∀ x ∈ runNode (windowCountNodeB pd ev fill) () items, (onBatchEdge x).group = r x.1) ∧
    (∀ c, ∀ x ∈ runNode (windowTimeNodeB c) () items, (onBatchEdge x).group = r x.1) :=
  ⟨fun pd ev fill => windowCount_bid pd ev fill r items hw, fun c => windowTime_bid c r items hw⟩

/-- the batch-edge id of a stream-edge group, read off the stream: the id its first point carries -/
def edgeIdOf (pts : List (GroupID × Pt)) (g : GroupID) : GroupID :=
  ((pts.find? (fun a => a.1 == g)).map (·.2.bid)).getD ""

theorem edgeIdOf_spec (pts : List (GroupID × Pt)) (hl : ∀ a ∈ pts, ∀ b ∈ pts, a.1 = b.1 → a.2.bid = b.2.bid)
    (a : GroupID × Pt) (ha : a ∈ pts) : edgeIdOf pts a.1 = a.2.bid := by
  unfold edgeIdOf
  cases h : pts.find? (fun b => b.1 == a.1) with
  | none =>
    have := List.find?_eq_none.mp h a ha
    simp at this
  | some b =>
    have hb := List.mem_of_find?_eq_some h
    have hg := List.find?_some h
    simp only [beq_iff_eq] at hg
    simp only [Option.map_some, Option.getD_some]
    exact hl b hb a ha hg

/-- **window | NODE isolated, the labelling given as a relation**: on a stream of points where two points are in the
same stream-edge group exactly when they carry the same batch-edge id (true of `ToGroupID` over the dimension list and
over its duplicate-free version on clean points), the pipeline's output under the batch-edge id of a point `a` is its
output on the points of `a`'s group alone — count and time windows, any transparent batch receiver. -/
theorem window_then_node_isolated_rel {ΓB σB ο : Type} (B : Node ΓB σB Batch ο) (IB : ΓB → Prop)
    (TB : Transparent B IB) (γB : ΓB) (hB : IB γB) (pts : List (GroupID × Pt))
    (hl : ∀ a ∈ pts, ∀ b ∈ pts, a.1 = b.1 ↔ a.2.bid = b.2.bid) (a : GroupID × Pt) (ha : a ∈ pts) :
    let items := pts.map (fun x => Item.point x.1 x.2)
    let solo := (pts.filter (fun x => x.1 == a.1)).map (fun x => Item.point x.1 x.2)
    (∀ pd ev fill,
      (runPipe (windowCountNodeB pd ev fill) () onBatchEdge B γB items).filter (fun o => o.1 == a.2.bid) =
        runPipe (windowCountNodeB pd ev fill) () onBatchEdge B γB solo) ∧
    (∀ c,
      (runPipe (windowTimeNodeB c) () onBatchEdge B γB items).filter (fun o => o.1 == a.2.bid) =
        runPipe (windowTimeNodeB c) () onBatchEdge B γB solo) := by
  intro items solo
  have hl1 : ∀ a ∈ pts, ∀ b ∈ pts, a.1 = b.1 → a.2.bid = b.2.bid := fun a ha b hb => (hl a ha b hb).mp
  have hw : ∀ it ∈ items, ∀ m ∈ it.msgs, StreamLabelled (edgeIdOf pts) m := by
    intro it hit m hm
    obtain ⟨x, hx, rfl⟩ := List.mem_map.mp hit
    simp only [Item.msgs, List.mem_singleton] at hm
    rw [hm]
    exact (edgeIdOf_spec pts hl1 x hx).symm
  have hinj : ∀ it ∈ items, edgeIdOf pts it.group = edgeIdOf pts a.1 → it.group = a.1 := by
    intro it hit e
    obtain ⟨x, hx, rfl⟩ := List.mem_map.mp hit
    simp only [Item.group] at e ⊢
    rw [edgeIdOf_spec pts hl1 x hx, edgeIdOf_spec pts hl1 a ha] at e
    exact (hl x hx a ha).mpr e
  have hsolo : solo = items.filter (fun it => it.group == a.1) := by
    simp only [solo, items, List.filter_map]; rfl
  rw [hsolo, ← edgeIdOf_spec pts hl1 a ha]
  exact ⟨fun pd ev fill => windowCount_then_node_isolated B IB TB γB hB pd ev fill _ items hw a.1 hinj,
         fun c => windowTime_then_node_isolated B IB TB γB hB c _ items hw a.1 hinj⟩

/-- **the two edges' ids identify the same groups**: on clean points under one groupBy (same by-name flag, same
dimension list — duplicates allowed), two points get the same id on the stream edge exactly when they get the same id
on the batch edge behind a window, where the dimension list has lost its duplicates. This is the labelling hypothesis
of `window_then_node_isolated_rel` for the ids the code computes. -/
theorem stream_and_batch_edge_ids_agree (p q : GPoint) (hb : p.byName = q.byName) (hd : p.dims = q.dims)
    (hp : cleanPoint p = true) (hq : cleanPoint q = true) :
    idOf p = idOf q ↔ idOf (onBatchEdgeDims p) = idOf (onBatchEdgeDims q) := by
  rw [groupid_injective_partial p q hb hp hq,
    groupid_injective_partial (onBatchEdgeDims p) (onBatchEdgeDims q) hb (cleanPoint_onBatchEdge hp) (cleanPoint_onBatchEdge hq),
    sameGroup_onBatchEdge p q hd]

/-! ### groupBy | NODE -/

/-- the stream a `groupBy` node hands to its child: every point under the id computed from the point itself -/
def groupedItems {α π : Type} (idf : α → GroupID) (pay : α → π) (pts : List α) : List (Item π) :=
  (groupByStream idf pts).map (fun x => Item.point x.1 (pay x.2))

/-- **groupBy | NODE isolated**: B's grouping is a function `idf` of the POINT (whatever group it arrived under). For
every transparent receiver and every new group id `h`: the output labelled `h` is the output of the run fed only the
points that `groupBy` sends to `h`. -/
theorem groupBy_then_node_isolated {Γ σ α π ο : Type} (N : Node Γ σ π ο) (I : Γ → Prop) (T : Transparent N I)
    (γ : Γ) (hγ : I γ) (idf : α → GroupID) (pay : α → π) (pts : List α) (h : GroupID) :
    (runNode N γ (groupedItems idf pay pts)).filter (fun o => o.1 == h) =
      runNode N γ (groupedItems idf pay (pts.filter (fun p => idf p == h))) :=
  pipe_isolated (groupByStream idf) (runNode N γ) (fun x => Item.point x.1 (pay x.2)) (fun p => idf p == h)
    (fun g => g == h) (fun g => g == h) (fun g => g == h) pts
    (by simp only [groupByStream, List.filter_map]; rfl)
    (fun mids => runNode_filter_set T γ hγ mids (fun g => g == h)) (fun _ _ => rfl)

/-- a point as it reaches a `groupBy` node: measurement, tags, and the rest -/
abbrev RawPt := (String × Tags) × Pt

/-- the id `GroupByNode.Point` gives it (`computeTagNames`, then `ToGroupID` via `SetDimensions`) -/
def groupByGPoint (byName star : Bool) (dims excl : List String) (q : RawPt) : GPoint :=
  { byName := byName, name := q.1.1, tags := q.1.2,
    dims := computeTagNames q.1.2 star (determineTagNames dims excl) excl }

/-- **groupBy | stateCount isolated, in the property's own terms**: for every `groupBy` configuration (named
dimensions, `*`, exclude, by measurement), every stream of clean points and every point `g` of it, the
`stateCount` output labelled with `g`'s id is the output of the run fed exactly the points that agree with `g` on the
measurement (if grouping by it) and on every group-by tag value. (Identity and isolation composed over the explicit
groupBy stage; `stateCountNode` stands for any transparent receiver — the proof uses nothing else.) -/
theorem groupBy_then_stateCount_isolated (byName star : Bool) (dims excl : List String) (t : Int)
    (pts : List RawPt) (g : RawPt)
    (hg : cleanPoint (groupByGPoint byName star dims excl g) = true)
    (hc : ∀ q ∈ pts, cleanPoint (groupByGPoint byName star dims excl q) = true) :
    let gp := groupByGPoint byName star dims excl
    (runNode (stateCountNode t) () (groupedItems (fun q => idOf (gp q)) (·.2) pts)).filter (fun o => o.1 == idOf (gp g)) =
      runNode (stateCountNode t) () (groupedItems (fun q => idOf (gp q)) (·.2) (pts.filter (fun q => sameGroup (gp q) (gp g)))) := by
  intro gp
  rw [groupBy_then_node_isolated _ (fun _ => True) (Transparent.ofUnit _) () trivial]
  congr 2
  apply List.filter_congr
  intro q hq
  have := groupid_injective_partial (gp q) (gp g) rfl (hc q hq) hg
  cases h : sameGroup (gp q) (gp g)
  · have : ¬ idOf (gp q) = idOf (gp g) := fun e => by rw [this.mp e] at h; cases h
    simp [this]
  · simp [this.mpr h]

/-- **groupBy | window | aggregate isolated** (three stages, the composition theorem applied twice): the InfluxQL
output labelled with the batch-edge id `r h` is the output of the whole pipeline fed only the points `groupBy` sends
to `h`, when `r` (stream-edge id ↦ batch-edge id) is injective and the points are labelled with it. -/
theorem groupBy_window_aggregate_isolated (m : Method) (pd ev : Nat) (fill : Bool) (idf : Pt → GroupID)
    (r : GroupID → GroupID) (hr : ∀ a b, r a = r b → a = b) (pts : List Pt) (hl : ∀ p ∈ pts, p.bid = r (idf p))
    (h : GroupID) :
    (runPipe (windowCountNodeB pd ev fill) () onBatchEdge (iqlNodeB m) {} (groupedItems idf id pts)).filter (fun o => o.1 == r h) =
      runPipe (windowCountNodeB pd ev fill) () onBatchEdge (iqlNodeB m) {} (groupedItems idf id (pts.filter (fun p => idf p == h))) := by
  have hw : ∀ it ∈ groupedItems idf id pts, ∀ m ∈ it.msgs, StreamLabelled r m := by
    intro it hit m' hm'
    simp only [groupedItems, groupByStream, List.map_map, List.mem_map, Function.comp] at hit
    obtain ⟨p, hp, rfl⟩ := hit
    simp only [Item.msgs, List.mem_singleton] at hm'
    rw [hm']; exact hl p hp
  rw [windowCount_then_node_isolated (iqlNodeB m) (CacheOk m) (iqlBTransparent m) {} (fun f hf => by cases hf)
    pd ev fill r _ hw h (fun it _ e => hr _ _ e)]
  congr 1
  simp only [groupedItems, groupByStream, List.map_map, List.filter_map]
  rfl

/-! ## receivers transcribed in this round -/

/-- windowByTime (C03's model as a grouped receiver: one `TW` and one arrival list per group) is isolated on every
stream of points, barriers and deletions, for every period / every / align / fillPeriod. -/
theorem window_time_isolated (c : Kap.C03.TCfg) (items : List (Item Pt)) (g : GroupID) :
    (runNode (windowTimeNodeB c) () items).filter (fun o => o.1 == g) =
      runNode (windowTimeNodeB c) () (items.filter (fun it => it.group == g)) :=
  demux_noninterference_pure _ items g

/-- the alert node with its history ring, `changed`, and the flapping flag (`.flapping(low, high).history(n)`,
`.stateChangesOnly()`): all of it lives in `alertState`, so the node is isolated for EVERY flapping decision function
(the float64 weighting of `percentChange` is a parameter the theorem does not look into), every history length,
every threshold configuration. -/
theorem alert_history_isolated (thr : Nat → Option Int) (sco useFlap : Bool) (hlen : Nat)
    (flap : Bool → List Bool → Bool) (items : List (Item Pt)) (g : GroupID) :
    (runNode (alertHistNode thr sco useFlap hlen flap) () items).filter (fun o => o.1 == g) =
      runNode (alertHistNode thr sco useFlap hlen flap) () (items.filter (fun it => it.group == g)) :=
  demux_noninterference_pure _ items g

/-- the BATCH side of the alert node (threshold lambdas: state = current level; `count()` lambdas: state = the
group's counter and level) and of the eval node (`count() + "v"`: the group's counter runs on across batches) is
isolated on every stream of batches -/
theorem alert_eval_batch_side_isolated (items : List (Item Batch)) (g : GroupID) :
    (∀ thr, (runNode (alertThrNodeB thr) () items).filter (fun o => o.1 == g) =
      runNode (alertThrNodeB thr) () (items.filter (fun it => it.group == g))) ∧
    (∀ pr, (runNode (alertCountNodeB pr) () items).filter (fun o => o.1 == g) =
      runNode (alertCountNodeB pr) () (items.filter (fun it => it.group == g))) ∧
    ((runNode evalCountAddNodeB () items).filter (fun o => o.1 == g) =
      runNode evalCountAddNodeB () (items.filter (fun it => it.group == g))) :=
  ⟨fun _ => demux_noninterference_pure _ items g, fun _ => demux_noninterference_pure _ items g,
   demux_noninterference_pure _ items g⟩

/-! ### Non-vacuity -/

section
def mkP (g : String) (t : Int) (v : Int) : Item Pt := .point g { name := "m", key := g, v := .int v, time := t, bid := "b" ++ g }
def rB (g : GroupID) : GroupID := "b" ++ g

/-- the hypotheses of the window|aggregate theorems hold of an interleaved two-group stream, and the pipeline emits
for both groups -/
example :
    let items := [mkP "A" 1 5, mkP "B" 1 7, mkP "A" 2 6, mkP "B" 2 1, mkP "A" 3 1, mkP "B" 3 1, mkP "A" 4 2]
    (runPipe (windowCountNodeB 2 2 false) () onBatchEdge (iqlNodeB .count) {} items).map (fun o => (o.1, o.2.proj)) =
      [("bA", "i:2"), ("bB", "i:2"), ("bA", "i:2")] ∧
    items.all (fun it => it.msgs.all (fun m => match m with | .point g p => p.bid == rB g | _ => false)) = true := by
  decide

/-- window by time, period 2 every 2 (units), two interleaved groups -/
example :
    let items := [mkP "A" 0 5, mkP "B" 0 7, mkP "A" 1 6, mkP "B" 3 1, mkP "A" 2 1, mkP "A" 5 2]
    (runNode (windowTimeNodeB ⟨2, 2, false, false⟩) () items).map (fun o => (o.1, o.2.tmax, o.2.pts.map (·.time))) =
      [("B", 2, [0]), ("A", 2, [0, 1]), ("A", 4, [2])] := by
  decide

/-- flapping: a group that alternates CRITICAL / OK is silenced from its second change on, its steady neighbour is not -/
example :
    let thr : Nat → Option Int := fun l => if l == 3 then some 5 else none
    let items := [mkP "A" 1 9, mkP "B" 1 9, mkP "A" 2 0, mkP "B" 2 9, mkP "A" 3 9, mkP "B" 3 9, mkP "A" 4 0, mkP "B" 4 9,
                  mkP "A" 5 9, mkP "B" 5 9]
    ((runNode (alertHistNode thr false true 5 exactFlapDecide5) () items).filter (fun o => o.1 == "A")).map (·.2.time) = [1] ∧
    ((runNode (alertHistNode thr false true 5 exactFlapDecide5) () items).filter (fun o => o.1 == "B")).map (·.2.time) = [1, 2, 3, 4, 5] := by
  decide

/-- batch side of the alert node: levels are judged against the level before the batch -/
example :
    let b (g : String) (vs : List Int) : Item Batch :=
      .buffered g { key := g, bid := g, tmax := 9, pts := vs.map (fun v => { name := "m", key := g, v := .int v, time := v }) }
    (runNode (alertCountNodeB (.gt 4)) () [b "A" [1, 2, 3], b "B" [1, 2], b "A" [4, 5]]).map (fun o => (o.1, o.2.proj)) =
      [("A", "n:2/4=s:CRITICAL/5=s:CRITICAL")] := by
  decide

/-- batch side of eval: the group's count() runs on across its batches, whatever is interleaved -/
example :
    let b (g : String) (vs : List Int) : Item Batch :=
      .buffered g { key := g, bid := g, tmax := 9, pts := vs.map (fun v => { name := "m", key := g, v := .int v, time := v }) }
    ((runNode evalCountAddNodeB () [b "A" [10, 20], b "B" [10], b "A" [30]]).filter (fun o => o.1 == "A")).map (·.2.proj) =
      ["n:2/10=i:11/20=i:22", "n:1/30=i:33"] := by
  decide

/-- the relational labelling hypothesis of `window_then_node_isolated_rel` holds when the two edges spell the same
groups differently (`groupBy('host','host')`: "host=A,host=A" on the stream edge, "host=A" behind the window) -/
example :
    let pts : List (GroupID × Pt) := [("host=A,host=A", { name := "m", key := "A", v := .int 1, time := 1, bid := "host=A" }),
      ("host=B,host=B", { name := "m", key := "B", v := .int 1, time := 1, bid := "host=B" }),
      ("host=A,host=A", { name := "m", key := "A", v := .int 2, time := 2, bid := "host=A" })]
    pts.all (fun a => pts.all (fun b => (a.1 == b.1) == (a.2.bid == b.2.bid))) = true ∧
    (runPipe (windowCountNodeB 1 1 false) () onBatchEdge (iqlNodeB .sum) {} (pts.map (fun x => Item.point x.1 x.2))).map
      (fun o => (o.1, o.2.proj)) = [("host=A", "i:1"), ("host=B", "i:1"), ("host=A", "i:2")] := by
  decide

/-- groupBy | stateCount: clean points of two hosts -/
example :
    let q (h : String) (t : Int) (v : Int) : RawPt := (("cpu", [("host", h)]), { name := "cpu", key := h, v := .int v, time := t })
    let pts := [q "a" 1 9, q "b" 1 9, q "a" 2 9, q "b" 2 0]
    pts.all (fun x => cleanPoint (groupByGPoint false false ["host"] [] x)) = true ∧
    (runNode (stateCountNode 5) () (groupedItems (fun x => idOf (groupByGPoint false false ["host"] [] x)) (·.2) pts)).map
      (fun o => (o.1, o.2.proj)) = [("host=a", "i:1"), ("host=b", "i:1"), ("host=a", "i:2"), ("host=b", "i:-1")] := by
  decide
end

/-! ## Stateless stages behind a groupBy that rebuild a point's group identity

`|delete().tag(<group-by tag>)`, a further `|groupBy(…)`, `|default().tag(…)`, `|eval(…).tags(…)`: each rewrites what the
id of a point is computed from (`Kap.C06.Stage`, tied to `DeleteNode.Point` / `GroupByNode.Point` / `DefaultNode.Point` /
`EvalNode` by the relational runs with a stage between the groupBy and NODE). What must survive is the GROUPING: by
measurement if the task asked for it, and the configured tags minus the deleted ones (`groupingOkAfter`). -/

/-- **delete keeps "grouped by measurement"** (`DeleteNode.Point`, both branches): behind `|delete().tag(…)` a point is
grouped by measurement exactly when it was, its group-by tags are the previous ones that were not deleted (all of them
when no dimension is deleted), its tags are the undeleted ones and its measurement is unchanged. -/
theorem delete_keeps_by_measurement (del : List String) (p : GPoint) :
    ((Stage.delete del).apply p).byName = p.byName ∧
    ((Stage.delete del).apply p).dims = p.dims.filter (fun d => !del.contains d) ∧
    ((Stage.delete del).apply p).tags = deleteTags del p.tags ∧ ((Stage.delete del).apply p).name = p.name :=
  delete_apply_fields del p

/-- the transcribed delete satisfies the spec clause `groupingOkAfter` for every configuration and every point with a
strictly sorted dimension list (what every groupBy produces: `named_dimensions_sorted`) -/
theorem delete_grouping_as_spec (del : List String) (p : GPoint) (hs : sortedLt p.dims = true) :
    groupingOkAfter (some (.delete del)) (p.byName, p.dims)
      (((Stage.delete del).apply p).byName, ((Stage.delete del).apply p).dims) = true := by
  obtain ⟨hb, hd, -, -⟩ := delete_keeps_by_measurement del p
  rw [hb, hd]
  unfold groupingOkAfter
  simp only [Bool.and_eq_true, beq_self_eq_true, true_and, List.all_eq_true, List.mem_filter, Bool.or_eq_true,
    Bool.not_eq_true', and_imp]
  refine ⟨⟨?_, ?_⟩, ?_⟩
  · intro d hd hn
    exact ⟨by simpa using hd, by simpa using hn⟩
  · intro d hd
    by_cases e : d ∈ del
    · exact Or.inl (by simpa using e)
    · exact Or.inr (by simp [hd, e])
  · exact sortedLt_of_pairwise _ ((pairwise_of_sortedLt _ hs).filter _)

/-- **behind a delete, groups are told apart by the measurement (if grouping by it) and the REMAINING group-by tags**:
two points under the same grouping are in the same group behind `|delete().tag(del…)` exactly when they agree on the
measurement (when grouping by measurement) and on every group-by tag that was not deleted. -/
theorem delete_regroups_by_remaining_tags (del : List String) (p q : GPoint)
    (hb : p.byName = q.byName) (hd : p.dims = q.dims) :
    sameGroup ((Stage.delete del).apply p) ((Stage.delete del).apply q) = true ↔
      (p.byName = true → p.name = q.name) ∧
      ∀ d ∈ p.dims, del.contains d = false → tagVal p.tags d = tagVal q.tags d := by
  obtain ⟨pb, pd, pt, pn⟩ := delete_keeps_by_measurement del p
  obtain ⟨qb, qd, qt, qn⟩ := delete_keeps_by_measurement del q
  rw [sameGroup_iff, pb, qb, pd, qd, pt, qt, pn, qn]
  constructor
  · rintro ⟨-, -, hn, hv⟩
    refine ⟨hn, fun d hdm hc => ?_⟩
    have := hv d (List.mem_filter.mpr ⟨hdm, by simpa using hc⟩)
    rwa [tagVal_deleteTags del _ d hc, tagVal_deleteTags del _ d hc] at this
  · rintro ⟨hn, hv⟩
    refine ⟨hb, by rw [hd], hn, fun d hdm => ?_⟩
    obtain ⟨h1, h2⟩ := List.mem_filter.mp hdm
    have hc : del.contains d = false := by simpa using h2
    rw [tagVal_deleteTags del _ d hc, tagVal_deleteTags del _ d hc]
    exact hv d h1 hc

/-- non-vacuity: grouped by measurement, dc and host; `dc` deleted: (cpu, host=A) of two data centres become one group,
(cpu, host=A) and (mem, host=A) stay two -/
example :
    let mk (n dc : String) : GPoint := { byName := true, name := n, tags := [("dc", dc), ("host", "A")], dims := ["dc", "host"] }
    sameGroup ((Stage.delete ["dc"]).apply (mk "cpu" "1")) ((Stage.delete ["dc"]).apply (mk "cpu" "2")) = true ∧
    sameGroup ((Stage.delete ["dc"]).apply (mk "cpu" "1")) ((Stage.delete ["dc"]).apply (mk "mem" "1")) = false ∧
    idOf ((Stage.delete ["dc"]).apply (mk "cpu" "1")) = "cpu\nhost=A" := by
  decide

/-- **why the flag must be carried over** (counterexample about `deleteDimensionsNoFlag`, i.e. a `deleteDimensions` that
builds `Dimensions{TagNames: kept}` only): points of two measurements that agree on the remaining tags get ONE id behind
the delete although the task groups by measurement; the transcribed code keeps them apart, and the spec clause
`groupingOkAfter` rejects the flagless grouping. -/
theorem delete_without_flag_merges_measurements :
    let p : GPoint := { byName := true, name := "cpu", tags := [("dc", "1"), ("host", "A")], dims := ["dc", "host"] }
    let q : GPoint := { byName := true, name := "mem", tags := [("dc", "1"), ("host", "A")], dims := ["dc", "host"] }
    sameGroup p q = false ∧
    idOf (deletePointWith deleteDimensionsNoFlag ["dc"] p) = idOf (deletePointWith deleteDimensionsNoFlag ["dc"] q) ∧
    idOf ((Stage.delete ["dc"]).apply p) ≠ idOf ((Stage.delete ["dc"]).apply q) ∧
    groupingOkAfter (some (.delete ["dc"])) (p.byName, p.dims)
      ((deletePointWith deleteDimensionsNoFlag ["dc"] p).byName, (deletePointWith deleteDimensionsNoFlag ["dc"] p).dims) = false := by
  decide

/-- a further named groupBy satisfies the spec clause: the newly configured dimensions, each once and sorted; by
measurement if it asks for it, and not if neither it nor the earlier grouping did -/
theorem groupBy_stage_grouping_as_spec (b : Bool) (dims : List String) (p : GPoint) :
    groupingOkAfter (some (.groupBy b dims)) (p.byName, p.dims)
      (((Stage.groupBy b dims).apply p).byName, ((Stage.groupBy b dims).apply p).dims) = true := by
  have hs := (named_dimensions_sorted dims []).1
  simp only [groupingOkAfter, Stage.apply, computeTagNames, dimsOk, Bool.false_eq_true, ↓reduceIte, Bool.and_eq_true,
    List.all_eq_true, hs, and_true]
  refine ⟨by cases b <;> cases p.byName <;> simp, ?_, ?_⟩
  · intro t ht
    have := (mem_determineTagNames dims [] t).mp ht
    simpa using this.1
  · intro t ht
    have : t ∈ determineTagNames dims [] := (mem_determineTagNames dims [] t).mpr ⟨by simpa using ht, by simp⟩
    simpa using this

/-- **every transcribed stage leaves the grouping the property asks for** (`groupingOkAfter`), for every configuration
and every point whose dimension list is strictly sorted -/
theorem stage_grouping_as_spec (st : Stage) (p : GPoint) (hs : sortedLt p.dims = true) :
    groupingOkAfter (some st) (p.byName, p.dims) ((st.apply p).byName, (st.apply p).dims) = true := by
  cases st with
  | delete del => exact delete_grouping_as_spec del p hs
  | groupBy b dims => exact groupBy_stage_grouping_as_spec b dims p
  | defaultTag k v => simp only [groupingOkAfter, Stage.apply]; split <;> simp
  | evalTag k v => simp [Stage.apply, groupingOkAfter]

/-- **groupBy | stages | NODE isolated, in the property's own terms**: for every `groupBy` configuration, every list of
stateless stages behind it (delete of group-by tags, further groupBys, default / eval writing tags), every receiver with
transparent node-wide state, every stream of points that are clean where they reach NODE and every point `g` of it: the
output labelled with the id `g` carries behind the stages is the output of the run fed exactly the points that, behind
the stages, agree with `g` on the measurement (if grouping by it) and on every remaining group-by tag value. -/
theorem groupBy_stages_node_isolated {Γ σ ο : Type} (N : Node Γ σ Pt ο) (I : Γ → Prop) (T : Transparent N I)
    (γ : Γ) (hγ : I γ) (byName star : Bool) (dims excl : List String) (sts : List Stage)
    (pts : List RawPt) (g : RawPt)
    (hg : cleanPoint (applyStages sts (groupByGPoint byName star dims excl g)) = true)
    (hc : ∀ q ∈ pts, cleanPoint (applyStages sts (groupByGPoint byName star dims excl q)) = true) :
    let fin := fun q => applyStages sts (groupByGPoint byName star dims excl q)
    (runNode N γ (groupedItems (fun q => idOf (fin q)) (·.2) pts)).filter (fun o => o.1 == idOf (fin g)) =
      runNode N γ (groupedItems (fun q => idOf (fin q)) (·.2) (pts.filter (fun q => sameGroup (fin q) (fin g)))) := by
  intro fin
  rw [groupBy_then_node_isolated N I T γ hγ]
  congr 2
  apply List.filter_congr
  intro q hq
  have := groupid_injective_partial (fin q) (fin g) (applyStages_byName sts _ _ rfl) (hc q hq) hg
  cases h : sameGroup (fin q) (fin g)
  · have : ¬ idOf (fin q) = idOf (fin g) := fun e => by rw [this.mp e] at h; cases h
    simp [this]
  · simp [this.mpr h]

/-- non-vacuity of `groupBy_stages_node_isolated`: groupBy('dc','host').byMeasurement() | delete().tag('dc') |
stateCount: cpu and mem agree on host=A and keep separate counters; the two data centres of cpu share one -/
example :
    let q (n dc : String) (t : Int) : RawPt := ((n, [("dc", dc), ("host", "A")]), { name := n, key := n, v := .int 9, time := t })
    let pts := [q "cpu" "1" 1, q "mem" "1" 1, q "cpu" "2" 2, q "mem" "1" 2]
    let fin := fun x => applyStages [Stage.delete ["dc"]] (groupByGPoint true false ["dc", "host"] [] x)
    pts.all (fun x => cleanPoint (fin x)) = true ∧
    (runNode (stateCountNode 5) () (groupedItems (fun x => idOf (fin x)) (·.2) pts)).map (fun o => (o.1, o.2.proj)) =
      [("cpu\nhost=A", "i:1"), ("mem\nhost=A", "i:1"), ("cpu\nhost=A", "i:2"), ("mem\nhost=A", "i:2")] := by
  decide

end Kap.Props.C06Pipe
