/-
C06 — the structural half of isolation, over facts REGENERATED from the Go source on every run
(extract/c06groups → Kap/Gen/C06.lean): every grouped receiver (`NewGroup`) of the kapacitor root package builds
its per-group receiver object itself, uses the node's compiled stateful expressions only through `CopyReset`, and
no method of the node (outside `run*`) or of its per-group receivers writes a node-level field — except the
fields listed in `allowedMutable`, each with the reason why it does not let one group influence another.
This is the premise "all state a group uses is created in NewGroup" under which `demux_noninterference_pure`
applies to a node; a change that hoists state from the group to the node, evaluates a node-level expression
directly, or adds a shared mutable field makes `every_newgroup_owns_its_state` false (the extractor emits
`evaluated` / `unknown` / a new `mutated` entry; nothing is defaulted).
Not visible to this scan (purely syntactic, root package only): state inside objects the node only reads
(`EvalLambdaNode.state` of a nested lambda — finding nested-lambda-state-shared; the nodeEvaluator's type
specialisation — C04), and state reached through method calls on node-level objects (timers, statistics, the alert
service). Those are covered by the relational runs.
-/
import Kap.Gen.C06
namespace Kap.Props.C06Scan
open Kap.Gen.C06

/-- node-level fields that run-time code writes, and why that is not state shared BETWEEN groups -/
def allowedMutable : List (String × String) := [
  ("InfluxQLNode", "currentKind"),     -- cache, transparent: Kap.Props.C06.cache_keyed_by_kind / iql_isolated
  ("InfluxQLNode", "createFn"),
  ("BarrierNode", "barrierStopper"),   -- map[GroupID]func(): one entry per group, written by that group's NewGroup/DeleteGroup
  ("HTTPOutNode", "indexes"),          -- map[GroupID]int: one entry per group
  ("AutoscaleNode", "resourceStates")  -- keyed by the external resource id the node scales: shared by design
]

def nodeOk (f : NodeFacts) : Bool :=
  !f.groupTypes.isEmpty &&
  f.exprFields.all (fun e => e.2 == Use.copyResetOnly) &&
  f.mutated.all (fun m => allowedMutable.contains (f.node, m))

/-- **Every NewGroup allocates the state its group uses** (over the regenerated table). -/
theorem every_newgroup_owns_its_state : facts.all nodeOk = true := by decide

/-- the grouping-aware nodes the property names are all in the table -/
theorem listed_nodes_scanned :
    ["AlertNode", "ChangeDetectNode", "DerivativeNode", "EvalNode", "InfluxQLNode", "SampleNode", "StateTrackingNode",
     "WhereNode", "WindowNode"].all (fun n => facts.any (fun f => f.node == n)) = true := by decide

/-- non-vacuity: the table is not empty and does contain nodes with compiled expressions and with allowed fields -/
example : facts.length ≥ 10 ∧ facts.any (fun f => !f.exprFields.isEmpty) ∧ facts.any (fun f => !f.mutated.isEmpty) := by decide

end Kap.Props.C06Scan
