/-
C06 — the structural half of isolation, over facts REGENERATED from the Go source on every run
(extract/c06groups → Kap/Gen/C06.lean): every grouped receiver (`NewGroup`) of the kapacitor root package builds
its per-group receiver object itself, uses the node's compiled stateful expressions only through `CopyReset`, and
no method of the node (outside `run*`) or of its per-group receivers writes a node-level field — except the
fields listed in `allowedMutable`, each with the reason why it does not let one group influence another.
This is the premise "all state a group uses is created in NewGroup" under which `demux_noninterference_pure`
applies to a node; a change that hoists state from the group to the node, evaluates a node-level expression
directly, or adds a shared mutable field makes `every_newgroup_owns_its_state` false (the extractor emits
`evaluated` / `unknown` / a new `mutated` entry; nothing is defaulted).
Not visible to this scan (purely syntactic, root package only): state inside objects the node only reads
(`EvalLambdaNode.state` of a nested lambda — it was shared by all groups until `fix:` 8ed14ac made `CopyReset` copy
the lambda nodes, former finding nested-lambda-state-shared; the nodeEvaluator's type specialisation — C04), and state reached through method calls on node-level objects (timers, statistics, the alert
service). Those are covered by the relational runs.
-/
import Kap.Gen.C06
namespace Kap.Props.C06Scan
open Kap.Gen.C06

/-- node-level fields that run-time code writes, and why that is not state shared BETWEEN groups -/
def allowedMutable : List (String × String) := [
  ("InfluxQLNode", "currentKind"),     -- cache, transparent: Kap.Props.C06.cache_keyed_by_kind / iql_isolated
  ("InfluxQLNode", "createFn"),
  ("BarrierNode", "barrierStopper"),   -- map[GroupID]func(): one entry per group, written by that group's NewGroup/DeleteGroup
  ("BarrierNode", "periodicEmitters"), -- sync.WaitGroup (fix 93b2e57): counts the emitter goroutines, waited for only when the node exits; carries no data
  ("HTTPOutNode", "indexes"),          -- map[GroupID]int: one entry per group
  ("AutoscaleNode", "resourceStates")  -- keyed by the external resource id the node scales: shared by design
]

def nodeOk (f : NodeFacts) : Bool :=
  !f.groupTypes.isEmpty &&
  f.exprFields.all (fun e => e.2 == Use.copyResetOnly) &&
  f.mutated.all (fun m => allowedMutable.contains (f.node, m))

/-- **Every NewGroup allocates the state its group uses** (over the regenerated table). -/
theorem every_newgroup_owns_its_state : facts.all nodeOk = true := by decide

/-- the grouping-aware nodes the property names are all in the table -/
theorem listed_nodes_scanned :
    ["AlertNode", "ChangeDetectNode", "DerivativeNode", "EvalNode", "InfluxQLNode", "SampleNode", "StateTrackingNode",
     "WhereNode", "WindowNode"].all (fun n => facts.any (fun f => f.node == n)) = true := by decide

/-- non-vacuity: the table is not empty and does contain nodes with compiled expressions and with allowed fields -/
example : facts.length ≥ 10 ∧ facts.any (fun f => !f.exprFields.isEmpty) ∧ facts.any (fun f => !f.mutated.isEmpty) := by decide

/-! ### every lambda-bearing node has a generated variant whose lambda holds a STATEFUL function

`lambdaFields` is regenerated from pipeline/*.go, `harnessKinds` from the harness source. For each lambda field the
table names the node chains of the harness that exercise it, each with the exact text that must occur in the chain's
TICKscript (the lambda of THAT property starting with / containing a stateful function), on the stream side and —
where the node has one — behind a window on the batch side; or an explicit reason why the field is not generated.
A new lambda-bearing pipeline node, or a harness chain that loses its stateful function, makes the theorem false. -/

inductive Cover where
  | chains (stream batch : List (String × String))   -- (harness kind, required script text)
  | excluded (why : String)

def statefulCoverage : List ((String × String) × Cover) := [
  (("AlertNodeData", "Crit"), .chains [("alertgt", ".crit(lambda: count()"), ("alertmod", ".crit(lambda: count()")]
                                       [("winalertcount", ".crit(lambda: count()")]),
  (("AlertNodeData", "Warn"), .chains [("alertsigma", ".warn(lambda: sigma("), ("alertlevelsfn", ".warn(lambda: spread(")] []),
  (("AlertNodeData", "Info"), .chains [("alertlevelsfn", ".info(lambda: count()")] []),
  (("AlertNodeData", "InfoReset"), .chains [("alertlevelsfn", ".infoReset(lambda: count()")] []),
  (("AlertNodeData", "WarnReset"), .chains [("alertreset", ".warnReset(lambda: count()")] []),
  (("AlertNodeData", "CritReset"), .chains [("alertreset", ".critReset(lambda: count()")] []),
  (("CombineNode", "Lambdas"), .chains [("combinefn", "|combine(lambda: count()")] []),
  (("EvalNode", "Lambdas"), .chains [("evalcount", "|eval(lambda: count()"), ("evalsigma", "|eval(lambda: sigma("),
                                      ("evalspread", "|eval(lambda: spread("), ("eval2", ", lambda: count()")]
                                     [("wineval", "|eval(lambda: count()")]),
  (("StateCountNode", "Lambda"), .chains [("statecountfn", "|stateCount(lambda: count()"), ("statecountsigma", "|stateCount(lambda: sigma(")]
                                          [("winstatecountfn", "|stateCount(lambda: count()")]),
  (("StateDurationNode", "Lambda"), .chains [("statedurationfn", "|stateDuration(lambda: count()"), ("statedurspread", "|stateDuration(lambda: spread(")]
                                             [("winstatedurfn", "|stateDuration(lambda: count()")]),
  (("WhereNode", "Lambda"), .chains [("wherecount", "|where(lambda: count()"), ("wheresigma", "|where(lambda: sigma(")]
                                     [("winwhere", "|where(lambda: count()")]),
  (("FromNode", "Lambda"), .excluded "from().where() is evaluated before a point has a group (FromNode is no grouped receiver): its expression state is per task by construction, not per-group state"),
  (("Ec2AutoscaleNode", "Replicas"), .excluded "needs an EC2 autoscaling service; the scan shows AutoscaleNode.replicasExpr is used through CopyReset only"),
  (("K8sAutoscaleNode", "Replicas"), .excluded "needs a Kubernetes service; the scan shows AutoscaleNode.replicasExpr is used through CopyReset only"),
  (("SwarmAutoscaleNode", "Replicas"), .excluded "needs a Docker Swarm service; the scan shows AutoscaleNode.replicasExpr is used through CopyReset only")
]

def isPrefixL : List Char → List Char → Bool
  | [], _ => true
  | _ :: _, [] => false
  | a :: as, b :: bs => a == b && isPrefixL as bs

def occursL (n : List Char) : List Char → Bool
  | [] => n.isEmpty
  | h :: t => isPrefixL n (h :: t) || occursL n t

def chainOk (c : String × String) : Bool :=
  let kind := c.1.toList
  let text := c.2.toList
  harnessKindsL.any (fun k => k.1 == kind && occursL text k.2) &&
  (occursL "count()".toList text || occursL "sigma(".toList text || occursL "spread(".toList text)

def fieldCovered (f : String × String) : Bool :=
  match statefulCoverage.lookup f with
  | some (.chains st ba) => !st.isEmpty && st.all chainOk && ba.all chainOk
  | some (.excluded _) => true
  | none => false

set_option maxRecDepth 100000 in
/-- **Every expression-bearing node kind is generated with a stateful function in its lambda** (or is explicitly
excluded with a reason), over the regenerated lists. -/
theorem every_lambda_field_has_a_stateful_variant : lambdaFields.all fieldCovered = true := by decide

/-- the nodes with a batch side all have a batch-side stateful variant -/
theorem batch_side_stateful_variants :
    [("AlertNodeData", "Crit"), ("EvalNode", "Lambdas"), ("StateCountNode", "Lambda"), ("StateDurationNode", "Lambda"),
     ("WhereNode", "Lambda")].all (fun f => match statefulCoverage.lookup f with
       | some (.chains _ ba) => !ba.isEmpty
       | _ => false) = true := by decide

end Kap.Props.C06Scan
