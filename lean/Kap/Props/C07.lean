/-
C07 — property theorems (every `theorem` in this module is a proof obligation; `bin/check C07` audits the
axioms of each). Helper lemmas live in Kap/Proofs/C07*.lean.

Statement (properties.jsonl): when a task is stopped / disabled or the daemon shuts down cleanly, every point
accepted before the stop is carried through the whole pipeline and handed to its outputs before the task ends;
the stop itself always completes (all node and helper goroutines exit, no caller is left blocked), whatever the
speed of the outputs or the moment of the stop — also when a node fails in the middle of the pipeline.

The theorems are about the transition system of Kap/Model/C07.lean (transcribed from task_master.go, task.go,
node.go, edge/edge.go, influxdb_out.go, alert.go, alert/topics.go, http_post.go, udf.go,
kapacitor_loopback.go). "For all schedules" = for every list of actions (`run` skips actions that are not
enabled, so every list is a schedule and every interleaving of the goroutines is some list); no bound on the
number of points, on the edge buffer size, or on the length of the chain.
-/
import Kap.Proofs.C07Outcome
import Kap.Proofs.C07Buf
import Kap.Proofs.C07Wb
import Kap.Gen.C07Shape
import Kap.Gen.C07Go
import Kap.Spec.C07Go
namespace Kap.Props.C07
open Kap.C07

/-! ### Exact accounting, for every pipeline, every schedule, every moment -/

/-- **Nothing disappears unaccounted** — in every state reached by any schedule of any chain: each accepted
point was either dropped by `forkPoint` (`lostIngest`), still sits in `write_points` / in `forkPoint`'s hand, is
held or was dropped by a node before node `j` (`upstream`), sits in the input edge of node `j`, or was taken by
node `j` (`got`). -/
theorem accounting (cfg : Cfg) (kinds : List Kind) (n : Nat) (sched : List Act) (j : Nat) (nd : Nd) :
    let s := run cfg (init kinds n) sched
    s.nodes[j]? = some nd →
    (∀ (i : Nat) (x : Nd), i < j → s.nodes[i]? = some x → forwards x.kind = true) →
    s.accepted = s.lostIngest + s.ingest + s.forkHand + upstream s.nodes j + nd.inq + nd.got := by
  intro s hj hfw
  have hc : Cons s := cons_run (cons_init kinds n) sched
  have h1 := cons_ent hc j nd hj hfw
  have h2 := hc.nodeIn j nd hj
  unfold balIn at h2
  omega

/-- … and what a node took is what its output was handed, plus what is still pending in its buffer, plus what
it lost there: httpPost hands over synchronously; the alert handler queue holds `buf` events and loses only on
overflow; influxDBOut holds one point in `enqueue`, `buf` points in the write buffer and loses the points dropped
on `<-w.stopping` or discarded with the buffer at `abort()`. -/
theorem output_accounting (cfg : Cfg) (kinds : List Kind) (n : Nat) (sched : List Act) (j : Nat) (nd : Nd) :
    let s := run cfg (init kinds n) sched
    s.nodes[j]? = some nd →
    match nd.kind with
    | .post => nd.got = nd.deliv
    | .alert _ => nd.got = nd.deliv + nd.buf + nd.lost
    | .influx _ => nd.got = nd.deliv + nd.hand + nd.buf + nd.lost
    | _ => True := by
  intro s hj
  have hc : Cons s := cons_run (cons_init kinds n) sched
  have h := hc.nodeOut j nd hj
  unfold balOut at h
  cases hk : nd.kind <;> simp_all <;> omega

/-! ### Everything accepted is delivered: chains of pass / httpPost / alert nodes stopped by `Close` -/

/-- The full-strength statement: for EVERY pipeline, stop kind and schedule, once the stop has returned the
property holds of what an observer sees. It is FALSE of the code (theorems `influx_stop_loses_backlog`,
`stoptask_loses_ingest_backlog`, `udf_stop_loses_backlog`, `loopback_stop_deadlocks` below), hence only stated. -/
def stop_delivers_all_stmt : Prop :=
  ∀ (cfg : Cfg) (kinds : List Kind) (n : Nat) (sched : List Act),
    cfg.hookLock = false → cfg.alertLeak = false → cfg.barrierGuard = true → cfg.influxEarlyAbort = false →
    let s := run cfg (init kinds n) sched
    s.ph = .finished → holds (outcomeOf s) = true

/-- **Graceful stop delivers everything** (the part that is true): a chain of pass / httpPost / alert nodes
(handler queues large enough for the run), stopped by `TaskMaster.Close`, under EVERY schedule: once the stop
has returned and the goroutines are gone, every output has been handed exactly the accepted points.
Excluded by hypothesis, because false: influxDBOut, UDF and loopback nodes, failing nodes (covered by
`others_still_terminate`), and StopTask/DeleteTask (`viaClose = false`). -/
theorem stop_delivers_all_partial (cfg : Cfg) (kinds : List Kind) (n : Nat) (sched : List Act)
    (hclose : cfg.viaClose = true) (hg : cfg.barrierGuard = true) (hk : ∀ k ∈ kinds, losslessKind n k = true) :
    let s := run cfg (init kinds n) sched
    s.stopped = true → holds (outcomeOf s) = true ∧ (outcomeOf s).delivered.all (· = s.accepted) = true := by
  intro s hst
  have hl : Lossless n cfg s := lossless_run (lossless_init cfg kinds n hclose hk) sched
  exact ⟨lossless_holds hl hst (nopanic_run hg (nopanic_init kinds n) sched), lossless_delivered hl hst⟩

/-- Non-vacuity: a concrete schedule of `stream → from → httpPost → alert` with 2 points, stopped by Close with
a backlog in the pipeline, reaches a stopped state (and both outputs got both points). -/
example :
    let cfg : Cfg := { cap := 1, viaClose := true, hookLock := false, alertLeak := false }
    let kinds := [Kind.pass, .pass, .post, .alert 5]
    (∀ k ∈ kinds, losslessKind 2 k = true) ∧
    ∃ sched, (run cfg (init kinds 2) sched).stopped = true ∧ (outcomeOf (run cfg (init kinds 2) sched)).delivered = [2, 2] := by
  refine ⟨by decide, ?_⟩
  let round : List Act := [.stop, .forkTake, .forkLock, .forkPut, .forkExit, .thrExit,
    .node 3 .init, .node 3 .handle, .node 3 .put, .node 3 .take, .node 2 .put, .node 2 .take, .node 1 .put, .node 1 .take,
    .node 0 .put, .node 0 .take, .node 0 .exit, .node 1 .exit, .node 2 .exit, .node 3 .closeOut, .node 3 .helperExit, .node 3 .exit]
  exact ⟨[.write, .forkTake, .write] ++ (List.replicate 16 round).flatten, by decide, by decide⟩

/-! ### The stop always completes -/

/-- **Every enabled action strictly decreases a natural-number measure** — for EVERY configuration (also the
ones with loopback nodes and the code before the repairs): no schedule is infinite, whatever the scheduler
does; no fairness is assumed. -/
theorem every_action_decreases_measure (cfg : Cfg) (s s' : State) (a : Act) (h : step cfg s a = some s') :
    mu s' < mu s :=
  mu_step h

/-- … hence a schedule of enabled actions is never longer than the measure of its first state. -/
theorem schedules_are_bounded (cfg : Cfg) (s s' : State) (sched : List Act) (h : runStrict cfg s sched = some s') :
    sched.length + mu s' ≤ mu s :=
  runStrict_length h

/-- The full-strength termination statement: in every reachable state of every pipeline in which no action is
enabled, the stop has returned and all goroutines are gone. FALSE for loopback nodes under StopTask
(`loopback_stop_deadlocks`), hence only stated (it was also false for a UDF node above a failing node until the
repair of finding udf-above-failed-node-blocks-stop: `udf_above_failed_node_blocks_stop`, `Cfg.udfFwdOrphan`). -/
def stop_terminates_stmt : Prop :=
  ∀ (cfg : Cfg) (kinds : List Kind) (n : Nat) (sched : List Act),
    cfg.hookLock = false → cfg.alertLeak = false → cfg.influxEarlyAbort = false → cfg.udfFwdOrphan = false → 1 ≤ cfg.cap → kinds ≠ [] →
    let s := run cfg (init kinds n) sched
    Quiescent cfg s → s.stopped = true

/-- **No deadlock, no leak**: any chain of pass / httpPost / alert / influxDBOut (repaired) / barrier / FAILING / UDF nodes
(UDF nodes since the repair of finding udf-above-failed-node-blocks-stop, `udfFwdOrphan = false`: a UDF node whose child
edge was aborted fails like every other node; the code before is `udf_above_failed_node_blocks_stop`. No loopback
node: `loopback_stop_deadlocks`), any edge buffer size ≥ 1, any number of points, StopTask or Close requested at ANY moment, ANY
schedule: a state in which no goroutine can move is a state in which the stop has returned and every node
goroutine, write-buffer goroutine, handler goroutine and the throughput goroutine has exited. Together with
`every_action_decreases_measure`: every schedule ends, after at most `mu (init …)` steps, and it ends there. -/
theorem stop_terminates (cfg : Cfg) (kinds : List Kind) (n : Nat) (sched : List Act)
    (hhook : cfg.hookLock = false) (hleak : cfg.alertLeak = false) (hea : cfg.influxEarlyAbort = false)
    (hcap : 1 ≤ cfg.cap) (hne : kinds ≠ [])
    (hfo : cfg.udfFwdOrphan = false) (hk : ∀ k ∈ kinds, isLoop k = false) :
    let s := run cfg (init kinds n) sched
    Quiescent cfg s →
      s.stopped = true ∧ stopCompletes (outcomeOf s) = true ∧ allExited (outcomeOf s) = true := by
  intro s hq
  have hd : DInv s := dinv_run hleak hea hfo (dinv_init kinds n hk) sched
  have hlen : s.nodes ≠ [] := by
    intro h0
    have := run_nodes_length (cfg := cfg) (s := init kinds n) sched
    have h1 : s.nodes.length = 0 := by rw [h0]; rfl
    have h2 : (init kinds n).nodes.length = kinds.length := by simp [init]
    have : kinds.length = 0 := by rw [← h2, ← this]; exact h1
    exact hne (List.length_eq_zero_iff.mp this)
  rcases progress_or_stopped hd hcap hhook hleak hea hfo hlen with hp | hst
  · exact absurd hp (quiescent_not_progress hq)
  · exact ⟨hst, stopped_terminated hst⟩

/-- **A node failing in the middle of the pipeline**: the remaining nodes still terminate — when a node's runF
has returned an error (a UDF process died, a child edge was aborted …) and nothing can move any more, the stop
has returned and every goroutine of the task is gone: the property holds of what the observer sees. -/
theorem others_still_terminate (cfg : Cfg) (kinds : List Kind) (n : Nat) (sched : List Act)
    (hhook : cfg.hookLock = false) (hleak : cfg.alertLeak = false) (hea : cfg.influxEarlyAbort = false)
    (hcap : 1 ≤ cfg.cap) (hne : kinds ≠ [])
    (hg : cfg.barrierGuard = true) (hfo : cfg.udfFwdOrphan = false) (hk : ∀ k ∈ kinds, isLoop k = false) :
    let s := run cfg (init kinds n) sched
    Quiescent cfg s → s.nodes.any (·.failed) = true → holds (outcomeOf s) = true := by
  intro s hq hf
  have h := stop_terminates cfg kinds n sched hhook hleak hea hcap hne hfo hk hq
  exact holds_of (noCrash_of (nopanic_run hg (nopanic_init kinds n) sched)) h.2.1 h.2.2 (allDelivered_of_failed hf)

/-- Non-vacuity of `others_still_terminate`: `stream → httpPost → failing node (after 1 message) → httpPost`, 3
points: a schedule reaches a quiescent state in which a node has failed (the upstream httpPost was handed
all 3 points, the downstream one only 1). -/
example :
    let cfg : Cfg := { cap := 1, viaClose := false, hookLock := false, alertLeak := false }
    let kinds := [Kind.pass, .post, .fail 1, .post]
    ∃ sched, enabledActs cfg (run cfg (init kinds 3) sched) = [] ∧ (run cfg (init kinds 3) sched).nodes.any (·.failed) = true ∧
      (outcomeOf (run cfg (init kinds 3) sched)).delivered = [3, 1] := by
  let round : List Act := [.write, .forkTake, .forkLock, .forkPut, .forkDrop, .thrExit,
    .node 3 .put, .node 3 .take, .node 2 .put, .node 2 .take, .node 1 .put, .node 1 .putErr, .node 1 .take,
    .node 0 .put, .node 0 .putErr, .node 0 .take, .node 2 .exit, .node 1 .exit, .node 0 .exit, .node 3 .exit]
  exact ⟨(List.replicate 6 round).flatten ++ (List.replicate 14 (round ++ [.stop])).flatten, by decide, by decide, by decide⟩

/-- **Graceful stop, complete**: for the chains of `stop_delivers_all_partial` every schedule that cannot be
extended ends in a state of which the WHOLE property holds (stop returned, no goroutine left, every output was
handed every accepted point). -/
theorem close_stops_and_delivers (cfg : Cfg) (kinds : List Kind) (n : Nat) (sched : List Act)
    (hhook : cfg.hookLock = false) (hleak : cfg.alertLeak = false) (hea : cfg.influxEarlyAbort = false)
    (hcap : 1 ≤ cfg.cap) (hne : kinds ≠ [])
    (hclose : cfg.viaClose = true) (hg : cfg.barrierGuard = true) (hfo : cfg.udfFwdOrphan = false) (hk : ∀ k ∈ kinds, losslessKind n k = true) :
    let s := run cfg (init kinds n) sched
    Quiescent cfg s → holds (outcomeOf s) = true := by
  intro s hq
  have h := stop_terminates cfg kinds n sched hhook hleak hea hcap hne hfo (fun k hm => losslessKind_not_loop (hk k hm)) hq
  exact (stop_delivers_all_partial cfg kinds n sched hclose hg hk h.1).1

/-! ### A BUFFERING node flushes what it holds before it closes its child edge (outer join, Model/C07Buf.lean) -/

/-- **flush on finish**: a join node with an outer fill, a leading parent that delivers the points of `n` timestamps
and a lagging parent that delivers only the first `m` of them, ANY interleaving of the arrivals: once Finish has run
(all parent edges closed by the graceful stop) and the node returns, every buffered set has been emitted - the child
edge was handed one point per timestamp any parent delivered, in particular every accepted point of the leading
parent (`m ≤ n`). (Seeded change C07-4 - emitAll calling emit(false) once - is `join_flush_once_loses_sets`.) -/
theorem flush_on_finish (n m : Nat) (sched : List Buf.Act) :
    let s := Buf.run false (Buf.init n m) sched
    s.done = true → s.e = max n m ∧ (m ≤ n → s.e = n) := by
  intro s hd
  have hi : Buf.Inv s := Buf.inv_run (Buf.inv_init n m) sched
  have hf : Buf.Flushed s := Buf.flushed_run (Buf.inv_init n m) (by intro h; simp [Buf.init] at h) sched
  have hnm := Buf.run_nm (fo := false) (s := Buf.init n m) sched
  have hfin := hi.fin hd
  have he := hf hd
  have h1 : s.n = n := hnm.1
  have h2 : s.m = m := hnm.2
  refine ⟨by rw [he, hfin.1, hfin.2, h1, h2], fun hmn => ?_⟩
  rw [he, hfin.1, hfin.2, h1, h2]; omega

/-- Non-vacuity: 10 timestamps, the lagging parent 3 behind: the canonical schedule finishes with all 10 emitted. -/
example : (Buf.run false (Buf.init 10 7) (Buf.canon 10)).done = true ∧ (Buf.run false (Buf.init 10 7) (Buf.canon 10)).e = 10 := by
  decide

/-- … nothing is emitted before it arrived or twice, and a node that has not finished can always move (the next
point arrives or Finish runs): every maximal schedule ends with `done`, hence with everything emitted. Also true of
the seeded variant (it terminates; it loses). -/
theorem join_accounting_and_progress (fo : Bool) (n m : Nat) (sched : List Buf.Act) :
    let s := Buf.run fo (Buf.init n m) sched
    s.e ≤ max s.a s.b ∧ s.a ≤ n ∧ s.b ≤ m ∧ (s.done = false → ∃ x, (Buf.step fo s x).isSome = true) := by
  intro s
  have hi : Buf.Inv s := Buf.inv_run (Buf.inv_init n m) sched
  have hnm := Buf.run_nm (fo := fo) (s := Buf.init n m) sched
  have h1 : s.n = n := hnm.1
  have h2 : s.m = m := hnm.2
  exact ⟨hi.e, by rw [← h1]; exact hi.a, by rw [← h2]; exact hi.b, fun hd => Buf.can_move fo s hi hd⟩

/-- seeded change C07-4 (`flushOnce = true`: emitAll = one emit(false)): a@0..9, b@0..6, graceful stop: the sets of
t = 7, 8, 9 are buffered; emit(false) sends t = 7 and goes on only while the next set is complete or every parent head
has passed it - the lagging head never moves again - so t = 8 and t = 9 are dropped when the node exits: 8 of 10
accepted points reach the output. A lag of one timestamp is invisible. Replayed on the real code by
corpus/C07/outer-join-flush-on-stop.ops. -/
theorem join_flush_once_loses_sets :
    (Buf.run true (Buf.init 10 7) (Buf.canon 10)).done = true ∧ (Buf.run true (Buf.init 10 7) (Buf.canon 10)).e = 8 ∧
    (Buf.run true (Buf.init 10 9) (Buf.canon 10)).e = 10 := by decide

/-! ### The final flush of influxDBOut serves EVERY destination (write buffer with several keys, Model/C07Wb.lean) -/

/-- **exact accounting per destination**, for every configuration (the seeded variant included), every schedule of
points / flush ticks / the stop, every map iteration order at every flush, every set of failing destinations: what
`cli.Write` was handed for key `k`, followed by what is still buffered under `k`, is exactly what the node enqueued under
`k`, in order (nothing invented, duplicated, reordered or moved to another destination); a healthy destination accepted
everything it was handed, a rejecting one nothing; and a buffer that has not stopped can always stop. -/
theorem wb_accounting (cfg : Wb.Cfg) (sched : List Wb.Act) (k : Nat) :
    let s := Wb.run cfg Wb.init sched
    Wb.attempted s k ++ s.buf k = Wb.enqueued s k ∧
    Wb.delivered s k = (if Wb.rejected cfg k then [] else Wb.attempted s k) ∧
    (s.stopped = false → (Wb.step cfg s (.stop [])).isSome = true) := by
  intro s
  have hi : Wb.Inv cfg s := Wb.inv_run sched (Wb.inv_init cfg)
  exact ⟨hi.acc k, Wb.delivered_eq hi k, Wb.can_move cfg s⟩

/-- **the stop hands every accepted point to its destination**: with the loop of the code as it is (`writeAll` goes on
after a failing write), for EVERY schedule, EVERY iteration order of the map at every flush and EVERY set of
destinations whose writes fail: once stopBuffer has returned nothing is left in the buffer - every point the node
enqueued under a key was handed to `cli.Write` under that key, in order, and every healthy destination accepted all of
its points. A failing output does not cost the other outputs their points. -/
theorem stop_flush_attempts_every_batch (cfg : Wb.Cfg) (sched : List Wb.Act) (k : Nat)
    (hf : cfg.stopAtFirstErr = false) :
    let s := Wb.run cfg Wb.init sched
    s.stopped = true →
      s.buf k = [] ∧ Wb.attempted s k = Wb.enqueued s k ∧
      (Wb.rejected cfg k = false → Wb.delivered s k = Wb.enqueued s k) := by
  intro s hs
  have hi : Wb.Inv cfg s := Wb.inv_run sched (Wb.inv_init cfg)
  have hb := hi.fl hf hs k
  have ha := hi.acc k
  rw [hb, List.append_nil] at ha
  refine ⟨hb, ha, fun hr => ?_⟩
  rw [Wb.delivered_eq hi k, hr]; simpa using ha

/-- Non-vacuity: 3 destinations, the first one rejecting, buffer 10, 8 points, the map iterated with the failing key
FIRST: the stop is reached, the healthy destinations accepted their points, the failing one was handed its own. -/
example :
    let s := Wb.run { size := 10, nkeys := 3, rejects := [0] } Wb.init (Wb.canon 8 3 [0, 1, 2])
    s.stopped = true ∧ Wb.delivered s 1 = [1, 4, 7] ∧ Wb.delivered s 2 = [2, 5] ∧ Wb.attempted s 0 = [0, 3, 6] ∧
    Wb.delivered s 0 = [] ∧ s.errors = 1 ∧ s.written = 5 := by decide

/-- seeded change C07-6 (`stopAtFirstErr = true`: writeAll returns at the first failing write, "the rest goes out with
the next flush"): 3 destinations, destination 0 rejects, 8 accepted points, none of the batches full. When the map
iteration meets the failing batch FIRST, the final flush stops there, abort() follows, and the batches of the two
healthy destinations are never handed over: 5 of 8 points are gone without a write attempt or an error. When the
failing batch comes LAST nothing is lost (the loss depends on the iteration order), and a flush TICK only delays the
other batches (the next flush writes them). Replayed on the real code by
corpus/C07/influxdbout-several-databases-one-rejecting.ops. -/
theorem stop_at_first_error_loses_healthy_batches :
    let cfg : Wb.Cfg := { size := 10, nkeys := 3, rejects := [0], stopAtFirstErr := true }
    let s := Wb.run cfg Wb.init (Wb.canon 8 3 [0, 1, 2])
    let t := Wb.run cfg Wb.init (Wb.canon 8 3 [1, 2, 0])
    let u := Wb.run cfg Wb.init ((Wb.canon 8 3 [0, 1, 2]).dropLast ++ [.tick [0, 1, 2], .stop []])
    (s.stopped = true ∧ Wb.attempted s 1 = [] ∧ Wb.attempted s 2 = [] ∧ s.buf 1 = [1, 4, 7] ∧ s.buf 2 = [2, 5] ∧ s.errors = 1) ∧
    (t.stopped = true ∧ Wb.delivered t 1 = [1, 4, 7] ∧ Wb.delivered t 2 = [2, 5]) ∧
    (u.stopped = true ∧ Wb.delivered u 1 = [1, 4, 7] ∧ Wb.delivered u 2 = [2, 5]) := by decide

/-! ### Stopping never kills the daemon -/

/-- The table Kap/Spec/C07Go.lean covers exactly the `go` statements that are in the Go source NOW (regenerated
by extract/c07gosites on every run): a goroutine added to, removed from or moved within the task code makes
this fail until somebody has looked at how it is stopped and joined. -/
theorem go_sites_all_classified : goTable.map (·.1) = Kap.C07.Gen.goSites := by decide

/-- The exit path of a node visits EVERY edge (shape of node.closeChildEdges / abortParentEdges / the deferred
handler of node.start, extracted from node.go on every run; an early `return`/`break`/error result in those loops
is not recognised and Kap/Gen/C07.lean stops compiling): the model's `exit` action closes the child edge
whatever happened before, and with several children a Close that fails on the aborted edge of a failed child must
not keep the healthy siblings from seeing the end of their input. -/
theorem exit_path_visits_every_edge :
    Kap.C07.Gen.closeChildEdgesVisitsAll = true ∧ Kap.C07.Gen.abortParentEdgesVisitsAll = true := by decide

/-- **No helper goroutine sends on a closed edge**: with the repaired barrier timers (`Edge.CollectUnlessClosed`,
e30c0fb) no schedule of any chain — barrier nodes with delete(TRUE) included — reaches a state in which a
goroutine of the task has panicked. (The barrier timers are the only goroutines of the modelled nodes that
write into an edge they do not own; Kap/Gen/C07Go.lean lists every `go` statement of the node files and
`go_sites_all_classified` below fails when a new one appears.) -/
theorem no_helper_sends_on_closed_edge (cfg : Cfg) (kinds : List Kind) (n : Nat) (sched : List Act)
    (hg : cfg.barrierGuard = true) : noCrash (outcomeOf (run cfg (init kinds n) sched)) = true :=
  noCrash_of (nopanic_run hg (nopanic_init kinds n) sched)

/-! ### Counterexamples: where the code violates the property (each replayed on the real code by the corpus) -/

def cfgClose1 : Cfg := { cap := 1, viaClose := true, hookLock := false, alertLeak := false }
def cfgTask1 : Cfg := { cap := 1, viaClose := false, hookLock := false, alertLeak := false }
def cfgOld1 : Cfg := { cap := 1, viaClose := false, hookLock := true, alertLeak := true }
def cfgOrphan1 : Cfg := { cfgTask1 with udfFwdOrphan := true }
def feed1 : List Act := [.write, .forkTake, .forkLock, .forkPut, .node 0 .take, .node 0 .put]
def stops (n : Nat) : List Act := List.replicate n .stop

/-- defect repaired by e30c0fb (`Cfg.barrierGuard = false` is the code before): `stream → barrier.idle.delete(TRUE)`:
the task is stopped while the barrier node still has a point in its (now closed) input edge; its idle timer
fires and collects the DeleteGroup message into that edge: send on closed channel, the process dies. -/
theorem barrier_timer_sends_on_closed_edge :
    ∃ sched, (runStrict { cap := 1, viaClose := false, hookLock := false, alertLeak := false, barrierGuard := false }
        (init [.pass, .barrier true] 2) sched).map (fun s => (outcomeOf s).crashed) = some true :=
  ⟨feed1 ++ [.node 1 .take, .write, .forkTake, .forkLock, .forkPut, .node 0 .take, .node 0 .put] ++ stops 5 ++
    [.node 0 .exit, .node 1 .timerFire], by decide⟩


/-- defect repaired by 4fb4805 (`Cfg.influxEarlyAbort = true` is the code before; it was the known finding
`influxdbout-stop-drops-backlog`): `stream → influxDBOut.buffer(2)`, one accepted point sitting in the node's input
edge, TaskMaster.Close: the stop runs flush() and abort() first, the node then takes the point and `enqueue` drops
it on `<-w.stopping`. The stop completes, every goroutine exits, and the point is gone. -/
theorem influx_stop_loses_backlog :
    ∃ sched, (runStrict { cfgClose1 with influxEarlyAbort := true } (init [.pass, .influx 2] 1) sched).map
      (fun s => (s.stopped, s.accepted, s.nodes.map (·.deliv), s.nodes.map (·.lost))) = some (true, 1, [0, 0], [0, 1]) :=
  ⟨feed1 ++ stops 2 ++ [.forkExit] ++ stops 5 ++ [.node 0 .exit] ++ stops 3 ++ [.node 1 .helperExit, .stop,
     .node 1 .take, .node 1 .enqDrop, .node 1 .exit, .stop, .thrExit, .stop, .stop], by decide⟩

/-- finding `ingest-edge-not-drained-on-stop`: `stream → httpPost`, one accepted point still in the
TaskMaster's write_points edge, StopTask: the task is unregistered and stopped, then `forkPoint` drops the point. -/
theorem stoptask_loses_ingest_backlog :
    ∃ sched, (runStrict cfgTask1 (init [.pass, .post] 1) sched).map
      (fun s => (s.stopped, s.accepted, s.nodes.map (·.deliv), s.lostIngest)) = some (true, 1, [0, 0], 1) :=
  ⟨[.write] ++ stops 5 ++ [.node 0 .exit] ++ stops 2 ++ [.node 1 .exit, .stop, .thrExit, .stop, .stop, .forkTake, .forkLock, .forkPut],
   by decide⟩

/-- finding `udf-stop-aborts-backlog`: `stream → @udf → httpPost`, one accepted point in the UDF node's input
edge, StopTask: stop() aborts the UDF, the node returns without reading the point, httpPost never sees it. -/
theorem udf_stop_loses_backlog :
    ∃ sched, (runStrict cfgTask1 (init [.pass, .udf, .post] 1) sched).map
      (fun s => (s.stopped, s.accepted, s.nodes.map (·.deliv), s.nodes.map (·.inq))) = some (true, 1, [0, 0, 0], [0, 1, 0]) :=
  ⟨feed1 ++ stops 5 ++ [.node 0 .exit] ++ stops 2 ++ [.node 1 .exit] ++ stops 2 ++ [.node 2 .exit, .stop, .thrExit, .stop, .stop],
   by decide⟩

/-- finding `loopback-stop-deadlock`: `stream → kapacitorLoopback`, write_points full, StopTask: the stop waits
for the loopback node, the loopback node waits for room in write_points, the fork goroutine waits for tm.mu
(held by the stop). No action is enabled and the stop has not returned. -/
theorem loopback_stop_deadlocks :
    ∃ sched, (runStrict cfgTask1 (init [.pass, .loop] 4) sched).map
      (fun s => (s.ph, enabledActs cfgTask1 s)) = some (.wait 1, []) :=
  ⟨[.write, .forkTake, .forkLock, .forkPut, .node 0 .take, .node 0 .put, .node 1 .take,
    .write, .forkTake, .forkLock, .forkPut, .node 0 .take, .node 0 .put, .write, .forkTake, .write] ++ stops 5 ++
    [.node 0 .exit] ++ stops 2 ++ [.thrExit], by decide⟩

/-- defect repaired by 1cdc7d1 (`Cfg.udfFwdOrphan = true` is the code before; it was the known finding
`udf-above-failed-node-blocks-stop`): `stream → @udf → failing node`: when the node below a UDF node
fails, only the UDF node's FORWARDING goroutine sees ErrAborted and returns; the node keeps its UDF running with
nobody reading its output, stops consuming, and its full input edge blocks the nodes above it. The stop waits
for those first (walk order) and never gets to abort the UDF. Nothing is enabled, the stop has not returned. -/
theorem udf_above_failed_node_blocks_stop :
    ∃ sched, (runStrict cfgOrphan1 (init [.pass, .udf, .fail 0] 5) sched).map
      (fun s => (s.ph, enabledActs cfgOrphan1 s, s.nodes.map (·.done))) = some (.wait 0, [], [false, false, true]) :=
  ⟨[.write, .forkTake, .forkLock, .forkPut, .node 0 .take, .node 0 .put, .node 1 .take, .node 1 .put, .node 2 .take, .node 2 .exit,
    .write, .forkTake, .forkLock, .forkPut, .node 0 .take, .node 0 .put, .node 1 .take, .node 1 .putErr,
    .write, .forkTake, .forkLock, .forkPut, .node 0 .take, .node 0 .put, .node 1 .take,
    .write, .forkTake, .forkLock, .forkPut, .node 0 .take, .node 0 .put,
    .write, .forkTake, .forkLock, .forkPut, .node 0 .take] ++ stops 5 ++ [.thrExit], by decide⟩

/-- … with the repaired code the UDF node fails with the forwarding error (the same first 18 actions: the node below
fails, the UDF node's forward gets ErrAborted), returns and aborts its own input edge; the stop completes, every
goroutine exits, nothing is enabled any more. -/
theorem udf_above_failed_node_repaired :
    ∃ sched, (runStrict cfgTask1 (init [.pass, .udf, .fail 0] 5) sched).map
      (fun s => (s.stopped, enabledActs cfgTask1 s, s.nodes.map (·.failed))) = some (true, [], [false, true, true]) :=
  ⟨[.write, .forkTake, .forkLock, .forkPut, .node 0 .take, .node 0 .put, .node 1 .take, .node 1 .put, .node 2 .take, .node 2 .exit,
    .write, .forkTake, .forkLock, .forkPut, .node 0 .take, .node 0 .put, .node 1 .take, .node 1 .putErr,
    .node 1 .exit] ++ stops 3 ++ [.node 0 .exit, .stop, .thrExit] ++ stops 8, by decide⟩

/-- Non-vacuity of `stop_terminates` for chains with a UDF node: the state reached by the schedule above is quiescent
and comes from a chain with a UDF node above a failing node. -/
example : ∃ sched, enabledActs cfgTask1 (run cfgTask1 (init [.pass, .udf, .fail 0] 5) sched) = [] ∧
    (run cfgTask1 (init [.pass, .udf, .fail 0] 5) sched).stopped = true :=
  ⟨[.write, .forkTake, .forkLock, .forkPut, .node 0 .take, .node 0 .put, .node 1 .take, .node 1 .put, .node 2 .take, .node 2 .exit,
    .write, .forkTake, .forkLock, .forkPut, .node 0 .take, .node 0 .put, .node 1 .take, .node 1 .putErr,
    .node 1 .exit] ++ stops 3 ++ [.node 0 .exit, .stop, .thrExit] ++ stops 8, by decide, by decide⟩

/-- … with the repaired code (the node's deferred stopBuffer flushes and stops the write buffer once the input has
been consumed) the same backlog is written: a schedule of `stream → influxDBOut.buffer(2)` stopped by Close with
the point still in the node's input edge ends with the point delivered and nothing lost. -/
theorem influx_stop_repaired :
    ∃ sched, (runStrict cfgClose1 (init [.pass, .influx 2] 1) sched).map
      (fun s => (s.stopped, s.accepted, s.nodes.map (·.deliv), s.nodes.map (·.lost))) = some (true, 1, [0, 1], [0, 0]) :=
  ⟨feed1 ++ stops 2 ++ [.forkExit] ++ stops 5 ++ [.node 0 .exit] ++ stops 2 ++
     [.node 1 .take, .node 1 .put, .node 1 .closeOut, .node 1 .helperExit, .node 1 .exit, .stop, .thrExit, .stop, .stop], by decide⟩

/-- defect repaired by 97356b1 (`Cfg.hookLock = true` is the code before): stop right after start with an
alert node — the node needs tm.mu to register its delete hook, the stop holds tm.mu and waits for the node. -/
theorem alert_hook_lock_deadlocks :
    ∃ sched, (runStrict cfgOld1 (init [.pass, .alert 5] 0) sched).map
      (fun s => (s.ph, enabledActs cfgOld1 s)) = some (.wait 1, []) :=
  ⟨stops 5 ++ [.node 0 .exit] ++ stops 2 ++ [.thrExit], by decide⟩

/-- … with the repaired code the same schedule leaves the alert node enabled. -/
theorem alert_hook_lock_repaired :
    (runStrict cfgTask1 (init [.pass, .alert 5] 0) (stops 5 ++ [.node 0 .exit] ++ stops 2 ++ [.thrExit])).map
      (fun s => enabledActs cfgTask1 s) = some [.node 1 .init] := by decide

/-- defect repaired by d61e6a5 (`Cfg.alertLeak = true` is the code before): an alert node whose child failed
returns without CloseTopic; the stop completes but the handler goroutine is still there, with nothing enabled. -/
theorem failed_alert_leaks_handler :
    ∃ sched, (runStrict cfgOld1 (init [.pass, .alert 5, .fail 0] 2) sched).map
      (fun s => (s.ph, enabledActs cfgOld1 s, s.nodes.map (·.helperDone))) = some (.finished, [], [true, false, true]) :=
  ⟨[.node 1 .init] ++ feed1 ++ [.node 1 .take, .node 1 .put, .node 2 .take, .node 2 .exit,
     .write, .forkTake, .forkLock, .forkPut, .node 0 .take, .node 0 .put, .node 1 .take, .node 1 .putErr, .node 1 .exit,
     .node 1 .handle, .node 1 .handle] ++ stops 5 ++ [.node 0 .exit] ++ stops 5 ++ [.thrExit, .stop, .stop], by decide⟩

end Kap.Props.C07
