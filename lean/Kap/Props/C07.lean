/-
C07 — property theorems (every `theorem` here is a proof obligation). Work in progress.
-/
import Kap.Model.C07
import Kap.Spec.C07
namespace Kap.Props.C07
open Kap.C07

end Kap.Props.C07
