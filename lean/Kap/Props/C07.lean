/-
C07 — property theorems (every `theorem` in this module is a proof obligation; `bin/check C07` audits the
axioms of each). Helper lemmas live in Kap/Proofs/C07*.lean.

Statement (properties.jsonl): when a task is stopped / disabled or the daemon shuts down cleanly, every point
accepted before the stop is carried through the whole pipeline and handed to its outputs before the task ends;
the stop itself always completes (all node and helper goroutines exit, no caller is left blocked), whatever the
speed of the outputs or the moment of the stop — also when a node fails in the middle of the pipeline.

The theorems are about the transition system of Kap/Model/C07.lean (transcribed from task_master.go, task.go,
node.go, edge/edge.go, influxdb_out.go, alert.go, alert/topics.go, http_post.go, udf.go,
kapacitor_loopback.go). "For all schedules" = for every list of actions (`run` skips actions that are not
enabled, so every list is a schedule and every interleaving of the goroutines is some list); no bound on the
number of points, on the edge buffer size, or on the length of the chain.
-/
import Kap.Proofs.C07Lossless
import Kap.Spec.C07
namespace Kap.Props.C07
open Kap.C07

/-- What an outside observer sees of a model state (the record the spec talks about). -/
def outcomeOf (s : State) : Outcome :=
  { accepted := s.accepted
    returned := s.ph = .finished
    leaked := (s.nodes.filter (fun nd => !nd.done)).length + (s.nodes.filter (fun nd => !nd.helperDone)).length + (if s.thrDone then 0 else 1)
    delivered := (s.nodes.filter (fun nd => match nd.kind with | .post | .alert _ | .influx _ => true | _ => false)).map (·.deliv)
    nodeFailed := s.nodes.any (·.failed) }

/-! ### Exact accounting, for every pipeline, every schedule, every moment -/

/-- **Nothing disappears unaccounted** — in every state reached by any schedule of any chain: each accepted
point was either dropped by `forkPoint` (`lostIngest`), still sits in `write_points` / in `forkPoint`'s hand, is
held or was dropped by a node before node `j` (`upstream`), sits in the input edge of node `j`, or was taken by
node `j` (`got`). -/
theorem accounting (cfg : Cfg) (kinds : List Kind) (n : Nat) (sched : List Act) (j : Nat) (nd : Nd) :
    let s := run cfg (init kinds n) sched
    s.nodes[j]? = some nd →
    (∀ (i : Nat) (x : Nd), i < j → s.nodes[i]? = some x → forwards x.kind = true) →
    s.accepted = s.lostIngest + s.ingest + s.forkHand + upstream s.nodes j + nd.inq + nd.got := by
  intro s hj hfw
  have hc : Cons s := cons_run (cons_init kinds n) sched
  have h1 := cons_ent hc j nd hj hfw
  have h2 := hc.nodeIn j nd hj
  unfold balIn at h2
  omega

/-- … and what a node took is what its output was handed, plus what is still pending in its buffer, plus what
it lost there: httpPost hands over synchronously; the alert handler queue holds `buf` events and loses only on
overflow; influxDBOut holds one point in `enqueue`, `buf` points in the write buffer and loses the points dropped
on `<-w.stopping` or discarded with the buffer at `abort()`. -/
theorem output_accounting (cfg : Cfg) (kinds : List Kind) (n : Nat) (sched : List Act) (j : Nat) (nd : Nd) :
    let s := run cfg (init kinds n) sched
    s.nodes[j]? = some nd →
    match nd.kind with
    | .post => nd.got = nd.deliv
    | .alert _ => nd.got = nd.deliv + nd.buf + nd.lost
    | .influx _ => nd.got = nd.deliv + nd.hand + nd.buf + nd.lost
    | _ => True := by
  intro s hj
  have hc : Cons s := cons_run (cons_init kinds n) sched
  have h := hc.nodeOut j nd hj
  unfold balOut at h
  cases hk : nd.kind <;> simp_all <;> omega

/-! ### Everything accepted is delivered: chains of pass / httpPost / alert nodes stopped by `Close` -/

/-- The full-strength statement: for EVERY pipeline, stop kind and schedule, once the stop has returned the
property holds of what an observer sees. It is FALSE of the code (theorems `influx_stop_loses_backlog`,
`stoptask_loses_ingest_backlog`, `udf_stop_loses_backlog`, `loopback_stop_deadlocks` below), hence only stated. -/
def stop_delivers_all_stmt : Prop :=
  ∀ (cfg : Cfg) (kinds : List Kind) (n : Nat) (sched : List Act),
    cfg.hookLock = false → cfg.alertLeak = false →
    let s := run cfg (init kinds n) sched
    s.ph = .finished → holds (outcomeOf s) = true

/-- **Graceful stop delivers everything** (the part that is true): a chain of pass / httpPost / alert nodes
(handler queues large enough for the run), stopped by `TaskMaster.Close`, under EVERY schedule: once the stop
has returned and the goroutines are gone, every output has been handed exactly the accepted points.
Excluded by hypothesis, because false: influxDBOut, UDF and loopback nodes, failing nodes (covered by
`others_still_terminate`), and StopTask/DeleteTask (`viaClose = false`). -/
theorem stop_delivers_all_partial (cfg : Cfg) (kinds : List Kind) (n : Nat) (sched : List Act)
    (hclose : cfg.viaClose = true) (hk : ∀ k ∈ kinds, losslessKind n k = true) :
    let s := run cfg (init kinds n) sched
    s.stopped = true → holds (outcomeOf s) = true ∧ (outcomeOf s).delivered.all (· = s.accepted) = true := by
  intro s hst
  have hl : Lossless n cfg s := lossless_run (lossless_init cfg kinds n hclose hk) sched
  have hent := lossless_stopped_ent hl hst
  have hst' := hst
  simp only [State.stopped, decide_eq_true_eq, List.all_eq_true] at hst'
  have hst' : s.ph = Ph.finished ∧ s.thrDone = true ∧ ∀ (x : Nd), x ∈ s.nodes → x.done = true ∧ x.helperDone = true := hst'
  have hdel : (outcomeOf s).delivered.all (· = s.accepted) = true := by
    simp only [outcomeOf, List.all_eq_true, List.mem_map, List.mem_filter, decide_eq_true_eq]
    rintro d ⟨nd, ⟨hmem, hkind⟩, rfl⟩
    obtain ⟨j, hj⟩ := List.getElem?_of_mem hmem
    have hg := (hent j nd hj).2
    have hb := hl.cons.nodeOut j nd hj
    have hL := hl.nodes j nd hj
    have hd := hst'.2.2 nd hmem
    have hkl := hL.kind
    unfold balOut at hb
    cases hkk : nd.kind with
    | post => rw [hkk] at hb; simp only at hb; omega
    | alert H =>
      -- the handler goroutine has exited, so its queue is empty; nothing overflowed
      rw [hkk] at hb; simp only at hb
      have := hL.helpq ⟨H, hkk⟩ hd.2
      have := hL.nolost
      omega
    | influx B => rw [hkk] at hkl; simp [losslessKind] at hkl
    | pass => rw [hkk] at hkind; simp at hkind
    | udf => rw [hkk] at hkind; simp at hkind
    | fail K => rw [hkk] at hkind; simp at hkind
    | loop => rw [hkk] at hkind; simp at hkind
  refine ⟨?_, hdel⟩
  simp only [holds, stopCompletes, allExited, allDelivered, Bool.and_eq_true, Bool.or_eq_true, decide_eq_true_eq]
  refine ⟨⟨?_, ?_⟩, Or.inr hdel⟩
  · simp [outcomeOf, hst'.1]
  · have h1 : (s.nodes.filter (fun nd => !nd.done)).length = 0 := by
      rw [List.length_eq_zero_iff, List.filter_eq_nil_iff]
      intro nd hm; simp [(hst'.2.2 nd hm).1]
    have h2 : (s.nodes.filter (fun nd => !nd.helperDone)).length = 0 := by
      rw [List.length_eq_zero_iff, List.filter_eq_nil_iff]
      intro nd hm; simp [(hst'.2.2 nd hm).2]
    simp [outcomeOf, h1, h2, hst'.2.1]

/-- Non-vacuity: a concrete schedule of `stream → from → httpPost → alert` with 2 points, stopped by Close with
a backlog in the pipeline, reaches a stopped state (and both outputs got both points). -/
example :
    let cfg : Cfg := { cap := 1, viaClose := true, hookLock := false, alertLeak := false }
    let kinds := [Kind.pass, .pass, .post, .alert 5]
    (∀ k ∈ kinds, losslessKind 2 k = true) ∧
    ∃ sched, (run cfg (init kinds 2) sched).stopped = true ∧ (outcomeOf (run cfg (init kinds 2) sched)).delivered = [2, 2] := by
  refine ⟨by decide, ?_⟩
  let round : List Act := [.stop, .forkTake, .forkLock, .forkPut, .forkExit, .thrExit,
    .node 3 .init, .node 3 .handle, .node 3 .put, .node 3 .take, .node 2 .put, .node 2 .take, .node 1 .put, .node 1 .take,
    .node 0 .put, .node 0 .take, .node 0 .exit, .node 1 .exit, .node 2 .exit, .node 3 .closeOut, .node 3 .helperExit, .node 3 .exit]
  exact ⟨[.write, .forkTake, .write] ++ (List.replicate 16 round).flatten, by decide, by decide⟩

/-! ### Counterexamples: where the code violates the property (each replayed on the real code by the corpus) -/

def cfgClose1 : Cfg := { cap := 1, viaClose := true, hookLock := false, alertLeak := false }
def cfgTask1 : Cfg := { cap := 1, viaClose := false, hookLock := false, alertLeak := false }
def cfgOld1 : Cfg := { cap := 1, viaClose := false, hookLock := true, alertLeak := true }
def feed1 : List Act := [.write, .forkTake, .forkLock, .forkPut, .node 0 .take, .node 0 .put]
def stops (n : Nat) : List Act := List.replicate n .stop

/-- finding `influxdbout-stop-drops-backlog`: `stream → influxDBOut.buffer(2)`, one accepted point sitting in the
node's input edge, TaskMaster.Close: the stop runs flush() and abort() first, the node then takes the point and
`enqueue` drops it on `<-w.stopping`. The stop completes, every goroutine exits, and the point is gone. -/
theorem influx_stop_loses_backlog :
    ∃ sched, (runStrict cfgClose1 (init [.pass, .influx 2] 1) sched).map
      (fun s => (s.stopped, s.accepted, s.nodes.map (·.deliv), s.nodes.map (·.lost))) = some (true, 1, [0, 0], [0, 1]) :=
  ⟨feed1 ++ stops 2 ++ [.forkExit] ++ stops 5 ++ [.node 0 .exit] ++ stops 3 ++ [.node 1 .helperExit, .stop,
     .node 1 .take, .node 1 .enqDrop, .node 1 .exit, .stop, .thrExit, .stop, .stop], by decide⟩

/-- finding `ingest-edge-not-drained-on-stop`: `stream → httpPost`, one accepted point still in the
TaskMaster's write_points edge, StopTask: the task is unregistered and stopped, then `forkPoint` drops the point. -/
theorem stoptask_loses_ingest_backlog :
    ∃ sched, (runStrict cfgTask1 (init [.pass, .post] 1) sched).map
      (fun s => (s.stopped, s.accepted, s.nodes.map (·.deliv), s.lostIngest)) = some (true, 1, [0, 0], 1) :=
  ⟨[.write] ++ stops 5 ++ [.node 0 .exit] ++ stops 2 ++ [.node 1 .exit, .stop, .thrExit, .stop, .stop, .forkTake, .forkLock, .forkPut],
   by decide⟩

/-- finding `udf-stop-aborts-backlog`: `stream → @udf → httpPost`, one accepted point in the UDF node's input
edge, StopTask: stop() aborts the UDF, the node returns without reading the point, httpPost never sees it. -/
theorem udf_stop_loses_backlog :
    ∃ sched, (runStrict cfgTask1 (init [.pass, .udf, .post] 1) sched).map
      (fun s => (s.stopped, s.accepted, s.nodes.map (·.deliv), s.nodes.map (·.inq))) = some (true, 1, [0, 0, 0], [0, 1, 0]) :=
  ⟨feed1 ++ stops 5 ++ [.node 0 .exit] ++ stops 2 ++ [.node 1 .exit] ++ stops 2 ++ [.node 2 .exit, .stop, .thrExit, .stop, .stop],
   by decide⟩

/-- finding `loopback-stop-deadlock`: `stream → kapacitorLoopback`, write_points full, StopTask: the stop waits
for the loopback node, the loopback node waits for room in write_points, the fork goroutine waits for tm.mu
(held by the stop). No action is enabled and the stop has not returned. -/
theorem loopback_stop_deadlocks :
    ∃ sched, (runStrict cfgTask1 (init [.pass, .loop] 4) sched).map
      (fun s => (s.ph, enabledActs cfgTask1 s)) = some (.wait 1, []) :=
  ⟨[.write, .forkTake, .forkLock, .forkPut, .node 0 .take, .node 0 .put, .node 1 .take,
    .write, .forkTake, .forkLock, .forkPut, .node 0 .take, .node 0 .put, .write, .forkTake, .write] ++ stops 5 ++
    [.node 0 .exit] ++ stops 2 ++ [.thrExit], by decide⟩

/-- defect repaired by 97356b1 (`Cfg.hookLock = true` is the code before): stop right after start with an
alert node — the node needs tm.mu to register its delete hook, the stop holds tm.mu and waits for the node. -/
theorem alert_hook_lock_deadlocks :
    ∃ sched, (runStrict cfgOld1 (init [.pass, .alert 5] 0) sched).map
      (fun s => (s.ph, enabledActs cfgOld1 s)) = some (.wait 1, []) :=
  ⟨stops 5 ++ [.node 0 .exit] ++ stops 2 ++ [.thrExit], by decide⟩

/-- … with the repaired code the same schedule leaves the alert node enabled. -/
theorem alert_hook_lock_repaired :
    (runStrict cfgTask1 (init [.pass, .alert 5] 0) (stops 5 ++ [.node 0 .exit] ++ stops 2 ++ [.thrExit])).map
      (fun s => enabledActs cfgTask1 s) = some [.node 1 .init] := by decide

/-- defect repaired by d61e6a5 (`Cfg.alertLeak = true` is the code before): an alert node whose child failed
returns without CloseTopic; the stop completes but the handler goroutine is still there, with nothing enabled. -/
theorem failed_alert_leaks_handler :
    ∃ sched, (runStrict cfgOld1 (init [.pass, .alert 5, .fail 0] 2) sched).map
      (fun s => (s.ph, enabledActs cfgOld1 s, s.nodes.map (·.helperDone))) = some (.finished, [], [true, false, true]) :=
  ⟨[.node 1 .init] ++ feed1 ++ [.node 1 .take, .node 1 .put, .node 2 .take, .node 2 .exit,
     .write, .forkTake, .forkLock, .forkPut, .node 0 .take, .node 0 .put, .node 1 .take, .node 1 .putErr, .node 1 .exit,
     .node 1 .handle, .node 1 .handle] ++ stops 5 ++ [.node 0 .exit] ++ stops 5 ++ [.thrExit, .stop, .stop], by decide⟩

end Kap.Props.C07
