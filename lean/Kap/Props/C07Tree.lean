/-
C07 — property theorems for TREES of nodes (fork topologies: a node with several child edges). Every `theorem` in
this module is a proof obligation; helper lemmas live in Kap/Proofs/C07Tree*.lean.

The tree model (Kap/Model/C07Tree.lean) keeps the chain model's node processes, TaskMaster and stopping goroutine and
adds what forks add in the code: `n.outs` in walk order, the forward loop that collects ONE message into the child
edges one after the other (blocking on a full one, failing on an aborted one), closeChildEdges over EVERY child edge on
exit, ExecutingTask.stop walking the nodes in pipeline order. "For all schedules" = for every list of actions, as in
Kap/Props/C07.lean; the topology `par` (parent of every node, any well-formed tree), the node kinds, the edge buffer
size and the number of points are universally quantified.
-/
import Kap.Proofs.C07TreeLive
import Kap.Proofs.C07TreeMeasure
import Kap.Proofs.C07TreeCons
import Kap.Proofs.C07TreeLossless
namespace Kap.Props.C07Tree
open Kap.C07 Kap.C07.Tree

/-- **No deadlock, no leak, on every tree**: any tree of pass / httpPost / alert / influxDBOut (repaired) / barrier /
FAILING / UDF nodes (repaired UDF node: `udfFwdOrphan = false`; no loopback node — the recorded deadlock), any well-formed topology (every node but the
source has its parent before it in walk order), any edge buffer size ≥ 1, any number of points, StopTask or Close
requested at ANY moment, ANY schedule: a state in which no goroutine can move is a state in which the stop has
returned and every node goroutine, write-buffer goroutine, handler goroutine and the throughput goroutine has exited.
(A node blocked in its forward loop is blocked on ONE full child edge; that child is alive and has a message to take;
the stop reaches a node only after its parent has finished and closed every child edge.) -/
theorem stop_terminates_tree (cfg : Cfg) (par : List Nat) (kinds : List Kind) (n : Nat) (sched : List Act)
    (hhook : cfg.hookLock = false) (hleak : cfg.alertLeak = false) (hea : cfg.influxEarlyAbort = false)
    (hcap : 1 ≤ cfg.cap) (hne : kinds ≠ []) (hwf : wfPar par kinds.length = true)
    (hfo : cfg.udfFwdOrphan = false) (hk : ∀ k ∈ kinds, isLoop k = false) :
    let s := Tree.run cfg par (init kinds n) sched
    TQuiescent cfg par s →
      s.stopped = true ∧ stopCompletes (outcomeOf s) = true ∧ allExited (outcomeOf s) = true := by
  intro s hq
  have hd : TDInv par s := tdinv_run hleak hea hfo (tdinv_init par kinds n hk) sched
  have hlen : s.nodes.length = kinds.length := by
    have := trun_nodes_length (cfg := cfg) (par := par) (s := init kinds n) sched
    rw [this]; simp [init]
  have hne' : s.nodes ≠ [] := by
    intro h0
    have : kinds.length = 0 := by rw [← hlen, h0]; rfl
    exact hne (List.length_eq_zero_iff.mp this)
  rcases tprogress_or_stopped hd (by rw [hlen]; exact hwf) hcap hhook hleak hea hfo hne' with hp | hst
  · exact absurd hp (tquiescent_not_progress hq)
  · exact ⟨hst, stopped_terminated hst⟩

/-- **A node failing anywhere in the tree**: all other branches still terminate — when some node's runF has returned
an error (a UDF process died in one branch, a child edge was aborted …) and nothing can move any more, the stop has
returned and every goroutine of the task is gone, in EVERY branch: the property holds of what the observer sees.
This is what seeded change C07-3 broke (closeChildEdges stopping at the aborted edge of the failed child: the
siblings declared after it never see the end of their input). -/
theorem others_still_terminate_tree (cfg : Cfg) (par : List Nat) (kinds : List Kind) (n : Nat) (sched : List Act)
    (hhook : cfg.hookLock = false) (hleak : cfg.alertLeak = false) (hea : cfg.influxEarlyAbort = false)
    (hcap : 1 ≤ cfg.cap) (hne : kinds ≠ []) (hwf : wfPar par kinds.length = true)
    (hg : cfg.barrierGuard = true) (hfo : cfg.udfFwdOrphan = false) (hk : ∀ k ∈ kinds, isLoop k = false) :
    let s := Tree.run cfg par (init kinds n) sched
    TQuiescent cfg par s → s.nodes.any (·.failed) = true → holds (outcomeOf s) = true := by
  intro s hq hf
  have h := stop_terminates_tree cfg par kinds n sched hhook hleak hea hcap hne hwf hfo hk hq
  exact holds_of (noCrash_of (tnopanic_run hg (nopanic_init kinds n) sched)) h.2.1 h.2.2 (allDelivered_of_failed hf)

set_option maxRecDepth 20000 in
/-- Non-vacuity of `others_still_terminate_tree` (and of `stop_terminates_tree`): `stream → from → { failing node (after
1 message) → httpPost ; httpPost }`, the failing branch FIRST in the forking node's `outs`, 3 points, edge buffers of
one slot, StopTask: a schedule reaches a state in which nothing is enabled and a node has failed; the stop has
returned, the output below the failed node was handed 1 point, the healthy sibling branch all 3. -/
example :
    let cfg : Cfg := { cap := 1, viaClose := false, hookLock := false, alertLeak := false }
    let kinds := [Kind.pass, .pass, .fail 1, .post, .post]
    let par := [0, 0, 1, 2, 1]
    wfPar par kinds.length = true ∧
    ∃ sched, Tree.enabledActs cfg par (Tree.run cfg par (init kinds 3) sched) = [] ∧
      (Tree.run cfg par (init kinds 3) sched).nodes.any (·.failed) = true ∧
      (outcomeOf (Tree.run cfg par (init kinds 3) sched)).delivered = [1, 3] := by
  refine ⟨by decide, ?_⟩
  let nodeRound (i : Nat) : List Act := [.node i .put, .node i .putErr, .node i .take, .node i .exit]
  let round : List Act := [.write, .forkTake, .forkLock, .forkPut, .forkDrop, .thrExit] ++
    nodeRound 4 ++ nodeRound 3 ++ nodeRound 2 ++ nodeRound 1 ++ nodeRound 0
  exact ⟨(List.replicate 6 round).flatten ++ (List.replicate 20 (round ++ [.stop])).flatten, by decide, by decide, by decide⟩

/-- **No helper goroutine sends on a closed edge**, on every tree (repaired barrier timers). -/
theorem no_helper_sends_on_closed_edge_tree (cfg : Cfg) (par : List Nat) (kinds : List Kind) (n : Nat) (sched : List Act)
    (hg : cfg.barrierGuard = true) : noCrash (outcomeOf (Tree.run cfg par (init kinds n) sched)) = true :=
  noCrash_of (tnopanic_run hg (nopanic_init kinds n) sched)

/-! ### Every schedule of the tree model is finite -/

/-- **Every enabled action of the tree model strictly decreases a natural-number measure** — for EVERY topology (any
`par`, well-formed or not), every configuration (also loopback nodes and the code before the repairs), every state:
no schedule is infinite, whatever the scheduler does; no fairness is assumed. (A message taken by a forking node
becomes one message per child edge; the measure weighs a message at node `k` of `n` with `3^(n-1-k)`, so the bound
is exponential in the number of nodes.) -/
theorem every_action_decreases_measure_tree (cfg : Cfg) (par : List Nat) (s s' : State) (a : Act)
    (h : Tree.step cfg par s a = some s') : muT s' < muT s :=
  muT_step h

/-- … hence a schedule of enabled actions is never longer than the measure of its first state. -/
theorem schedules_are_bounded_tree (cfg : Cfg) (par : List Nat) (s s' : State) (sched : List Act)
    (h : Tree.runStrict cfg par s sched = some s') : sched.length + muT s' ≤ muT s :=
  trunStrict_length h

/-- Non-vacuity: enabled actions exist (a forking node takes a message, then serves its two children one after the other). -/
example :
    (Tree.runStrict { cap := 1, viaClose := false, hookLock := false, alertLeak := false } [0, 0, 0] (init [.pass, .post, .post] 1)
      [.write, .forkTake, .forkLock, .forkPut, .node 0 .take, .node 0 .put, .node 0 .put, .node 2 .take, .node 1 .take]).map
      (fun s => (s.nodes.map (·.got), s.nodes.map (·.owed), s.nodes.map (·.hand))) = some ([1, 1, 1], [0, 0, 0], [0, 1, 1]) := by decide

/-! ### Exact accounting on trees -/

/-- **Nothing disappears unaccounted, on every tree** — in every state reached by any schedule on any topology:
what the source node took or still has in its input edge is what was accepted minus what is still in the TaskMaster
(`write_points`, `forkPoint`'s hand) or was dropped there; and for EVERY edge parent → child of a forwarding parent,
what the parent took is in the child's edge (`inq`), taken by the child (`got`), still owed to this child by the
parent's forward loop (`owed`), or among the parent's `dropped` messages, whose forward loop was cut short (ErrAborted
from an earlier child edge, the node failed, an aborted UDF): both bounds, so the count is exact whenever the parent
dropped nothing. -/
theorem accounting_tree (cfg : Cfg) (par : List Nat) (kinds : List Kind) (n : Nat) (sched : List Act) :
    let s := Tree.run cfg par (init kinds n) sched
    (∀ nd, s.nodes[0]? = some nd → s.accepted = s.lostIngest + s.ingest + s.forkHand + nd.inq + nd.got) ∧
    (∀ (p c : Nat) (nd x : Nd), isChild par p c = true → s.nodes[p]? = some nd → s.nodes[c]? = some x → fwd nd.kind = true →
      x.inq + x.got + x.owed ≤ nd.got ∧ nd.got ≤ x.inq + x.got + x.owed + nd.dropped) := by
  intro s
  have hc : TCons par s := tcons_run (tcons_init par kinds n) sched
  constructor
  · intro nd h0
    have h1 := hc.src
    have h2 := hc.nodeIn 0 nd h0
    rw [h0] at h1
    simp only [Option.map_some, Option.getD_some] at h1
    unfold balIn at h2
    omega
  · intro p c nd x hpc hp hx hf
    have h1 := (hc.edge p c nd x hpc hp hx).2.2.2 hf
    have h2 := hc.nodeIn c x hx
    unfold balIn at h2
    omega

/-- … and what a node took is what its output was handed, plus what is pending in its buffer, plus what it lost there
(as `Kap.Props.C07.output_accounting`, on every tree). -/
theorem output_accounting_tree (cfg : Cfg) (par : List Nat) (kinds : List Kind) (n : Nat) (sched : List Act) (j : Nat) (nd : Nd) :
    let s := Tree.run cfg par (init kinds n) sched
    s.nodes[j]? = some nd →
    match nd.kind with
    | .post => nd.got = nd.deliv
    | .alert _ => nd.got = nd.deliv + nd.buf + nd.lost
    | .influx _ => nd.got = nd.deliv + nd.hand + nd.buf + nd.lost
    | _ => True := by
  intro s hj
  have hc : TCons par s := tcons_run (tcons_init par kinds n) sched
  have h := hc.nodeOut j nd hj
  unfold balOut at h
  cases hk : nd.kind <;> simp_all <;> omega

/-- Non-vacuity of the edge clause, with both bounds met: `stream → { failing node (at once) ; httpPost }`, the
failing branch first in `outs`, edge buffers of one slot, 3 points: the third message finds the failed child's edge
full and aborted, the forward loop ends with ErrAborted and the healthy sibling never sees it: the source took 3 and
dropped 1, the sibling's edge collected 2 (per node: got, ent, dropped, owed). -/
example :
    (Tree.runStrict { cap := 1, viaClose := false, hookLock := false, alertLeak := false } [0, 0, 0] (init [.pass, .fail 0, .post] 3)
      [.write, .forkTake, .forkLock, .forkPut, .node 0 .take, .node 0 .put, .node 0 .put, .node 1 .take, .node 1 .exit,
       .write, .forkTake, .forkLock, .forkPut, .node 0 .take, .node 0 .put, .node 2 .take, .node 2 .put, .node 0 .put,
       .write, .forkTake, .forkLock, .forkPut, .node 0 .take, .node 0 .putErr]).map
      (fun s => s.nodes.map (fun nd => (nd.got, nd.ent, nd.dropped, nd.owed))) = some [(3, 3, 1, 0), (1, 2, 1, 0), (1, 2, 0, 0)] := by decide

/-! ### Everything accepted is delivered, in every branch: trees of pass / httpPost / alert nodes stopped by `Close` -/

/-- **Graceful stop delivers everything on a tree**: any well-formed tree of pass / httpPost / alert nodes (handler
queues large enough for the run), any fan-out, stopped by `TaskMaster.Close`, under EVERY schedule: once the stop has
returned and the goroutines are gone, every output in every branch has been handed exactly the accepted points.
Excluded by hypothesis, because false (counterexamples in Kap.Props.C07): influxDBOut, UDF and loopback nodes, failing
nodes (`others_still_terminate_tree`), and StopTask/DeleteTask. -/
theorem stop_delivers_all_tree (cfg : Cfg) (par : List Nat) (kinds : List Kind) (n : Nat) (sched : List Act)
    (hclose : cfg.viaClose = true) (hg : cfg.barrierGuard = true) (hwf : wfPar par kinds.length = true)
    (hk : ∀ k ∈ kinds, losslessKind n k = true) :
    let s := Tree.run cfg par (init kinds n) sched
    s.stopped = true → holds (outcomeOf s) = true ∧ (outcomeOf s).delivered.all (· = s.accepted) = true := by
  intro s hst
  have hl : TLossless n cfg par s := tlossless_run (tlossless_init cfg par kinds n hclose hk) sched
  have hlen : s.nodes.length = kinds.length := by
    have := trun_nodes_length (cfg := cfg) (par := par) (s := init kinds n) sched
    rw [this]; simp [init]
  have hwf' : wfPar par s.nodes.length = true := by rw [hlen]; exact hwf
  exact ⟨tlossless_holds hl hwf' hst (tnopanic_run hg (nopanic_init kinds n) sched), tlossless_delivered hl hwf' hst⟩

set_option maxRecDepth 20000 in
/-- Non-vacuity: `stream → from → { httpPost ; alert → httpPost }`, 2 points, edge buffers of one slot, Close requested
against a backlog in the pipeline: a schedule reaches a stopped state, and all three outputs got both points. -/
example :
    let cfg : Cfg := { cap := 1, viaClose := true, hookLock := false, alertLeak := false }
    let kinds := [Kind.pass, .pass, .post, .alert 5, .post]
    let par := [0, 0, 1, 1, 3]
    wfPar par kinds.length = true ∧ (∀ k ∈ kinds, losslessKind 2 k = true) ∧
    ∃ sched, (Tree.run cfg par (init kinds 2) sched).stopped = true ∧
      (outcomeOf (Tree.run cfg par (init kinds 2) sched)).delivered = [2, 2, 2] := by
  refine ⟨by decide, by decide, ?_⟩
  let nodeRound (i : Nat) : List Act :=
    [.node i .init, .node i .handle, .node i .put, .node i .take, .node i .exit, .node i .closeOut, .node i .helperExit]
  let round : List Act := [.stop, .forkTake, .forkLock, .forkPut, .forkExit, .thrExit] ++
    nodeRound 4 ++ nodeRound 3 ++ nodeRound 2 ++ nodeRound 1 ++ nodeRound 0
  exact ⟨[.write, .forkTake, .write] ++ (List.replicate 19 round).flatten, by decide, by decide⟩

/-- **Graceful stop, complete, on trees**: for the trees of `stop_delivers_all_tree` every schedule that cannot be
extended ends in a state of which the WHOLE property holds (stop returned, no goroutine left, every output in every
branch was handed every accepted point). -/
theorem close_stops_and_delivers_tree (cfg : Cfg) (par : List Nat) (kinds : List Kind) (n : Nat) (sched : List Act)
    (hhook : cfg.hookLock = false) (hleak : cfg.alertLeak = false) (hea : cfg.influxEarlyAbort = false)
    (hcap : 1 ≤ cfg.cap) (hne : kinds ≠ []) (hwf : wfPar par kinds.length = true)
    (hclose : cfg.viaClose = true) (hg : cfg.barrierGuard = true) (hfo : cfg.udfFwdOrphan = false) (hk : ∀ k ∈ kinds, losslessKind n k = true) :
    let s := Tree.run cfg par (init kinds n) sched
    TQuiescent cfg par s → holds (outcomeOf s) = true := by
  intro s hq
  have h := stop_terminates_tree cfg par kinds n sched hhook hleak hea hcap hne hwf hfo
    (fun k hm => losslessKind_not_loop (hk k hm)) hq
  exact (stop_delivers_all_tree cfg par kinds n sched hclose hg hwf hk h.1).1

end Kap.Props.C07Tree
