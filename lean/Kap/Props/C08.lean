import Kap.Spec.C08
namespace Kap.Props.C08
open Kap.C08
end Kap.Props.C08
