/-
C08 — property theorems (every `theorem` here is a proof obligation, axiom-audited by `bin/check C08`).
Helper lemmas: Kap/Proofs/C08.lean.

Statement (properties.jsonl): with topic persistence on, after a restart from the storage as it stood at any
moment, every alert ID resumes at the last non-OK level that was recorded for it (IDs whose last event was OK
resume as OK), so processing the remaining data yields the same final topic state as an uninterrupted run, and
handlers are told of every level the ID ends up in that differs from the last level they were told before the
crash.

All theorems quantify over EVERY history `ops` (any length, any topics/ids), EVERY operation index `k` and EVERY
sub-step index `j` of the operation in flight (`crashAt {} ops k j` — also the points that are not transaction
boundaries), for the service started empty with `PersistTopics` on (`{}`).
-/
import Kap.Proofs.C08NodeCrash
namespace Kap.Props.C08
open Kap.C08

/-! ### The disk: `bucket <topic> / key <id>` = durable last non-OK state -/

/-- **After every completed operation the disk holds, for every id of every topic, the level last recorded for
it** (absent = OK). -/
theorem disk_tracks_last_non_ok (ops : List Op) (T id : String) :
    (run {} ops).disk.level T id = lastLevel ops T id := by
  rw [run_disk _ rfl, foldl_diskStep_level]; rfl

/-- … and a record exists exactly when the last thing recorded was a non-OK `Collect` or a reconciling
`UpdateEvent` (an OK `Collect` clears the record; nothing is left behind for an id that recovered). -/
theorem disk_record_cleared_on_ok (ops : List Op) (T id : String) :
    ((run {} ops).disk T id).isSome = recordExpected ops T id := by
  rw [run_disk _ rfl, foldl_diskStep_present]; rfl

/-- The same holds for the disk AS IT STANDS AT ANY MOMENT: whatever sub-step the process dies in, the disk is the
disk of the recorded history (the operation in flight counts iff its transaction committed). -/
theorem disk_at_any_crash_point (ops : List Op) (k j : Nat) (T id : String) :
    (crashAt {} ops k j).disk.level T id = lastLevel (recorded ops k (crashDone ops k j)) T id := by
  rw [crashAt_disk, disk_tracks_last_non_ok]

/-! ### Restart -/

/-- **resume_level.** After a restart at ANY crash point every id of every topic resumes at the level last
recorded for it; an id whose last recorded event was OK (or that was never seen) resumes as OK. -/
theorem resume_level (ops : List Op) (k j : Nat) (T id : String) :
    (crashAt {} ops k j).restart.mem.level T id = lastLevel (recorded ops k (crashDone ops k j)) T id :=
  disk_at_any_crash_point ops k j T id

/-- No phantom: an id the recorded history left at OK has no state at all after the restart. -/
theorem no_phantom_after_restart (ops : List Op) (k j : Nat) (T id : String)
    (h : recordExpected (recorded ops k (crashDone ops k j)) T id = false) :
    (crashAt {} ops k j).restart.mem T id = none := by
  have := disk_record_cleared_on_ok (recorded ops k (crashDone ops k j)) T id
  rw [h, ← crashAt_disk] at this
  show (crashAt {} ops k j).disk T id = none
  cases hd : (crashAt {} ops k j).disk T id with
  | none => rfl
  | some e => rw [hd] at this; cases this

/-- In an uninterrupted run the memory of every live (not dormant) topic shows the last recorded level. -/
theorem uninterrupted_memory_tracks (ops : List Op) (T id : String) (hlive : dormant ops T = false) :
    (run {} ops).mem.level T id = lastLevel ops T id := by
  have hc := run_coherent {} rfl coherent_init ops T id
  have hcl : (run {} ops).closed T = false := by rw [run_closed]; exact hlive
  rw [← disk_tracks_last_non_ok]
  rcases hc with h | ⟨h, _⟩
  · exact h
  · rw [hcl] at h; cases h

/-- **same_final_state.** Restart at ANY crash point, process the remaining data: the disk is exactly the disk of
the uninterrupted run over (recorded history ++ remaining data), and every topic that is live at the end shows the
same level for every id as that uninterrupted run. For a crash after a completed operation
(`crashDone = true`) the compared run is the uninterrupted run of the whole history `ops` (`survived_done`). -/
theorem same_final_state (ops : List Op) (k j : Nat) (T id : String) :
    (recover {} ops k j).disk = (run {} (survived ops k (crashDone ops k j))).disk ∧
    (dormant (survived ops k (crashDone ops k j)) T = false →
      (recover {} ops k j).mem.level T id = (run {} (survived ops k (crashDone ops k j))).mem.level T id) := by
  have hp : (crashAt {} ops k j).restart.persist = true := by
    show (crashAt {} ops k j).persist = true
    rw [crashAt_persist]
  have hdisk : (recover {} ops k j).disk = (run {} (survived ops k (crashDone ops k j))).disk := by
    unfold recover survived
    rw [run_append, run_disk _ hp, run_disk _ (by rw [run_persist])]
    congr 1
    exact crashAt_disk {} ops k j
  refine ⟨hdisk, fun hlive => ?_⟩
  rw [uninterrupted_memory_tracks _ T id hlive, ← disk_tracks_last_non_ok, ← hdisk]
  have hc := run_coherent _ hp (coherent_restart (crashAt {} ops k j)) (ops.drop (k + 1)) T id
  rcases hc with h | ⟨h, _⟩
  · exact h
  · -- the restarted run has closed no topic the uninterrupted run has not
    exfalso
    rw [run_closed] at h
    have hu : dormant (survived ops k (crashDone ops k j)) T = true := by
      unfold dormant survived
      have := run_closed (run {} (recorded ops k (crashDone ops k j))) (ops.drop (k + 1)) T
      rw [← run_append, run_closed] at this
      rw [this]
      exact dormantFrom_mono T _ _ _ (by intro hh; cases hh) h
    rw [hlive] at hu; cases hu

/-- For a crash after operation `k` completed, (recorded ++ remaining) is the whole history. -/
theorem survived_done (ops : List Op) (k : Nat) (hk : k < ops.length) : survived ops k true = ops := by
  unfold survived recorded
  simp only [if_true, List.getElem?_eq_getElem hk, Option.toList_some]
  rw [List.append_assoc]
  have : [ops[k]] ++ List.drop (k + 1) ops = List.drop k ops := by
    rw [List.drop_eq_getElem_cons hk]; rfl
  rw [this, List.take_append_drop]

/-! ### The whole state (level, time, duration, message, details), not only its level -/

/-- **Whatever record a bucket holds for an id is the WHOLE state last recorded for that id** — after any
history, and hence (next theorem) at any crash point. The encoding of a record and its decoding (empty parts
omitted, each entry decoded from a zero value) is `Kap.Props.C08Rec.restore_roundtrip`. -/
theorem disk_holds_whole_last_state (ops : List Op) (T id : String) (e : ES)
    (h : (run {} ops).disk T id = some e) : lastState ops T id = some e := by
  rw [run_disk _ rfl] at h
  exact foldl_diskStep_state _ none ops T id (fun e' he' => by cases he') e h

/-- **final-state-equals-uninterrupted, field by field**: after a restart at ANY crash point every state the
topics show is, in all five fields, the state last recorded for that id by the recorded history — the state the
uninterrupted run of that history holds on disk. -/
theorem resume_whole_state (ops : List Op) (k j : Nat) (T id : String) (e : ES)
    (h : (crashAt {} ops k j).restart.mem T id = some e) :
    lastState (recorded ops k (crashDone ops k j)) T id = some e ∧
    (run {} (recorded ops k (crashDone ops k j))).disk T id = some e := by
  have hd : (crashAt {} ops k j).disk T id = some e := h
  rw [crashAt_disk] at hd
  exact ⟨disk_holds_whole_last_state _ T id e hd, hd⟩

/-! ### Handlers -/

/-- `handlers_not_misled` at full strength: at EVERY crash point, what the handlers of a live topic were last told
(before the crash and after it) is the level the id ends in. FALSE of the code (see the counterexample). -/
def handlers_not_misled_stmt : Prop :=
  ∀ (ops : List Op), (∀ op ∈ ops, op.announced = true) → ∀ (k j : Nat) (T id : String),
    dormant (survived ops k (crashDone ops k j)) T = false →
    lastTold (recover {} ops k j).told T id = (recover {} ops k j).mem.level T id

/-- **handlers_not_misled, proved for every crash point outside the window** between the handler notification of
a `Collect` and its storage transaction (hypothesis `inWindow = false`: an explicit decidable predicate on the
crash point). Histories: every level change announced (`Collect`, `CloseTopic`, `RestoreTopic`); the silent
`UpdateEvent` and `DeleteTopic` are covered by the theorems above but not by this one.
Missing for the full statement: exactly the window — `Collect` would have to persist before it notifies. -/
theorem handlers_not_misled_partial (ops : List Op) (ha : ∀ op ∈ ops, op.announced = true)
    (k j : Nat) (hw : inWindow ops k j = false) (T id : String)
    (hlive : dormant (survived ops k (crashDone ops k j)) T = false) :
    lastTold (recover {} ops k j).told T id = (recover {} ops k j).mem.level T id := by
  have hp : (crashAt {} ops k j).restart.persist = true := by
    show (crashAt {} ops k j).persist = true
    rw [crashAt_persist]
  -- at the crash point the handlers know what is on disk
  have hinf : Informed (crashAt {} ops k j).restart := by
    intro T' i
    show lastTold (crashAt {} ops k j).told T' i = (crashAt {} ops k j).disk.level T' i
    by_cases h : (microsAt ops k).length ≤ j
    · rw [crashAt_done {} ops k j h]
      refine run_informed {} rfl informed_init _ (fun o ho => ?_) T' i
      unfold recorded at ho
      simp only [if_true, List.mem_append, Option.mem_toList] at ho
      rcases ho with ho | ho
      · exact ha o (List.mem_of_mem_take ho)
      · exact ha o (List.mem_of_getElem? ho)
    · obtain ⟨op, hop, hd, ht, _⟩ := crashAt_partial {} ops k j (by omega)
      rw [hd, ht]
      have hb : Informed (run {} (ops.take k)) :=
        run_informed {} rfl informed_init _ (fun o ho => ha o (List.mem_of_mem_take ho))
      have htold : toldAt op j = [] := by
        unfold inWindow at hw
        rw [hop] at hw
        unfold microsAt at h
        rw [hop] at h
        cases op with
        | collect T'' i' l t =>
          simp [Op.micros, collectMicros] at h
          simp at hw
          simp [toldAt]; omega
        | _ => rfl
      rw [htold, List.append_nil]
      exact hb T' i
  have hfin : Informed (recover {} ops k j) :=
    run_informed _ hp hinf _ (fun o ho => ha o (List.mem_of_mem_drop ho))
  rw [hfin T id]
  have hc := run_coherent _ hp (coherent_restart (crashAt {} ops k j)) (ops.drop (k + 1)) T id
  rcases hc with h | ⟨h, _⟩
  · exact h.symm
  · exfalso
    rw [run_closed] at h
    have hu : dormant (survived ops k (crashDone ops k j)) T = true := by
      unfold dormant survived
      have := run_closed (run {} (recorded ops k (crashDone ops k j))) (ops.drop (k + 1)) T
      rw [← run_append, run_closed] at this
      rw [this]
      exact dormantFrom_mono T _ _ _ (by intro hh; cases hh) h
    rw [hlive] at hu; cases hu

/-- **Silent-aware version**: histories WITH the reconciling `UpdateEvent` and with `DeleteTopic`. For every crash
point outside the window, every live topic and every id whose last change in (recorded ++ remaining) was announced
(`silent … = false`: the last thing that touched it was a `Collect`, or nothing did), the handlers' last word is
the level the id ends in. (`UpdateEvent`/`DeleteTopic` tell no handler by design; an id they touched last is
excluded by the explicit decidable predicate `silent`.) -/
theorem handlers_not_misled_silent_aware (ops : List Op) (k j : Nat) (hw : inWindow ops k j = false) (T id : String)
    (hlive : dormant (survived ops k (crashDone ops k j)) T = false)
    (hs : silent (survived ops k (crashDone ops k j)) T id = false) :
    lastTold (recover {} ops k j).told T id = (recover {} ops k j).mem.level T id := by
  obtain ⟨_, hc, hd, hcl, hi⟩ := multiCrash_spec {} rfl coherent_init ops [(k, j)]
  have hinf := hi false T id (by simp [noWindow, hw]) (fun _ => rfl) hs
  have hrec : multiCrash {} ops [(k, j)] = recover {} ops k j := rfl
  rw [hrec] at hc hd hcl hinf
  rw [hinf]
  rcases hc T id with h | ⟨h, _⟩
  · exact h.symm
  · have := hcl T h
    have hsv : multiSurvived crashDone ops [(k, j)] = survived ops k (crashDone ops k j) := rfl
    rw [hsv] at this
    unfold dormant at hlive
    rw [hlive] at this; cases this

/-! ### Any number of crashes -/

/-- **Several process deaths** (each at any sub-step of any remaining operation), restart after each, then the
remaining data: the disk holds, for every id, the level last recorded by the surviving history
(`multiSurvived`: per crash the recorded part, then what remained), and every live topic shows it. -/
theorem multi_crash_same_final_state (ops : List Op) (cs : List (Nat × Nat)) (T id : String) :
    (multiCrash {} ops cs).disk.level T id = lastLevel (multiSurvived crashDone ops cs) T id ∧
    (dormant (multiSurvived crashDone ops cs) T = false →
      (multiCrash {} ops cs).mem.level T id = (run {} (multiSurvived crashDone ops cs)).mem.level T id) := by
  obtain ⟨_, hc, hd, hcl, _⟩ := multiCrash_spec {} rfl coherent_init ops cs
  refine ⟨hd T id, fun hlive => ?_⟩
  rw [uninterrupted_memory_tracks _ T id hlive]
  rcases hc T id with h | ⟨h, _⟩
  · rw [h]; exact hd T id
  · have := hcl T h
    unfold dormant at hlive
    rw [hlive] at this; cases this

/-- … and if none of the crash points lies in a notify→transaction window, the handlers' last word is the final
level of every live topic's id whose last change was announced. -/
theorem multi_crash_handlers_not_misled (ops : List Op) (cs : List (Nat × Nat)) (hw : noWindow ops cs = true)
    (T id : String) (hlive : dormant (multiSurvived crashDone ops cs) T = false)
    (hs : silent (multiSurvived crashDone ops cs) T id = false) :
    lastTold (multiCrash {} ops cs).told T id = (multiCrash {} ops cs).mem.level T id := by
  obtain ⟨_, hc, _, hcl, hi⟩ := multiCrash_spec {} rfl coherent_init ops cs
  rw [hi false T id hw (fun _ => rfl) hs]
  rcases hc T id with h | ⟨h, _⟩
  · exact h.symm
  · have := hcl T h
    unfold dormant at hlive
    rw [hlive] at this; cases this

/-! ### Storage failures (`Update` returns an error) -/

/-- **Failed persists do not count and leave no trace on disk**: with the transaction of any operations failing,
the disk tracks exactly the operations that were not reported as failed. -/
theorem failed_persist_not_recorded (fops : List FOp) (hf : ∀ f ∈ fops, f.2 ≤ 1) (T id : String) :
    (frun {} fops).disk.level T id = lastLevel (effective fops) T id :=
  (frun_disk_level {} rfl fops hf T id).1

/-- **A failed persist IS reported to the caller, but only after memory and handlers ran ahead of the disk**: after
`Collect` whose transaction fails the caller gets the error, the disk is untouched, the topic's memory shows the
new level and the handlers have been told — exactly the state of a crash in the notify→transaction window,
without a crash. -/
theorem failed_persist_memory_ahead_of_disk (s : Svc) (T id : String) (l : Nat) (t : Payload) :
    FOp.reportsError (.collect T id l t, 1) = true ∧
    fstep s (.collect T id l t, 1) = runMicros s ((Op.collect T id l t).micros.take 3) ∧
    (fstep s (.collect T id l t, 1)).disk = s.disk ∧
    (fstep s (.collect T id l t, 1)).mem.level T id = l ∧
    (fstep s (.collect T id l t, 1)).told = s.told ++ [{ topic := T, id := id, level := l, time := t }] := by
  refine ⟨?_, ?_, (fstep_failed s _).1, ?_, (fstep_failed s _).2.2.1⟩
  · by_cases hl : l = 0 <;> simp [FOp.reportsError, Op.micros, collectMicros, Micro.isTx, List.filter, hl]
  · by_cases hl : l = 0 <;>
      simp [fstep, FOp.micros, failTx, failTx.go, Op.micros, collectMicros, Micro.isTx, runMicros, exec, hl]
  · by_cases hl : l = 0 <;> by_cases hc : s.closed T = true <;>
      simp [fstep, FOp.micros, failTx, failTx.go, Op.micros, collectMicros, Micro.isTx, runMicros, exec,
        Store.level, Store.put, hl, hc]

/-- … so a restart at an OPERATION BOUNDARY after a failed persist misleads the handlers just like the window
(same finding `notify-before-persist`; replayed by corpus/C08/witness-failed-persist.ops). -/
theorem failed_persist_then_restart_misleads :
    let s := (frun {} [(Op.collect "t" "a" 3 1, 1)]).restart
    lastTold s.told "t" "a" = 3 ∧ s.mem.level "t" "a" = 0 := by
  decide

/-- **Counterexample (finding `notify-before-persist`)**: one CRITICAL event, process death after the handlers
were told and before the transaction: the id resumes as OK and ends OK, the handlers' last word is CRITICAL.
Replayed on the real code by corpus/C08/finding-notify-before-persist.ops. -/
theorem handlers_misled_in_window : ¬ handlers_not_misled_stmt := by
  intro h
  have := h [Op.collect "t" "a" 3 1] (by decide) 0 3 "t" "a" (by decide)
  revert this
  decide

/-! ### The alert node (anonymous + named topic): counterexamples found by the model, replayed on the real code -/

def bothTopics : Cfg := { anon := some "anon", named := some "named", sco := false, noRec := false }

/-- The level handlers of topic `T` were last told vs. the level the id ends in on `T`, for a node-level history
with a crash at sub-step `j` of point `k`. -/
def nodeMisled (cfg : Cfg) (pts : List NOp) (k j : Nat) (T id : String) : Bool :=
  let r := nrecover cfg {} pts k j
  lastTold r.svc.told T id != r.svc.mem.level T id

/-- The classic: the node's handlers are told CRITICAL, the process dies before the transaction, the next point is
OK: the restarted node resumes at OK, sees no change, emits NO recovery event — ever. -/
theorem node_recovery_never_announced :
    nodeMisled { bothTopics with named := none } [.point "a" 3 1, .point "a" 0 2] 0 4 "anon" "a" = true := by
  decide

/-- **Counterexample (finding `two-topic-split`)**, at a POST-commit crash point: CRITICAL recorded on both topics,
then OK: the anonymous topic's transaction (which clears the record) commits, the process dies before the named
topic's `Collect`. After the restart `restoreEvent` finds only the named topic's CRITICAL and copies it back to the
anonymous topic and into the node: with `stateChangesOnly` the next CRITICAL point is "unchanged" and is never
announced — the handlers of the anonymous topic were last told OK while the id is CRITICAL. -/
theorem node_two_topic_split_phantom :
    nodeMisled { bothTopics with sco := true } [.point "a" 3 1, .point "a" 0 2, .point "a" 3 3] 1 5 "anon" "a" = true := by
  decide

/-! ### The alert node: a process death INSIDE a point — the two findings as theorems
Node with an anonymous topic `Ta` AND a named topic `Tn ≠ Ta`, every `stateChangesOnly`/`noRecoveries` setting,
every sequence of points and graceful task restarts, a process death after ANY number `j` of sub-steps of ANY
operation `k` (no hypothesis on `j`: boundaries, the notify→transaction windows of either topic, the gap between
the two topics' transactions). `nodeMisledChar` (Kap/Spec/C08.lean) is a decidable predicate on
(history, k, j, topic, id) that never runs the model. -/

/-- **handlers_not_misled, exact.** Outside the characterised set the property holds: the handlers' last word
(before the crash ++ after it) is the level the id ends at on that topic. Inside it the final state is EXACTLY
the characterised deviation — last word, level in memory and level on disk are the predicted values, and they
differ — so no other violation can hide behind the two findings. (`isAnon` selects the topic.) -/
theorem node_handlers_not_misled_except_characterised (cfg : Cfg) (Ta Tn : String)
    (ha : cfg.anon = some Ta) (hn : cfg.named = some Tn) (hne : Ta ≠ Tn)
    (ops : List NOp) (k j : Nat) (isAnon : Bool) (id : String) :
    let T := if isAnon then Ta else Tn
    let r := nrecover cfg {} ops k j
    (nodeMisledChar cfg.sco cfg.noRec ops k j isAnon id = false →
      lastTold r.svc.told T id = r.svc.mem.level T id) ∧
    (nodeMisledChar cfg.sco cfg.noRec ops k j isAnon id = true →
      lastTold r.svc.told T id = (nodeDeviation cfg.sco cfg.noRec ops k j isAnon).1 ∧
      r.svc.mem.level T id = (nodeDeviation cfg.sco cfg.noRec ops k j isAnon).2 ∧
      r.svc.disk.level T id = (nodeDeviation cfg.sco cfg.noRec ops k j isAnon).2 ∧
      (nodeDeviation cfg.sco cfg.noRec ops k j isAnon).1 ≠ (nodeDeviation cfg.sco cfg.noRec ops k j isAnon).2) := by
  intro T r
  -- what a NORMAL final cell gives
  have hnorm : (∃ v, Norm cfg v (cellOf Ta Tn r id)) → lastTold r.svc.told T id = r.svc.mem.level T id := by
    intro ⟨v, hv⟩
    rw [level_eq_optLevel]
    cases isAnon
    · exact hv.tn.trans hv.mn.symm
    · exact hv.ta.trans hv.ma.symm
  cases hop : ops[k]? with
  | none =>
    have hc : nodeCrashEnd cfg.sco cfg.noRec ops k j = none := by simp [nodeCrashEnd, hop]
    simp only [nodeMisledChar, hc, Bool.false_eq_true, false_imp_iff, and_true]
    exact fun _ => hnorm (crash_other_final cfg Ta Tn ha hn hne ops k j (fun i l t => by rw [hop]; exact fun h => by cases h) id)
  | some op =>
    cases op with
    | taskRestart =>
      have hc : nodeCrashEnd cfg.sco cfg.noRec ops k j = none := by simp [nodeCrashEnd, hop]
      simp only [nodeMisledChar, hc, Bool.false_eq_true, false_imp_iff, and_true]
      exact fun _ => hnorm (crash_other_final cfg Ta Tn ha hn hne ops k j (fun i l t => by rw [hop]; exact fun h => by cases h) id)
    | point i0 l t =>
      obtain ⟨q, e, hce, hq, hnq⟩ := crash_point_end cfg Ta Tn ha hn hne ops k j i0 l t hop id
      simp only [nodeMisledChar, nodeDeviation, hce]
      refine ⟨fun hch => ?_, fun hch => ?_⟩
      · by_cases hid : id = i0 ∧ q = true
        · obtain ⟨a1, a2, a3, a4, a5, a6⟩ := hq hid.1 hid.2
          simp only [hid.1, hid.2, beq_self_eq_true, Bool.and_self, Bool.true_and, bne_eq_false_iff_eq] at hch
          rw [level_eq_optLevel]
          cases isAnon
          · simp only [NodeEnd.on, Bool.false_eq_true, if_false] at hch ⊢
            exact a6.trans (hch.trans a3.symm)
          · simp only [NodeEnd.on, if_true] at hch ⊢
            exact a5.trans (hch.trans a1.symm)
        · exact hnorm (hnq hid)
      · simp only [Bool.and_eq_true, beq_iff_eq, bne_iff_ne, ne_eq] at hch
        obtain ⟨⟨hid, hqt⟩, hdev⟩ := hch
        obtain ⟨a1, a2, a3, a4, a5, a6⟩ := hq hid hqt
        rw [level_eq_optLevel, level_eq_optLevel]
        cases isAnon
        · simp only [NodeEnd.on, Bool.false_eq_true, if_false] at hdev ⊢
          exact ⟨a6, a3, a4, hdev⟩
        · simp only [NodeEnd.on, if_true] at hdev ⊢
          exact ⟨a5, a1, a2, hdev⟩

/-- **A crash before the first handler notification of the point, or after its last transaction, misleads
nobody** (`j ≤ 3`: the point is simply lost; `9 ≤ j`: it is complete) — the characterised set lies entirely inside
sub-steps 4…8 of an announced point. -/
theorem node_misled_only_inside_announced_point (sco noRec : Bool) (ops : List NOp) (k j : Nat)
    (hj : j ≤ 3 ∨ 9 ≤ j) (isAnon : Bool) (id : String) :
    nodeMisledChar sco noRec ops k j isAnon id = false := by
  unfold nodeMisledChar nodeCrashEnd
  cases hop : ops[k]? with
  | none => rfl
  | some op =>
    cases op with
    | taskRestart => rfl
    | point i0 l t =>
      have hr : ∀ a, reached a j = ⟨false, false, false, false⟩ ∨ reached a j = ⟨true, true, true, true⟩ := by
        intro a
        rcases hj with h | h
        · left
          have h4 : ¬ 4 ≤ j := by omega
          have h5 : ¬ 5 ≤ j := by omega
          have h8 : ¬ 8 ≤ j := by omega
          have h9 : ¬ 9 ≤ j := by omega
          simp [reached, h4, h5, h8, h9]
        · cases a
          · left; simp [reached]
          · right
            have h4 : 4 ≤ j := by omega
            have h5 : 5 ≤ j := by omega
            have h8 : 8 ≤ j := by omega
            simp [reached, h4, h5, h8, h]
      simp only
      rcases hr (announces sco noRec ((groupLevel (ops.take k) i0).getD (nodeLevel noRec (ops.take k) i0)) l) with h | h <;>
        rw [h] <;> cases isAnon <;> simp [NodeEnd.on, reconcile] <;> split <;> simp

/-- the same two findings as before, now as INSTANCES of the characterisation: the split at the post-commit crash
point between the two topics (anonymous topic's handlers end misled), and the named topic's notify→transaction
window -/
example :
    nodeMisledChar true false [.point "a" 3 1, .point "a" 0 2, .point "a" 3 3] 1 5 true "a" = true ∧
    nodeDeviation true false [.point "a" 3 1, .point "a" 0 2, .point "a" 3 3] 1 5 true = (0, 3) ∧
    nodeMisledChar true false [.point "a" 3 1, .point "a" 0 2, .point "a" 3 3] 1 5 false "a" = false ∧
    nodeMisledChar false false [.point "a" 3 1, .point "b" 1 2] 0 8 false "a" = true ∧
    nodeDeviation false false [.point "a" 3 1, .point "b" 1 2] 0 8 false = (3, 0) ∧
    nodeMisledChar false false [.point "a" 3 1, .point "a" 3 2] 0 8 false "a" = false ∧
    nodeMisledChar false false [.point "a" 3 1, .point "b" 1 2] 0 6 false "a" = false := by
  decide

/-! ### The alert node: general theorems at operation boundaries
Hypothesis `cfg.Distinct`: the anonymous topic `<tm>:<task>:<node>` is not also the node's `.topic()`. Quantified
over every node configuration (with/without handlers, with/without `.topic`, `stateChangesOnly`, `noRecoveries`),
every sequence of points and graceful task restarts. These are `_partial` with respect to the property's
quantifier: crash points INSIDE a point (between its sub-steps) are excluded by the explicit hypothesis
`(nplanAt cfg ops k).length ≤ j`. Inside a point "the same final state as the uninterrupted run of ALL points" is
simply false (the point in flight is lost or half recorded); what holds there, for a node with both topics and
EVERY `j`, is `node_handlers_not_misled_except_characterised` above. For a node with ONE topic a crash inside a
point is the service-level window (`handlers_not_misled_silent_aware`, counterexample
`node_recovery_never_announced`); no node-level characterisation is proved for it. -/

/-- **No reconciliation without a crash**: in an uninterrupted run (graceful task restarts included) every
`restoreEvent` finds the anonymous and the named topic in agreement — `UpdateEvent` is never called. -/
theorem node_no_reconcile_without_crash (cfg : Cfg) (hd : cfg.Distinct) (ops : List NOp) (id : String) :
    (restoreEvent cfg (nrun cfg {} ops).svc id).2 = [] :=
  (restoreEvent_inv cfg _ _ (nodeInv_nrun cfg hd _ {} (nodeInv_init cfg) ops).lv id).1

/-- **On every topic of the node, memory, disk and the handlers' last word are the level of the spec**
(`nodeLevel`: the level of the id's last point; with `noRecoveries` an OK point leaves the alert standing) —
for every uninterrupted run. -/
theorem node_topics_track_level (cfg : Cfg) (hd : cfg.Distinct) (ops : List NOp) (T : String)
    (hT : T ∈ topicsOf cfg) (id : String) :
    (nrun cfg {} ops).svc.mem.level T id = nodeLevel cfg.noRec ops id ∧
    (nrun cfg {} ops).svc.disk.level T id = nodeLevel cfg.noRec ops id ∧
    lastTold (nrun cfg {} ops).svc.told T id = nodeLevel cfg.noRec ops id :=
  (nodeInv_nrun cfg hd _ {} (nodeInv_init cfg) ops).lv T hT id

/-- **resume_level for the node (partial: crash after a completed point).** After the restart every topic of the
node shows, for every id, the level the points processed so far left it at, the group resumes at exactly that
level, and nothing is reconciled. -/
theorem node_resume_level_partial (cfg : Cfg) (hd : cfg.Distinct) (ops : List NOp) (k j : Nat) (hk : k < ops.length)
    (hj : (nplanAt cfg ops k).length ≤ j) (T : String) (hT : T ∈ topicsOf cfg) (id : String) :
    ((ncrashAt cfg {} ops k j).restart cfg).svc.mem.level T id = nodeLevel cfg.noRec (ops.take (k + 1)) id ∧
    restoreEvent cfg ((ncrashAt cfg {} ops k j).restart cfg).svc id = (nodeLevel cfg.noRec (ops.take (k + 1)) id, []) := by
  rw [ncrashAt_done cfg ops k j hk hj]
  have hinv := nodeInv_restart cfg _ _ (nodeInv_nrun cfg hd _ {} (nodeInv_init cfg) (ops.take (k + 1)))
  refine ⟨(hinv.lv T hT id).1, ?_⟩
  obtain ⟨h1, h2⟩ := restoreEvent_inv cfg _ _ hinv.lv id
  have hne : topicsOf cfg ≠ [] := fun he => by rw [he] at hT; cases hT
  exact Prod.ext (h2 hne) h1

/-- **same_final_state and handlers_not_misled for the node (partial: crash after a completed point).** Restart,
process the remaining points: every topic of the node ends, in memory and on disk, at the level of the
uninterrupted run of ALL points, and that is the handlers' last word (told before the crash ++ told after). -/
theorem node_same_final_state_partial (cfg : Cfg) (hd : cfg.Distinct) (ops : List NOp) (k j : Nat)
    (hk : k < ops.length) (hj : (nplanAt cfg ops k).length ≤ j) (T : String) (hT : T ∈ topicsOf cfg) (id : String) :
    (nrecover cfg {} ops k j).svc.mem.level T id = (nrun cfg {} ops).svc.mem.level T id ∧
    (nrecover cfg {} ops k j).svc.disk.level T id = (nrun cfg {} ops).svc.disk.level T id ∧
    lastTold (nrecover cfg {} ops k j).svc.told T id = (nrecover cfg {} ops k j).svc.mem.level T id := by
  have hu := node_topics_track_level cfg hd ops T hT id
  unfold nrecover
  rw [ncrashAt_done cfg ops k j hk hj]
  have hinv := nodeInv_nrun cfg hd _ _
    (nodeInv_restart cfg _ _ (nodeInv_nrun cfg hd _ {} (nodeInv_init cfg) (ops.take (k + 1)))) (ops.drop (k + 1))
  have hl := hinv.lv T hT id
  have hlevel : nodeLevelFrom cfg.noRec (nodeLevelFrom cfg.noRec 0 (ops.take (k + 1)) id) (ops.drop (k + 1)) id =
      nodeLevel cfg.noRec ops id := by
    unfold nodeLevel
    rw [← nodeLevelFrom_append, List.take_append_drop]
  simp only [hlevel] at hl
  rw [hu.1, hu.2.1, hl.1, hl.2.1, hl.2.2]
  exact ⟨rfl, rfl, rfl⟩

/-! ### Non-vacuity -/

example : bothTopics.Distinct := by
  intro T h; simp [bothTopics] at h ⊢; subst h; decide

/-- a node history where `noRecoveries` suppresses a recovery, with a crash after a completed point -/
example :
    let cfg : Cfg := { bothTopics with noRec := true, sco := true }
    let ops := [NOp.point "a" 3 1, .point "a" 0 2, .taskRestart, .point "a" 3 3, .point "b" 1 4]
    (nplanAt cfg ops 1).length ≤ 1 ∧ "anon" ∈ topicsOf cfg ∧ nodeLevel cfg.noRec ops "a" = 3 ∧
    nodeLevel cfg.noRec (ops.take 2) "a" = 3 ∧ nodeLevel false (ops.take 2) "a" = 0 ∧
    (nrecover cfg {} ops 1 1).svc.mem.level "named" "b" = 1 := by
  decide


/-- a non-trivial history with a recovery, a dormant topic restored on reuse, a crash inside and after operations -/
example :
    let ops := [Op.collect "t" "a" 3 1, Op.collect "t" "b" 2 2, Op.closeTopic "t", Op.collect "t" "a" 0 3,
                Op.collect "u" "a" 1 4]
    (∀ op ∈ ops, op.announced = true) ∧
    inWindow ops 3 2 = false ∧ inWindow ops 3 3 = true ∧ crashDone ops 3 4 = true ∧ crashDone ops 3 3 = false ∧
    dormant (survived ops 3 (crashDone ops 3 4)) "t" = false ∧
    lastLevel (recorded ops 3 false) "t" "a" = 3 ∧ lastLevel (recorded ops 3 true) "t" "a" = 0 ∧
    (recover {} ops 1 4).mem.level "t" "b" = 2 ∧ (recover {} ops 3 3).mem.level "t" "a" = 3 := by
  decide

/-- two crashes (one inside an `UpdateEvent`, one after a `Collect`), a silent id and an announced one -/
example :
    let ops := [Op.collect "t" "a" 3 1, Op.update "t" "b" 2 2, Op.collect "t" "a" 1 3, Op.collect "t" "c" 2 4]
    let cs := [(1, 1), (0, 4)]
    noWindow ops cs = true ∧ dormant (multiSurvived crashDone ops cs) "t" = false ∧
    multiSurvived crashDone ops cs = [Op.collect "t" "a" 3 1, Op.collect "t" "a" 1 3, Op.collect "t" "c" 2 4] ∧
    silent (multiSurvived crashDone ops cs) "t" "a" = false ∧
    silent [Op.collect "t" "a" 3 1, Op.update "t" "a" 2 2] "t" "a" = true ∧
    (multiCrash {} ops cs).mem.level "t" "a" = 1 ∧ (multiCrash {} ops cs).mem.level "t" "b" = 0 := by
  decide

/-- whole states: an id with duration and message next to one that has just turned critical -/
example :
    let ops := [Op.collect "t" "a" 3 { time := 5, duration := 120, message := "disk full" }, Op.collect "t" "b" 3 7,
                Op.closeTopic "t", Op.collect "t" "a" 3 { time := 9, duration := 124 }]
    (crashAt {} ops 3 2).restart.mem "t" "b" = some ⟨"b", 3, 7⟩ ∧
    (recover {} ops 2 1).mem "t" "a" = some ⟨"a", 3, { time := 9, duration := 124 }⟩ ∧
    lastState ops "t" "a" = some ⟨"a", 3, { time := 9, duration := 124 }⟩ := by
  decide

end Kap.Props.C08
