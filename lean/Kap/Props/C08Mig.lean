/-
C08 — the V1→V2 topic-store migration with a process death between any two of its sub-steps
(model: Kap/Model/C08Mig.lean, transcribing services/alert/migrate_topic_store.go after `fix:` 13b86fb).
Every `theorem` here is a proof obligation, axiom-audited by `bin/check C08`.

The quantifiers: EVERY database content `fs.db` (any V1 topic states, any V2 buckets already present, version key
set or not), EVERY state of the backup file `fs.bak` (absent, or a stale copy of anything), EVERY sub-step index
`j` at which the process dies, and any number of such deaths in a row.
-/
import Kap.Proofs.C08Mig
set_option linter.unusedSimpArgs false
namespace Kap.Props.C08Mig
open Kap.C08 (Store)
open Kap.C08.Mig

/-- What the migration makes of a database is a fixed point: migrating twice = migrating once. -/
theorem migrated_idempotent (db : Db) : migrated (migrated db) = migrated db := migrated_idem db

/-- **Not started, or the same target.** Whatever sub-step the process dies after, the database file as it stands
still migrates to the SAME database as the original would have (`migrated`), and until the write transaction
committed (`j ≤ 2`) it is the original database byte for byte. -/
theorem crash_keeps_target (fs : Fs) (j : Nat) :
    migrated (crashAt true fs j).db = migrated fs.db ∧ (j ≤ 2 → (crashAt true fs j).db = fs.db) := by
  by_cases h : fs.db.v2flag = true
  · simp [crashAt, migSteps, h, runSteps]
  · have h' : fs.db.v2flag = false := by simpa using h
    rw [crashAt_cases fs h' j]
    rcases j with _ | _ | _ | _ | _ | _ | _ | j <;>
      simp [migrated, h', overlay_idem, overlay_empty] <;> omega

/-- **Restart after a crash at ANY sub-step completes the migration to the same state as an uninterrupted run**:
the service opens, the database is `migrated fs.db`; the backup copy is gone — except when the process died after
the version key was written and before the deferred removal (`j = 5`): the call is then skipped and the copy of
the ORIGINAL database stays behind (harmless: it is never looked at again; the repaired code removes it should
the store ever be migrated again). A store that was already version 2 is not touched at all. -/
theorem restart_completes_migration (fs : Fs) (j : Nat) :
    let r := attempt true none (crashAt true fs j)
    r.2 = true ∧ r.1.db = migrated fs.db ∧
    (r.1.bak = none ∨ (fs.db.v2flag = false ∧ j = 5 ∧ r.1.bak = some fs.db) ∨
      (fs.db.v2flag = true ∧ r.1 = fs)) := by
  by_cases h : fs.db.v2flag = true
  · have hc : crashAt true fs j = fs := by simp [crashAt, migSteps, h, runSteps]
    simp [hc, attempt_migrated _ _ fs h, migrated_of_flag _ h, h]
  · have h' : fs.db.v2flag = false := by simpa using h
    rw [crashAt_cases fs h' j]
    rcases j with _ | _ | _ | _ | _ | _ | _ | j
    · simp [attempt_unmigrated _ h']
    · simp [attempt_unmigrated, h']
    · simp [attempt_unmigrated, h']
    · simp [attempt_unmigrated, h', migrated, overlay_idem]
    · simp [attempt_unmigrated, h', migrated, overlay_idem, overlay_empty]
    · simp [attempt_migrated, migrated, h']
    · simp [attempt_migrated, migrated, h']
    · simp [attempt_migrated, migrated, h']

/-- The uninterrupted call, for comparison: opens, `migrated`, no backup left. -/
theorem uninterrupted_migration (fs : Fs) (h : fs.db.v2flag = false) :
    attempt true none fs = ({ db := migrated fs.db, bak := none }, true) := attempt_unmigrated fs h

/-- **Any number of process deaths**, each at any sub-step of the start attempt it interrupts: the next attempt
that is left alone opens the service on `migrated fs.db`. -/
theorem restart_completes_after_any_crashes (fs : Fs) (js : List Nat) :
    (attempt true none (crashes true fs js)).2 = true ∧
    (attempt true none (crashes true fs js)).1.db = migrated fs.db := by
  induction js generalizing fs with
  | nil =>
    have := restart_completes_migration fs 0
    simpa [crashAt, crashes, runSteps] using And.intro this.1 this.2.1
  | cons j js ih =>
    have := ih (crashAt true fs j)
    rw [(crash_keeps_target fs j).1] at this
    exact this

/-- **A transaction that FAILS (no crash) leaves the ORIGINAL database**: the call returns its error, the write
transaction rolled back (`n = 1`) or the backup was renamed over the database (`n = 2, 3`), no backup is left —
"has not started"; the next start migrates as if nothing had happened. -/
theorem failed_attempt_restores_original (fs : Fs) (h : fs.db.v2flag = false) (n : Nat) (hn : 1 ≤ n ∧ n ≤ 3) :
    attempt true (some n) fs = ({ db := fs.db, bak := none }, false) := by
  obtain ⟨h1, h3⟩ := hn
  have : n = 1 ∨ n = 2 ∨ n = 3 := by omega
  rcases this with rfl | rfl | rfl <;>
    simp [attempt, attempt.go, migSteps, h, exec, Step.isTx]

/-- **The defect repaired by 13b86fb, as a theorem about the code as found** (`fixed = false`: no removal of a
stale backup): after a process death anywhere between the backup copy and the removal of the copy — the version
key written or not — … the files are a FIXED POINT of a failing start as long as the version key is unset: the
call returns "cannot backup v1 topic store: file exists" and changes nothing, at every later start, for ever. -/
theorem stale_backup_blocks_every_start_before_fix (fs : Fs) (h : fs.db.v2flag = false) (j : Nat)
    (hj : 1 ≤ j ∧ j ≤ 3) :
    attempt false none (crashAt false fs j) = (crashAt false fs j, false) := by
  obtain ⟨h1, h3⟩ := hj
  have : j = 1 ∨ j = 2 ∨ j = 3 := by omega
  rcases this with rfl | rfl | rfl <;>
    simp [attempt, attempt.go, crashAt, migSteps, h, runSteps, exec, Step.isTx]

/-- … while the repaired code opens from exactly those files. -/
theorem stale_backup_harmless_after_fix (fs : Fs) (j : Nat) :
    (attempt true none (crashAt false fs j)).2 = true ∧
    (attempt true none (crashAt false fs j)).1.db = migrated fs.db := by
  by_cases h : fs.db.v2flag = true
  · have hc : crashAt false fs j = fs := by simp [crashAt, migSteps, h, runSteps]
    simp [hc, attempt_migrated _ _ fs h, migrated_of_flag _ h]
  · have h' : fs.db.v2flag = false := by simpa using h
    rcases j with _ | _ | _ | _ | _ | j <;>
      simp [attempt, attempt.go, crashAt, migSteps, h', runSteps, exec, Step.isTx, migrated, overlay_idem,
        overlay_empty]

/-- **What the alert service then loads** (`Service.Open` → `loadSavedTopicStates` reads the V2 buckets): every V1
event state with a non-empty id, at its level, on top of whatever V2 already held; the V1 layout is empty. This is
the `disk` the service-level theorems of `Kap.Props.C08` start from. -/
theorem migrated_serves_v1_states (db : Db) (h : db.v2flag = false) (T i : String) (hi : i ≠ "") :
    (migrated db).v1 T i = none ∧
    (migrated db).v2.level T i = (match db.v1 T i with | some e => e.level | none => db.v2.level T i) := by
  cases hv : db.v1 T i <;> simp [migrated, h, overlay, hi, hv, Store.level, Store.empty]

/-! ### Non-vacuity -/

/-- a store with V1 states, an older V2 record of the same id, an unrelated V2 record and a stale backup:
the crash after the write transaction is neither "not started" nor "done", and the restart completes it -/
example :
    let fs : Fs := { db := { v1 := Store.empty.put "t" ⟨"a", 3, 1⟩, v2 := (Store.empty.put "t" ⟨"a", 1, 0⟩).put "t" ⟨"b", 2, 0⟩ },
                     bak := some {} }
    (crashAt true fs 3).db.v2.level "t" "a" = 3 ∧ (crashAt true fs 3).db.v1.level "t" "a" = 3 ∧
    (crashAt true fs 3).db.v2flag = false ∧ ((crashAt true fs 3).bak.map (·.v2.level "t" "a")) = some 1 ∧
    (attempt true none (crashAt true fs 3)).1.db.v2.level "t" "b" = 2 ∧
    (attempt true none (crashAt true fs 3)).1.db.v1.level "t" "a" = 0 ∧
    (attempt false none (crashAt false fs 2)).2 = false := by
  decide

end Kap.Props.C08Mig
