/-
C08 — the stored record: what is read back for an id is what was written for THAT id, all five fields
(model: Kap/Model/C08Rec.lean). This is what lets Kap/Model/C08.lean treat a bucket as a map id → whole state and
`loadTopic`/`restart` as a plain copy. Every `theorem` here is a proof obligation.
-/
import Kap.Model.C08Rec
namespace Kap.Props.C08Rec
open Kap.C08 Kap.C08.Rec

/-- decoding a record from the zero value gives back exactly what was encoded — level, time, duration, message,
details — whichever of them were omitted because they were empty -/
theorem decode_encode (r : Rec) : decodeInto zero (encode r) = r := by
  obtain ⟨l, ⟨t, d, m, x⟩⟩ := r
  by_cases hd : d = 0 <;> by_cases hm : m = "" <;> by_cases hx : x = "" <;>
    simp [decodeInto, encode, zero, hd, hm, hx]

/-- **restore_entry_independent**: with the `Reset()` after each entry (the code) the restored state of an id
depends on its own stored bytes only — not on the buffer the read started with, not on the other keys of the
bucket, not on their order. -/
theorem restore_entry_independent (buf : Rec) (entries : List (String × Stored)) :
    (restoreBucket true buf entries).tail = (entries.map fun (k, s) => (k, decodeInto zero s)).tail ∧
    restoreBucket true zero entries = entries.map fun (k, s) => (k, decodeInto zero s) := by
  have h : ∀ es : List (String × Stored), restoreBucket true zero es = es.map fun (k, s) => (k, decodeInto zero s) := by
    intro es
    induction es with
    | nil => rfl
    | cons e rest ih => obtain ⟨k, s⟩ := e; simp [restoreBucket, ih]
  refine ⟨?_, h entries⟩
  cases entries with
  | nil => rfl
  | cons e rest => obtain ⟨k, s⟩ := e; simp [restoreBucket, h rest]

/-- **A bucket written state by state is read back state by state, all five fields** (RestoreTopic, the restore of
a closed topic, Service.Open). -/
theorem restore_roundtrip (states : List (String × Rec)) :
    restoreBucket true zero (states.map fun (k, r) => (k, encode r)) = states := by
  rw [(restore_entry_independent zero _).2]
  induction states with
  | nil => rfl
  | cons e rest ih => obtain ⟨k, r⟩ := e; simp [decode_encode] at ih ⊢; exact ih

/-- **Counterexample for the shared-buffer variant** (no `Reset()`): id `b` has just turned CRITICAL (duration 0,
no message: both omitted in its record) next to id `a`, CRITICAL for 120 with a message — `b` is read back with
`a`'s duration and message; its level and time are right, which is why a level-only comparison cannot see it. -/
theorem shared_buffer_leaks_previous_entry :
    let a : Rec := { level := 3, p := { time := 5, duration := 120, message := "disk full" } }
    let b : Rec := { level := 3, p := { time := 7 } }
    restoreBucket false zero [("a", encode a), ("b", encode b)] =
      [("a", a), ("b", { level := 3, p := { time := 7, duration := 120, message := "disk full" } })] ∧
    restoreBucket true zero [("a", encode a), ("b", encode b)] = [("a", a), ("b", b)] := by
  decide

end Kap.Props.C08Rec
