/-
C09 — property theorems (every `theorem` in this module is a proof obligation; `bin/check C09`
audits each one's axioms). Helper lemmas live in Kap/Proofs/C09*.lean.

Statement (properties.jsonl): a topic's level is the maximum level among the current states of its events;
listing with a minimum level returns exactly the events at or above it; each event's previous level is
the level of the preceding event with the same ID; every collected event is handed exactly once, in FIFO
order, to each handler registered on that topic, and to no handler of another topic.
-/
import Kap.Proofs.C09Delivery3
namespace Kap.Props.C09
open Kap.C09

/-! ### The comparator -/

/-- `sortedStates.Less` (as it is in the source today) is a strict order … -/
theorem less_strict_order :
    (∀ a, less a a = false) ∧
    (∀ a b, less a b = true → less b a = false) ∧
    (∀ a b c, less a b = true → less b c = true → less a c = true) :=
  ⟨less_irrefl, fun _ _ => less_asymm, fun _ _ _ => less_trans⟩

/-- … that is total on states with different ids (so the sorted slice is unique). -/
theorem less_total_on_distinct_ids (a b : ES) (h : a.id ≠ b.id) : less a b = true ∨ less b a = true :=
  less_total h

/-- Whatever algorithm `sort.Sort` uses, a sorted permutation of the states is THE sorted slice. -/
theorem sorted_unique (l₁ l₂ : List ES) (h₁ : Sorted l₁) (h₂ : Sorted l₂) (hp : l₁.Perm l₂) : l₁ = l₂ :=
  sorted_unique' h₁ h₂ hp

/-- Go's insertion sort with this comparator sorts (for distinct ids). -/
theorem goSort_sorts (l : List ES) (hnd : (ids l).Nodup) : Sorted (goSort l) ∧ (goSort l).Perm l :=
  ⟨goSort_sorted l hnd, goSort_perm l⟩

/-- Counterexample (the defect repaired by commit 406230c): the comparator of snapshot ef0888e is not
asymmetric, hence no strict weak order. -/
theorem lessOld_not_asymmetric :
    ∃ a b : ES, lessOld a b = true ∧ lessOld b a = true :=
  ⟨⟨"a", 1, 0⟩, ⟨"b", 2, 0⟩, by decide⟩

/-- … and with it the history a/WARNING, b/CRITICAL, a/OK leaves an OK state in front:
`MaxLevel` answers OK although b is CRITICAL (replayed on the real code by corpus/C09/old-comparator.ops). -/
theorem lessOld_history_wrong_maxlevel :
    ((([Op.collect "t" "a" 2 1, Op.collect "t" "b" 3 2, Op.collect "t" "a" 0 3].foldl (stepWith lessOld) {}).ensure "t").maxLevel) = 0 := by
  decide

/-! ### Topic level and listing, for every reachable state -/

/-- Every topic of every reachable registry satisfies the invariant (sorted, one entry per id), and its
slice is a permutation of the history spec's current states. -/
theorem reachable_refines_spec (ops : List Op) (hwf : ∀ op ∈ ops, op.wf = true) (T : String) :
    TInv ((run ops).ensure T) ∧ ((run ops).ensure T).sorted.Perm (specCur T ops) :=
  rel_run ops hwf T

/-- **The topic level is the maximum of the current levels** — for every history. -/
theorem maxlevel_is_max (ops : List Op) (hwf : ∀ op ∈ ops, op.wf = true) (T : String) :
    (run ops).maxLevel T = specMaxLevel T ops := by
  obtain ⟨hi, hp⟩ := rel_run ops hwf T
  unfold Topics.maxLevel specMaxLevel
  have hge := maxLevel_ge _ hi
  have hat := maxLevel_attained ((run ops).ensure T)
  have sge := foldl_max_ge (specCur T ops) 0
  have sat := foldl_max_attained (specCur T ops) 0
  apply Nat.le_antisymm
  · rcases hat with h | ⟨e, he, h⟩
    · omega
    · rw [← h]; exact sge.2 e (hp.mem_iff.mp he)
  · rcases sat with h | ⟨e, he, h⟩
    · omega
    · rw [← h]; exact hge e (hp.mem_iff.mpr he)

/-- **Listing with a minimum level returns exactly the current states at or above it** (the early `break`
of `EventStates` loses nothing) — for every history. -/
theorem eventstates_exact (ops : List Op) (hwf : ∀ op ∈ ops, op.wf = true) (T : String) (min : Nat) :
    ((run ops).eventStates T min).Perm (specStates T min ops) := by
  obtain ⟨hi, hp⟩ := rel_run ops hwf T
  unfold Topics.eventStates Topic.eventStates specStates
  rw [takeWhile_eq_filter_of_sorted _ _ hi.1]
  exact hp.filter _

/-- The listing never reports an id twice. -/
theorem eventstates_nodup (ops : List Op) (hwf : ∀ op ∈ ops, op.wf = true) (T : String) (min : Nat) :
    (ids ((run ops).eventStates T min)).Nodup := by
  obtain ⟨hi, _⟩ := rel_run ops hwf T
  unfold Topics.eventStates Topic.eventStates
  rw [takeWhile_eq_filter_of_sorted _ _ hi.1]
  exact List.Nodup.sublist (List.Sublist.map _ List.filter_sublist) hi.2

/-- **Previous state**: `updateEvent` returns the state that was current for the id. -/
theorem previous_is_preceding_state (t : Topic) (s : ES) :
    (t.updateEvent s).2 = t.sorted.find? (fun e => e.id == s.id) :=
  (updateEvent_refines t s).2

/-! ### Handler delivery, for every history -/

/-- **Exactly once, FIFO, while registered, no cross-topic delivery**: for every history, what handler `h`
has received for topic `T` (through all of its registrations on `T`, closed or live) is exactly the
sub-sequence of the events collected on `T` while `h` was registered on `T`, in collection order, each with
the previous level of its id — the history spec `specDelivered`, which never looks at other topics or
other handlers. (Assumption recorded in checks/C09.json: no handler queue overflows.) -/
theorem delivery_exactly_once_fifo (ops : List Op) (hwf : ∀ op ∈ ops, op.wf = true) (T h : String) :
    (run ops).delivered T h = specDelivered T h ops :=
  (drel_run ops hwf T h).got

/-- A handler is registered in the model exactly when the history says so. -/
theorem registered_iff (ops : List Op) (hwf : ∀ op ∈ ops, op.wf = true) (T h : String) :
    isReg (run ops) T h = (specRun T h ops).registered :=
  (drel_run ops hwf T h).reg

/-- No cross-topic delivery, stated outright: operations on other topics never change what `h` receives
for `T` (the spec step ignores them). -/
theorem other_topics_irrelevant (T h : String) (st : SpecSt) (op : Op)
    (hother : match op with
      | .collect T' .. | .update T' .. | .reg T' _ | .dereg T' _ | .replace T' .. | .deltopic T' | .restore T' _ => T' ≠ T) :
    specStep T h st op = st := by
  cases op <;> simp_all [specStep, curStep, regStep]

/-- `removeHandler`'s swap-with-last keeps exactly the other handlers (no handler is lost or duplicated). -/
theorem removeSwap_keeps_others (h' : String) (l : List Handler) (hnd : (hids l).Nodup) (x : Handler) :
    x ∈ (removeSwap h' l).1 ↔ x ∈ l ∧ x.hid ≠ h' :=
  removeSwap_mem h' l hnd x

/-! ### Non-vacuity: the hypotheses are met by a concrete, non-trivial history -/

example : let ops := [Op.collect "t" "a" 2 1, Op.collect "t" "b" 3 2, Op.collect "t" "a" 0 3,
                       Op.restore "u" [⟨"x", 1, 0⟩, ⟨"y", 3, 0⟩]]
    (∀ op ∈ ops, op.wf = true) ∧ (run ops).maxLevel "t" = 3 ∧ (run ops).maxLevel "u" = 3 := by
  decide

example : let ops := [Op.reg "t" "h", Op.collect "t" "a" 2 1, Op.reg "t" "g", Op.collect "t" "a" 3 2,
                       Op.dereg "t" "h", Op.collect "t" "a" 0 3, Op.collect "u" "a" 1 4]
    (run ops).delivered "t" "h" = [⟨"t", "a", 2, 1, 0⟩, ⟨"t", "a", 3, 2, 2⟩] ∧
    (run ops).delivered "t" "g" = [⟨"t", "a", 3, 2, 2⟩, ⟨"t", "a", 0, 3, 3⟩] := by
  decide

end Kap.Props.C09
