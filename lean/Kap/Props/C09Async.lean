/-
C09, service layer — theorems about the ASYNCHRONOUS model (Kap/Model/C09Async.lean: every handler behind its own
FIFO queue, one goroutine per handler, a schedule = any list of external operations and "handler h takes one event"
steps), for configurations whose topics may have SEVERAL ways in (diamonds, a topic collected directly AND published
to). Every theorem quantifies over EVERY schedule.

  (a) `async_no_loss_no_dup_per_chain`  once all queues are empty the recorders hold, as a multiset of (recorder,
      collect, chain), exactly the sum over the collects of the chains of registered specs whose match expressions
      hold (`expected`, computed from the external operations alone: schedule independent), when no expression
      mentions `changed()`; `async_conservation` is the law behind it, from any state and with events in flight;
      `driver_chains_are_the_specification`: the chain enumeration the driver counts with is that specification.
  (b) `async_per_path_fifo`             copies that travelled over the same chain reach a recorder in collect order.
  (c) `async_prev_locally_consistent`   every topic hands each event to its handlers with prev = the level of the id's
      previous arrival on THAT topic, in the topic's own arrival order; what a recorder holds is a contiguous piece
      of that order (`async_recorders_see_one_order`).
  (d) `async_confluent_single_entry`    when every topic has a single way in, all complete schedules of handler steps
      end in the same state (the hypothesis of the synchronous model, now a theorem); that this state is the one
      of the synchronous depth-first model is `sync_is_the_single_entry_case_stmt` (stated; checked by the driver on
      every single-entry case and by `decide` on examples).
  (e) `async_quiescence`                from any state some schedule of handler steps empties all queues, and EVERY
      schedule of enabled handler steps is shorter than the measure (acyclic edges).
  `overflow_is_local` (+ `cap_none_is_the_unbounded_model`): with BOUNDED queues (Kap/Model/C09AsyncCap.lean) a full
  handler queue costs that handler the event and nobody else anything.
  `nonatomic_collect_breaks_prev_chain`: with the two halves of `Topic.collect` as separate steps (the code before
  /repo 800c4eb) a recorder can see an event whose previous level is not the level of the event it saw before.
-/
import Kap.Proofs.C09AsyncCons
import Kap.Proofs.C09AsyncFifo
import Kap.Proofs.C09AsyncPrev
import Kap.Proofs.C09AsyncTerm
import Kap.Proofs.C09AsyncConfl
import Kap.Proofs.C09AsyncChains
import Kap.Proofs.C09AsyncCap
import Kap.Props.C09Svc
namespace Kap.Props.C09Async
open Kap.C09 Kap.C09.Svc Kap.C09.SvcSpec Kap.C09.Async Kap.C09.AsyncSpec Kap.C09.AsyncProofs

/-! ## (a) no loss, no duplication, per chain -/

/-- **Conservation, every schedule, from any state.** What the recorders hold or have queued, plus what the events
queued on spec handlers still lead to according to the declarative chain semantics `fut`, only ever grows by the
chain semantics of each collected event — whatever the interleaving of handler steps. Hypotheses (explicit,
decidable along the run): edges go forward in `ord`, no match expression mentions `changed()`, and recorders/specs
are only changed while all queues are empty (the harness' flush). -/
theorem async_conservation (ord : List String) (hnd : ord.Nodup) (sched : List Step) (s : ASt) (hwf : WF s)
    (h1 : Always (fun a => fwd ord a.specs = true ∧ noChanged a.specs = true) sched s)
    (h2 : CfgWhenQuiet sched s) :
    (held (execAll sched s) ++ pending ord (execAll sched s)).Perm
      ((held s ++ pending ord s) ++ expected ord (cfgOf s) (extOps sched)) :=
  Cons.conservation ord hnd sched s hwf h1 h2

/-- **No loss, no duplication, per chain — schedule independent.** For every schedule that ends with all queues
empty: the multiset of (recorder, collect number, chain) over everything the recorders have got is exactly
`expected`, the sum over the collects of the history of the chains (of the specs registered at that moment) whose
match expressions hold for the collected event. `expected` is computed from the external operations alone. -/
theorem async_no_loss_no_dup_per_chain (ord : List String) (hnd : ord.Nodup) (sched : List Step)
    (h1 : Always (fun a => fwd ord a.specs = true ∧ noChanged a.specs = true) sched {})
    (h2 : CfgWhenQuiet sched {}) (hq : (execAll sched {}).quiet = true) :
    ((execAll sched {}).recs.flatMap
        (fun r => ((execAll sched {}).got r).map (fun it => (r, it.cid, it.path)))).Perm
      (expected ord {} (extOps sched)) :=
  Cons.no_loss_no_dup ord hnd sched h1 h2 hq

/-- the chain enumeration of the driver (`chains3`, three-valued matches) IS the specification `fut` when no
expression mentions `changed()`, and then every chain is certain -/
theorem driver_chains_are_the_specification (ord : List String) (specs : List Spec) (recs : List Key)
    (hnc : noChanged specs = true) (e : SEv) (T : String) (c : Nat) (p : List Key) :
    fut specs recs ord T c p e =
      (chains3 specs e ord T).flatMap (fun ch => (recs.filter (fun r => r.1 == ch.1)).map (fun r => (r, c, p ++ ch.2.1)))
    ∧ ∀ ch ∈ chains3 specs e ord T, ch.2.2 = true :=
  ⟨Chains.fut_eq_chains3 ord specs recs hnc e T c p, Chains.chains3_certain specs hnc e ord T⟩

instance decAlways (P : ASt → Prop) [∀ s, Decidable (P s)] : ∀ (sched : List Step) (s : ASt), Decidable (Always P sched s)
  | [], s => inferInstanceAs (Decidable (P s))
  | st :: rest, s => @instDecidableAnd _ _ inferInstance (decAlways P rest (exec s st))

instance decCfgWhenQuiet : ∀ (sched : List Step) (s : ASt), Decidable (CfgWhenQuiet sched s)
  | [], _ => inferInstanceAs (Decidable True)
  | st :: rest, s =>
    @instDecidableAnd _ _
      (by cases st with
          | ext op => cases op <;> (simp only []; infer_instance)
          | runH k => exact inferInstanceAs (Decidable True)
          | runR r => exact inferInstanceAs (Decidable True))
      (decCfgWhenQuiet rest (exec s st))

/-- a diamond t0 → p0 → p2, t0 → p1 → p2 (second branch only from WARNING up) with a recorder at the join; two
collects; the handlers run in an order in which the second event's copy over p1 reaches the join first -/
def diamondSched : List Step :=
  [ .ext (.recorder "p2" "r"),
    .ext (.reg { topic := "t0", hid := "h0", midx := 0, targets := ["p0", "p1"] }),
    .ext (.reg { topic := "p0", hid := "h1", midx := 0, targets := ["p2"] }),
    .ext (.reg { topic := "p1", hid := "h2", midx := 1, targets := ["p2"] }),
    .ext (.collect "t0" { id := "a", level := 1, time := 1, prev := 0, tags := [] }),
    .ext (.collect "t0" { id := "a", level := 3, time := 2, prev := 0, tags := [] }),
    .runH ("t0", "h0"), .runH ("t0", "h0"),
    .runH ("p1", "h2"), .runH ("p1", "h2"), .runH ("p0", "h1"), .runH ("p0", "h1"),
    .runR ("p2", "r"), .runR ("p2", "r"), .runR ("p2", "r") ]

/-- non-vacuity: the hypotheses hold on the diamond, the run ends quiet, and the recorder at the join holds the
second event TWICE (two chains) and the first once — in an order no synchronous depth-first walk produces (the
copy over p1 arrives first) -/
example : Always (fun a => fwd harnessOrder a.specs = true ∧ noChanged a.specs = true) diamondSched {}
    ∧ CfgWhenQuiet diamondSched {} ∧ (execAll diamondSched {}).quiet = true
    ∧ ((execAll diamondSched {}).got ("p2", "r")).map (fun it => (it.cid, it.path.length, it.ev.level, it.ev.prev))
        = [(1, 2, 3, 1), (0, 2, 1, 3), (1, 2, 3, 1)] := by
  decide

example : expected harnessOrder {} (extOps diamondSched) =
    [ (("p2", "r"), 0, [("t0", "h0"), ("p0", "h1")]),
      (("p2", "r"), 1, [("t0", "h0"), ("p0", "h1")]),
      (("p2", "r"), 1, [("t0", "h0"), ("p1", "h2")]) ] := by
  decide

/-! ## (b) per-path FIFO -/

/-- **Per-path FIFO, every schedule.** Whatever the interleaving, the copies a recorder has got over ONE chain of
publish handlers are in collect order (strictly increasing collect numbers: none twice) — so a recorder's log is an
order-preserving merge of its per-chain streams. Hypothesis: no spec lists the same target topic twice. -/
theorem async_per_path_fifo (sched : List Step)
    (hT : Always (fun a => ∀ sp ∈ a.specs, sp.targets.Nodup) sched {}) (r : Key) (p : List Key) :
    ((((execAll sched {}).got r).filter (fun it => it.path == p)).map (·.cid)).Pairwise (· < ·) :=
  Fifo.per_path_fifo sched hT r p

/-- the hypothesis of `async_per_path_fifo` is needed: a spec that lists a target twice delivers one collect twice
over one chain -/
theorem targets_nodup_needed :
    let sched : List Step :=
      [.ext (.recorder "p0" "r"), .ext (.reg { topic := "t0", hid := "h", midx := 0, targets := ["p0", "p0"] }),
       .ext (.collect "t0" { id := "a", level := 1, time := 0, prev := 0, tags := [] }),
       .runH ("t0", "h"), .runR ("p0", "r"), .runR ("p0", "r")]
    (((execAll sched {}).got ("p0", "r")).filter (fun it => it.path == [("t0", "h")])).map (·.cid) = [0, 0] :=
  Fifo.targets_nodup_needed

instance (sched : List Step) (s : ASt) : Decidable (Always (fun a => ∀ sp ∈ a.specs, sp.targets.Nodup) sched s) :=
  decAlways _ sched s

example : Always (fun a => ∀ sp ∈ a.specs, sp.targets.Nodup) diamondSched {} := by decide

/-! ## (c) previous levels -/

/-- **Local consistency of previous levels, every schedule.** In every reachable state, for every topic `Y`: the
level the topic remembers for an id is the level of the id's latest arrival in the topic's OWN arrival sequence, that
sequence is consistent (each event whose id arrived before carries the level of that preceding arrival), and what a
recorder has got and has queued is a contiguous piece of it, up to the present. -/
theorem async_prev_locally_consistent (sched : List Step) :
    let s := execAll sched {}
    (∀ Y id, s.last Y id = lastNF ((s.arr Y).map (·.ev)) id) ∧
    (∀ Y, prevOKb ((s.arr Y).map (·.ev)) = true) ∧
    (∀ r ∈ s.recs, ∃ older, s.arr r.1 = (s.got r ++ s.rq r).reverse ++ older) :=
  let h := Prev.prevInv_execAll sched
  ⟨h.last, h.ok, h.suffix⟩

/-- what a recorder has got, read in its own order (newest first), is locally consistent: the clause the driver
evaluates on every observed log -/
theorem async_recorder_prev_consistent (sched : List Step) (r : Key) (hr : r ∈ (execAll sched {}).recs) :
    prevOKb ((((execAll sched {}).got r).reverse).map (·.ev)) = true :=
  Prev.recorder_prev_consistent sched r hr

/-- two recorders of one topic, once their queues are empty, hold suffixes of ONE arrival order -/
theorem async_recorders_see_one_order (sched : List Step) (r1 r2 : Key)
    (h1 : r1 ∈ (execAll sched {}).recs) (h2 : r2 ∈ (execAll sched {}).recs) (ht : r1.1 = r2.1)
    (q1 : (execAll sched {}).rq r1 = []) (q2 : (execAll sched {}).rq r2 = []) :
    (∃ pre, (execAll sched {}).got r1 = pre ++ (execAll sched {}).got r2) ∨
    (∃ pre, (execAll sched {}).got r2 = pre ++ (execAll sched {}).got r1) :=
  Prev.recorders_same_order sched r1 r2 h1 h2 ht q1 q2

/-- **The defect repaired by /repo 800c4eb.** If the two halves of `Topic.collect` are separate steps (store the
state / queue the event on the handlers, as the code locked them before), two concurrent collects on one topic can
reach a recorder in the opposite order of their state updates: the recorder then holds a sequence that is NOT
locally consistent — the second event it sees carries a previous level that is not the level of the first. -/
theorem nonatomic_collect_breaks_prev_chain :
    ∃ (s : ASt) (a b : Item),
      let ua := updOnly s "p2" a
      let ub := updOnly ua.1 "p2" b
      let s' := runR (runR (enqOnly (enqOnly ub.1 "p2" ub.2) "p2" ua.2) ("p2", "r")) ("p2", "r")
      prevOKb (((s'.got ("p2", "r")).reverse).map (·.ev)) = false
      ∧ -- the same two collects as ONE step each are fine
        prevOKb ((((runR (runR (collectOn (collectOn s "p2" a) "p2" b) ("p2", "r")) ("p2", "r")).got ("p2", "r")).reverse).map (·.ev)) = true :=
  ⟨{ recs := [("p2", "r")] },
   { cid := 0, path := [("p0", "h1")], ev := { id := "a", level := 3, time := 1, prev := 0, tags := [] } },
   { cid := 0, path := [("p1", "h2")], ev := { id := "a", level := 3, time := 1, prev := 0, tags := [] } },
   by decide⟩

/-! ## (d) the single-entry case: confluence -/

theorem enabledC_eq_enabled (s : ASt) (st : Step) : Confl.enabledC s st = Term.enabled s st := by
  cases st <;> rfl

/-- **Confluence.** When every topic has a single way in (no topic is the target of two publishing handlers, nor
twice of one) and publish edges go forward, the schedule does not matter: any two schedules of enabled handler steps
that empty all queues end in the SAME state (recorder logs, per-topic states and arrival orders, everything). This
is the hypothesis under which the synchronous depth-first model was declared faithful — now a theorem about the
asynchronous model. (No external operation happens during the runs; between two external operations of a history
the harness lets the implementation run until it is quiet.) -/
theorem async_confluent_single_entry (ord : List String) (hnd : ord.Nodup) (s : ASt) (hwf : WF s)
    (hf : fwd ord s.specs = true) (hse : (s.specs.flatMap (·.targets)).Nodup)
    (l1 l2 : List Step) (h1 : Confl.EnabledRunsC l1 s) (h2 : Confl.EnabledRunsC l2 s)
    (q1 : (execAll l1 s).quiet = true) (q2 : (execAll l2 s).quiet = true) :
    execAll l1 s = execAll l2 s ∧
      ∀ name X, (execAll l1 s).received name X = (execAll l2 s).received name X :=
  Confl.async_confluent_quiet s hwf hse (AsyncSpec.measure ord)
    (fun s' st hwf' hs _ he =>
      (Term.enabled_step ord hnd s' st hwf' (by rw [hs]; exact hf) (by rw [← enabledC_eq_enabled]; exact he)).1)
    l1 l2 h1 h2 q1 q2

/-- the single-entry hypothesis is needed: on the diamond two complete schedules end with different logs at the
join -/
theorem confluence_needs_single_entry :
    let s := execAll (diamondSched.take 6) {}
    let l1 : List Step := [ .runH ("t0", "h0"), .runH ("t0", "h0"), .runH ("p1", "h2"), .runH ("p1", "h2"),
      .runH ("p0", "h1"), .runH ("p0", "h1"), .runR ("p2", "r"), .runR ("p2", "r"), .runR ("p2", "r") ]
    let l2 : List Step := [ .runH ("t0", "h0"), .runH ("t0", "h0"), .runH ("p0", "h1"), .runH ("p0", "h1"),
      .runH ("p1", "h2"), .runH ("p1", "h2"), .runR ("p2", "r"), .runR ("p2", "r"), .runR ("p2", "r") ]
    (execAll l1 s).quiet = true ∧ (execAll l2 s).quiet = true ∧
      (execAll l1 s).received "r" "p2" ≠ (execAll l2 s).received "r" "p2" := by
  decide

/-- the model history of a list of operations under the canonical schedule (settle after every operation) -/
def runSettled (ops : List Svc.Op) : ASt := ops.foldl stepSettled {}

/-- STATED, not proved in general: on histories that keep every topic single-entry and edges forward, the confluent
result is the state of the synchronous depth-first model `Kap.C09.Svc` (which `svc_delivery_is_chain_semantics`
proves equal to the declarative chain semantics). Checked by `decide` on the examples below and by the driver on
every single-entry case (both models are compared with the observed output of the real Service). -/
def sync_is_the_single_entry_case_stmt : Prop :=
  ∀ (ops : List Svc.Op), C09Svc.SingleEntryAlways ops → C09Svc.ForwardAlways harnessOrder ops →
    ∀ name X, (runSettled ops).received name X = (Svc.run ops).received name X

example : ∀ name ∈ ["r"], ∀ X ∈ ["t0", "p0", "p1"],
    (runSettled C09Svc.exOps).received name X = (Svc.run C09Svc.exOps).received name X := by decide

/-- on the diamond the synchronous model (2 copies of the one event, depth first) and the canonical schedule of the
asynchronous model agree as multisets here, but the synchronous model is only ONE of the possible interleavings -/
example : ((runSettled C09Svc.diamond).received "r" "p2").length = 2 := by decide

/-! ## bounded queues: overflow -/

/-- the model with unbounded queues (`cap = none`) IS the model all theorems above are about: step by step and
along every schedule -/
theorem cap_none_is_the_unbounded_model (sched : List Step) (s : ASt) :
    Cap.execAllC none sched s = execAll sched s ∧ (∀ st, execC none s st = exec s st) :=
  ⟨Cap.execAllC_none sched s, Cap.execC_none s⟩

/-- **Overflow is local, for every capacity.** When `Topic.collect` meets full handler queues (non-blocking
`bufHandler.Handle`): (1) the topic's state and its arrival log are updated exactly as without any bound; (2) a
handler of the topic — spec handler or recorder — is handed the event iff its OWN queue is not full, whatever the
queues of the other handlers look like; (3) a publish handler's event is stored and logged on EVERY target topic
exactly as without any bound, whatever overflowed on other targets or handlers (the result of `Collect` is ignored,
the loop goes on); (4) handlers on topics that are not targets are not touched. -/
theorem overflow_is_local (cap : Option Nat) (s : ASt) :
    (∀ T it, (collectOnC cap s T it).last = (collectOn s T it).last ∧ (collectOnC cap s T it).arr = (collectOn s T it).arr) ∧
    (∀ T it k, (collectOnC cap s T it).hq k = if full cap (s.hq k) = true then s.hq k else (collectOn s T it).hq k) ∧
    (∀ T it r, (collectOnC cap s T it).rq r = if full cap (s.rq r) = true then s.rq r else (collectOn s T it).rq r) ∧
    (∀ sp it, (publishC cap s sp it).last = (publish s sp it).last ∧ (publishC cap s sp it).arr = (publish s sp it).arr) ∧
    (∀ sp it k, k.1 ∉ sp.targets → (publishC cap s sp it).hq k = s.hq k ∧ (publishC cap s sp it).rq k = s.rq k) :=
  ⟨fun T it => ⟨Cap.collectOnC_last cap s T it, Cap.collectOnC_arr cap s T it⟩,
   fun T it k => Cap.collectOnC_hq cap s T it k,
   fun T it r => Cap.collectOnC_rq cap s T it r,
   fun sp it => Cap.publishC_last_arr cap s sp it,
   fun sp it k hk => ⟨Cap.publishC_hq_other cap s sp it k hk, Cap.publishC_rq_other cap s sp it k hk⟩⟩

/-- the same for one handler step: the topics' states and arrival logs after `runHC` are those of the unbounded
step -/
theorem overflow_is_local_step (cap : Option Nat) (s : ASt) (k : Key) (sp : Spec) (it : Item) (rest : List Item)
    (h1 : s.specOf k = some sp) (h2 : s.hq k = it :: rest) :
    (runHC cap s k).last = (runH s k).last ∧ (runHC cap s k).arr = (runH s k).arr :=
  Cap.runHC_last_arr cap s k sp it rest h1 h2

/-- non-vacuity: capacity 1, t0 → (p0, p1), the recorder on p0 is never run (gated): of three collects it is queued
one, the recorder on p1 — later in the target list — gets all three, and p0's own state follows all three -/
example :
    let sched : List Step :=
      [ .ext (.recorder "p0" "g"), .ext (.recorder "p1" "r"),
        .ext (.reg { topic := "t0", hid := "h0", midx := 0, targets := ["p0", "p1"] }),
        .ext (.collect "t0" { id := "a", level := 1, time := 1, prev := 0, tags := [] }), .runH ("t0", "h0"), .runR ("p1", "r"),
        .ext (.collect "t0" { id := "a", level := 3, time := 2, prev := 0, tags := [] }), .runH ("t0", "h0"), .runR ("p1", "r"),
        .ext (.collect "t0" { id := "a", level := 2, time := 3, prev := 0, tags := [] }), .runH ("t0", "h0"), .runR ("p1", "r") ]
    let s := Cap.execAllC (some 1) sched {}
    ((s.rq ("p0", "g")).map (·.ev.level) = [1]) ∧ ((s.got ("p1", "r")).map (·.ev.level) = [1, 3, 2])
      ∧ s.last "p0" "a" = some 2 ∧ (s.arr "p0").length = 3 := by
  decide

/-! ## (e) quiescence -/

/-- **Quiescence.** From any well-formed state whose publish edges go forward in a duplicate-free order, some
schedule of enabled handler steps empties all queues, within `measure` steps. -/
theorem async_quiescence (ord : List String) (hnd : ord.Nodup) (s : ASt) (hwf : WF s) (hf : fwd ord s.specs = true) :
    ∃ sched, Term.EnabledRuns sched s ∧ (execAll sched s).quiet = true ∧ sched.length ≤ AsyncSpec.measure ord s :=
  Term.quiescence ord hnd s hwf hf

/-- **Every schedule terminates**: a schedule of enabled handler steps is never longer than the measure (each step
lowers it), and one that cannot be extended has emptied all queues. -/
theorem async_runs_bounded (ord : List String) (hnd : ord.Nodup) (sched : List Step) (s : ASt) (hwf : WF s)
    (hf : fwd ord s.specs = true) (hr : Term.EnabledRuns sched s) :
    sched.length + AsyncSpec.measure ord (execAll sched s) ≤ AsyncSpec.measure ord s
    ∧ ((∀ st, Term.enabled (execAll sched s) st = false) → (execAll sched s).quiet = true) :=
  ⟨Term.runs_bounded ord hnd sched s hwf hf hr, Term.maximal_run_quiet sched s⟩

/-- every schedule from the empty state keeps the state well-formed (so the hypotheses `WF` above are met along
every history) -/
theorem async_wf_every_schedule (sched : List Step) : WF (execAll sched {}) :=
  wf_execAll sched {} wf_init

/-- non-vacuity: after the external operations of the diamond history the state is well-formed, forward, not quiet,
and its measure is 10: two events queued on h0, each worth 1 (h0) + 2 (p0: h1, then the recorder) + 2 (p1: h2, then
the recorder) handler steps at most -/
example : fwd harnessOrder (execAll (diamondSched.take 6) {}).specs = true
    ∧ (execAll (diamondSched.take 6) {}).quiet = false
    ∧ AsyncSpec.measure harnessOrder (execAll (diamondSched.take 6) {}) = 10 := by
  decide

end Kap.Props.C09Async
