/-
C09 — property theorems for the CONCURRENT part of the delivery clause (every `theorem` here is a proof obligation,
axiom-audited by `bin/check C09`): handlers with a backlog, `DeregisterHandler` / `ReplaceHandler` in progress
(draining), operations that overlap - for EVERY schedule of the concurrent model Kap/Model/C09Drain.lean
(operations invoked and advanced in any order, handler goroutines taking events and returning in any order, gates
opened in any order).

"Every event collected on a topic is handed exactly once, in per-handler FIFO order, to each handler registered on
that topic": along the linearisation `hist` (the atomic effects in the order in which they happened) the events a
handler has entered `Handle` with, followed by what is still queued for it, are exactly what the sequential history
specification `specDelivered` of Kap/Spec/C09.lean delivers; `Handle` is entered one call at a time.
The lock is what makes it true: `unlocked_close_breaks_fifo`.
-/
import Kap.Proofs.C09Drain
namespace Kap.Props.C09Drain
open Kap.C09 Kap.C09.Drain

/-- the state after a schedule, from the empty registry (`free` = which handlers are not gated) -/
def after (free : String → Bool) (sched : List Step) : St := run true sched { free := free }

/-- **One queue per handler and topic**: whatever the schedule, a handler never has two registrations on a topic,
live or still closing (this is what `removeHandler` holding the topic lock until `Close` has returned buys). -/
theorem one_registration_per_handler (free : String → Bool) (sched : List Step) (T : String) :
    ((((after free sched).top T).closing ++ ((after free sched).top T).regs).map (·.hid)).Nodup :=
  (inv_run sched (inv_init free)).nodup T

/-- **Delivery is the sequential specification along the linearisation**, at every moment of every schedule: what
handler `h` has entered `Handle` with for topic `T`, followed by what is still queued for it, is exactly what
`specDelivered` yields for the history of the atomic effects so far - the events collected on `T` while `h` was
registered there, once each, in collection order, each with the previous level of its id. -/
theorem drain_delivery_is_linearised_spec (free : String → Bool) (sched : List Step) (T h : String) :
    entered (after free sched).log T h ++ pendingOf ((after free sched).top T) h
      = specDelivered T h (after free sched).hist := by
  rw [pendingOf_eq]
  exact (inv_run sched (inv_init free)).got T h

/-- **Per-handler FIFO**: at every moment what the handler has been handed is a PREFIX of what the specification
delivers: nothing out of collection order, nothing twice, nothing it was not registered for. -/
theorem drain_per_handler_fifo (free : String → Bool) (sched : List Step) (T h : String) :
    entered (after free sched).log T h <+: specDelivered T h (after free sched).hist :=
  ⟨_, drain_delivery_is_linearised_spec free sched T h⟩

/-- **Exactly once**: when nothing is queued for the handler any more it has been handed exactly the events the
specification delivers. -/
theorem drain_exactly_once_when_drained (free : String → Bool) (sched : List Step) (T h : String)
    (hq : pendingOf ((after free sched).top T) h = []) :
    entered (after free sched).log T h = specDelivered T h (after free sched).hist := by
  have := drain_delivery_is_linearised_spec free sched T h
  rwa [hq, List.append_nil] at this

/-- **One at a time**: the calls of `Handle` on handler `h` for topic `T` never overlap. -/
theorem drain_one_at_a_time (free : String → Bool) (sched : List Step) (T h : String) :
    bracketed T h (after free sched).log = true := by
  have hb := (inv_run sched (inv_init free)).brk T h
  unfold bracketed after
  rw [bracketedFrom_eq, hb]
  rfl

/-- the registered handlers of the model are the registered handlers of the specification -/
theorem drain_registered_iff (free : String → Bool) (sched : List Step) (T h : String) :
    ((after free sched).top T).regs.any (fun r => r.hid == h) = (specRun T h (after free sched).hist).registered :=
  (inv_run sched (inv_init free)).reg T h

/-! ### the lock is needed -/

/-- the schedule of the counterexample: `g` holds `e1` inside `Handle` with `e2`, `e3` queued; `DeregisterHandler`
detaches it and waits in `Close`; `RegisterHandler` of the same handler RETURNS meanwhile; `e4` is collected and the
new registration's goroutine enters `Handle` with it -/
def raceSchedule : List Step :=
  [.core (.add "t" "g"), .core (.collect "t" "a" 1 1), .core (.collect "t" "a" 2 2), .core (.collect "t" "a" 3 3),
   .core (.take "t" "g" false),
   .invoke "d" (.dereg "t" "g"), .adv "d", .adv "d", .adv "d",
   .invoke "r" (.reg "t" "g"), .adv "r", .adv "r",
   .core (.collect "t" "a" 0 4), .core (.take "t" "g" false)]

/-- **Counterexample**: if `Close` runs after the topic lock was released (`lk = false`), the re-registration has
returned while the removal is still draining (`blockedLabels = ["d"]`), the handler is inside two calls at once and
has been handed `e1, e4` while the specification delivers `e1, e2, e3, e4`. -/
theorem unlocked_close_breaks_fifo :
    let s := run false raceSchedule {}
    blockedLabels s = ["d"] ∧
    bracketed "t" "g" s.log = false ∧
    (entered s.log "t" "g").map (·.time) = [1, 4] ∧
    (specDelivered "t" "g" s.hist).map (·.time) = [1, 2, 3, 4] ∧
    (entered s.log "t" "g").isPrefixOf (specDelivered "t" "g" s.hist) = false := by
  decide

/-! ### non-vacuity: the same schedule under the lock -/

/-- under the lock the re-registration is BLOCKED behind the drain (`d` and `r` are both pending), nothing of `e4`
has reached the handler, and once the gate is opened everything is handed over in order -/
example :
    let s := run true raceSchedule {}
    blockedLabels s = ["d", "r"] ∧ (entered s.log "t" "g").map (·.time) = [1] ∧
    (pendingOf (s.top "t") "g").map (·.time) = [2, 3] := by
  decide

example :
    let s := run true (raceSchedule ++ [.core .openAll, .core (.fin "t" "g" true), .core (.take "t" "g" true),
      .core (.fin "t" "g" true), .core (.take "t" "g" true), .core (.fin "t" "g" true), .adv "d", .adv "r",
      .core (.collect "t" "a" 0 4), .core (.take "t" "g" false), .core (.fin "t" "g" false)]) {}
    blockedLabels s = [] ∧ (entered s.log "t" "g").map (·.time) = [1, 2, 3, 4] ∧
    pendingOf (s.top "t") "g" = [] ∧ bracketed "t" "g" s.log = true ∧
    entered s.log "t" "g" = specDelivered "t" "g" s.hist := by
  decide

end Kap.Props.C09Drain
