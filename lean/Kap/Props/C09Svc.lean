/-
C09, service layer — theorems about the model of match/publish handler wiring (Kap/Model/C09Svc.lean).
PROVED here: the local laws every delivery obeys, for every configuration, event and fuel, and (second half
of the file) the GLOBAL law: for every history in which every topic has a single way in and publish edges only go
forward in a fixed order, what each recorder has received is exactly the declarative chain semantics of
Kap/Spec/C09Svc.lean (`svc_delivery_is_chain_semantics`), the fuel is adequate (`fuel_adequate`,
`deliver_never_overflows`) and the executable pull is the declarative chain (`pull_iff_chain`).
-/
import Kap.Model.C09Svc
import Kap.Proofs.C09SvcTbl
import Kap.Proofs.C09Agg
namespace Kap.Props.C09Svc
open Kap.C09 Kap.C09.Svc

/-- `matchHandler.match` errors exactly when a referenced tag is missing — whatever the expression's shape
(short-circuiting never hides a missing tag), and otherwise returns the plain boolean value. -/
theorem match_error_iff_missing_tag (m : M) (ev : SEv) :
    m.eval ev = none ↔ ∃ t ∈ m.vars, tagOf ev t = none := by
  unfold M.eval
  by_cases h : m.vars.all (fun t => (tagOf ev t).isSome) = true
  · rw [if_pos h]
    simp only [reduceCtorEq, false_iff, not_exists, not_and]
    intro t ht
    have := List.all_eq_true.mp h t ht
    intro e; rw [e] at this; simp at this
  · rw [if_neg h]
    simp only [true_iff]
    have h' : ¬ ∀ t ∈ m.vars, (tagOf ev t).isSome = true := fun hh => h (List.all_eq_true.mpr hh)
    apply Classical.byContradiction
    intro hne
    apply h'
    intro t ht
    cases hv : tagOf ev t with
    | none => exact absurd ⟨t, ht, hv⟩ hne
    | some _ => rfl

theorem setCur_recs (s : St) (T : String) (l : List ES) : (s.setCur T l).recs = s.recs := by
  unfold St.setCur; split <;> rfl
theorem setCur_log (s : St) (T : String) (l : List ES) : (s.setCur T l).log = s.log := by
  unfold St.setCur; split <;> rfl

/-- any property preserved by one hop is preserved by the whole republishing fold -/
theorem pubFold_preserves (P : St → Prop) (f : St → String → St) (hf : ∀ a t, P a → P (f a t))
    (ev' : SEv) (specs : List Spec) (s : St) (h : P s) : P (pubFold f ev' specs s) := by
  unfold pubFold
  induction specs generalizing s with
  | nil => exact h
  | cons sp sps ih =>
    simp only [List.foldl_cons]
    apply ih
    split
    · generalize sp.targets = ts
      induction ts generalizing s with
      | nil => exact h
      | cons t ts iht => simp only [List.foldl_cons]; exact iht _ (hf s t h)
    · exact h

/-- the recorders and specs are not touched by deliveries -/
theorem deliver_recs (fuel : Nat) (s : St) (T : String) (ev : SEv) : (deliver fuel s T ev).recs = s.recs := by
  induction fuel generalizing s T ev with
  | zero => rfl
  | succ n ih =>
    unfold deliver
    simp only
    have h2 : (record s T (evAt s T ev)).recs = s.recs := by unfold record; exact setCur_recs _ _ _
    exact pubFold_preserves (fun a => a.recs = s.recs) _ (fun a t ha => (ih a t _).trans ha) _ _ _ h2

/-- Every log entry is for a (topic, recorder) pair that is registered. -/
def LogOK (s : St) : Prop := ∀ e ∈ s.log, (e.2.1, e.1) ∈ s.recs

theorem record_logOK (s : St) (T : String) (ev' : SEv) (h : LogOK s) : LogOK (record s T ev') := by
  intro e he
  unfold record at he ⊢
  simp only [setCur_log, setCur_recs] at he ⊢
  rcases List.mem_append.mp he with h1 | h1
  · exact h e h1
  · obtain ⟨r, hr, rfl⟩ := List.mem_map.mp h1
    have := List.mem_filter.mp hr
    have e1 : r.1 = T := by simpa using this.2
    simp only
    rw [← e1]; exact this.1

theorem deliver_logOK (fuel : Nat) (s : St) (T : String) (ev : SEv) (h : LogOK s) :
    LogOK (deliver fuel s T ev) := by
  induction fuel generalizing s T ev with
  | zero => exact h
  | succ n ih =>
    unfold deliver
    simp only
    exact pubFold_preserves LogOK _ (fun a t ha => ih a t _ ha) _ _ _ (record_logOK s T _ h)

/-- **No cross-topic delivery at the service layer, for every history**: whatever specs are registered,
replaced or removed and whatever is collected, a recorder only ever receives events of topics it is
registered on. -/
theorem no_cross_topic_delivery (ops : List Svc.Op) :
    LogOK (ops.foldl (fun s op => (Svc.step s op).1) {}) := by
  have init : LogOK ({} : St) := by intro e he; cases he
  suffices ∀ (s : St), LogOK s → LogOK (ops.foldl (fun s op => (Svc.step s op).1) s) from this {} init
  induction ops with
  | nil => intro s h; exact h
  | cons op ops ih =>
    intro s h
    simp only [List.foldl_cons]
    apply ih
    cases op with
    | recorder T name =>
      simp only [Svc.step]
      split
      · exact h
      · intro e he; exact List.mem_append_left _ (h e he)
    | reg sp => simp only [Svc.step]; split <;> exact h
    | dereg T hid => exact h
    | upd T old sp => exact h
    | collect T ev => exact deliver_logOK _ _ _ _ h

/-- deliveries only append to the log -/
theorem deliver_log_mono (fuel : Nat) (s : St) (T : String) (ev : SEv) (e : String × String × SEv)
    (he : e ∈ s.log) : e ∈ (deliver fuel s T ev).log := by
  induction fuel generalizing s T ev with
  | zero => exact he
  | succ n ih =>
    unfold deliver
    simp only
    refine pubFold_preserves (fun a => e ∈ a.log) _ (fun a t ha => ih a t _ ha) _ _ _ ?_
    unfold record; simp only [setCur_log]; exact List.mem_append_left _ he

/-- **Direct delivery**: a recorder registered on the collected topic itself receives the event — with the
event's id, level and time, and the previous level of that id on the topic — whatever handler specs and
match expressions are configured. -/
theorem direct_delivery (fuel : Nat) (s : St) (T name : String) (ev : SEv) (hr : (T, name) ∈ s.recs) :
    (name, T, evAt s T ev) ∈ (deliver (fuel + 1) s T ev).log := by
  unfold deliver
  simp only
  refine pubFold_preserves (fun a => (name, T, evAt s T ev) ∈ a.log) _
    (fun a t ha => deliver_log_mono fuel a t _ _ ha) _ _ _ ?_
  unfold record
  simp only [setCur_log, setCur_recs]
  apply List.mem_append_right
  exact List.mem_map.mpr ⟨(T, name), List.mem_filter.mpr ⟨hr, by simp⟩, rfl⟩

/-- A handler whose match does not hold (or errors) republishes nothing: one spec, one hop. -/
theorem no_match_no_publish (f : St → String → St) (ev' : SEv) (sp : Spec) (s : St)
    (h : (matchTable.getD sp.midx .all).eval ev' ≠ some true) : pubFold f ev' [sp] s = s := by
  unfold pubFold
  simp only [List.foldl_cons, List.foldl_nil]

example : (M.or (.tagEq "dc" "x") (.levelGe 1)).eval { id := "a", level := 3, time := 0, prev := 0, tags := [("host", "a")] } = none
    ∧ (M.or (.tagEq "dc" "x") (.levelGe 1)).eval { id := "a", level := 3, time := 0, prev := 0, tags := [("dc", "y")] } = some true := by
  decide

/-! ## The global law -/

open Kap.C09.SvcSpec Kap.C09.SvcProofs

/-- every topic has a single way in, after every operation of the history (what the driver checks) -/
def SingleEntryAlways (ops : List Svc.Op) : Prop :=
  ∀ k, k ≤ ops.length → singleEntry (Svc.run (ops.take k)) (Svc.directs (ops.take k)) = true

/-- publish edges only go to topics later in `order`, after every operation of the history -/
def ForwardAlways (order : List String) (ops : List Svc.Op) : Prop :=
  ∀ k, k ≤ ops.length → forwardOnly order (Svc.run (ops.take k)).specs = true

theorem inv_of_history (order : List String) (ops : List Svc.Op) (h1 : SingleEntryAlways ops)
    (h2 : ForwardAlways order ops) : Inv ops.reverse (Svc.run ops) := by
  have := inv_run order ops.reverse
    (by intro k hk; rw [List.reverse_reverse]; exact h1 k (by simpa using hk))
    (by intro k hk; rw [List.reverse_reverse]; exact h2 k (by simpa using hk))
  rwa [List.reverse_reverse] at this

/-- **Service-layer delivery is the chain semantics, for every history.** Whatever handler specs are
registered, updated and removed, whatever recorders are added and whatever is collected: as long as every
topic has a single way in and publish edges go forward, recorder `name` has received for topic `X` exactly
what the declarative specification says — for each collect since its registration, in order, the event iff a
chain of registered specs with holding match expressions leads from the collected topic to `X`, with the
previous level the specification prescribes; nothing else, nothing twice. -/
theorem svc_delivery_is_chain_semantics (order : List String) (ops : List Svc.Op)
    (h1 : SingleEntryAlways ops) (h2 : ForwardAlways order ops) (name X : String) :
    (Svc.run ops).received name X = SvcSpec.received ops name X :=
  (inv_of_history order ops h1 h2).recv name X

/-- the model's per-topic event states are the specification's last arrivals (the previous level a topic
reports is the level of the id's last arrival there) -/
theorem svc_states_are_last_arrivals (order : List String) (ops : List Svc.Op)
    (h1 : SingleEntryAlways ops) (h2 : ForwardAlways order ops) (Y id : String) :
    (((Svc.run ops).cur Y).find? (fun x => x.id == id)).map (·.level) = lastLevel (SvcSpec.arrivals ops Y) id :=
  (inv_of_history order ops h1 h2).last Y id

/-- **Fuel adequacy along histories**: the propagation never runs out of fuel. -/
theorem fuel_adequate (order : List String) (ops : List Svc.Op)
    (h1 : SingleEntryAlways ops) (h2 : ForwardAlways order ops) : (Svc.run ops).overflow = false :=
  (inv_of_history order ops h1 h2).ovf

theorem deliver_no_overflow_aux {rank : String → Nat} (specs : List Spec)
    (hf : ∀ sp ∈ specs, ∀ t ∈ sp.targets, rank sp.topic < rank t) :
    ∀ (n : Nat) (s : St) (T : String) (e : SEv), s.specs = specs → cntGe rank specs (rank T) + 1 ≤ n →
      s.overflow = false → (deliver n s T e).overflow = false
  | 0, _, _, _, _, h, _ => by omega
  | n + 1, s, T, e, hs, hfuel, hov => by
    unfold deliver
    simp only
    rw [pubFold_eq, record_specs, hs]
    change (List.foldl (fun acc t => deliver n acc t (evAt s T e)) (record s T (evAt s T e))
      (kids specs T (evAt s T e))).overflow = false
    have adequate : ∀ k ∈ kids specs T (evAt s T e), cntGe rank specs (rank k) + 1 ≤ n := by
      intro k hk
      obtain ⟨sp, h1, h2, _, h4⟩ := mem_kids.mp hk
      have := cntGe_step (rank := rank) h1 (hf sp h1 k h4)
      rw [h2] at this; omega
    have hs2 : (record s T (evAt s T e)).specs = specs := by rw [record_specs, hs]
    have ho2 : (record s T (evAt s T e)).overflow = false := by rw [record_overflow, hov]
    generalize record s T (evAt s T e) = s2 at hs2 ho2 ⊢
    generalize kids specs T (evAt s T e) = ks at adequate ⊢
    induction ks generalizing s2 with
    | nil => exact ho2
    | cons k ks ih =>
      rw [List.foldl_cons]
      apply ih
      · rw [deliver_specs, hs2]
      · exact deliver_no_overflow_aux specs hf n s2 k _ hs2 (adequate k List.mem_cons_self) ho2
      · intro k' hk'; exact adequate k' (List.mem_cons_of_mem _ hk')

/-- **Fuel adequacy, one collect, acyclicity alone**: when publish edges only go forward in some order,
`fuelFor` is enough for the whole propagation — whatever the state, the topic and the event (no single-entry
hypothesis needed: a walk cannot be deeper than the number of specs). -/
theorem deliver_never_overflows (order : List String) (s : St) (T : String) (ev : SEv)
    (hf : forwardOnly order s.specs = true) (ho : s.overflow = false) :
    (deliver (fuelFor s) s T ev).overflow = false := by
  apply deliver_no_overflow_aux (rank := order.idxOf) s.specs _ _ s T ev rfl _ ho
  · intro sp hsp t ht
    unfold forwardOnly at hf
    have := List.all_eq_true.mp (List.all_eq_true.mp hf sp hsp) t ht
    simpa using this
  · have := cntGe_le order.idxOf s.specs (order.idxOf T); unfold fuelFor; omega

/-- **The executable pull is the declarative chain**: under the two hypotheses on the configuration at the
moment of the collect, `pull` finds the event at `X` (seen as `e`) iff a chain of registered specs with holding
match expressions leads from the collected topic to `X`. -/
theorem pull_iff_chain (order : List String) (specs : List Spec) (last : String → String → Option Nat)
    (T0 : String) (e0 : SEv) (h1 : singleEntry { specs := specs } [T0] = true)
    (h2 : forwardOnly order specs = true) (X : String) (e : SEv) :
    pull specs last T0 e0 (specs.length + 1) X = some e ↔ Arrives specs last T0 e0 X e := by
  have hg : Good specs order.idxOf T0 :=
    good_of_checks (s := { specs := specs }) h1 (List.mem_singleton.mpr rfl) h2
  constructor
  · exact pull_arrives _ _ _
  · intro h
    exact arrives_pull hg h _ (by have := cntLt_le order.idxOf specs (order.idxOf X); omega)

/-- at most once: a chain's end point sees the event in exactly one way (the chain semantics is a partial
function of the topic) -/
theorem chain_functional (order : List String) (specs : List Spec) (last : String → String → Option Nat)
    (T0 : String) (e0 : SEv) (h1 : singleEntry { specs := specs } [T0] = true)
    (h2 : forwardOnly order specs = true) (X : String) (e e' : SEv)
    (a : Arrives specs last T0 e0 X e) (b : Arrives specs last T0 e0 X e') : e = e' := by
  have p1 := (pull_iff_chain order specs last T0 e0 h1 h2 X e).mpr a
  have p2 := (pull_iff_chain order specs last T0 e0 h1 h2 X e').mpr b
  rw [p1] at p2; exact Option.some.inj p2

/-- **What the driver evaluates is the specification**: the incremental table of Kap/Spec/C09Svc.lean computes,
for every history (no hypotheses), exactly the declaratively defined received and arrival sequences. -/
theorem table_is_spec (ops : List Svc.Op) (name X : String) :
    (Tbl.run ops).gotOf name X = SvcSpec.received ops name X ∧ (Tbl.run ops).arrOf X = SvcSpec.arrivals ops X := by
  have := tinv_run ops.reverse
  rw [List.reverse_reverse] at this
  exact ⟨this.got name X, this.arr X⟩

/-! Non-vacuity: a history with a chain of depth 2 (t0 → p0 → p1, `level() >= WARNING` then
`changed() == TRUE`) satisfies both hypotheses, and the recorder at the end of the chain receives the first and
the fourth event only — the second is unchanged on p0, the third is below WARNING on t0; the fourth carries
the previous level of its last arrival on p1 (3), not the one on t0 (1). -/
def exOps : List Svc.Op :=
  [ .recorder "p1" "r",
    .reg { topic := "t0", hid := "h0", midx := 1, targets := ["p0"] },
    .reg { topic := "p0", hid := "h1", midx := 3, targets := ["p1"] },
    .collect "t0" { id := "a", level := 3, time := 1, prev := 0, tags := [] },
    .collect "t0" { id := "a", level := 3, time := 2, prev := 0, tags := [] },
    .collect "t0" { id := "a", level := 1, time := 3, prev := 0, tags := [] },
    .collect "t0" { id := "a", level := 2, time := 4, prev := 0, tags := [] } ]

instance : Decidable (SingleEntryAlways exOps) := by unfold SingleEntryAlways; infer_instance
instance : Decidable (ForwardAlways harnessOrder exOps) := by unfold ForwardAlways; infer_instance

example : SingleEntryAlways exOps ∧ ForwardAlways harnessOrder exOps := by decide
example : SvcSpec.received exOps "r" "p1" =
    [ { id := "a", level := 3, time := 1, prev := 0, tags := [] },
      { id := "a", level := 2, time := 4, prev := 3, tags := [] } ] := by decide
example : (Tbl.run exOps).gotOf "r" "p1" = SvcSpec.received exOps "r" "p1" := by decide
/-- the hypotheses of `pull_iff_chain` are satisfiable with a non-trivial chain, and the chain exists -/
example : singleEntry { specs := (Svc.run exOps).specs } ["t0"] = true ∧ forwardOnly harnessOrder (Svc.run exOps).specs = true
    ∧ (pull (Svc.run exOps).specs (fun _ _ => none) "t0" { id := "a", level := 3, time := 1, prev := 0, tags := [] } 3 "p1").isSome = true := by
  decide
/-- without the single-entry hypothesis the synchronous model and the chain semantics part ways: a diamond
(t0 → p0, t0 → p1, both → p2) delivers twice at p2 in the model, once in the specification -/
def diamond : List Svc.Op :=
  [ .recorder "p2" "r",
    .reg { topic := "t0", hid := "h0", midx := 0, targets := ["p0", "p1"] },
    .reg { topic := "p0", hid := "h1", midx := 0, targets := ["p2"] },
    .reg { topic := "p1", hid := "h2", midx := 0, targets := ["p2"] },
    .collect "t0" { id := "a", level := 3, time := 1, prev := 0, tags := [] } ]
instance : Decidable (SingleEntryAlways diamond) := by unfold SingleEntryAlways; infer_instance
theorem single_entry_needed : ¬ SingleEntryAlways diamond ∧
    ((Svc.run diamond).received "r" "p2").length = 2 ∧ (SvcSpec.received diamond "r" "p2").length = 1 := by
  decide

/-! ## The aggregate handler's content rule -/

/-- **Aggregate handler**: a tick emits nothing for an empty collection, and otherwise ONE event whose level is
the maximum level of the collected events, whose time is the latest of their times and whose count is their
number — for every sequence of collected events (transcription of the loop in `aggregateHandler.run`). -/
theorem aggregate_content_rule (evs : List Agg.In) :
    (evs = [] → Agg.tick evs = none) ∧
    (evs ≠ [] → ∃ o, Agg.tick evs = some o ∧ Agg.contentOK evs o = true) := by
  constructor
  · intro h; subst h; rfl
  · intro h
    cases evs with
    | nil => exact absurd rfl h
    | cons e rest =>
      refine ⟨_, by unfold Agg.tick; rfl, ?_⟩
      obtain ⟨_, l2, l3⟩ := Agg.fold_level (e :: rest) { level := 0, time := none, count := (e :: rest).length }
      obtain ⟨rt, t1, t2, t3⟩ := Agg.fold_time_none e rest { level := 0, time := none, count := (e :: rest).length } rfl
      have hc := Agg.fold_count (e :: rest) { level := 0, time := none, count := (e :: rest).length }
      unfold Agg.contentOK
      rw [t1, hc]
      simp only [List.isEmpty_cons, Bool.not_false, Bool.true_and, beq_self_eq_true, Bool.and_true, Bool.and_eq_true]
      constructor
      · unfold Agg.isMaxLevel
        rw [Bool.and_eq_true, List.all_eq_true, Bool.or_eq_true, List.any_eq_true]
        refine ⟨fun x hx => decide_eq_true (l2 x hx), ?_⟩
        rcases l3 with l3 | ⟨x, hx, l3⟩
        · left; rw [l3]; rfl
        · right; exact ⟨x, hx, by simpa using l3⟩
      · unfold Agg.isLatest
        rw [Bool.and_eq_true, List.all_eq_true, List.any_eq_true]
        obtain ⟨x, hx, hxe⟩ := t3
        exact ⟨fun y hy => decide_eq_true (t2 y hy), x, hx, by simpa using hxe⟩

example : Agg.tick [⟨1, 10⟩, ⟨3, 30⟩, ⟨2, 20⟩] = some { level := 3, time := some 30, count := 3 } := by decide

end Kap.Props.C09Svc
