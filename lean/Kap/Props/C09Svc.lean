/-
C09, service layer — theorems about the model of match/publish handler wiring (Kap/Model/C09Svc.lean).
The global delivery semantics of the service layer is tied to the code by correspondence; what is PROVED
here are the local laws every delivery obeys, for every configuration, event and fuel.
-/
import Kap.Model.C09Svc
namespace Kap.Props.C09Svc
open Kap.C09 Kap.C09.Svc

/-- `matchHandler.match` errors exactly when a referenced tag is missing — whatever the expression's shape
(short-circuiting never hides a missing tag), and otherwise returns the plain boolean value. -/
theorem match_error_iff_missing_tag (m : M) (ev : SEv) :
    m.eval ev = none ↔ ∃ t ∈ m.vars, tagOf ev t = none := by
  unfold M.eval
  by_cases h : m.vars.all (fun t => (tagOf ev t).isSome) = true
  · rw [if_pos h]
    simp only [reduceCtorEq, false_iff, not_exists, not_and]
    intro t ht
    have := List.all_eq_true.mp h t ht
    intro e; rw [e] at this; simp at this
  · rw [if_neg h]
    simp only [true_iff]
    have h' : ¬ ∀ t ∈ m.vars, (tagOf ev t).isSome = true := fun hh => h (List.all_eq_true.mpr hh)
    apply Classical.byContradiction
    intro hne
    apply h'
    intro t ht
    cases hv : tagOf ev t with
    | none => exact absurd ⟨t, ht, hv⟩ hne
    | some _ => rfl

theorem setCur_recs (s : St) (T : String) (l : List ES) : (s.setCur T l).recs = s.recs := by
  unfold St.setCur; split <;> rfl
theorem setCur_log (s : St) (T : String) (l : List ES) : (s.setCur T l).log = s.log := by
  unfold St.setCur; split <;> rfl

/-- any property preserved by one hop is preserved by the whole republishing fold -/
theorem pubFold_preserves (P : St → Prop) (f : St → String → St) (hf : ∀ a t, P a → P (f a t))
    (ev' : SEv) (specs : List Spec) (s : St) (h : P s) : P (pubFold f ev' specs s) := by
  unfold pubFold
  induction specs generalizing s with
  | nil => exact h
  | cons sp sps ih =>
    simp only [List.foldl_cons]
    apply ih
    split
    · generalize sp.targets = ts
      induction ts generalizing s with
      | nil => exact h
      | cons t ts iht => simp only [List.foldl_cons]; exact iht _ (hf s t h)
    · exact h

/-- the recorders and specs are not touched by deliveries -/
theorem deliver_recs (fuel : Nat) (s : St) (T : String) (ev : SEv) : (deliver fuel s T ev).recs = s.recs := by
  induction fuel generalizing s T ev with
  | zero => rfl
  | succ n ih =>
    unfold deliver
    simp only
    have h2 : (record s T (evAt s T ev)).recs = s.recs := by unfold record; exact setCur_recs _ _ _
    exact pubFold_preserves (fun a => a.recs = s.recs) _ (fun a t ha => (ih a t _).trans ha) _ _ _ h2

/-- Every log entry is for a (topic, recorder) pair that is registered. -/
def LogOK (s : St) : Prop := ∀ e ∈ s.log, (e.2.1, e.1) ∈ s.recs

theorem record_logOK (s : St) (T : String) (ev' : SEv) (h : LogOK s) : LogOK (record s T ev') := by
  intro e he
  unfold record at he ⊢
  simp only [setCur_log, setCur_recs] at he ⊢
  rcases List.mem_append.mp he with h1 | h1
  · exact h e h1
  · obtain ⟨r, hr, rfl⟩ := List.mem_map.mp h1
    have := List.mem_filter.mp hr
    have e1 : r.1 = T := by simpa using this.2
    simp only
    rw [← e1]; exact this.1

theorem deliver_logOK (fuel : Nat) (s : St) (T : String) (ev : SEv) (h : LogOK s) :
    LogOK (deliver fuel s T ev) := by
  induction fuel generalizing s T ev with
  | zero => exact h
  | succ n ih =>
    unfold deliver
    simp only
    exact pubFold_preserves LogOK _ (fun a t ha => ih a t _ ha) _ _ _ (record_logOK s T _ h)

/-- **No cross-topic delivery at the service layer, for every history**: whatever specs are registered,
replaced or removed and whatever is collected, a recorder only ever receives events of topics it is
registered on. -/
theorem no_cross_topic_delivery (ops : List Svc.Op) :
    LogOK (ops.foldl (fun s op => (Svc.step s op).1) {}) := by
  have init : LogOK ({} : St) := by intro e he; cases he
  suffices ∀ (s : St), LogOK s → LogOK (ops.foldl (fun s op => (Svc.step s op).1) s) from this {} init
  induction ops with
  | nil => intro s h; exact h
  | cons op ops ih =>
    intro s h
    simp only [List.foldl_cons]
    apply ih
    cases op with
    | recorder T name =>
      simp only [Svc.step]
      split
      · exact h
      · intro e he; exact List.mem_append_left _ (h e he)
    | reg sp => simp only [Svc.step]; split <;> exact h
    | dereg T hid => exact h
    | upd T old sp => exact h
    | collect T ev => exact deliver_logOK _ _ _ _ h

/-- deliveries only append to the log -/
theorem deliver_log_mono (fuel : Nat) (s : St) (T : String) (ev : SEv) (e : String × String × SEv)
    (he : e ∈ s.log) : e ∈ (deliver fuel s T ev).log := by
  induction fuel generalizing s T ev with
  | zero => exact he
  | succ n ih =>
    unfold deliver
    simp only
    refine pubFold_preserves (fun a => e ∈ a.log) _ (fun a t ha => ih a t _ ha) _ _ _ ?_
    unfold record; simp only [setCur_log]; exact List.mem_append_left _ he

/-- **Direct delivery**: a recorder registered on the collected topic itself receives the event — with the
event's id, level and time, and the previous level of that id on the topic — whatever handler specs and
match expressions are configured. -/
theorem direct_delivery (fuel : Nat) (s : St) (T name : String) (ev : SEv) (hr : (T, name) ∈ s.recs) :
    (name, T, evAt s T ev) ∈ (deliver (fuel + 1) s T ev).log := by
  unfold deliver
  simp only
  refine pubFold_preserves (fun a => (name, T, evAt s T ev) ∈ a.log) _
    (fun a t ha => deliver_log_mono fuel a t _ _ ha) _ _ _ ?_
  unfold record
  simp only [setCur_log, setCur_recs]
  apply List.mem_append_right
  exact List.mem_map.mpr ⟨(T, name), List.mem_filter.mpr ⟨hr, by simp⟩, rfl⟩

/-- A handler whose match does not hold (or errors) republishes nothing: one spec, one hop. -/
theorem no_match_no_publish (f : St → String → St) (ev' : SEv) (sp : Spec) (s : St)
    (h : (matchTable.getD sp.midx .all).eval ev' ≠ some true) : pubFold f ev' [sp] s = s := by
  unfold pubFold
  simp only [List.foldl_cons, List.foldl_nil]

example : (M.or (.tagEq "dc" "x") (.levelGe 1)).eval { id := "a", level := 3, time := 0, prev := 0, tags := [("host", "a")] } = none
    ∧ (M.or (.tagEq "dc" "x") (.levelGe 1)).eval { id := "a", level := 3, time := 0, prev := 0, tags := [("dc", "y")] } = some true := by
  decide

end Kap.Props.C09Svc
