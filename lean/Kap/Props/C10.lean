/- C10 — property theorems (work in progress). -/
import Kap.Spec.C10
namespace Kap.Props.C10
open Kap.C10

/-- A chain is the composition of its nodes. -/
theorem pipeline_compositional (a b : List Node) (e : Edge) : runChain (a ++ b) e = runChain b (runChain a e) := by
  simp [runChain, List.foldl_append]

end Kap.Props.C10
