/-
C10 — property theorems (every `theorem` in this module is a proof obligation; `bin/check C10` audits each one's axioms).
The proofs are in Kap/Proofs/C10Main.lean (+ C10, C10Hist, C10Batch, C10Flat); this module restates them.

Statement (properties.jsonl): the output of where, eval, default, delete, shift, sample, derivative, changeDetect,
stateCount, stateDuration, flatten, combine and groupBy equals the documented function of the input applied per point
and per group, for stream and batch edges alike; a node never alters data another branch can observe.

What is proved here is about the MODEL (Kap/Model/C10.lean, transcribed from the Go code); `bin/check C10` ties the model
to the code on every run and evaluates the same documented functions (Kap/Spec/C10.lean) on what the real nodes emitted.
The aliasing half of the statement has no counterpart over immutable values: for the node files it is the extracted
ShallowCopy discipline plus the dynamic sibling-sink check; for the re-buffering layer between the nodes and their consumers
(edge.BatchBuffer) it is proved on a heap model of the extracted program (last section).

Several per-point theorems are short because model and documented function nearly coincide (where, shift); the
substance is in `grouped_nodes_are_per_group`, the history statements of the stateful nodes, the map theorems of
default/delete, `eval_spec` and the flatten theorems.
-/
import Kap.Proofs.C10Main
import Kap.Proofs.C10Buf
import Kap.Gen.C10
namespace Kap.Props.C10
open Kap.C10

/-! ### Pipelines -/

/-- A chain is the composition of its nodes. -/
theorem pipeline_compositional (a b : List Node) (e : Edge) : runChain (a ++ b) e = runChain b (runChain a e) :=
  Main.pipeline_compositional a b e

/-- A fork hands the SAME value to every child: the edges below a node are the node's output followed by what each child
produces from that output, independently of its siblings. -/
theorem fork_children_independent (n : Node) (c : Pipe) (cs : List Pipe) (e : Edge) :
    (Pipe.node n (c :: cs)).outputs e = n.run e :: (c.outputs (n.run e) ++ ((Pipe.node n cs).outputs e).tail) :=
  Main.fork_children_independent n c cs e

/-! ### Groups -/

/-- **Every grouped node works per group**: whatever the per-group receiver (`step`) and the way a group is created
(`init`), running the group table of `groupedConsumer` over ANY interleaving of groups gives each point exactly the
state that the earlier points of its own group produce. (Instantiated below for sample, derivative, changeDetect,
stateCount, stateDuration; flatten and combine run on the same table.) -/
theorem grouped_nodes_are_per_group {σ : Type} (init : Point → σ) (step : σ → Point → σ × List Point) (ps : List Point) :
    runGrouped init step [] ps = perGroup (fun h p => (step ((foldG init step h).getD (init p)) p).2) [] ps :=
  runGrouped_eq_perGroup init step ps

/-! ### where, default, delete, shift -/

/-- where keeps exactly the points whose predicate evaluates to true (errors drop), unchanged and in order. -/
theorem where_spec (e : Expr) (ps : List Point) : whereStream e ps = specWhere e ps :=
  Main.where_spec e ps

/-- default: every field/tag of the output is the input's, else the configured default (tags: absent or empty) —
for a configuration that is a map (distinct keys). Name, time and group dimensions are untouched. -/
theorem default_spec (cf : Fields) (ct : Tags) (hf : (akeys cf).Nodup) (ht : (akeys ct).Nodup) (p : Point) :
    (defaultPoint cf ct p).equivB (specDefault cf ct p) = true :=
  Main.default_spec cf ct hf ht p

example : (akeys ([("v", Val.int 7)] : Fields)).Nodup ∧ (akeys ([("h", "x")] : Tags)).Nodup ∧
    aget (defaultPoint [("v", .int 7)] [("h", "x")] { name := "m", tags := [("h", "")], fields := [("w", .int 1)], time := 0 }).fields "v" = some (.int 7) ∧
    aget (defaultPoint [("v", .int 7)] [("h", "x")] { name := "m", tags := [("h", "")], fields := [("w", .int 1)], time := 0 }).tags "h" = some "x" := by
  decide

/-- `equivB` is equality of the data as maps (so the statements above and below are about every key). -/
theorem equivB_is_map_equality (a b : Point) :
    a.equivB b = true ↔ (a.name = b.name ∧ a.time = b.time ∧ a.dims = b.dims ∧ a.byName = b.byName ∧
      (∀ k, aget a.tags k = aget b.tags k) ∧ (∀ k, aget a.fields k = aget b.fields k)) :=
  Main.equivB_is_map_equality a b

/-- delete: listed fields/tags are gone, everything else is untouched, deleted tags leave the dimensions. -/
theorem delete_spec (df dt : List String) (p : Point) : (deletePoint df dt p).equivB (specDelete df dt p) = true :=
  Main.delete_spec df dt p

/-- default on a batch edge: the GROUP tags are defaulted like the tags of a point (so the batch may change its group: the
dimensions of a begin message are the keys of its tags), and so is every point. -/
theorem default_batch_spec (cf : Fields) (ct : Tags) (hf : (akeys cf).Nodup) (ht : (akeys ct).Nodup) (b : Batch) :
    (defaultBatch cf ct b).equivB (specDefaultBatch cf ct b) = true :=
  defaultBatch_spec cf ct hf ht b

/-- delete on a batch edge: deleted tags leave the group tags (and with them the dimensions); points lose the listed keys. -/
theorem delete_batch_spec (df dt : List String) (b : Batch) :
    (deleteBatch df dt b).equivB (specDeleteBatch df dt b) = true :=
  deleteBatch_spec df dt b

/-- groupBy (stream): the new dimensions are the sorted listed tags — or all tags of the point under `*` — minus the
excluded ones (the code sorts first and filters then; the documented function filters first), byMeasurement is sticky. -/
theorem groupBy_spec (c : GroupByCfg) (p : Point) : groupByPoint c p = specGroupBy c p :=
  Main.groupBy_spec c p

/-- … and they are sorted, whatever order they were listed in. -/
theorem groupBy_dims_sorted (c : GroupByCfg) (tags : Tags) : (gbTagNames c tags).Pairwise (· ≤ ·) :=
  gbTagNames_sorted c tags

/-- groupBy (batch), one point: it is appended to the group of its id (name of the current batch when grouped by
measurement + its values of the documented dimensions); a new group gets name / measurement flag / end time of the current
batch and exactly the dimension tags; no other group and nothing else of the state changes. -/
theorem groupBy_batch_point (c : GroupByCfg) (s : GbSt) (p : BPoint) :
    aget (gbBatchPoint c s p).groups (gbId c s p) =
      some (match aget s.groups (gbId c s p) with
        | some g => { g with points := g.points ++ [p] }
        | none => { name := s.name, tags := restrictTags p.tags (specGroupByDims c p.tags), byName := s.byName, tmax := s.tmax, points := [p] }) ∧
    (∀ id, id ≠ gbId c s p → aget (gbBatchPoint c s p).groups id = aget s.groups id) ∧
    (gbBatchPoint c s p).lastTime = s.lastTime ∧ (gbBatchPoint c s p).name = s.name ∧
    (gbBatchPoint c s p).byName = s.byName ∧ (gbBatchPoint c s p).tmax = s.tmax :=
  gbBatchPoint_spec c s p

/-- groupBy (batch), the points of a batch: every group ends up with what it held followed by exactly the points of its
id, in arrival order — nothing lost, nothing in two groups. -/
theorem groupBy_batch_regroups (c : GroupByCfg) (pts : List BPoint) (s : GbSt) (id : String) :
    groupPoints (pts.foldl (gbBatchPoint c) s).groups id = groupPoints s.groups id ++ pts.filter (fun p => gbId c s p = id) :=
  gb_fold_points c pts s id

/-- groupBy (batch), emission: exactly when the end time of the incoming batch differs from the last one seen, ALL
buffered groups are emitted — headers untouched, points a permutation of the buffered ones and sorted by time — and the
buffer restarts empty with the incoming batch; otherwise nothing is emitted and the batch joins the buffered groups. -/
theorem groupBy_batch_emits_on_time_change (c : GroupByCfg) (s : GbSt) (b : Batch) :
    (b.tmax ≠ s.lastTime →
      (gbBatch c s b).2.length = s.groups.length ∧
      (∀ i (h : i < s.groups.length),
        ∃ o, (gbBatch c s b).2[i]? = some o ∧ o.name = (s.groups[i]).2.name ∧ o.tags = (s.groups[i]).2.tags ∧
          o.byName = (s.groups[i]).2.byName ∧ o.tmax = (s.groups[i]).2.tmax ∧
          o.points.Perm (s.groups[i]).2.points ∧ o.points.Pairwise (fun a b => a.time ≤ b.time)) ∧
      (gbBatch c s b).1 = b.points.foldl (gbBatchPoint c)
        { lastTime := b.tmax, name := b.name, byName := b.byName || c.byName, tmax := b.tmax, groups := [] }) ∧
    (b.tmax = s.lastTime →
      (gbBatch c s b).2 = [] ∧
      (gbBatch c s b).1 = b.points.foldl (gbBatchPoint c)
        { s with name := b.name, byName := b.byName || c.byName, tmax := b.tmax }) :=
  gbBatch_emit c s b

/-- shift moves the time and nothing else. -/
theorem shift_spec (d : Int) (p : Point) : shiftPoint d p = specShift d p := rfl

/-! ### The stateful nodes: history statements, for every stream (any number of groups, any interleaving) -/

/-- sample(N) keeps a point iff the number of EARLIER points of its group is a multiple of N (sample(d): iff its time is
a multiple of d). -/
theorem sample_every_nth (n dur : Int) (ps : List Point) : sampleStream n dur ps = specSample n dur ps :=
  sampleStream_eq n dur ps

/-- stateCount = -1 when false, else the length of the current run of true within the group; points whose predicate
fails to evaluate are dropped and do not interrupt the run. -/
theorem stateCount_is_run_length (e : Expr) (as : String) (ps : List Point) : countStream e as ps = specStateCount e as ps :=
  countStream_eq e as ps

/-- stateDuration = -1 when false, else the time since the first point of the current run, in units. -/
theorem stateDuration_is_time_since_run_start (e : Expr) (as : String) (unit : Int) (ps : List Point) :
    durStream e as unit ps = specStateDuration e as unit ps :=
  durStream_eq e as unit ps

/-- derivative pairs each point with the latest earlier point of its group whose field is numeric … -/
theorem derivative_of_consecutive_stored (c : DerivCfg) (ps : List Point) : derivStream c ps = specDerivative c ps :=
  derivStream_eq c ps

/-- … because a point is stored as "previous" exactly when its field is numeric — also when nothing is emitted for it
(no previous, zero elapsed, negative difference under nonNegative). -/
theorem derivative_skips_but_stores_on_zero_elapsed (c : DerivCfg) (prev : Option (Fields × Int)) (fields : Fields) (t : Int) :
    (derivative c prev fields t).2 = isNumeric (aget fields c.field) :=
  derivative_store c prev fields t

/-- changeDetect emits a point iff a listed field it carries differs from the latest EMITTED point of its group. -/
theorem changeDetect_emits_on_change_from_last_emitted (fs : List String) (ps : List Point) :
    changeStream fs ps = specChangeDetect fs ps :=
  changeStream_eq fs ps

/-! ### Batch edges = the stream function on the points of each batch, one group, fresh state -/

theorem batch_stream_agree_sample (n dur : Int) (b : Batch) :
    (sampleBatch n dur b).points = (sampleStream n dur (b.points.map (toPt b.name))).map BPoint.ofPoint :=
  Main.batch_stream_agree_sample n dur b

theorem batch_stream_agree_derivative (c : DerivCfg) (b : Batch) :
    (derivBatch c b).points = (derivStream c (b.points.map (toPt b.name))).map BPoint.ofPoint :=
  Main.batch_stream_agree_derivative c b

theorem batch_stream_agree_changeDetect (fs : List String) (b : Batch) :
    (changeBatch fs b).points = (changeStream fs (b.points.map (toPt b.name))).map BPoint.ofPoint :=
  Main.batch_stream_agree_changeDetect fs b

theorem batch_stream_agree_stateCount (e : Expr) (as : String) (b : Batch) :
    (countBatch e as b).points = (countStream e as (b.points.map (toPt b.name))).map BPoint.ofPoint :=
  Main.batch_stream_agree_stateCount e as b

theorem batch_stream_agree_stateDuration (e : Expr) (as : String) (unit : Int) (b : Batch) :
    (durBatch e as unit b).points = (durStream e as unit (b.points.map (toPt b.name))).map BPoint.ofPoint :=
  Main.batch_stream_agree_stateDuration e as unit b

/-- where / eval / delete / shift act on the points of a batch one by one, like on a stream. -/
theorem batch_stream_agree_pointwise (e : Expr) (c : EvalCfg) (df dt : List String) (d : Int) (b : Batch) :
    (whereBatch e b).points = ((whereStream e (b.points.map (toPt b.name))).map BPoint.ofPoint) ∧
    (evalBatch c b).points = ((evalStream c (b.points.map (toPt b.name))).map BPoint.ofPoint) ∧
    (deleteBatch df dt b).points = ((b.points.map (toPt b.name)).map (deletePoint df dt)).map BPoint.ofPoint ∧
    (shiftBatch d b).points = ((b.points.map (toPt b.name)).map (shiftPoint d)).map BPoint.ofPoint :=
  Main.batch_stream_agree_pointwise e c df dt d b

/-! ### flatten -/

/-- The fields of a closed bucket are exactly the documented ones: every point that carries all `on` tags contributes
`tagvalues ⋅ delimiter ⋅ fieldname` (later points win on equal names), a point lacking one of the tags contributes
nothing — and leaves nothing behind (the code as repaired by add6dbc). -/
theorem flatten_bucket_fields (c : FlattenCfg) (bucket : List BPoint) : flattenFields c bucket = specFlatFields c bucket :=
  flattenFields_eq c bucket

/-- **flatten on a stream** whose (rounded) times do not decrease within a group: the buffer the code keeps per group is
the open bucket of the group's history (consecutive points with the rounded time of the last one); a point whose rounded
time differs closes it, and the closed bucket becomes ONE point — name, group tags and dimensions of the group, time of
the bucket, the documented fields — unless it has no field at all. Nothing else is emitted; the last bucket stays open. -/
theorem flatten_stream_spec (c : FlattenCfg) (ps : List Point) (hord : groupTimesOrdered c.tol ps = true) :
    flattenStream c ps = specFlatten c ps :=
  flattenStream_eq c ps hord

example :
    let c : FlattenCfg := { on := ["p"], delim := ".", tol := 0, drop := false }
    let ps : List Point := [{ name := "m", tags := [("p", "80")], fields := [("v", .int 1)], time := 0 },
                            { name := "m", tags := [("p", "443")], fields := [("v", .int 2)], time := 0 },
                            { name := "m", tags := [("p", "80")], fields := [("v", .int 3)], time := 1 }]
    groupTimesOrdered c.tol ps = true ∧
      (specFlatten c ps).map (·.fields) = [[("80.v", .int 1), ("443.v", .int 2)]] := by
  decide

/-- **flatten on a batch edge**: the points are split into maximal runs of equal rounded time; every run becomes one point
(group tags, rounded time, documented fields); a run without any field is dropped unless it is the last of the batch. -/
theorem flatten_batch_spec (c : FlattenCfg) (b : Batch) : flattenBatch c b = specFlattenBatch c b :=
  flattenBatch_eq c b

/-- Counterexample (the defect repaired by add6dbc): in snapshot ef0888e a point that has the first `on` tag but not the
second leaves its tag value in the shared prefix buffer; the next point's field comes out as `ab.80.v` instead of
`b.80.v` (replayed on the real code by corpus/C10/flatten-missing-later-tag.ops). -/
theorem flatten_old_leaks_prefix :
    ∃ (c : FlattenCfg) (bucket : List BPoint), flattenFieldsOld c bucket ≠ specFlatFields c bucket ∧
      flattenFieldsOld c bucket = [("ab.80.v", .int 2)] ∧ specFlatFields c bucket = [("b.80.v", .int 2)] :=
  ⟨{ on := ["h", "p"], delim := ".", tol := 0, drop := false },
   [{ tags := [("h", "a")], fields := [("v", .int 1)], time := 0 }, { tags := [("h", "b"), ("p", "80")], fields := [("v", .int 2)], time := 0 }],
   by decide⟩

/-! ### combine -/

/-- Counterexample (the defect repaired by d6d5125): snapshot ef0888e panicked on the first point of a group whenever the
buffer had no capacity and the point did not fall into the initial bucket — on a stream: first point not aligned to the
tolerance (b.time = first.Time(), unrounded); on a batch: always (b.time = zero) when the size hint was 0
(corpus/C10/combine-first-bucket-unaligned.ops, combine-batch-sizehint0.ops). -/
theorem combine_old_panics :
    combAddOldPanics 1000000000 (some 1000400000000) 0 1000400000000 = true ∧ (∀ tol t, combAddOldPanics tol none 0 t = true) :=
  Main.combine_old_panics

/-- **The assignment of lambdas to the members of a candidate set is complete and order independent** (the code as
repaired by the combine `fix:` commit recorded in findings/C10.txt): the backtracking walk returns the first of ALL
injective assignments "member s satisfies lambda s" — so a candidate set is emitted iff it admits such an assignment,
whatever the order of the lambdas, and the emitted members are one of the documented assignments. -/
theorem combine_assignment_complete (m : Nat → BPoint → Bool) (l s : Nat) (rest : List BPoint) :
    assignBT m l s rest = (assignments m l s rest).head? ∧
    ((assignBT m l s rest).isSome = true ↔ assignments m l s rest ≠ []) ∧
    (∀ sel, assignBT m l s rest = some sel → sel ∈ assignments m l s rest) :=
  ⟨assignBT_eq_head m l s rest, assignBT_isSome_iff m l s rest, fun sel h => assignBT_mem m l s rest sel h⟩

/-- The candidate sets combine walks through are exactly the k-element sublists of the bucket (by position, in order):
no point twice in a combination, no combination twice. -/
theorem combine_candidates_are_sublists {α : Type} (k : Nat) (l s : List α) : s ∈ choose k l ↔ s.Sublist l ∧ s.length = k :=
  mem_choose k l s

/-- **combine on a stream** (any order of times; the number of candidate sets within `.max()`): the buffer of a group is
the open bucket of its history — the trailing run of points with the rounded time of the last one; the first point with
another rounded time closes it, the combinations of the closed bucket are emitted then, the last bucket stays buffered. -/
theorem combine_stream_bucketing (c : CombineCfg) (ps : List Point) (hfit : ∀ n, n ≤ ps.length → combFits c n) :
    combineStream c ps = perGroup (specCombinePoint c) [] ps :=
  combineStream_eq c ps hfit

/-- **combine on a batch edge**: the combinations of every maximal run of equal rounded time, run by run. -/
theorem combine_batch_bucketing (c : CombineCfg) (b : Batch) (hfit : ∀ n, n ≤ b.points.length → combFits c n) :
    combineBatch c b =
      (buckets c.tol b.points).flatMap (fun bk => (combineBucket c b.name b.dims b.byName (bk.map (rnd c.tol))).getD []) :=
  combineBatch_eq c b hfit

/-- non-vacuity: pairs, three points at one time then one later — the default max is far away, one bucket is emitted -/
example :
    let c : CombineCfg := { exprs := [.lit (.bool true), .lit (.bool true)], names := ["A", "B"], delim := ".", tol := 0, max := 1000000 }
    let mk := fun (v : Int) (t : Int) => ({ name := "m", tags := [], fields := [("v", .int v)], time := t } : Point)
    (∀ n, n ≤ 4 → combCount n c.exprs.length ≤ c.max) ∧ (combineStream c [mk 1 0, mk 2 0, mk 3 0, mk 4 1]).length = 3 := by
  decide

/-- Counterexample (the defect repaired by the combine `fix:` commit): with lambdas (TRUE, "h" == 'a') the pair {h=a, h=b}
admits the assignment (b ↦ TRUE, a ↦ "h"=='a'), but the greedy first-match walk of snapshot ef0888e gave `a` to the first
lambda, found nobody for the second and emitted nothing; the repaired walk emits the pair
(replayed on the real code by corpus/C10/combine-greedy-assignment.ops). -/
theorem combine_old_greedy_misses_a_combination :
    ∃ (c : CombineCfg) (bucket : List BPoint), combineGreedyMisses c bucket = true ∧
      assign (combMatch c) 2 0 bucket = none ∧ (assignBT (combMatch c) 2 0 bucket).isSome = true ∧
      (combineBucket c "m" [] false bucket).map List.length = some 1 :=
  ⟨{ exprs := [.lit (.bool true), .bin .eq (.ref "h") (.lit (.str "a"))], names := ["A", "B"], delim := ".", tol := 0, max := 1000000 },
   [{ tags := [("h", "a")], fields := [("v", .int 1)], time := 0 }, { tags := [("h", "b")], fields := [("v", .int 2)], time := 0 }],
   by decide⟩

/-! ### eval -/

/-- **eval computes its documented output** (results in order — a later expression sees earlier results first, fields and
tags otherwise; listed string results become tags; fields by keep mode; any error drops the point) for every configuration
the pipeline accepts (as many names as expressions, `.tags()` ⊆ `.as()`) and EVERY point (the code as repaired by the
`fix:` commit recorded in findings/C10.txt). `none` = the point is dropped; fields and tags are compared as maps. -/
theorem eval_spec (c : EvalCfg) (fields : Fields) (tags : Tags)
    (hlen : c.as.length = c.exprs.length) (htags : ∀ t ∈ c.tags, t ∈ c.as) :
    match evalFT c fields tags, specEvalFT c fields tags with
    | none, none => True
    | some (f, t), some (f', t') => mapEqB f f' = true ∧ mapEqB t t' = true
    | _, _ => False :=
  evalFT_spec c fields tags hlen htags

/-- non-vacuity: the second expression uses the first result although a FIELD of that name exists, one result becomes a
tag, keep(list) -/
example :
    let c : EvalCfg := { exprs := [.bin .add (.ref "v") (.lit (.int 1)), .bin .mul (.ref "v") (.lit (.int 2)), .bin .add (.ref "h") (.lit (.str "!"))],
                         as := ["v", "y", "t"], tags := ["t"], keep := true, keepList := ["y", "v"] }
    c.as.length = c.exprs.length ∧ (∀ t ∈ c.tags, t ∈ c.as) ∧
      evalFT c [("v", .int 1)] [("h", "a")] = some ([("y", .int 4), ("v", .int 2)], [("h", "a"), ("t", "a!")]) := by
  decide

/-- Counterexample (the defect repaired by the eval `fix:` commit): in snapshot ef0888e
eval(lambda: "v" + 1, lambda: "v" * 2).as('v','y').keep() on v=1 re-bound "v" to the field before the second expression:
y = 2 instead of 4 and the emitted v is the original 1 — the first result is lost
(replayed on the real code by corpus/C10/eval-result-shadowed.ops). -/
theorem eval_old_loses_shadowed_result :
    ∃ (c : EvalCfg) (fields : Fields), evalShadowed c fields [] = true ∧
      (evalFTOld c fields []).map (fun r => (aget r.1 "v", aget r.1 "y")) = some (some (.int 1), some (.int 2)) ∧
      (specEvalFT c fields []).map (fun r => (aget r.1 "v", aget r.1 "y")) = some (some (.int 2), some (.int 4)) ∧
      (evalFT c fields []).map (fun r => (aget r.1 "v", aget r.1 "y")) = some (some (.int 2), some (.int 4)) :=
  ⟨{ exprs := [.bin .add (.ref "v") (.lit (.int 1)), .bin .mul (.ref "v") (.lit (.int 2))], as := ["v", "y"], keep := true },
   [("v", .int 1)], by decide⟩

/-! ### Aliasing: the ShallowCopy discipline, over facts regenerated from the Go source on every run -/

set_option maxRecDepth 100000 in
/-- **No node writes to what it received**: over the write / call facts that extract/c10alias regenerates from where.go,
eval.go, default.go, delete.go, shift.go, sample.go, derivative.go, change_detect.go, state_tracking.go, flatten.go,
combine.go, group_by.go (Kap/Gen/C10.lean), every write goes to a fresh or own object or to a ShallowCopy (message
setters only), every written parameter receives such an object at every call site (transitively), and no unrecognised
shape was met. A change of the source that breaks the discipline (e.g. re-using `dims.TagNames[0:0]` in
DeleteNode.deleteDimensions, dropping a `.Copy()`) makes this theorem fail to check. -/
theorem no_write_to_input : Alias.noWriteToInput Kap.Gen.C10.facts = true := by decide

/-- what that rules out, spelled out -/
theorem no_write_to_input_direct :
    (∀ fn k, Alias.Fact.write fn k .input ∉ Kap.Gen.C10.facts) ∧ (∀ fn k, Alias.Fact.write fn k .unknown ∉ Kap.Gen.C10.facts) ∧
    (∀ fn s, Alias.Fact.unknown fn s ∉ Kap.Gen.C10.facts) :=
  Alias.noWriteToInput_direct _ no_write_to_input

/-- the checker is not vacuous: the shape `newTagNames := dims.TagNames[0:0]; append(newTagNames, dim)` in a helper called
with `p.Dimensions()` is rejected, and so is a map write behind a dropped Copy() reached through two calls. -/
example :
    Alias.noWriteToInput [.write 45 .content (.param 0), .call 40 45 0 .input] = false ∧
    Alias.noWriteToInput [.write 16 .content (.param 1), .call 21 16 1 (.param 0), .call 19 21 0 .msgcopy] = false ∧
    Alias.noWriteToInput [.write 16 .msgset (.param 1), .call 21 16 1 (.param 0), .call 19 21 0 .msgcopy] = true := by
  decide

/-! ### Re-buffering: what a node has EMITTED is never written again (edge.BatchBuffer, edge/buffered.go)

log(), httpOut(), httpPost(), alert(), influxDBOut() and edge.multiConsumer (in front of join()/union()) collect a batch that
reaches them as begin / points / end — behind every per-point node of this property on a batch edge — in a `BatchBuffer`
and hand the buffered message on WITHOUT copying the points slice. The children read it later. Model: Kap/Model/C10Buf.lean
(a heap of Go slices: append writes in place while len < cap), program regenerated from the Go source. -/

/-- **Every batch a BatchBuffer has emitted holds, for the latest possible reader, exactly the points that entered**:
for every sequence of begin / point / end messages (also malformed ones), every size hint and every growth policy of
`append`, reading ALL emitted messages in the final heap gives, per `end`, the latest begin message and the points that
came in since — nothing of a later batch, nothing lost. -/
theorem batchBuffer_emitted_batches_stable {α β : Type} (grow : Nat → Nat) (ops : List (Buf.Op α β)) :
    Buf.observeLate (Buf.run Buf.goodProg grow ops) = (Buf.specBuffered ops).map (fun r => (r.1, r.2.map some)) := by
  have := Buf.observeLate_runFrom grow ops ({} : Buf.St α β) none [] Buf.inv_init
  simpa [Buf.run, Buf.specBuffered, Buf.observeLate] using this

/-- … in particular **no later input changes what has been emitted**: after any further messages the consumer of the
batches emitted so far finds in them what it would have found at once. -/
theorem batchBuffer_later_input_never_changes_emitted {α β : Type} (grow : Nat → Nat) (ops more : List (Buf.Op α β)) :
    (Buf.observeLate (Buf.run Buf.goodProg grow (ops ++ more))).take (Buf.observeLate (Buf.run Buf.goodProg grow ops)).length
      = Buf.observeLate (Buf.run Buf.goodProg grow ops) := by
  rw [batchBuffer_emitted_batches_stable, batchBuffer_emitted_batches_stable]
  obtain ⟨rest, h⟩ := Buf.specGo_append ops more (none : Option β) ([] : List α)
  simp only [Buf.specBuffered, h, List.map_append, List.length_map]
  rw [List.take_left' (by simp)]

/-- **edge/buffered.go IS that program**: the methods of BatchBuffer as extract/c10alias reads them from the source on
every run (statement by statement, anything unrecognised = `.unknown`) are exactly `goodProg` — BeginBatch starts every
batch on a slice obtained from `make`, BatchPoint only appends, BufferedBatchMessage only emits — and BatchBuffer has no
other method. `r.points = r.points[:0]` (re-using the array of the batch just handed on) makes this fail to check. -/
theorem batchBuffer_source_is_the_proved_program :
    Kap.Gen.C10.bufferProg = Buf.goodProg ∧ Kap.Gen.C10.bufferOtherMethods = [] := ⟨rfl, rfl⟩

/-- the statement about the code as extracted -/
theorem batchBuffer_extracted_emitted_batches_stable {α β : Type} (grow : Nat → Nat) (ops : List (Buf.Op α β)) :
    Buf.observeLate (Buf.run Kap.Gen.C10.bufferProg grow ops) = (Buf.specBuffered ops).map (fun r => (r.1, r.2.map some)) := by
  rw [batchBuffer_source_is_the_proved_program.1]; exact batchBuffer_emitted_batches_stable grow ops

/-- **All users of BatchBuffer are known**: the files of the root package and of package edge that mention it are log.go,
http_out.go, http_post.go (driven by the harness as carriers), edge/consumer.go (multiConsumer, driven through union()),
alert.go and influxdb_out.go (same three calls in BeginBatch / BatchPoint / EndBatch; their own output is C11/C12's and
C07's). A new user makes this fail to check and has to be looked at. -/
theorem batchBuffer_users_are_known :
    Kap.Gen.C10.bufferUsers = ["alert.go", "edge/consumer.go", "http_out.go", "http_post.go", "influxdb_out.go", "log.go"] := by decide

/-- The discipline is needed — counterexample on the model for the "allocation optimisation" that keeps the backing array
when it is large enough (`if hint > cap(r.points) { make } else { r.points[:0] }`): two batches of three points, the
first emitted message reads [11, 12, 13] once the second has been buffered. -/
theorem batchBuffer_reusing_the_slice_overwrites_emitted :
    ∃ ops : List (Buf.Op Nat Unit),
      Buf.observeLate (Buf.run Buf.reuseProg Buf.goGrow ops) ≠ (Buf.specBuffered ops).map (fun r => (r.1, r.2.map some)) :=
  ⟨[.begin () 3, .point 1, .point 2, .point 3, .end_, .begin () 3, .point 11, .point 12, .point 13, .end_], by decide⟩

/-- non-vacuity: on that input the program of the source emits [1,2,3] and [11,12,13], and the optimised one does not -/
example :
    Buf.observeLate (Buf.run Buf.goodProg Buf.goGrow
      ([.begin () 3, .point 1, .point 2, .point 3, .end_, .begin () 3, .point 11, .point 12, .point 13, .end_] : List (Buf.Op Nat Unit)))
      = [(some (), [some 1, some 2, some 3]), (some (), [some 11, some 12, some 13])] ∧
    Buf.observeLate (Buf.run Buf.reuseProg Buf.goGrow
      ([.begin () 3, .point 1, .point 2, .point 3, .end_, .begin () 3, .point 11, .point 12, .point 13, .end_] : List (Buf.Op Nat Unit)))
      = [(some (), [some 11, some 12, some 13]), (some (), [some 11, some 12, some 13])] := by decide

end Kap.Props.C10
