/-
C11 — property theorems (every `theorem` in this module is a proof obligation; `bin/check C11` audits each
one's axioms). Helper lemmas live in Kap/Proofs/C11*.lean.

Statement (properties.jsonl): for every batch (or run of equal-time stream points) of a group, the functions
emit the value defined by their InfluxQL meaning over exactly that batch's field values, typed as documented,
stamped with the batch end time (or the selected point's time for selectors when point times are requested),
named by as() and carrying the group's tags; empty batches emit nothing unless the function is defined on
empty input.

`run {} cfg ms` is the model of the node as the code is today (Kap/Model/C11.lean, Quirks all false);
`Spec.spec cfg ms` is the stateless statement of the property (Kap/Spec/C11.lean).
-/
import Kap.Proofs.C11Stream
import Kap.Proofs.C11Defs
import Kap.Proofs.C11TransLife
import Kap.Proofs.C11Func
import Kap.Proofs.C11Order
import Kap.Proofs.C11Sort
namespace Kap.Props.C11
open Kap.C11 Kap.C11.Spec

/-- small inputs for the examples and counterexamples -/
def ga : Tags := [("g", "a")]
def ipt (t v : Int) : Pt := { time := t, tags := ga, fields := [("v", .int v)] }
def spt (t : Int) (s : String) : Pt := { time := t, tags := ga, fields := [("v", .str s)] }

/-! ### The node-wide creator cache -/

/-- **The cache is transparent**: whatever kinds any group of the node saw before, `getCreateFn` answers
exactly "is this kind supported" — no creator of an earlier kind survives. -/
theorem cache_transparent (cfg : Cfg) (n : NodeSt) (kind : Kind) (h : CacheInv cfg n) :
    (getCreateFn {} cfg n kind).2 = (if supported cfg.fn kind then some kind else none) ∧
    CacheInv cfg (getCreateFn {} cfg n kind).1 :=
  ⟨(getCreateFn_current cfg n kind h).1, (getCreateFn_current cfg n kind h).2.1⟩

/-! ### Batch mode, aggregating functions and selectors -/

/-- **One batch, any history**: in every reachable state of the node (any earlier batches of this or other
groups, any earlier field kinds) a batch makes the node emit exactly the spec of THAT batch: value by
definition over the batch's values of the kind of its first usable point, documented empty-batch rule, time,
name and tags. -/
theorem batch_independent (cfg : Cfg) (hT : cfg.fn.isTransformation = false) (n : NodeSt) (b : Batch)
    (hc : CacheInv cfg n) :
    (stepBatch {} cfg n b).2 = specBatch cfg b ∧ CacheInv cfg (stepBatch {} cfg n b).1 :=
  stepBatch_eq_spec cfg hT n b hc

/-- **Every history of batches** (all groups interleaved, no bound on sizes): the node's output is the
spec's. -/
theorem batches_refine_spec (cfg : Cfg) (hT : cfg.fn.isTransformation = false) (ms : List Msg)
    (hb : allBatches ms) : run {} cfg ms = spec cfg ms :=
  runFrom_batches cfg hT ms hb {} [] (cacheInv_init cfg)


/-! ### Stream mode -/

/-- **Emitted aggregates ↔ maximal runs of equal time**: for every history of stream points (all groups
interleaved, times in any order) the node emits, exactly when a group's time changes, the aggregate of that
group's maximal run of equal-time points that just ended — over exactly that run — and nothing else; the
last run of every group stays pending. -/
theorem stream_runs (cfg : Cfg) (hT : cfg.fn.isTransformation = false) (ms : List Msg) (hp : allPoints ms) :
    run {} cfg ms = spec cfg ms :=
  runFrom_points cfg hT ms hp {} [] (sinv_init cfg)

/-- The state behind `stream_runs`: after ANY history the group table holds, per group, the time of its last
point and the context realised over its last run — nothing older. -/
theorem stream_state_is_last_run (cfg : Cfg) (hT : cfg.fn.isTransformation = false) (before : List Msg)
    (n : NodeSt) (g : Tags) (p : Pt) (h : SInv cfg before n) :
    SInv cfg (before ++ [.point g p]) (stepPoint {} cfg n g p).1 :=
  (stepPoint_spec cfg hT before n g p h).2

/-! ### No panic -/

/-- With today's code no history of batches makes a reducer emit without a point (the `panic` outcomes of
`reduce` are unreachable). -/
theorem no_panic_batches (cfg : Cfg) (hT : cfg.fn.isTransformation = false) (ms : List Msg) (hb : allBatches ms) :
    Out.panic ∉ run {} cfg ms := by
  rw [batches_refine_spec cfg hT ms hb]
  exact spec_no_panic cfg ms

theorem no_panic_stream (cfg : Cfg) (hT : cfg.fn.isTransformation = false) (ms : List Msg) (hp : allPoints ms) :
    Out.panic ∉ run {} cfg ms := by
  rw [stream_runs cfg hT ms hp]
  exact spec_no_panic cfg ms


/-! ### The definitions themselves (int64 values; float arithmetic is opaque and only tied by correspondence) -/

/-- **Typing ("int stays int")**: every value the spec emits for values of kind `k` has the documented kind
`outKind fn k` — int for count / elapsed, the input kind for sum, mode, min, max, first, last, spread,
percentile, distinct, top, bottom, float for mean, median, stddev. -/
theorem typing (cfg : Cfg) (k : Kind) (xs : List QP) (hk : ∀ x ∈ xs, x.val.kind = k)
    (hs : supported cfg.fn k = true) :
    ∀ k' ∈ (meaning cfg k xs).kinds, outKind cfg.fn k = some k' :=
  typing' cfg k xs hk hs

example : (meaning { fn := .sum, as_ := "s" } .int [⟨1, .int 2, [], []⟩, ⟨2, .int 3, [], []⟩]).kinds = [.int] := by decide
example : (meaning { fn := .top, as_ := "s", n := 1 } .int [⟨1, .int 2, [], []⟩, ⟨2, .int 3, [], []⟩]).kinds = [.int] := by decide

/-- sum of int64 values = the mathematical sum reduced to the int64 range … -/
theorem sum_int_is_sum (xs : List QP) (h : AllInt xs) :
    sumVals .int xs = .int (wrap64 ((xs.map intVal).sum)) :=
  sumVals_int_closed xs h

/-- … which IS the mathematical sum whenever that fits in an int64. -/
theorem wrap64_exact (x : Int) (h1 : -9223372036854775808 ≤ x) (h2 : x < 9223372036854775808) : wrap64 x = x :=
  wrap64_id x h1 h2

/-- **Order-independence** of sum (int), whatever the arrival order of the batch's points. -/
theorem sum_int_order_independent (xs ys : List QP) (h : AllInt xs) (p : xs.Perm ys) :
    sumVals .int xs = sumVals .int ys :=
  sumVals_perm_int xs ys h p .int

/-- count only depends on how many values there are. -/
theorem count_order_independent (cfg : Cfg) (hf : cfg.fn = .count) (k : Kind) (xs ys : List QP) (p : xs.Perm ys) :
    meaning cfg k xs = meaning cfg k ys := by
  simp [meaning, hf, p.length_eq]

/-- min of int64 values is THE least value of the batch, max THE greatest … -/
theorem min_int_is_least (xs : List QP) (h : AllInt xs) (hne : xs ≠ []) :
    ∃ m, minVal xs = some (.int m) ∧ (∃ x ∈ xs, intVal x = m) ∧ ∀ x ∈ xs, m ≤ intVal x :=
  minVal_int xs h hne

theorem max_int_is_greatest (xs : List QP) (h : AllInt xs) (hne : xs ≠ []) :
    ∃ m, maxVal xs = some (.int m) ∧ (∃ x ∈ xs, intVal x = m) ∧ ∀ x ∈ xs, intVal x ≤ m :=
  maxVal_int xs h hne

/-- … hence min, max and spread (max − min) do not depend on the arrival order. -/
theorem spread_int_order_independent (cfg : Cfg) (hf : cfg.fn = .spread) (xs ys : List QP) (h : AllInt xs)
    (hne : xs ≠ []) (p : xs.Perm ys) : meaning cfg .int xs = meaning cfg .int ys := by
  simp [meaning, hf, minVal_perm_int xs ys h hne p, maxVal_perm_int xs ys h hne p]

example : AllInt [⟨1, .int 5, [], []⟩, ⟨2, .int (-3), [], []⟩] ∧
    meaning { fn := .spread, as_ := "s" } .int [⟨1, .int 5, [], []⟩, ⟨2, .int (-3), [], []⟩] = .value (.int 8) := by
  refine ⟨?_, by decide⟩
  intro x hx; simp at hx; rcases hx with rfl | rfl <;> exact ⟨_, rfl⟩

/-- **min selects a point with THE least value and, among those, the earliest time** (`MinLe p x`: smaller
value, or equal value and not later); max likewise with the greatest value. -/
theorem min_selects_least_earliest (xs : List QP) (h : AllInt xs) (p : QP) (hs : select .min xs = some p) :
    p ∈ xs ∧ ∀ x ∈ xs, MinLe p x :=
  select_min_int xs h p hs

theorem max_selects_greatest_earliest (xs : List QP) (h : AllInt xs) (p : QP) (hs : select .max xs = some p) :
    p ∈ xs ∧ ∀ x ∈ xs, MaxLe p x :=
  select_max_int xs h p hs

/-- … so the selected value and time do not depend on the arrival order of the batch's points. -/
theorem min_order_independent (xs ys : List QP) (h : AllInt xs) (pm : xs.Perm ys) (p q : QP)
    (hp : select .min xs = some p) (hq : select .min ys = some q) : intVal p = intVal q ∧ p.time = q.time := by
  have hy : AllInt ys := fun y hy => h y (pm.mem_iff.mpr hy)
  obtain ⟨m1, l1⟩ := select_min_int xs h p hp
  obtain ⟨m2, l2⟩ := select_min_int ys hy q hq
  have a := l1 q (pm.mem_iff.mpr m2)
  have b := l2 p (pm.mem_iff.mp m1)
  unfold MinLe at a b; omega

theorem max_order_independent (xs ys : List QP) (h : AllInt xs) (pm : xs.Perm ys) (p q : QP)
    (hp : select .max xs = some p) (hq : select .max ys = some q) : intVal p = intVal q ∧ p.time = q.time := by
  have hy : AllInt ys := fun y hy => h y (pm.mem_iff.mpr hy)
  obtain ⟨m1, l1⟩ := select_max_int xs h p hp
  obtain ⟨m2, l2⟩ := select_max_int ys hy q hq
  have a := l1 q (pm.mem_iff.mpr m2)
  have b := l2 p (pm.mem_iff.mp m1)
  unfold MaxLe at a b; omega

example : select .min [⟨5, .int 2, [], []⟩, ⟨3, .int 2, [], []⟩, ⟨1, .int 7, [], []⟩] = some ⟨3, .int 2, [], []⟩ := by decide

/-- A selector returns one of the batch's own points (so its time, tags and fields are that point's). -/
theorem selector_selects_a_point (fn : Fn) (xs : List QP) (p : QP) (h : select fn xs = some p) : p ∈ xs :=
  select_mem fn xs p h

/-! ### Order-independence over an abstract ordered domain

`StrictTotalOn S`: `Val.lt` is irreflexive, transitive and trichotomous on the values `S`. Proved for int64
values (`int_values_strictly_ordered`); for float64 values it is the IEEE contract (no NaN, one zero), which
Lean's opaque `Float` cannot show — there the theorems apply under that explicit hypothesis. -/

theorem int_values_strictly_ordered (S : List Val) (h : ∀ v ∈ S, ∃ i, v = .int i) : StrictTotalOn S :=
  strictTotalOn_int S h

/-- min / max / spread of a batch do not depend on the arrival order of its points, for ANY values on which
`<` is a strict total order. -/
theorem min_max_spread_order_independent (cfg : Cfg) (hf : cfg.fn = .spread) (k : Kind) (xs ys : List QP)
    (hS : StrictTotalOn (xs.map (·.val))) (hne : xs ≠ []) (p : xs.Perm ys) :
    minVal xs = minVal ys ∧ maxVal xs = maxVal ys ∧ meaning cfg k xs = meaning cfg k ys := by
  have h1 := minVal_perm_gen xs ys hS hne p
  have h2 := maxVal_perm_gen xs ys hS hne p
  exact ⟨h1, h2, by simp [meaning, hf, h1, h2]⟩

/-- … and min is a least, max a greatest element of the batch. -/
theorem min_is_least_max_is_greatest (xs : List QP) (hS : StrictTotalOn (xs.map (·.val))) (hne : xs ≠ []) :
    (∃ m, minVal xs = some m ∧ m ∈ xs.map (·.val) ∧ ∀ x ∈ xs, x.val.lt m = false) ∧
    (∃ m, maxVal xs = some m ∧ m ∈ xs.map (·.val) ∧ ∀ x ∈ xs, m.lt x.val = false) :=
  ⟨minVal_gen xs hS hne, maxVal_gen xs hS hne⟩

/-- sum does not depend on the arrival order whenever addition commutes on the batch's values (int64: always,
by wrap-around arithmetic; float64: when no rounding occurs). -/
theorem sum_order_independent_of_commuting_add (k : Kind) (xs ys : List QP)
    (hc : ∀ x ∈ xs, ∀ y ∈ xs, ∀ z : Val, (z.add x.val).add y.val = (z.add y.val).add x.val) (p : xs.Perm ys) :
    sumVals k xs = sumVals k ys :=
  sumVals_perm_gen k xs ys hc p

example : StrictTotalOn (([⟨1, .int 5, [], []⟩, ⟨2, .int (-3), [], []⟩] : List QP).map (·.val)) :=
  strictTotalOn_int _ (by intro v hv; simp at hv; rcases hv with rfl | rfl <;> exact ⟨_, rfl⟩)

/-! ### The sorted order behind median, mode, percentile, top, bottom; distinct -/

/-- The model's sort returns a permutation of its input, for every comparator … -/
theorem sort_is_permutation {α : Type} (lt : α → α → Bool) (l : List α) : (sortBy lt l).Perm l :=
  sortBy_perm lt l

/-- … that is sorted whenever the comparator is asymmetric and negatively transitive on the elements at hand
(so every correct sort yields the same VALUES in the same order; Go's `sort.Sort` is trusted to be one). -/
theorem sort_is_sorted {α : Type} (S : α → Prop) (lt : α → α → Bool) (h : WeakOrderOn S lt) (l : List α)
    (hl : ∀ y ∈ l, S y) : (sortBy lt l).Pairwise (leOf lt) :=
  sortBy_sorted S lt h l hl

/-- **median / percentile / mode read THE ascending order**: for int64 values the value-sorted list is the
batch's own points in non-decreasing value order; `percentile` takes the element of rank
`⌊n·p/100 + 0.5⌋` of it, `median` the middle one(s). -/
theorem sorted_by_value_int (xs : List QP) (h : AllInt xs) :
    (sortedByVal xs).Perm xs ∧ (sortedByVal xs).Pairwise (fun a b => intVal a ≤ intVal b) :=
  sortedByVal_int xs h

/-- **top n / bottom n are the n best**: the emitted points followed by the others form a best-first
arrangement of the whole batch (no later point outranks an earlier one), and exactly `min n |batch|` points are
emitted. Ranking: larger (top) / smaller (bottom) value first, earlier time first among equal values. -/
theorem top_is_the_n_best (xs : List QP) (h : AllInt xs) (n : Nat) :
    ∃ rest, (topOf topLt n xs ++ rest).Perm xs ∧ (topOf topLt n xs).length = min n xs.length ∧
      (topOf topLt n xs ++ rest).Pairwise (fun a b => topLt a b = false) :=
  topOf_int topLt weakOrder_top_int xs h n

theorem bottom_is_the_n_best (xs : List QP) (h : AllInt xs) (n : Nat) :
    ∃ rest, (topOf bottomLt n xs ++ rest).Perm xs ∧ (topOf bottomLt n xs).length = min n xs.length ∧
      (topOf bottomLt n xs ++ rest).Pairwise (fun a b => bottomLt a b = false) :=
  topOf_int bottomLt weakOrder_bottom_int xs h n

/-- **distinct emits every value of the batch exactly once** (any kind). -/
theorem distinct_every_value_once (xs : List QP) :
    ((distinctOf xs).map (·.val)).Nodup ∧ ∀ x ∈ xs, x.val ∈ (distinctOf xs).map (·.val) :=
  distinctOf_values xs

example : (topOf topLt 2 [⟨1, .int 1, [], []⟩, ⟨2, .int 5, [], []⟩, ⟨3, .int 5, [], []⟩, ⟨4, .int 3, [], []⟩]).map (·.time) = [2, 3] := by decide

/-! ### The incremental reducer behind count, sum, min, max, first, last -/

/-- **`FuncReducer` = the definitions**: the transcribed incremental reducer (`prev` pointer, kapacitor's seed
point, one `AggregateX` = one call of the `XReduce` function per point, `Emit` dereferencing `prev`) returns for
EVERY list of points exactly what the model's `reduce` says by definition — count = length, sum = Σ from the
seed (the seed's time is what `usePointTimes` sees), min/max/first/last = `select` with the documented
tie-breaking — including the nil dereference of a seedless reducer that never saw a point. -/
theorem funcReducer_equals_definition (q : Quirks) (cfg : Cfg) (k : Kind) (xs : List QP)
    (hu : cfg.fn.usesFuncReducer = true) : funcReducerRun q cfg.fn k xs = reduce q cfg k xs :=
  funcReducerRun_eq_reduce q cfg k xs hu

example : funcReducerRun {} .max .int [⟨5, .int 2, [], []⟩, ⟨3, .int 7, [], []⟩, ⟨1, .int 7, [], []⟩]
    = some [{ time := some 1, val := .int 7, sel := some ([], []) }] := by decide
example : funcReducerRun {} .min .int [] = none ∧
    funcReducerRun {} .count .string [] = some [{ time := none, val := .int 0 }] := by decide

/-! ### Streaming transformations (elapsed, difference, cumulativeSum, movingAverage) -/

/-- **Every history, streaming transformations**: for every history of batches, or of stream points (all
groups interleaved, points that cannot be aggregated included), the node's output is the spec's: per point the
value DEFINED over the points seen so far in the batch (batch mode: context realised anew for each batch) /
in the group (stream mode: context kept for the life of the group) — `Spec.transAt`: time difference to the
previous point, difference to the previously kept point (a point at the same time is dropped), prefix sum,
mean of the last `n` values once `n` values were seen. `cfg.n ≥ 1`: window / unit (0 panics in the vendored
reducers). -/
theorem transformations_refine_spec (cfg : Cfg) (hT : cfg.fn.isTransformation = true) (hn : cfg.n ≥ 1)
    (ms : List Msg) (h : allBatches ms ∨ allPoints ms) : run {} cfg ms = spec cfg ms := by
  rcases h with hb | hp
  · exact runFrom_batches_trans cfg hT hn ms hb {} [] (cacheInv_init cfg)
  · exact runFrom_points_trans cfg hT hn ms hp {} [] (tinv_init cfg)

/-- The reducer state machines (`AggregateX` then `Emit`, as the model's `tBatchPoint` drives them) emit for
every point exactly the definition's value for it — all four functions. -/
theorem transformation_machines_equal_definitions (cfg : Cfg) (hT : cfg.fn.isTransformation = true)
    (hn : cfg.n ≥ 1) (k : Kind) (xs : List QP) (p : QP) (hk : ∀ x ∈ xs ++ [p], x.val.kind = k) :
    (tStep cfg (tRun cfg {} xs) p).2 = emitOf (transAt cfg k (xs ++ [p])) :=
  machine_eq_transAt cfg hT hn k xs p hk

example :
    let cfg : Cfg := { fn := .difference, as_ := "d", n := 1 }
    let ms := [Msg.point ga (ipt 1 5), Msg.point ga (ipt 1 9), Msg.point ga (ipt 2 2), Msg.point ga (spt 3 "x"), Msg.point ga (ipt 4 10)]
    cfg.fn.isTransformation = true ∧ cfg.n ≥ 1 ∧ allPoints ms ∧ (run {} cfg ms).length = 2 := by
  refine ⟨rfl, by decide, ?_, by decide⟩
  intro m hm; simp at hm; rcases hm with rfl | rfl | rfl | rfl | rfl <;> exact ⟨_, _, rfl⟩

/-- In closed form: cumulativeSum emits, for every point, that point's time and the SUM OF ALL VALUES SO FAR. -/
theorem cumulativeSum_prefix_sums (cfg : Cfg) (hf : cfg.fn = .cumulativeSum) (k : Kind) (xs : List QP)
    (p : QP) (hk : ∀ x ∈ xs ++ [p], x.val.kind = k) :
    (tStep cfg (tRun cfg {} xs) p).2 = [{ time := some p.time, val := sumVals k (xs ++ [p]) }] :=
  cumsum_emits_prefix_sum' cfg hf k xs p hk

/-- In closed form: elapsed emits, for every point after the first, the time difference to the previous point
in units of `cfg.n` ns (truncated toward zero) at the later point's time. -/
theorem elapsed_time_difference (cfg : Cfg) (hf : cfg.fn = .elapsed) (xs : List QP) (a b : QP) :
    (tStep cfg (tRun cfg {} (xs ++ [a])) b).2 =
      [{ time := some b.time, val := .int (wrap64 ((b.time - a.time).tdiv cfg.n)) }] :=
  elapsed_emits_time_difference' cfg hf xs a b

example : (tStep { fn := .cumulativeSum, as_ := "c" } (tRun { fn := .cumulativeSum, as_ := "c" } {} [⟨1, .int 2, [], []⟩]) ⟨2, .int 5, [], []⟩).2
    = [{ time := some 2, val := .int 7 }] := by decide

/-! ### The defects of snapshot ef0888e, on the model of the old code (each replayed on the real code by the
corpus file named; each repaired by a `fix:` commit, see findings/C11.txt) -/


/-- Defect 1 (repaired by d326602): with the Time-0 seeds of snapshot ef0888e, `sum('v').usePointTimes()` stamps
the sum with 1970-01-01 instead of the batch time (corpus/C11/fixed-seed-time-zero.ops). -/
theorem snapshot_seed_time_counterexample :
    ∃ (cfg : Cfg) (ms : List Msg), run { seedTimeZero := true } cfg ms ≠ spec cfg ms :=
  ⟨{ fn := .sum, as_ := "x", pointTimes := true }, [.batch { gtags := ga, tmax := 10, pts := [ipt 1 1, ipt 2 2] }], by decide⟩

/-- Defect 2 (repaired by cce1e44): with the stale creator cache a batch of strings after a batch of ints emits
`sum = 0` typed int — a value typed by an EARLIER batch (corpus/C11/fixed-stale-createfn.ops). -/
theorem snapshot_stale_creator_counterexample :
    ∃ (cfg : Cfg) (ms : List Msg), run { staleCreateFn := true } cfg ms ≠ spec cfg ms :=
  ⟨{ fn := .sum, as_ := "sum" },
   [.batch { gtags := ga, tmax := 10, pts := [ipt 1 1, ipt 2 2] },
    .batch { gtags := ga, tmax := 20, pts := [spt 11 "x", spt 12 "y"] }], by decide⟩

/-- … and for a reducer without a seed (max) the same history dereferences nil in `Emit`. -/
theorem snapshot_stale_creator_panics :
    ∃ (cfg : Cfg) (ms : List Msg), Out.panic ∈ run { staleCreateFn := true } cfg ms :=
  ⟨{ fn := .max, as_ := "max" },
   [.batch { gtags := ga, tmax := 10, pts := [ipt 1 1] },
    .batch { gtags := ga, tmax := 20, pts := [spt 11 "x", spt 12 "y"] }], by decide⟩

/-- Defect 3 (repaired by 2f9187b): a stream point without the field made cumulativeSum emit its previous
result a second time (corpus/C11/fixed-transform-emit-after-failed-aggregate.ops). -/
theorem snapshot_reemit_counterexample :
    ∃ (cfg : Cfg) (ms : List Msg), run { emitAfterFailedAgg := true } cfg ms ≠ spec cfg ms :=
  ⟨{ fn := .cumulativeSum, as_ := "c" },
   [.point ga (ipt 1 1), .point ga { time := 2, tags := ga, fields := [("w", .int 1)] }], by decide⟩

/-- Defect 4 (repaired by 70edbcf): mode of ONE point under usePointTimes was stamped with the point's time
(corpus/C11/fixed-single-point-time.ops). -/
theorem snapshot_single_point_time_counterexample :
    ∃ (cfg : Cfg) (ms : List Msg), run { singleKeepsTime := true } cfg ms ≠ spec cfg ms :=
  ⟨{ fn := .mode, as_ := "mode", pointTimes := true }, [.batch { gtags := ga, tmax := 20, pts := [ipt 13 7] }], by decide⟩

/-! ### Non-vacuity: the hypotheses are met by concrete, non-trivial histories -/

example : CacheInv { fn := .sum, as_ := "s" } {} := cacheInv_init _

example :
    let cfg : Cfg := { fn := .mean, as_ := "m" }
    let ms := [Msg.batch { gtags := ga, tmax := 10, pts := [ipt 1 4, spt 2 "x", ipt 3 6] },
               Msg.batch { gtags := [], tmax := 10, pts := [] },
               Msg.batch { gtags := ga, tmax := 20, pts := [ipt 11 1] }]
    cfg.fn.isTransformation = false ∧ allBatches ms ∧ (run {} cfg ms).length = 2 := by
  refine ⟨rfl, ?_, by decide⟩
  intro m hm; simp at hm; rcases hm with rfl | rfl | rfl <;> exact ⟨_, rfl⟩

example :
    let cfg : Cfg := { fn := .max, as_ := "m", pointTimes := true }
    let ms := [Msg.point ga (ipt 1 4), Msg.point ga (ipt 1 9), Msg.point [] (ipt 1 0), Msg.point ga (ipt 2 6), Msg.point ga (ipt 1 6)]
    cfg.fn.isTransformation = false ∧ allPoints ms ∧ (run {} cfg ms).length = 2 := by
  refine ⟨rfl, ?_, by decide⟩
  intro m hm; simp at hm; rcases hm with rfl | rfl | rfl | rfl | rfl <;> exact ⟨_, _, rfl⟩

end Kap.Props.C11
