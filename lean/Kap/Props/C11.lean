import Kap.Spec.C11
namespace Kap.Props.C11
open Kap.C11
end Kap.Props.C11
