/-
C11 — property theorems (every `theorem` in this module is a proof obligation; `bin/check C11` audits each
one's axioms). Helper lemmas live in Kap/Proofs/C11*.lean.

Statement (properties.jsonl): for every batch (or run of equal-time stream points) of a group, the functions
emit the value defined by their InfluxQL meaning over exactly that batch's field values, typed as documented,
stamped with the batch end time (or the selected point's time for selectors when point times are requested),
named by as() and carrying the group's tags; empty batches emit nothing unless the function is defined on
empty input.

`run {} cfg ms` is the model of the node as the code is today (Kap/Model/C11.lean, Quirks all false);
`Spec.spec cfg ms` is the stateless statement of the property (Kap/Spec/C11.lean).
-/
import Kap.Proofs.C11Batch
namespace Kap.Props.C11
open Kap.C11 Kap.C11.Spec

/-! ### The node-wide creator cache -/

/-- **The cache is transparent**: whatever kinds any group of the node saw before, `getCreateFn` answers
exactly "is this kind supported" — no creator of an earlier kind survives. -/
theorem cache_transparent (cfg : Cfg) (n : NodeSt) (kind : Kind) (h : CacheInv cfg n) :
    (getCreateFn {} cfg n kind).2 = (if supported cfg.fn kind then some kind else none) ∧
    CacheInv cfg (getCreateFn {} cfg n kind).1 :=
  ⟨(getCreateFn_current cfg n kind h).1, (getCreateFn_current cfg n kind h).2.1⟩

/-! ### Batch mode, aggregating functions and selectors -/

/-- **One batch, any history**: in every reachable state of the node (any earlier batches of this or other
groups, any earlier field kinds) a batch makes the node emit exactly the spec of THAT batch: value by
definition over the batch's values of the kind of its first usable point, documented empty-batch rule, time,
name and tags. -/
theorem batch_independent (cfg : Cfg) (hT : cfg.fn.isTransformation = false) (n : NodeSt) (b : Batch)
    (hc : CacheInv cfg n) :
    (stepBatch {} cfg n b).2 = specBatch cfg b ∧ CacheInv cfg (stepBatch {} cfg n b).1 :=
  stepBatch_eq_spec cfg hT n b hc

/-- **Every history of batches** (all groups interleaved, no bound on sizes): the node's output is the
spec's. -/
theorem batches_refine_spec (cfg : Cfg) (hT : cfg.fn.isTransformation = false) (ms : List Msg)
    (hb : allBatches ms) : run {} cfg ms = spec cfg ms :=
  runFrom_batches cfg hT ms hb {} [] (cacheInv_init cfg)

end Kap.Props.C11
