/-
C12 — property theorems (every `theorem` in this module is a proof obligation; `bin/check C12` audits each
one's axioms). Helper lemmas live in Kap/Proofs/C12*.lean.

Statement (properties.jsonl): given parents that each deliver their points in time order, join emits for
every group and (tolerance-rounded) timestamp one joined point per k-th occurrence present in all parents
(inner) or in any parent with the configured fill (outer), with fields prefixed by the as() names, and
union emits every parent message exactly once, keeping each parent's order, in non-decreasing time order
overall. The multiset of outputs is the same for every interleaving of the parents, and when the parents
end everything still buffered is flushed.

The arrival order at the node (the schedule of the multiConsumer goroutines) is an explicit, universally
quantified INPUT of every theorem below: `arrivals : List (parent × message)`.
-/
import Kap.Proofs.C12Union
import Kap.Proofs.C12UnionSortedF
import Kap.Proofs.C12Join
import Kap.Proofs.C12PairL
import Kap.Proofs.C12On
import Kap.Proofs.C12BatchD
import Kap.Proofs.C12OnFwd
import Kap.Proofs.C12OnInvE
import Kap.Proofs.C12OnOpt3
namespace Kap.Props.C12
open Kap.C12 Kap.C12.Spec

/-! ### CircularQueue refines a FIFO list -/

/-- `NewCircularQueue(buf...)` holds exactly `buf`. -/
theorem cq_new_refines {α : Type} (buf : List α) : (CQ.new buf).Inv ∧ (CQ.new buf).Rel buf :=
  ⟨CQ.inv_new buf, CQ.rel_new buf⟩

/-- **cq_refines_list**: in EVERY state satisfying the index invariant (`head`/`tail`/`Len` in any of the
plain, wrapped, full, head-at-cap configurations) that holds the list `l`: `Enqueue` = append at the back
(also when it has to grow while wrapped), `Dequeue(n)` = drop `n` from the front (all when `n ≥ Len`,
nothing when `n ≤ 0`), `Peek(i)` = the `i`-th element (panic exactly when out of range), `Len` = length;
and the invariant is kept. -/
theorem cq_refines_list {α : Type} (q : CQ α) (l : List α) (hI : q.Inv) (hR : q.Rel l) :
    (∀ v, (q.enqueue v).Inv ∧ (q.enqueue v).Rel (l ++ [v])) ∧
    (∀ n, (q.dequeue n).Inv ∧ (q.dequeue n).Rel (l.drop n.toNat)) ∧
    (∀ i, q.peek i = if i < 0 ∨ i ≥ q.len then none else some l[i.toNat]?) ∧
    q.len = l.length ∧ q.toList = l :=
  ⟨fun v => ⟨CQ.inv_enqueue hI v, CQ.rel_enqueue hI hR v⟩,
   fun n => ⟨CQ.inv_dequeue hI n, CQ.rel_dequeue hI hR n⟩,
   CQ.rel_peek hR, CQ.rel_len hR, hR.toList_eq⟩

/-- Model run of a queue: `new buf` followed by operations. -/
def cqRun (buf : List Nat) (ops : List QOp) : CQ Nat :=
  ops.foldl (fun q op => match op with | .enq v => q.enqueue v | .deq n => q.dequeue n) (CQ.new buf)

/-- Every reachable queue (any initial buffer, any operation sequence, no size bound) satisfies the
invariant and holds exactly what the FIFO-list specification `Spec.qRun` says. -/
theorem cq_reachable_refines (buf : List Nat) (ops : List QOp) :
    (cqRun buf ops).Inv ∧ (cqRun buf ops).Rel (qRun buf ops) ∧ (cqRun buf ops).toList = qRun buf ops := by
  suffices h : ∀ (q : CQ Nat) (l : List Nat), q.Inv → q.Rel l →
      (ops.foldl (fun q op => match op with | .enq v => q.enqueue v | .deq n => q.dequeue n) q).Inv ∧
      (ops.foldl (fun q op => match op with | .enq v => q.enqueue v | .deq n => q.dequeue n) q).Rel (ops.foldl qStep l) by
    have := h (CQ.new buf) buf (CQ.inv_new buf) (CQ.rel_new buf)
    exact ⟨this.1, this.2, this.2.toList_eq⟩
  induction ops with
  | nil => intro q l hI hR; exact ⟨hI, hR⟩
  | cons op ops ih =>
    intro q l hI hR
    simp only [List.foldl_cons]
    cases op with
    | enq v => exact ih _ _ (CQ.inv_enqueue hI v) (CQ.rel_enqueue hI hR v)
    | deq n => exact ih _ _ (CQ.inv_dequeue hI n) (CQ.rel_dequeue hI hR n)

/-- Non-vacuity: wrapped, full-while-wrapped (grow copies two segments) and head-at-cap states are reachable. -/
example : let q := cqRun [1, 2, 3, 4] [.deq 2, .enq 5, .enq 6]
    q.head = 2 ∧ q.tail = 2 ∧ q.len = 4 ∧ (q.enqueue 7).toList = [3, 4, 5, 6, 7] := by decide
example : let q := cqRun [1, 2, 3, 4] [.deq 2, .enq 5, .enq 6, .deq 2]
    q.head = 4 ∧ q.cap = 4 ∧ q.toList = [5, 6] := by decide

/-! ### Union -/

/-- **union_exactly_once, union_keeps_parent_order, union_flush** — for EVERY arrival order (interleaving of
the parents), every number of parents, messages with arbitrary (even unordered) times: the output of the
union node (over the real circular queue, `WCQ`), restricted to parent `i`, IS the sequence parent `i`
delivered (modulo `rename`): nothing lost, nothing duplicated, nothing invented, each parent's order kept;
and after `Finish` every source queue is empty. -/
theorem union_exactly_once_in_order_flush (rename : String) (n : Nat) (arrivals : List (Nat × UMsg))
    (hs : ∀ a ∈ arrivals, a.1 < n) :
    unionExactlyOnceInOrder n (arrivals.map (fun a => (a.1, Union.renamed rename a.2)))
      (Union.run rename n arrivals : UState (WCQ UMsg) × _).2 ∧
    (∀ q ∈ (Union.run rename n arrivals : UState (WCQ UMsg) × _).1.sources, q.1.toList = [] ∧ q.1.len = 0) := by
  obtain ⟨h1, h2⟩ := Union.run_exactly_once (Q := WCQ UMsg) rename n arrivals hs
  refine ⟨h1, fun q hq => ⟨h2 q hq, ?_⟩⟩
  have := CQ.rel_len q.2.2
  rw [this]; exact congrArg List.length (h2 q hq)

/-- Non-vacuity: two parents, parent 1 far ahead, duplicates at one timestamp. -/
example : ((Union.run "" 2 [(1, ⟨5, 1, 0, "b"⟩), (1, ⟨5, 2, 0, "b"⟩), (1, ⟨9, 3, 0, "b"⟩), (0, ⟨5, 4, 0, "a"⟩)] :
    UState (WCQ UMsg) × _).2.map (fun p => p.2.id)) = [4, 1, 2, 3] := by decide

/-- **The multiset of union outputs is the same for every interleaving**: two arrival orders that are
interleavings of the same per-parent sequences give outputs that are permutations of each other (and equal
per parent). -/
theorem union_multiset_interleaving_independent (rename : String) (n : Nat) (a₁ a₂ : List (Nat × UMsg))
    (h₁ : ∀ a ∈ a₁, a.1 < n) (h₂ : ∀ a ∈ a₂, a.1 < n) (hsame : ∀ i, i < n → parentSeq i a₁ = parentSeq i a₂) :
    ((Union.run rename n a₁ : UState (WCQ UMsg) × _).2).Perm (Union.run rename n a₂ : UState (WCQ UMsg) × _).2 := by
  obtain ⟨⟨e1, t1⟩, _⟩ := Union.run_exactly_once (Q := WCQ UMsg) rename n a₁ h₁
  obtain ⟨⟨e2, t2⟩, _⟩ := Union.run_exactly_once (Q := WCQ UMsg) rename n a₂ h₂
  apply Union.perm_of_parentSeq_eq n _ _ t1 t2
  intro i hi
  rw [e1 i hi, e2 i hi]
  have hm : ∀ a : List (Nat × UMsg), parentSeq i (a.map (fun a => (a.1, Union.renamed rename a.2))) =
      (parentSeq i a).map (Union.renamed rename) := by
    intro a; simp [parentSeq, List.filter_map, Function.comp_def]
  rw [hm, hm, hsame i hi]

/-- The loop `for emitted { … }` of `emitReady` always ends because nothing more is ready, never because the
model's fuel ran out (so the fuel is no restriction of the model). -/
theorem union_fuel_enough (drain : Bool) (s : UState (WCQ UMsg)) : (Union.emitReadyAll drain s).2.2 = true :=
  Union.emitReady_ok drain _ s [] (by omega)

/-- **union_sorted** — for EVERY interleaving: when every parent delivers in time order, the output of the
union node (arrivals, then Finish) is in non-decreasing time order overall. Invariant: every emitted time
is at most the bound of every source (its head time, or its remembered low mark when empty), a low mark is
the time of an earlier message of that parent, and each pass emits only messages whose time equals the mark. -/
theorem union_sorted (rename : String) (n : Nat) (arrivals : List (Nat × UMsg)) (hs : ∀ a ∈ arrivals, a.1 < n)
    (hord : parentsOrdered n arrivals) : unionSorted (Union.run rename n arrivals : UState (WCQ UMsg) × _).2 :=
  Union.run_sorted (Q := WCQ UMsg) rename n arrivals hs hord

/-- Non-vacuity, and the hypothesis matters: with parent 1 out of order the output is not sorted. -/
example : parentsOrdered 2 [(1, ⟨5, 1, 0, "b"⟩), (0, ⟨4, 2, 0, "a"⟩), (1, ⟨9, 3, 0, "b"⟩), (0, ⟨5, 4, 0, "a"⟩)] ∧
    ((Union.run "" 2 [(1, ⟨5, 1, 0, "b"⟩), (0, ⟨4, 2, 0, "a"⟩), (1, ⟨9, 3, 0, "b"⟩), (0, ⟨5, 4, 0, "a"⟩)] :
      UState (WCQ UMsg) × _).2.map (fun p => p.2.time)) = [4, 5, 5, 9] := by decide
theorem union_unordered_parent_not_sorted :
    ¬ unionSorted (Union.run "" 2 [(1, ⟨9, 1, 0, "b"⟩), (1, ⟨5, 2, 0, "b"⟩), (0, ⟨9, 3, 0, "a"⟩)] : UState (WCQ UMsg) × _).2 := by
  decide

/-! ### Join -/

/-- Counterexample (defect of snapshot ef0888e, repaired by commit a2e373e): `joinGroup.Barrier` moved
`oldestTime` to the barrier's time, for which no set exists; the next point makes `emit` dereference the
nil queue `g.sets[g.oldestTime]`. Replayed on the real code by corpus/C12/barrier-before-point.ops. -/
theorem barrierOld_panics :
    (((JGroup.new 2 : JGroup Nat).barrierOld 0 5).1.collect 2 1 10 7).2.2 = Status.panic := by decide

/-- The repaired `Barrier` on the same input does not. -/
theorem barrier_fixed_witness :
    (((JGroup.new 2 : JGroup Nat).barrier 0 5).1.collect 2 1 10 7).2.2 = Status.ok := by decide

/-- **join_flush (and totality)** — for EVERY arrival order of points and barriers, in any groups, with any
(even unordered) times, any tolerance/fill: the join node (as repaired) never dereferences a nil queue
(`Status.ok`: no panic, and the model's fuel is never exhausted), and after `Finish` no group has a pending
set left: everything still buffered was handed to `emitJoinedSet`. -/
theorem join_flush_no_panic (cfg : JCfg) (ops : List JOp) :
    (JNode.run cfg ops).2.2 = Status.ok ∧ ∀ p ∈ (JNode.run cfg ops).1.groups, p.2.sets = [] := by
  obtain ⟨r1, r2⟩ := JNode.runOps_ok cfg ops JNode.init (by intro p hp; simp [JNode.init] at hp)
  obtain ⟨f1, f2⟩ := JNode.finish_ok (JNode.runOps cfg JNode.init ops).1.groups r2
  unfold JNode.run
  simp only []
  exact ⟨by rw [r1, f1]; rfl, f2⟩

/-- **DeleteGroup is safe** — a `DeleteGroupMessage` drops the group with whatever it had buffered (by design:
the group expired); from the resulting state every further sequence of points and barriers still never
dereferences a missing queue, and Finish still leaves no pending set. -/
theorem join_delete_then_flush_no_panic (cfg : JCfg) (before after : List JOp) (grp : String) :
    let nd := ((JNode.runOps cfg JNode.init before).1.delete grp)
    (JNode.runOps cfg nd after).2.2 = Status.ok ∧
    (JNode.finish (JNode.runOps cfg nd after).1.groups).2.2 = Status.ok ∧
    ∀ p ∈ (JNode.finish (JNode.runOps cfg nd after).1.groups).1, p.2.sets = [] := by
  intro nd
  have h0 := (JNode.runOps_ok cfg before JNode.init (by intro p hp; simp [JNode.init] at hp)).2
  have h1 := JNode.delete_nodeInv _ grp h0
  obtain ⟨r1, r2⟩ := JNode.runOps_ok cfg after nd h1
  obtain ⟨f1, f2⟩ := JNode.finish_ok _ r2
  exact ⟨r1, f1, f2⟩

/-- Non-vacuity: a run with a barrier, a lagging parent and a flush that emits three sets. -/
example : let cfg : JCfg := { parents := 2, tol := 0, fill := .null, names := ["a", "b"], delim := ".", sname := "" }
    let m (t : Int) : JMsg := { time := t, name := "m", grp := "", byName := false, dims := [], tags := [], fields := [("v", "i:1")] }
    ((JNode.run cfg [.point 0 (m 1), .barrier 1 "" 0, .point 0 (m 2), .point 1 (m 2), .point 0 (m 3)]).2.1.map (·.time)) = [1, 2, 3] := by
  decide

/-- `time.Time.Round(tolerance)` is monotone, for every tolerance and all times (also before 1970): a parent
that delivers in time order delivers in rounded-time order — the hypothesis `joinOrdered` of the pairing
clause follows from plain time order. -/
theorem round_monotone (d t t' : Int) (h : t ≤ t') : goRound d t ≤ goRound d t' := goRound_mono d t t' h

/-- **Fields prefixed by the as() names, inner/outer fill** — for every configuration and every join set:
`joinset.JoinIntoPoint` as transcribed (loop over the parents with the early `return nil` of the inner join,
Go-map assignments) yields exactly the joined point of the specification: nothing when a parent is missing
under `fill none`, otherwise the present parents' fields under `as()` name + delimiter and the fill value
under the first present value's field names for the missing ones; name/dimensions/group tags of the first
present value (or `streamName`), time = the rounded time of the set. -/
theorem joinIntoPoint_is_joinedPoint (cfg : JCfg) (s : JSet JMsg) (hl : s.values.length ≤ cfg.names.length) :
    joinIntoPoint cfg s = joinedPoint cfg s := joinIntoPoint_eq_joinedPoint cfg s hl

/-- Non-vacuity: an outer join with the second parent missing. -/
example : (joinIntoPoint { parents := 2, tol := 0, fill := .num "i:0", names := ["a", "b"], delim := ".", sname := "" }
    { time := 7, values := [some { time := 7, name := "m", grp := "", byName := false, dims := [], tags := [], fields := [("v", "i:1")] }, none] }).map (·.fields)
    = some [("a.v", "i:1"), ("b.v", "i:0")] := by decide

/-- **join_pairs_by_occurrence** — for EVERY arrival order of points and barriers (any number of parents and
groups, any tolerance/fill/names): when within every group every parent's rounded times never go back
(`joinOrdered`; by `round_monotone` this follows from plain time order), the joined points emitted over the
whole run (arrivals, then Finish) are, up to permutation, exactly `Spec.joinOutput`: per group and rounded
time one point per occurrence index k, built from the k-th message of every parent that has one — dropped
under an inner join unless all parents are present, filled otherwise, fields prefixed by the as() names.
Nothing is lost, duplicated or paired differently, whatever the interleaving. -/
theorem join_pairs_by_occurrence (cfg : JCfg) (ops : List JOp) (hn : cfg.names.length = cfg.parents)
    (hs : ∀ op ∈ ops, op.srcOf < cfg.parents) (ho : joinOrdered cfg (stepsOf ops)) :
    (((JNode.run cfg ops).2.1).filterMap (joinIntoPoint cfg)).Perm (joinOutput cfg (pointsOf ops)) :=
  join_pairs cfg ops hn hs ho

/-- Non-vacuity: two parents, duplicates at one time, parent 1 lagging, a barrier, outer fill. -/
example : let cfg : JCfg := { parents := 2, tol := 0, fill := .num "i:0", names := ["a", "b"], delim := ".", sname := "" }
    let m (t : Int) (v : String) : JMsg := { time := t, name := "m", grp := "", byName := false, dims := [], tags := [], fields := [("v", v)] }
    let ops : List JOp := [.point 0 (m 1 "i:1"), .point 0 (m 1 "i:2"), .point 1 (m 1 "i:3"), .barrier 1 "" 1, .point 0 (m 2 "i:4"), .point 1 (m 3 "i:5")]
    joinOrdered cfg (stepsOf ops) ∧
    (((JNode.run cfg ops).2.1).filterMap (joinIntoPoint cfg)).map (·.fields) =
      [[("a.v", "i:1"), ("b.v", "i:3")], [("a.v", "i:2"), ("b.v", "i:0")], [("a.v", "i:4"), ("b.v", "i:0")], [("a.v", "i:0"), ("b.v", "i:5")]] := by
  decide

/-- **Batch joins: sets of batches are paired exactly like points** — the join sets handed to `emitJoinedSet`
over the whole run are, up to permutation, the specification's sets (per group and rounded batch time one
set per occurrence index); hence the batches a batch join emits are the images of those sets under
`JoinIntoBatch`, for every arrival order. -/
theorem join_batches_by_occurrence (cfg : JCfg) (ops : List JOp) (hn : cfg.names.length = cfg.parents)
    (hs : ∀ op ∈ ops, op.srcOf < cfg.parents) (ho : joinOrdered cfg (stepsOf ops)) :
    ((JNode.run cfg ops).2.1).Perm (joinSetsAll cfg (pointsOf ops)) ∧
    (((JNode.run cfg ops).2.1).filterMap (joinIntoBatch cfg)).Perm ((joinSetsAll cfg (pointsOf ops)).filterMap (joinIntoBatch cfg)) :=
  ⟨join_sets cfg ops hn hs ho, (join_sets cfg ops hn hs ho).filterMap _⟩

/-- **joinIntoBatch_is_joinedBatch** — for every configuration and every set of batches (one per parent, some
missing): when the points inside every batch are in (rounded) time order, `JoinIntoBatch` — the `BATCH_POINT`
merge loop with its "backup" step, transcribed statement by statement — yields exactly the specification's
joined batch: per rounded point time, ascending, one point per occurrence index k built from the k-th point at
that time of every batch that has one; the inner join keeps only complete rows, the outer join fills; field
names for filling from the first point of the first non-empty batch. Loop invariant (Kap/Proofs/C12BatchC,
`batchLoop_eq`): emitted points ++ specification rows over what is LEFT of every parent (its points from
`indexes[i]` on; nothing once marked empty) = the specification's batch; one pass (Kap/Proofs/C12BatchB,
`PInv`) takes the least head time T and exactly the heads at T: after the parents `< i`, `set[j] != nil` iff
parent j's head is at the current `setTime`, and `indexes[j]` is advanced by one exactly for those j — which
is what the back-up step undoes. -/
theorem joinIntoBatch_is_joinedBatch (cfg : JCfg) (s : JSet JMsg) (hl : s.values.length = cfg.names.length)
    (hs : ∀ v ∈ s.values, nondecreasing ((batchPoints v).map (fun p => goRound cfg.tol p.time))) :
    joinIntoBatch cfg s = joinedBatch cfg s := joinIntoBatch_eq_joinedBatch cfg s hl hs

/-- Non-vacuity: the hypotheses hold for a merge with a backup step (parent 1 starts earlier), duplicates at one
time and a missing third parent; the result has the expected times. -/
example : let cfg : JCfg := { parents := 3, tol := 0, fill := .null, names := ["a", "b", "c"], delim := ".", sname := "" }
    let b (ps : List BPt) : JMsg := { time := 9, name := "m", grp := "", byName := false, dims := [], tags := [], fields := [], points := ps }
    let s : JSet JMsg := { time := 9, values := [some (b [⟨2, [("v", "i:1")]⟩, ⟨2, [("v", "i:2")]⟩]), some (b [⟨1, [("v", "i:3")]⟩, ⟨2, [("v", "i:4")]⟩]), none] }
    s.values.length = cfg.names.length ∧
    (∀ v ∈ s.values, nondecreasing ((batchPoints v).map (fun p => goRound cfg.tol p.time))) ∧
    (joinIntoBatch cfg s).map (·.points.map (·.1)) = some [1, 2, 2] := by decide

/-- The ordering hypothesis is needed: a batch whose points go back in time is merged differently (the loop
only ever looks at the next unread point of every batch). -/
theorem joinIntoBatch_unordered_batch_differs :
    let cfg : JCfg := { parents := 2, tol := 0, fill := .null, names := ["a", "b"], delim := ".", sname := "" }
    let b (ps : List BPt) : JMsg := { time := 9, name := "m", grp := "", byName := false, dims := [], tags := [], fields := [], points := ps }
    let s : JSet JMsg := { time := 9, values := [some (b [⟨2, [("v", "i:1")]⟩, ⟨1, [("v", "i:2")]⟩]), some (b [⟨1, [("v", "i:3")]⟩])] }
    (joinIntoBatch cfg s).map (·.points.map (·.1)) = some [1, 2, 1] ∧
    (joinedBatch cfg s).map (·.points.map (·.1)) = some [1, 2] := by decide

/-- **The merge loop ends by itself** — for ANY batches (no ordering hypothesis): once the model's fuel is at
least the number of batch points, more fuel never changes the result; every pass that finds a point consumes
one, a pass that finds none marks every parent empty, and then `emptyCount < expected` is false
(`joinIntoBatch` passes Σ(len+1)+1). So the fuel is no restriction of the model. -/
theorem batch_loop_fuel_irrelevant (cfg : JCfg) (values : List (Option JMsg)) (fuel k : Nat)
    (h : (values.map (fun v => (batchPoints v).length)).sum ≤ fuel) :
    batchLoop cfg values (fuel + k) (values.map (fun _ => false)) 0 (values.map (fun _ => 0)) none [] =
      batchLoop cfg values fuel (values.map (fun _ => false)) 0 (values.map (fun _ => 0)) none [] :=
  batchLoop_fuel_add cfg values fuel k h

/-- **Why the back-up step tests `set[j] != nil`**: the pass invariant says `indexes[j]` was advanced in this pass
exactly for the parents with `set[j] != nil`. Giving back EVERY parent (`batchPassNoCheck`: `indexes[j]--`
without the test) also takes a point from the parent that triggers the back-up, which is then re-read for
ever: from the state after the first pass over a = [1, 3], b = [1, 2] the pass emits b's point at 2 but leaves
`indexes` at [1, 1] with nobody marked empty — the Go loop would not end (and with a third, skipped parent an
already joined point is joined again) — while the real pass advances to [1, 2]. -/
theorem backup_without_nil_check_makes_no_progress :
    let b (ps : List BPt) : JMsg := { time := 9, name := "m", grp := "", byName := false, dims := [], tags := [], fields := [], points := ps }
    let values := [some (b [⟨1, [("v", "i:1")]⟩, ⟨3, [("v", "i:2")]⟩]), some (b [⟨1, [("v", "i:3")]⟩, ⟨2, [("v", "i:4")]⟩])]
    let st : BIter := { set := [none, none], setTime := none, count := 0, empty := [false, false], emptyCount := 0, indexes := [1, 1], fieldNames := some ["v"] }
    ((batchPassNoCheck 0 0 values st).indexes = [1, 1] ∧ (batchPassNoCheck 0 0 values st).count = 1 ∧
      (batchPassNoCheck 0 0 values st).emptyCount = 0 ∧ (batchPassNoCheck 0 0 values st).setTime = some 2) ∧
    ((batchPass 0 0 values st).indexes = [1, 2] ∧ (batchPass 0 0 values st).setTime = some 2) := by decide

/-- **join_multiset_interleaving_independent** — for any two arrival orders that are interleavings of the same
per-parent sequences (parents time-ordered within every group), the multisets of joined points emitted
over the whole run are equal. -/
theorem join_multiset_interleaving_independent (cfg : JCfg) (a₁ a₂ : List (Nat × JMsg)) (hn : cfg.names.length = cfg.parents)
    (h₁ : ∀ a ∈ a₁, a.1 < cfg.parents) (h₂ : ∀ a ∈ a₂, a.1 < cfg.parents)
    (hsame : ∀ i, i < cfg.parents → parentSeq i a₁ = parentSeq i a₂)
    (ho : joinOrdered cfg (a₁.map (fun a => (a.1, a.2.grp, a.2.time)))) :
    (((JNode.run cfg (a₁.map (fun a => JOp.point a.1 a.2))).2.1).filterMap (joinIntoPoint cfg)).Perm
      (((JNode.run cfg (a₂.map (fun a => JOp.point a.1 a.2))).2.1).filterMap (joinIntoPoint cfg)) :=
  join_independent cfg a₁ a₂ hn h₁ h₂ hsame ho

/-- The hypothesis `joinOrdered` is needed: with a parent that goes back in time the pairing depends on the
interleaving (the sets at the old time may already have been emitted). Two interleavings of the same
per-parent sequences, parent 0 unordered, different multisets. -/
theorem join_unordered_parent_depends_on_interleaving :
    let cfg : JCfg := { parents := 2, tol := 0, fill := .null, names := ["a", "b"], delim := ".", sname := "" }
    let m (t : Int) (v : String) : JMsg := { time := t, name := "m", grp := "", byName := false, dims := [], tags := [], fields := [("v", v)] }
    let a₁ : List (Nat × JMsg) := [(0, m 2 "i:1"), (0, m 1 "i:2"), (1, m 1 "i:3"), (1, m 2 "i:4")]
    let a₂ : List (Nat × JMsg) := [(0, m 2 "i:1"), (1, m 1 "i:3"), (1, m 2 "i:4"), (0, m 1 "i:2")]
    (∀ i, i < 2 → parentSeq i a₁ = parentSeq i a₂) ∧
    ((((JNode.run cfg (a₁.map (fun a => JOp.point a.1 a.2))).2.1).filterMap (joinIntoPoint cfg)).length ≠
     (((JNode.run cfg (a₂.map (fun a => JOp.point a.1 a.2))).2.1).filterMap (joinIntoPoint cfg)).length) := by
  decide

/-! ### join.on(dimensions) -/

/-- **on(): totality and flush** — for EVERY arrival order of specific and general points, in any groups, with
any times: `matchPoints` (as repaired) never makes a join group fail, and after `Finish` no group has a
pending set and no specific point is left in the cache. -/
theorem on_flush_no_panic (cfg : JCfg) (arrivals : List (Nat × JMsg × Bool × String)) :
    (JOn.run cfg arrivals).2.2 = Status.ok ∧
    (∀ p ∈ (JOn.run cfg arrivals).1.node.groups, p.2.sets = []) ∧
    (∀ p ∈ (JOn.run cfg arrivals).1.specBuf, p.2 = []) :=
  JOn.run_ok cfg arrivals

/-- Counterexample (defect of snapshot ef0888e, repaired by commit 6a4b712): `Finish` only finished the groups;
a specific point still cached (its general partner never came) was dropped although the outer join has to
emit it filled. Replayed on the real code by corpus/C12/on-finish-cached-specific.ops (w1). -/
theorem on_finishOld_drops_cached_specific :
    let cfg : JCfg := { parents := 2, tol := 0, fill := .null, names := ["a", "b"], delim := ".", sname := "" }
    let s : JMsg := { time := 14, name := "m0", grp := "h=x,c=2", byName := false, dims := ["h", "c"], tags := [("h", "x"), ("c", "2")], fields := [("v", "i:3")] }
    let st := (JOn.runArrivals cfg {} [(0, s, true, "h=x")]).1
    ((st.finishOld).2.1.filterMap (joinIntoPoint cfg)).length = 0 ∧
    ((st.finish cfg).2.1.filterMap (joinIntoPoint cfg)).map (·.fields) = [[("a.v", "i:3"), ("b.v", "nil")]] := by
  decide

/-- Counterexample (defect of snapshot ef0888e, repaired by commit 55bd6a4): the low mark ignored a parent
without an entry for the group when that parent came first, but not when it came last. -/
theorem on_lowMarkOld_ignores_unreported_first_parent :
    JOn.lowMarkOfOld 2 "g" [((1, "g"), 5)] = some 5 ∧ JOn.lowMarkOfOld 2 "g" [((0, "g"), 5)] = none ∧
    JOn.lowMarkOf 2 "g" [((1, "g"), 5)] = none ∧ JOn.lowMarkOf 2 "g" [((0, "g"), 5)] = none := by decide

/-- **on(): "Option 3" of `matchPoints` is unreachable** — for any number of parents, any low marks and any point from a
parent in range: the low mark (`JOn.lowMarkOf`, as repaired) is computed AFTER `lowMarks[(p.Src, groupId)] = t` was
written and is a minimum that includes that entry (or zero), so `t.Before(lowMark)` is false and a specific point
without a cached match is always cached (option 2), never sent alone at once; it is sent alone later by the purge
of a following call or by Finish. (An observation about join.go, not a defect: the branch is dead code.) -/
theorem on_option3_unreachable (parents src : Nat) (gid : String) (t : Int) (lms : List ((Nat × String) × Int))
    (hs : src < parents) : JOn.beforeMark t (JOn.lowMarkOf parents gid (JOn.lmUpsert (src, gid) t lms)) = false :=
  JOn.beforeMark_own_lowMark parents src gid t lms hs

/-- Non-vacuity: with both parents reported the low mark is the minimum, here the point's own time. -/
example : JOn.lowMarkOf 2 "g" (JOn.lmUpsert (0, "g") 5 [((1, "g"), 9), ((0, "g"), 3)]) = some 5 := by decide

/-- **on(): `matchPoints` is a transducer in front of the plain join** — for EVERY arrival order, any number of
parents, any times: no decision of `matchPoints` depends on the state of the join groups, and the join sets a
run with `on()` emits (arrivals, then Finish) are exactly the sets the plain join node emits on
`JOn.forwarded`, the list of points `matchPoints` hands to the groups (purged specific points alone; a specific
point followed by its re-tagged match point; at Finish the specific points still cached). -/
theorem on_run_is_join_of_forwarded (cfg : JCfg) (arrivals : List (Nat × JMsg × Bool × String)) :
    (JOn.run cfg arrivals).2.1 = (JNode.run cfg (feedOps (JOn.forwarded cfg arrivals))).2.1 :=
  JOn.run_eq_node_run cfg arrivals

/-- **on(): the output is the occurrence pairing of what was forwarded** (the part of the pairing clause that is
proved) — for every arrival order: when the forwarded points come from parents in range and, within every
(specific) group, every parent's forwarded rounded times never go back — two decidable conditions on the
computable list `JOn.forwarded` — the joined points of the whole run are, up to permutation, the
specification's plain-join output over the forwarded points: per group and rounded time one point per
occurrence index. The two conditions are proved on the claimed domain by `on_forwarded_is_pairing`. -/
theorem on_pairs_specific_with_general_partial (cfg : JCfg) (arrivals : List (Nat × JMsg × Bool × String))
    (hn : cfg.names.length = cfg.parents)
    (hs : ∀ p ∈ JOn.forwarded cfg arrivals, p.1 < cfg.parents)
    (ho : joinOrdered cfg ((JOn.forwarded cfg arrivals).map (fun p => (p.1, p.2.grp, p.2.time)))) :
    (((JOn.run cfg arrivals).2.1).filterMap (joinIntoPoint cfg)).Perm (joinOutput cfg (JOn.forwarded cfg arrivals)) := by
  rw [on_run_is_join_of_forwarded]
  have h := join_pairs cfg (feedOps (JOn.forwarded cfg arrivals)) hn
    (by intro op hop
        simp only [feedOps, List.mem_map] at hop
        obtain ⟨p, hp, rfl⟩ := hop
        exact hs p hp)
    (by have : stepsOf (feedOps (JOn.forwarded cfg arrivals)) = (JOn.forwarded cfg arrivals).map (fun p => (p.1, p.2.grp, p.2.time)) := by
          simp [stepsOf, feedOps, JOp.srcOf, JOp.grp, JOp.rawTime]
        rw [this]; exact ho)
  rw [pointsOf_feedOps] at h
  exact h

/-- **on_forwarded_is_pairing** — what `matchPoints` hands to the join groups on the claimed domain
(`Spec.onDomain`: two parents, every arrival from one of them, each parent consistently specific or general and at
most one of them specific, one general group per group, at most one general point per general group and rounded
time, per parent and general group the rounded times never go back), for EVERY arrival order in that domain: the
forwarded points come from parents in range, are in rounded-time order per group and parent, and their plain-join
pairing is the `on()` pairing. Proof (Kap/Proofs/C12OnInv*.lean): an invariant of `matchPoints` relative to the arrival
history `hist` (`OnP.Inv`) —
  * `lowMarks[(parent, general group)]` is the rounded time of an arrival of that parent and group and bounds all of
    them; `allReported` holds as soon as both parents were seen; hence the low mark of a step is zero exactly when
    the other parent has sent nothing for the group, else min(own time, the other parent's latest time)
    (`OnP.lowMark_cases`);
  * `matchGroupsBuffer[g]` holds general arrivals of g, per parent in strictly increasing time order, and a general
    arrival no longer there is older than some specific arrival of g (so the search loop with its `break` finds
    exactly the match point of the time: `OnP.searchMatches_spec`);
  * `specificGroupsBuffer[g]`: forwarded ++ cached = the specific arrivals of g IN ARRIVAL ORDER (every specific
    point is forwarded or cached exactly once, first in first out), and no cached point has a general partner in
    the history;
  * everything forwarded so far is a list of BLOCKS: a specific arrival followed by its re-tagged partner exactly
    when `Spec.joinOnOutput` pairs it with one (options 1-3 of `matchPoints`: `OnP.step_spec`; a match point:
    `OnP.step_gen`; option 3 can never fire since the low mark includes the point's own parent).
At Finish the cached points have no partner anywhere. The plain-join pairing of a list of blocks of a permutation of
the specific arrivals is the `on()` pairing (`OnP.joinOutput_blocks`, specification side only). -/
theorem on_forwarded_is_pairing (cfg : JCfg) (arr : List OnArrival) (hd : onDomain cfg arr) :
    let fw := JOn.forwarded cfg (arr.map (fun a => (a.src, a.msg, a.specific, a.general)))
    (∀ p ∈ fw, p.1 < cfg.parents) ∧ joinOrdered cfg (fw.map (fun p => (p.1, p.2.grp, p.2.time))) ∧
    (joinOutput cfg fw).Perm (joinOnOutput cfg arr) :=
  OnP.forwarded_is_pairing cfg arr hd

/-- **on_pairs_specific_with_general** — the `on()` pairing clause, for EVERY arrival order in the claimed domain
(`Spec.onDomain`, see above; corrected by `on_both_parents_specific_join_each_other` and
`on_group_with_two_general_groups_mispairs` below): the joined points of the whole run (arrivals, then Finish) are,
up to permutation, `Spec.joinOnOutput`: every specific point joined with the general point of its general group and
rounded time (re-tagged with the specific point's group) if there is one, alone (outer join: filled) otherwise;
general points alone yield nothing. Whatever the interleaving of the two parents. By `on_run_is_join_of_forwarded`,
`join_pairs_by_occurrence` on the forwarded list, and `on_forwarded_is_pairing`. -/
theorem on_pairs_specific_with_general (cfg : JCfg) (arr : List OnArrival) (hn : cfg.names.length = cfg.parents)
    (hd : onDomain cfg arr) :
    (((JOn.run cfg (arr.map (fun a => (a.src, a.msg, a.specific, a.general)))).2.1).filterMap (joinIntoPoint cfg)).Perm
      (joinOnOutput cfg arr) := by
  obtain ⟨h1, h2, h3⟩ := on_forwarded_is_pairing cfg arr hd
  exact (on_pairs_specific_with_general_partial cfg _ hn h1 h2).trans h3

/-- **on(): the multiset of outputs is the same for every interleaving** — two arrival orders that are permutations
of each other (in particular two interleavings of the same per-parent sequences), both in the claimed domain, give
the same joined points up to permutation: on the domain the partner of a specific point is unique, so
`Spec.joinOnOutput` is a function of the multiset of arrivals (`OnP.joinOnOutput_perm`). -/
theorem on_multiset_interleaving_independent (cfg : JCfg) (a₁ a₂ : List OnArrival) (hn : cfg.names.length = cfg.parents)
    (h₁ : onDomain cfg a₁) (h₂ : onDomain cfg a₂) (hp : a₁.Perm a₂) :
    (((JOn.run cfg (a₁.map (fun a => (a.src, a.msg, a.specific, a.general)))).2.1).filterMap (joinIntoPoint cfg)).Perm
      (((JOn.run cfg (a₂.map (fun a => (a.src, a.msg, a.specific, a.general)))).2.1).filterMap (joinIntoPoint cfg)) :=
  ((on_pairs_specific_with_general cfg a₁ hn h₁).trans (OnP.joinOnOutput_perm cfg a₁ a₂ h₂ hp)).trans
    (on_pairs_specific_with_general cfg a₂ hn h₂).symm

/-- Non-vacuity of the partial theorem and of `on_forwarded_is_pairing`: an instance (general parent lagging, one
specific point without partner, a purged point) on which the hypotheses hold and the forwarded list pairs as
`joinOnOutput` says. -/
example : let cfg : JCfg := { parents := 2, tol := 0, fill := .num "i:0", names := ["s", "g"], delim := ".", sname := "" }
    let sm (t : Int) (c v : String) : JMsg := { time := t, name := "m0", grp := "h=x,c=" ++ c, byName := false, dims := ["h", "c"], tags := [("h", "x"), ("c", c)], fields := [("v", v)] }
    let gm (t : Int) (v : String) : JMsg := { time := t, name := "m1", grp := "h=x", byName := false, dims := ["h"], tags := [("h", "x")], fields := [("v", v)] }
    let arr : List OnArrival := [⟨0, sm 10 "1" "i:1", true, "h=x"⟩, ⟨0, sm 10 "2" "i:2", true, "h=x"⟩, ⟨0, sm 12 "1" "i:3", true, "h=x"⟩,
      ⟨1, gm 10 "i:4", false, "h=x"⟩, ⟨1, gm 13 "i:5", false, "h=x"⟩]
    let fw := JOn.forwarded cfg (arr.map (fun a => (a.src, a.msg, a.specific, a.general)))
    onDomain cfg arr ∧ (∀ p ∈ fw, p.1 < cfg.parents) ∧ joinOrdered cfg (fw.map (fun p => (p.1, p.2.grp, p.2.time))) ∧
    fw.map (fun p => (p.1, p.2.time)) = [(0, 10), (1, 10), (0, 10), (1, 10), (0, 12)] ∧
    ((joinOutput cfg fw).map (·.fields)).Perm ((joinOnOutput cfg arr).map (·.fields)) := by decide

/-- The clause needs "at most one specific parent": two specific parents sending in one group are joined with
each other by the groups (all other conjuncts of the domain hold), where the clause wants each alone. -/
theorem on_both_parents_specific_join_each_other :
    let cfg : JCfg := { parents := 2, tol := 0, fill := .num "i:0", names := ["s", "g"], delim := ".", sname := "" }
    let sm (v : String) : JMsg := { time := 1, name := "m0", grp := "a", byName := false, dims := ["h", "c"], tags := [("h", "x"), ("c", "1")], fields := [("v", v)] }
    let arr : List OnArrival := [⟨0, sm "i:1", true, "g"⟩, ⟨1, sm "i:2", true, "g"⟩]
    ¬ onDomain cfg arr ∧
    ((((JOn.run cfg (arr.map (fun a => (a.src, a.msg, a.specific, a.general)))).2.1).filterMap (joinIntoPoint cfg)).map (·.fields)) =
      [[("s.v", "i:1"), ("g.v", "i:2")]] ∧
    (joinOnOutput cfg arr).map (·.fields) = [[("s.v", "i:1"), ("g.v", "i:0")], [("s.v", "i:0"), ("g.v", "i:2")]] := by decide

/-- The clause needs "one general group per group" (true of real points: the general group is computed from the
point's own tags, but the model takes both IDs as inputs): if two specific points of ONE group carry different
general groups, the first – purged alone, still pending in its join group – takes the match point that was
sent with the second. -/
theorem on_group_with_two_general_groups_mispairs :
    let cfg : JCfg := { parents := 2, tol := 0, fill := .num "i:0", names := ["s", "g"], delim := ".", sname := "" }
    let sm (t : Int) (grp c v : String) : JMsg := { time := t, name := "m0", grp := grp, byName := false, dims := ["h", "c"], tags := [("h", "x"), ("c", c)], fields := [("v", v)] }
    let gm (t : Int) (g v : String) : JMsg := { time := t, name := "m1", grp := g, byName := false, dims := ["h"], tags := [("h", "x")], fields := [("v", v)] }
    let arr : List OnArrival := [⟨0, sm 1 "a" "1" "i:1", true, "g1"⟩, ⟨1, gm 5 "g1" "i:9", false, "g1"⟩, ⟨0, sm 5 "z" "2" "i:7", true, "g1"⟩,
      ⟨1, gm 1 "g2" "i:3", false, "g2"⟩, ⟨0, sm 1 "a" "1" "i:2", true, "g2"⟩]
    ¬ onDomain cfg arr ∧
    ((((JOn.run cfg (arr.map (fun a => (a.src, a.msg, a.specific, a.general)))).2.1).filterMap (joinIntoPoint cfg)).map (·.fields)) =
      [[("s.v", "i:7"), ("g.v", "i:9")], [("s.v", "i:1"), ("g.v", "i:3")], [("s.v", "i:2"), ("g.v", "i:0")]] ∧
    (joinOnOutput cfg arr).map (·.fields) =
      [[("s.v", "i:1"), ("g.v", "i:0")], [("s.v", "i:7"), ("g.v", "i:9")], [("s.v", "i:2"), ("g.v", "i:3")]] := by decide

/-- The clause needs "per parent and general group the rounded times never go back" (the last conjunct of the domain;
all others hold in both instances): a specific parent that goes back in time has its late point purged alone although
its general partner comes afterwards; a general parent that goes back in time delivers a partner that is not found
because the low mark has already passed it. -/
theorem on_unordered_parent_mispairs :
    let cfg : JCfg := { parents := 2, tol := 0, fill := .num "i:0", names := ["s", "g"], delim := ".", sname := "" }
    let sm (t : Int) (v : String) : JMsg := { time := t, name := "m0", grp := "h=x,c=1", byName := false, dims := ["h", "c"], tags := [("h", "x"), ("c", "1")], fields := [("v", v)] }
    let gm (t : Int) (v : String) : JMsg := { time := t, name := "m1", grp := "h=x", byName := false, dims := ["h"], tags := [("h", "x")], fields := [("v", v)] }
    let sp (t : Int) (v : String) : OnArrival := ⟨0, sm t v, true, "h=x"⟩
    let ge (t : Int) (v : String) : OnArrival := ⟨1, gm t v, false, "h=x"⟩
    let out (arr : List OnArrival) := (((JOn.run cfg (arr.map (fun a => (a.src, a.msg, a.specific, a.general)))).2.1).filterMap (joinIntoPoint cfg)).map (·.fields)
    let a₁ := [sp 12 "i:1", sp 10 "i:2", ge 10 "i:4", ge 12 "i:5"]
    let a₂ := [sp 10 "i:1", ge 12 "i:4", sp 12 "i:2", ge 10 "i:5"]
    (¬ onDomain cfg a₁ ∧ out a₁ = [[("s.v", "i:1"), ("g.v", "i:5")], [("s.v", "i:2"), ("g.v", "i:0")]] ∧
      (joinOnOutput cfg a₁).map (·.fields) = [[("s.v", "i:1"), ("g.v", "i:5")], [("s.v", "i:2"), ("g.v", "i:4")]]) ∧
    (¬ onDomain cfg a₂ ∧ out a₂ = [[("s.v", "i:1"), ("g.v", "i:0")], [("s.v", "i:2"), ("g.v", "i:4")]] ∧
      (joinOnOutput cfg a₂).map (·.fields) = [[("s.v", "i:1"), ("g.v", "i:5")], [("s.v", "i:2"), ("g.v", "i:4")]]) := by decide

/-- The clause needs "each parent consistently specific or general": a general point from the specific point's own
parent makes `allReported`/the low mark believe the general side has reported; the specific point is cached, never
meets the real partner's time again and is flushed alone, and the parent's own general point is (by the model's
`specific` flag) treated as a match point of nobody. -/
theorem on_parent_of_both_kinds_mispairs :
    let cfg : JCfg := { parents := 2, tol := 0, fill := .num "i:0", names := ["s", "g"], delim := ".", sname := "" }
    let sm (t : Int) (v : String) : JMsg := { time := t, name := "m0", grp := "h=x,c=1", byName := false, dims := ["h", "c"], tags := [("h", "x"), ("c", "1")], fields := [("v", v)] }
    let gm (t : Int) (v : String) : JMsg := { time := t, name := "m1", grp := "h=x", byName := false, dims := ["h"], tags := [("h", "x")], fields := [("v", v)] }
    let arr : List OnArrival := [⟨0, sm 10 "i:1", true, "h=x"⟩, ⟨0, gm 10 "i:4", false, "h=x"⟩, ⟨1, gm 10 "i:5", false, "h=x"⟩]
    ¬ onDomain cfg arr ∧
    ((((JOn.run cfg (arr.map (fun a => (a.src, a.msg, a.specific, a.general)))).2.1).filterMap (joinIntoPoint cfg)).map (·.fields)) ≠
      (joinOnOutput cfg arr).map (·.fields) := by decide

/-- Non-vacuity of `on_multiset_interleaving_independent`: two interleavings of the same per-parent sequences, both in
the domain, permutations of each other, with a matched, a purged and a flushed specific point. -/
example : let cfg : JCfg := { parents := 2, tol := 0, fill := .num "i:0", names := ["s", "g"], delim := ".", sname := "" }
    let sm (t : Int) (c v : String) : JMsg := { time := t, name := "m0", grp := "h=x,c=" ++ c, byName := false, dims := ["h", "c"], tags := [("h", "x"), ("c", c)], fields := [("v", v)] }
    let gm (t : Int) (v : String) : JMsg := { time := t, name := "m1", grp := "h=x", byName := false, dims := ["h"], tags := [("h", "x")], fields := [("v", v)] }
    let sp (t : Int) (c v : String) : OnArrival := ⟨0, sm t c v, true, "h=x"⟩
    let ge (t : Int) (v : String) : OnArrival := ⟨1, gm t v, false, "h=x"⟩
    let a₁ := [sp 10 "1" "i:1", sp 11 "2" "i:2", sp 14 "1" "i:3", ge 10 "i:4", ge 13 "i:5"]
    let a₂ := [ge 10 "i:4", sp 10 "1" "i:1", ge 13 "i:5", sp 11 "2" "i:2", sp 14 "1" "i:3"]
    onDomain cfg a₁ ∧ onDomain cfg a₂ ∧ a₁.Perm a₂ ∧ (joinOnOutput cfg a₁).length = 3 := by decide

/-- Non-vacuity of the statement: an instance (general parent lagging, one specific point without partner). -/
example : let cfg : JCfg := { parents := 2, tol := 0, fill := .num "i:0", names := ["s", "g"], delim := ".", sname := "" }
    let sm (t : Int) (c v : String) : JMsg := { time := t, name := "m0", grp := "h=x,c=" ++ c, byName := false, dims := ["h", "c"], tags := [("h", "x"), ("c", c)], fields := [("v", v)] }
    let gm (t : Int) (v : String) : JMsg := { time := t, name := "m1", grp := "h=x", byName := false, dims := ["h"], tags := [("h", "x")], fields := [("v", v)] }
    let sp (t : Int) (c v : String) : OnArrival := ⟨0, sm t c v, true, "h=x"⟩
    let ge (t : Int) (v : String) : OnArrival := ⟨1, gm t v, false, "h=x"⟩
    let arr := [sp 10 "1" "i:1", sp 10 "2" "i:2", sp 12 "1" "i:3", ge 10 "i:4", ge 13 "i:5"]
    onDomain cfg arr ∧
    ((((JOn.run cfg (arr.map (fun a => (a.src, a.msg, a.specific, a.general)))).2.1).filterMap (joinIntoPoint cfg)).map (·.fields)) =
      (joinOnOutput cfg arr).map (·.fields) := by decide

end Kap.Props.C12
