/-
C12 — property theorems (every `theorem` in this module is a proof obligation; `bin/check C12` audits each
one's axioms). Helper lemmas live in Kap/Proofs/C12*.lean.
-/
import Kap.Spec.C12
namespace Kap.Props.C12
open Kap.C12

/-- Counterexample (defect of snapshot ef0888e, repaired by commit a2e373e): `joinGroup.Barrier` moved
`oldestTime` to the barrier's time, for which no set exists; the next point of another parent makes
`emit` dereference the nil queue `g.sets[g.oldestTime]`. Replayed on the real code by
corpus/C12/barrier-before-point.ops. -/
theorem barrierOld_panics :
    (((JGroup.new 2 : JGroup Nat).barrierOld 0 5).1.collect 2 1 10 7).2.2 = Status.panic := by decide

end Kap.Props.C12
