/-
Property C13 – formatting and re-serialising a TICKscript never changes the task it defines.
Theorems about the model Kap/Model/C13.lean (expression sub-language: everything after `lambda:`), with the
operator set / operator strings / precedence table regenerated from tick/ast/lex.go and parser.go
(Kap/Gen/C13.lean) on every run.

What is proved, for ALL trees / token lists (no size bound):
  * the regenerated tables are total and the operator strings are injective;
  * `parse_fmt_canonical`  : the precedence-climbing parser inverts the flag-driven printer on every canonical
                             tree (every tree the grammar can produce);
  * `format_parses_back`   : the REPAIRED formatter (50a1b8a) prints ANY tree – parser output, built in code,
                             decoded from JSON – as tokens that parse back to a tree with the same operators,
                             operands, function names and grouping (equal up to Parens flags);
  * `format_stable`        : formatting the re-parsed tree gives the same tokens again (stable at once);
  * `format_of_canonical`  : on parser output the repaired formatter changes nothing;
  * `json_roundtrip_tree`, `format_after_json_preserves` : JSON keeps the meaning, and formatting what came back
                             from JSON still parses to the same meaning;
  * literal codecs: unescape ∘ escape = id for ' " /, the single-quote scanner stops at the right quote unless
    the literal ends in a backslash; in that case the repaired StringNode.Format (02ebb2e) uses triple quotes;
  * counterexamples for the code BEFORE the repairs (found by the check on the real code, then fixed);
  * float literals of EVERY magnitude and digit count (section "float literals", model `F64` = exact binary64:
    correctly rounded parse, shortest decimal that parses back): the printed text is `digits.digits`, is read by
    the lexer as one number token, decodes to the same binary64 value, and is its own canonical text
    (`float_text_parses_back`, `float_literal_value_preserved`, `float_format_idempotent`,
    `float_literal_lex_dec_ok`, `float_literal_format_then_parse`). strconv's own algorithms are NOT transcribed:
    `F64.parse` / `F64.fmt` are definitions of what ParseFloat / FormatFloat(f,'f',-1,64) document, tied to Go by
    the correspondence run on every generated float; that `F64.fmt` always finds a text (17 digits suffice) is
    stated, not proved (`float_format_total_stmt`), evaluated on the boundary values and measured on every case.
Stated, not proved (kept visible): see the end of the file.
-/
import Kap.Proofs.C13Lit
import Kap.Proofs.C13Image
import Kap.Proofs.C13Mono
import Kap.Proofs.C13LexAtoms
import Kap.Proofs.C13Prog
import Kap.Proofs.C13LexStr
import Kap.Proofs.C13ProgImage
import Kap.Proofs.C13ProgFuel
import Kap.Proofs.C13DecodeTree
import Kap.Proofs.C13Float
import Kap.Proofs.C13Tick
import Kap.Gen.C13Tick

namespace Kap.Props.C13
open Kap.C13 Kap.C13.Gen

/-! ## The regenerated tables -/

/-- the extractor recognised every shape it met (fail closed) -/
theorem gen_no_unknown : Gen.unknown = [] := by decide

/-- every expression operator has a string and a binding power in the Go tables (Go would silently use "" / 0) -/
theorem gen_table_total : ∀ o : BinOp, o.str?.isSome = true ∧ o.prec?.isSome = true := by
  intro o; cases o <;> decide

/-- operator ↔ string is one-to-one (JSON stores operators by their string), and no operator string is "!" -/
theorem gen_opstr_injective : ∀ a b : BinOp, opStr a = opStr b → a = b := by
  intro a b; cases a <;> cases b <;> decide

theorem gen_opstr_roundtrip : ∀ o : BinOp, opOfStr? (opStr o) = some o := by
  intro o; cases o <;> decide

theorem gen_not_is_no_binary_operator : ∀ o : BinOp, opStr o ≠ Kap.C13.notStr := by
  intro o; cases o <;> decide

/-! ## Parser ∘ printer -/

/-- HEADLINE. For every canonical tree (Parens set where the grammar needs them – exactly the trees the parser
builds), every continuation that cannot extend the expression, and every sufficient fuel, `primaryExpr` reads
the printed tokens back to the very same tree and leaves the continuation. -/
theorem parse_fmt_canonical (e : Expr) (hc : canon e = true) (rest : List Tok) (hr : stopsAt 0 rest = true) :
    ∃ N, ∀ f, N ≤ f → primaryExpr f (fmtToksOld e ++ rest) = .ok (e, rest) :=
  (roundtrip_all (size e) e (Nat.le_refl _) hc).2.2 rest hr

example : canon (.bin .TokenMult (.bin .TokenPlus (.id "a") (.id "b") true) (.id "c") false) = true := by decide

/-- the same at the top level (`ParseLambda`: the whole input must be consumed) -/
theorem parseLambda_fmt_canonical (e : Expr) (hc : canon e = true) :
    ∃ N, ∀ f, N ≤ f → parseTokensF f (fmtToksOld e) = .ok e := by
  obtain ⟨N, h⟩ := parse_fmt_canonical e hc [] rfl
  refine ⟨N, fun f hf => ?_⟩
  have := h f hf
  simp only [List.append_nil] at this
  simp [parseTokensF, this]

/-- The repaired formatter is the flag-driven printer applied to a canonical tree that differs from the input
in Parens flags only. -/
theorem format_is_canonical_print (e : Expr) :
    fmtToks e = fmtToksOld (canonize e) ∧ canon (canonize e) = true ∧ erase (canonize e) = erase e := by
  refine ⟨?_, canon_canonize e, erase_canonize e⟩
  have := fmtToksP_eq e false
  have hm : mark false (canonize e) = canonize e := by cases canonize e <;> simp [mark]
  rw [hm] at this
  exact this

/-- FULL STRENGTH for expressions: whatever tree is formatted (no hypothesis on it), the formatted tokens are
accepted by the parser and denote the same expression: same operators, operands, function names, grouping
(`erase` forgets only the Parens flags). -/
theorem format_parses_back (e : Expr) :
    ∃ e', (∃ N, ∀ f, N ≤ f → parseTokensF f (fmtToks e) = .ok e') ∧ erase e' = erase e := by
  obtain ⟨h1, h2, h3⟩ := format_is_canonical_print e
  exact ⟨canonize e, by rw [h1]; exact parseLambda_fmt_canonical _ h2, h3⟩

/-- formatting is stable at once: the re-parsed tree (`canonize e`) formats to the same tokens -/
theorem format_stable (e : Expr) : fmtToks (canonize e) = fmtToks e := by
  have h1 := (format_is_canonical_print e).1
  have h2 := (format_is_canonical_print (canonize e)).1
  rw [h2, h1, canonize_of_canon _ (canon_canonize e)]

/-- on the parser's own output the repair changes nothing (the pinned tests keep their expected text) -/
theorem format_of_canonical (e : Expr) (hc : canon e = true) : fmtToks e = fmtToksOld e := by
  rw [(format_is_canonical_print e).1, canonize_of_canon e hc]

/-! ## JSON -/

/-- A lambda written to JSON and read back denotes the same expression: same shape, operators, function names
and literal values (Parens flags, quote style, regex/duration spelling are not stored). The only hypothesis:
no integer literal has base 0 (a NumberNode built without Base is rejected by the decoder). -/
theorem json_roundtrip_tree (e : Expr) (h : jsonSafe e = true) :
    ∃ e', jsonRT e = .ok e' ∧ meaningOf e' = meaningOf e :=
  jsonRT_meaning e h

example : jsonSafe (.bin .TokenGreater (.call "sigma" [.lit (.ref "x")]) (.lit (.num (.int 10 3))) true) = true := by decide

/-- … and formatting what came back from JSON parses to the same meaning (precedence included): the defect
`(a + b) * c → a + b * c` is gone for every tree. -/
theorem format_after_json_preserves (e : Expr) (h : jsonSafe e = true) :
    ∃ j e', jsonRT e = .ok j ∧ (∃ N, ∀ f, N ≤ f → parseTokensF f (fmtToks j) = .ok e') ∧
      meaningOf e' = meaningOf e := by
  obtain ⟨j, hj, hm⟩ := json_roundtrip_tree e h
  obtain ⟨h1, h2, _⟩ := format_is_canonical_print j
  refine ⟨j, canonize j, hj, by rw [h1]; exact parseLambda_fmt_canonical _ h2, ?_⟩
  rw [meaningOf_canonize, hm]

/-- BEFORE 1dcce27 integers went through float64: 2^53 + 1 came back as 2^53 … -/
theorem old_json_int53_counterexample : jsonIntOld 9007199254740993 = 9007199254740992 := by decide

/-- … and MaxInt64 as MinInt64 -/
theorem old_json_maxint_counterexample : jsonIntOld 9223372036854775807 = -9223372036854775808 := by decide

/-! ## Literals -/

/-- newString ∘ StringNode.Format (single quoted body), newReference ∘ ReferenceNode.Format, newRegex ∘ the
derived regex literal: unescape undoes escape for every text -/
theorem literal_unescape_escape (s : List Char) :
    unescQ '\'' (escQ '\'' s) = s ∧ unescQ '"' (escQ '"' s) = s ∧ unescQ '/' (escQ '/' s) = s :=
  ⟨unescQ_escQ _ (by decide) s, unescQ_escQ _ (by decide) s, unescQ_escQ _ (by decide) s⟩

/-- the lexer finds the end of a formatted single-quoted string exactly where Format put it – for every
literal that does not end in a backslash -/
theorem string_scan_roundtrip (s rest : List Char) (h : endsWithBackslash s = false) :
    scanSingle (escQ '\'' s ++ '\'' :: rest) = some (escQ '\'' s ++ ['\''], rest) :=
  scanSingle_escQ s rest h

example : endsWithBackslash "it's a\\b".toList = false := by decide

/-- the full statement (no hypothesis) is FALSE: `'a\'` is unterminated. This is what StringNode.Format wrote
before 02ebb2e for a literal ending in a backslash (found by the check on the real code). -/
theorem string_trailing_backslash_counterexample :
    scanString (fmtStringOld "a\\" false).toList = none := by decide

/-- the repaired Format writes such a literal triple quoted, and that is read back -/
theorem string_trailing_backslash_repaired :
    useTriple ['a', '\\'] false = true ∧
    scanString ['\'', '\'', '\'', 'a', '\\', '\'', '\'', '\''] = some (['\'', '\'', '\'', 'a', '\\', '\'', '\'', '\''], []) ∧
    newString ['\'', '\'', '\'', 'a', '\\', '\'', '\'', '\''] = (['a', '\\'], true) := by
  refine ⟨by decide, ?_, by decide⟩
  simp [scanString, scanTriple]

/-- a regex that did not come from the parser (no Literal) was printed as `//`, a comment (before 341b804);
the repaired Format derives the literal -/
theorem regex_without_literal_repaired : fmtRegex "a/b" "" = "/a\\/b/" := by decide

/-! ## The defects of the code before the repairs, on the model of that code -/

/-- BEFORE 50a1b8a: a tree without Parens flags (JSON, pipeline/tick, `where` chaining `AND`) printed with the
flag-driven printer parses to a DIFFERENT expression: (a + b) * c ↦ a + b * c. -/
theorem old_format_changes_precedence :
    (parseTokens (fmtToksOld (.bin .TokenMult (.bin .TokenPlus (.id "a") (.id "b") false) (.id "c") false))).isOkOf
      (.bin .TokenPlus (.id "a") (.bin .TokenMult (.id "b") (.id "c") false) false) = true := by
  decide

/-- … and -(a + b) ↦ (-a) + b -/
theorem old_format_changes_unary_scope :
    (parseTokens (fmtToksOld (.un .neg (.bin .TokenPlus (.id "a") (.id "b") false)))).isOkOf
      (.bin .TokenPlus (.un .neg (.id "a")) (.id "b") false) = true := by
  decide

/-- the repaired formatter on the same trees -/
theorem new_format_keeps_precedence :
    (parseTokens (fmtToks (.bin .TokenMult (.bin .TokenPlus (.id "a") (.id "b") false) (.id "c") false))).isOkOf
      (.bin .TokenMult (.bin .TokenPlus (.id "a") (.id "b") true) (.id "c") false) = true := by
  decide

/-! ## Every accepted input -/

/-- everything the parser returns is canonical: the invariants of both loops of `precedence`, for every token
list, every fuel -/
theorem parser_image_canonical (f : Nat) (ts : List Tok) (e : Expr) (rest : List Tok)
    (h : primaryExpr f ts = .ok (e, rest)) : canon e = true := by
  obtain ⟨hP, hO, _, _⟩ := image_specs f
  obtain ⟨x, hx, h⟩ := Res.bind_eq_ok h
  obtain ⟨cx, bx⟩ := hP _ _ _ (by rw [hx])
  exact (hO _ _ _ _ _ h cx (fun _ _ _ => okQ_of_not_bare bx _)).1

/-- FULL STRENGTH on the quantifier of the property (expression part): for EVERY token list the parser accepts,
formatting the tree and parsing the result gives the identical tree (Parens flags included), hence the same
text on the next pass. -/
theorem parse_fmt_parse (f : Nat) (ts : List Tok) (e : Expr) (h : parseTokensF f ts = .ok e) :
    (∃ N, ∀ g, N ≤ g → parseTokensF g (fmtToks e) = .ok e) ∧ fmtToks e = fmtToksOld e := by
  have hc : canon e = true := by
    unfold parseTokensF at h
    split at h <;> try (simp at h)
    rename_i e' heq
    obtain rfl := h
    exact parser_image_canonical f ts _ [] heq
  refine ⟨?_, format_of_canonical e hc⟩
  rw [format_of_canonical e hc]
  exact parseLambda_fmt_canonical e hc

example : (parseTokensF 20 [.id "a", .op .TokenPlus, .id "b", .op .TokenMult, .id "c"]).isOkOf
    (.bin .TokenPlus (.id "a") (.bin .TokenMult (.id "b") (.id "c") false) false) = true := by decide

/-! ## Character level: the lexer reads the printed text back -/

/-- `lexer_reads_formatted`: for every tree whose operand tokens lex as themselves (`LexWF`: a per-token
condition, nothing about the shape of the tree), the lexer – with its own fixed fuel – turns the printed TEXT
(`fmtChars`: spaces around binary operators, none after unary ones, `f(a, b)`, parentheses) back into exactly the
raw token sequence of the tree: every operator (incl. the keyword operators AND / OR, which leave the lexer in
a different state, and `=~` / `!~`, which peek for a regex), parentheses flagged or derived, calls, commas. -/
theorem lexer_reads_formatted (e : Expr) (h : LexWF e) : lex (fmtChars e) = .ok (rawToksP e false) :=
  lex_fmtChars e h

/-- the per-token condition holds for booleans … -/
theorem lexwf_bool (b : Bool) : LexWF (.lit (.bool b)) := by
  simp only [LexWF]; exact atomLex_bool b

/-- … for every identifier (letter, then letters / digits / `_`, not a keyword) … -/
theorem lexwf_ident (s : String) (h : identOK s) : LexWF (.id s) := by
  simp only [LexWF]; exact identLex_of_ok s h

/-- … and function names directly followed by `(` -/
theorem lexwf_call (f : String) (h : identOK f) (args : List Expr) (ha : LexWFAll args) : LexWF (.call f args) := by
  simp only [LexWF]; exact ⟨identLexCall_of_ok f h, ha⟩

/-- … for every reference whose name does not end in a backslash (no other name can be written) … -/
theorem lexwf_ref (s : String) (h : endsWithBackslash s.toList = false) : LexWF (.lit (.ref s)) := by
  simp only [LexWF]; exact atomLex_ref s h

/-- … and for every single-quoted string whose content does not end in a backslash -/
theorem lexwf_str (l : String) (h : endsWithBackslash l.toList = false) : LexWF (.lit (.str l false)) := by
  simp only [LexWF]; exact atomLex_str l h

theorem identOK_a : identOK "a" := ⟨'a', [], by decide, by decide, by simp, by decide⟩
theorem identOK_b : identOK "b" := ⟨'b', [], by decide, by decide, by simp, by decide⟩
theorem identOK_f : identOK "f" := ⟨'f', [], by decide, by decide, by simp, by decide⟩

/-- non-vacuity: `f(a OR TRUE) * -(a + b)` – keyword operator, call, unary over derived parentheses -/
example : LexWF (.bin .TokenMult (.call "f" [.bin .TokenOr (.id "a") (.lit (.bool true)) false])
    (.un .neg (.bin .TokenPlus (.id "a") (.id "b") false)) false) := by
  simp only [LexWF, LexWFAll]
  exact ⟨⟨identLexCall_of_ok _ identOK_f, ⟨identLex_of_ok _ identOK_a, atomLex_bool true⟩, trivial⟩,
    identLex_of_ok _ identOK_a, identLex_of_ok _ identOK_b⟩

/-! ## Statement level: programs -/

/-- `parse_format_program`: for every well-formed program – `var` declarations of expressions, lambdas, lists and
chains, typed (template) vars, `dbrp`, chains `head|node(args).prop(args).flag@udf(args)` with arguments that
are expressions, lambdas or lists; expressions canonical (= parser output); no statement starts with a token
that would continue the statement before it – `program()` reads the formatted token sequence back to the
identical program. The token view is layout-independent: white space, indentation, MultiLine and comments are
not tokens (the parser attaches comments to nodes and `Equal` ignores them). -/
theorem parse_format_program (p : Program) (h : progWF p = true) :
    ∃ N, ∀ f, N ≤ f → parseStmts f (fmtProgram p) = .ok p :=
  reads_program p h

/-- formatting is stable at once at statement level: what is parsed back formats to the same tokens -/
theorem format_program_stable (p q : Program) (h : progWF p = true)
    (hq : ∀ N, ∃ f, N ≤ f ∧ parseStmts f (fmtProgram p) = .ok q) : fmtProgram q = fmtProgram p := by
  obtain ⟨N, hN⟩ := parse_format_program p h
  obtain ⟨f, hf, hqf⟩ := hq N
  have := hN f hf
  rw [this] at hqf
  cases hqf
  rfl

/-- non-vacuity: `dbrp "db"."rp"  var t string  var x = stream|from().where(lambda: a OR TRUE)  x|f(['h', *], 1)@u().flag` -/
example : progWF [
    .dbrp "db" "rp",
    .typeDecl "t" "string",
    .decl "x" (.chain (.id "stream") [
      { op := .pipe, name := "from", args := some [] },
      { op := .dot, name := "where", args := some [.lambda (.bin .TokenOr (.id "a") (.lit (.bool true)) false)] }]),
    .expr (.chain (.id "x") [
      { op := .pipe, name := "f", args := some [.list [.str "h" false, .star], .expr (.lit (.num (.int 10 1)))] },
      { op := .at, name := "u", args := some [] },
      { op := .dot, name := "flag", args := none }])] = true := by decide

/-! ## pipeline → TICKscript: the builder tables regenerated from pipeline/tick/*.go -/

/-- the extractor recognised every builder call (fail closed) -/
theorem tick_no_unknown : Gen.tickUnknown = [] := by decide

/-- one builder per node kind: the property order of a node kind is well defined -/
theorem tick_nodes_distinct : (Gen.tickTable.map (·.1)).Nodup := by decide


/-! ## pipeline → TICKscript: the VALUES (Kap/Model/C13Tick.lean, the Build bodies regenerated from the source) -/

open Kap.C13.Tick in
/-- statically fail closed: the `Build` body of a node kind contains nothing the extractor did not recognise -/
def bodyKnown (typ : String) : Bool :=
  match Gen.tickBuild.find? (fun e => e.1 == typ) with
  | some (_, _, body) => stmtsKnown 64 body
  | none => false

/-- the node kinds whose rendering is modelled without any gap (every statement, condition and expression of their
`Build` method was recognised): every static kind the harness generates except alert (whose inhibit loop is not
translated: the interpreter answers "not covered" when – and only when – a node has inhibitors; measured as branch
`tick-values-na:alert`) -/
def valueModelled : List String :=
  ["BarrierNode", "ChangeDetectNode", "CombineNode", "DefaultNode", "DeleteNode", "DerivativeNode", "EvalNode",
   "FlattenNode", "FromNode", "GroupByNode", "HTTPOutNode", "HTTPPostNode", "InfluxDBOutNode", "JoinNode",
   "KapacitorLoopbackNode", "LogNode", "QueryNode", "QueryFluxNode", "SampleNode", "ShiftNode", "StateCountNode",
   "StateDurationNode", "StatsNode", "UnionNode", "WhereNode", "WindowNode"]

theorem tick_values_no_unknown : valueModelled.all bodyKnown = true := by decide

/-- … and the translation is not vacuous: each of these bodies starts with its literal `Pipe` call -/
theorem tick_values_pipe_first : valueModelled.all (fun t =>
    match Gen.tickBuild.find? (fun e => e.1 == t) with
    | some (_, _, body) => (body.find? (fun s => match s with | .call _ _ _ => true | _ => false)).any
        (fun s => match s with | .call m _ _ => m == "Pipe" | _ => false)
    | none => false) = true := by decide

/-- every link the model of the function builder emits carries its parentheses (it is built by `mkLink`) -/
theorem tick_call_emits_function (m name : String) (vals : List Tick.Val) (ls ls' : List Link)
    (h0 : ls.all Tick.hasParens = true) (h : Tick.applyCall m name vals ls = some ls') :
    ls'.all Tick.hasParens = true :=
  Tick.applyCall_hasParens m name vals ls ls' h0 h

/-- `tick_render_roundtrip`, chain level: the parser reads the printed tokens of ANY rendered chain (no hypothesis on
the lambdas and expressions inside: nodes built by pipeline/tick carry no Parens flags) back as the same links, with
the Parens flags the grammar needs -/
theorem tick_render_roundtrip_chain (ls : List Link) (h : ls.all Tick.hasParens = true) (rest : List Tok)
    (hb : Bnd rest) : ∃ N, ∀ f, N ≤ f → parseLinks f (fmtLinks ls ++ rest) = .ok (Tick.canonLinks ls, rest) :=
  Tick.reads_rendered_links ls h rest hb

/-- `tick_render_roundtrip`, per value kind: a property value (string, int64, float64, bool, duration, star) that
Literal turned into an argument comes back as THE SAME VALUE when the printed argument is read (`normArg`: the
spelling that was printed, a negative number as unary minus – lexer_decodes_formatted; `canonArg`: parser) and
evaluated: strings whatever quoting Format chose, negative integers / floats / durations through the unary minus,
durations whatever unit was printed. -/
theorem tick_render_roundtrip_value (v : Tick.Val) (a : Arg) (hs : Tick.scalar v = true)
    (h : Tick.literal v = some a) : Tick.evalArg (Tick.canonArg (Tick.normArg a)) = some v :=
  Tick.evalArg_literal_scalar v a hs h

example : Tick.literal (.int (-3)) = some (.expr (.lit (.num (.int 10 (-3))))) ∧
    Tick.normArg (.expr (.lit (.num (.int 10 (-3))))) = .expr (.un .neg (.lit (.num (.int 10 3)))) := ⟨rfl, rfl⟩

/-- … a whole argument list of such values -/
theorem tick_render_roundtrip_values (vals : List Tick.Val) (as : List Arg) (hs : vals.all Tick.scalar = true)
    (h : vals.mapM Tick.literal = some as) : (Tick.canonArgs (as.map Tick.normArg)).mapM Tick.evalArg = some vals :=
  Tick.evalArgs_literal_scalars vals as hs h

/-- … a list value (groupBy dimensions: strings and the star) element by element -/
theorem tick_render_roundtrip_list (vs : List Tick.Val) (items : List Item) (h : vs.mapM Tick.itemOf = some items)
    (hs : vs.all (fun v => match v with | .str _ => true | .star => true | _ => false) = true) :
    Tick.evalArg (Tick.canonArg (Tick.normArg (.list items))) = some (.ilist vs) :=
  Tick.evalArg_literal_list vs items h hs

/-- … and a lambda comes back as the tree `format_then_parse_chars` speaks about: normalised literals, the Parens
flags the grammar needs, equal to the rendered one up to Parens flags -/
theorem tick_render_roundtrip_lambda (e : Expr) :
    Tick.evalArg (Tick.canonArg (Tick.normArg (.lambda e))) = some (.lambda (canonize (norm e))) ∧
    erase (canonize (norm e)) = erase (norm e) :=
  ⟨rfl, erase_canonize _⟩

/-- ELISION. What `Func` (behind Pipe / At / Dot / DotNotEmpty) drops is exactly the zero values – the defaults a
fresh node has – and when nothing is left the property is not emitted at all; what it keeps are the literals of the
non-zero values in order. -/
theorem tick_elision_only_zero (vals : List Tick.Val) (h : vals ≠ []) :
    Tick.funcNode .skipZero vals =
      ((vals.filter (fun v => !Tick.isZero v)).mapM Tick.literal).map (fun as => if as.isEmpty then none else some as) := by
  cases vals with
  | nil => exact absurd rfl h
  | cons v rest => simp [Tick.funcNode]

/-- … `FuncWithZero` (PipeZeroValueOK, DotZeroValueOK, DotNotNil: positional arguments, flapping(0.0, 0.5), fill(0))
keeps every value -/
theorem tick_zero_kept (vals : List Tick.Val) (h : vals ≠ []) :
    Tick.funcNode .keepZero vals = (vals.mapM Tick.literal).map some := by
  cases vals with
  | nil => exact absurd rfl h
  | cons v rest => simp [Tick.funcNode]

/-- a rendered window node, end to end on the extracted Build body: zero `every` elided, the flag as a bare call -/
theorem tick_render_window_example :
    (match Gen.tickBuild.find? (fun e => e.1 == "WindowNode") with
     | some (_, param, body) =>
       (Tick.renderNode body param (.struct [.kv "Period" (.dur 10000000000), .kv "Every" (.dur 0),
          .kv "PeriodCount" (.int 0), .kv "EveryCount" (.int 0), .kv "AlignFlag" (.bool true),
          .kv "FillPeriodFlag" (.bool false)]) []).map (fun ls => fmtLinks ls)
     | none => none) =
    some [.sym .pipe, .id "window", .lp, .rp, .sym .dot, .id "period", .lp, .lit (.dur 10000000000 ""), .rp,
          .sym .dot, .id "align", .lp, .rp] := by decide

/-! ## Fuel -/

/-- the fixed fuel of `parseTokens` (2·tokens + 4) always suffices: the model parser is total -/
theorem fuel_adequate : ∀ (ts : List Tok) (w : String), parseTokens ts ≠ .na w := parseTokens_ne_na

/-- HEADLINE without any fuel quantifier: for EVERY tree, `ParseLambda` of the formatted tokens is the tree
with the needed Parens flags – equal to the input up to Parens flags. -/
theorem parse_format (e : Expr) : parseTokens (fmtToks e) = .ok (canonize e) ∧ erase (canonize e) = erase e := by
  obtain ⟨h1, h2, h3⟩ := format_is_canonical_print e
  refine ⟨parseTokens_of_eventually _ _ ?_, h3⟩
  rw [h1]; exact parseLambda_fmt_canonical _ h2

/-- … and for every token list the parser accepts, format-then-parse is the identity on the result -/
theorem parse_format_parse (ts : List Tok) (e : Expr) (h : parseTokens ts = .ok e) :
    parseTokens (fmtToks e) = .ok e :=
  parseTokens_of_eventually _ _ (parse_fmt_parse _ ts e h).1

/-! ## Statement level: the whole image of `program()`, and the fixed fuel -/

/-- the fixed fuel of `parseProgramToks` (2·tokens + 6) always suffices: more fuel never changes the answer of
the statement-level parser (whatever the answer is: a program, a syntax error, "not covered") -/
theorem program_fuel_adequate (ts : List Tok) (k : Nat) :
    parseStmts (2 * ts.length + 6 + k) ts = parseProgramToks ts :=
  parseStmts_stable ts k

/-- `parse_format_program` WITHOUT a fuel quantifier: `program()` at its fixed fuel reads the formatted tokens of
every well-formed program back to the identical program -/
theorem parse_format_program_fixed (p : Program) (h : progWF p = true) :
    parseProgramToks (fmtProgram p) = .ok p :=
  parseProgramToks_of_eventually _ _ (parse_format_program p h)

/-- … and formatting is stable at once -/
theorem format_program_stable_fixed (p q : Program) (h : progWF p = true)
    (hq : parseProgramToks (fmtProgram p) = .ok q) : fmtProgram q = fmtProgram p := by
  rw [parse_format_program_fixed p h] at hq
  cases hq
  rfl

/-- THE IMAGE of the statement-level parser, for every token list and every fuel: whatever `program()` returns is
well formed statement by statement – every expression canonical (the invariants of both loops of `precedence`),
every chain headed by an identifier or a call and non-empty, every `|` link with its parentheses. The analogue of
`parser_image_canonical` one level up. -/
theorem program_image_wellformed (f : Nat) (ts : List Tok) (p : Program) (h : parseStmts f ts = .ok p) :
    progCoreWF p = true :=
  progSpec f ts p h

/-- `progWF` is exactly that plus the separation of expression statements from their predecessors -/
theorem progWF_iff (p : Program) : progWF p = true ↔ (progCoreWF p = true ∧ sepOK p = true) :=
  ⟨progWF_core_sep p, fun h => progWF_of_core p h.1 h.2⟩

/-- `program_image_roundtrip` (was: stated, not proved), with the hypothesis it NEEDS: for every token list the
statement-level parser accepts, if no expression statement of the result prints with a leading `(` or `-`
(`sepOK`, decidable, measured on every script as branch `prog-sep-ok`; every chain, lambda, list, identifier,
literal and `!` statement qualifies), then formatting the program and parsing the tokens – at the fixed fuel –
gives the identical program, and the tokens are stable. -/
theorem program_image_roundtrip_partial (f : Nat) (ts : List Tok) (p : Program) (h : parseStmts f ts = .ok p)
    (hs : sepOK p = true) : parseProgramToks (fmtProgram p) = .ok p :=
  parse_format_program_fixed p (image_progWF f ts p h hs)

/-- non-vacuity: `var x = (a + b) * c  x|f(1)` is accepted, separated, and round-trips -/
example : (match parseProgramToks [.sym .var, .id "x", .sym .asgn, .lp, .id "a", .op .TokenPlus, .id "b", .rp,
      .op .TokenMult, .id "c", .id "x", .sym .pipe, .id "f", .lp, .lit (.num (.int 10 1)), .rp] with
    | .ok p => sepOK p && p.length == 2
    | _ => false) = true := by decide

/-- what the re-parse of the formatted program looks like: (statements before, statements after) -/
def stmtCounts (ts : List Tok) : Option (Nat × Nat) :=
  match parseProgramToks ts with
  | .ok p =>
    match parseProgramToks (fmtProgram p) with
    | .ok q => some (p.length, q.length)
    | _ => none
  | _ => none

/-- The FULL statement (no `sepOK`) is FALSE – of the model and of the real code (found by this proof attempt,
confirmed on /repo: finding `stray-expr-statement`): Format drops the parentheses around a non-binary operand,
TICKscript has no statement separator, so `var x = (a)  (b + c)` – two statements – is printed
`var x = a (b + c)`, ONE statement (the call `a(b + c)`) … -/
theorem program_image_roundtrip_counterexample_call :
    stmtCounts [.sym .var, .id "x", .sym .asgn, .lp, .id "a", .rp, .lp, .id "b", .op .TokenPlus, .id "c", .rp]
      = some (2, 1) := by decide

/-- … and `var x = 1  (-a)` is printed `var x = 1 -a`: the subtraction `1 - a` -/
theorem program_image_roundtrip_counterexample_minus :
    stmtCounts [.sym .var, .id "x", .sym .asgn, .lit (.num (.int 10 1)), .lp, .op .TokenMinus, .id "a", .rp]
      = some (2, 1) := by decide

/-! ## Character level, all atom kinds and both lexer states -/

/-- the lexer STATE matters for two operand texts. `/re/`: in the state "an operand is expected" it is one regex
token … -/
theorem regex_lexes_where_operand_expected (d : Char) (L : List Char) (hd : d ≠ '/') (ha : isAscii d = true)
    (hs : rxScanOK (d :: L) = true) (f : Nat) (rest : List Char) (acc : List RTok) :
    lexLoop (f + 1) false ('/' :: (d :: L) ++ '/' :: rest) acc =
      lexLoop f true rest (.regex (String.ofList ('/' :: (d :: L) ++ ['/'])) :: acc) :=
  lex_regex_false d L hd ha hs f rest acc

/-- … in the state "after an operand" the same text starts with the DIVISION operator … -/
theorem regex_is_division_after_operand (d : Char) (R : List Char) (hd : d ≠ '/') (f : Nat) (acc : List RTok) :
    lexLoop (f + 1) true ('/' :: d :: R) acc = lexLoop f false (d :: R) (.op .TokenDiv :: acc) :=
  lex_regex_true_is_div d R hd f acc

/-- … except directly after `=~` / `!~`, where the operator branch scans the regex itself (this is how
`"host" =~ /re/` is read although an operand precedes the operator) -/
theorem regex_after_match_operator (o : BinOp) (ho : isRxOp o = true) (L : List Char) (hs : rxScanOK L = true)
    (f : Nat) (rest : List Char) (acc : List RTok) :
    lexLoop (f + 1) true (' ' :: opChars o ++ ' ' :: ('/' :: L ++ '/' :: rest)) acc =
      lexLoop f true rest (.regex (String.ofList ('/' :: L ++ ['/'])) :: .op o :: acc) :=
  lex_rxop o ho L hs f rest acc

example : rxScanOK "^a\\/b.*$".toList = true := by decide

/-- `*`: the star operand where an operand is expected (the lexer stays in that state), the multiplication
operator after an operand -/
theorem star_lexes_by_state (f : Nat) (R : List Char) (acc : List RTok) :
    lexLoop (f + 1) false ('*' :: R) acc = lexLoop f false R (.star :: acc) ∧
    lexLoop (f + 1) true ('*' :: R) acc = lexLoop f false R (.op .TokenMult :: acc) :=
  ⟨lex_star_false f R acc, lex_star_true f R acc⟩

/-- the per-token hypothesis discharged for EVERY atom kind, by a decidable condition on the atom and the lexer
state it is read in (`atomLexOK`): booleans; references and single-quoted strings not ending in a backslash;
triple-quoted strings whose content does not run the scanner's quote counter down (`tripleSafe`); decimal
integers, octal integers ≥ 0, floats `digits.digits`; durations printed from their value (a multiple of 1us:
every unit w d h m s ms u) or with their literal kept (digits and any unit the lexer knows, incl. µ); a NEGATIVE
integer, float or duration (built in code) is TWO tokens, unary minus and the absolute value; a regex – in state false only – whose literal starts with an
ASCII character other than `/` and keeps every `/` escaped. -/
theorem atom_lexes (b : Bool) (a : Atom) (h : atomLexOK b a = true) : AtomLexIn b a :=
  atomLexOK_sound b a h

example : atomLexOK true (.num (.int 10 (-42))) = true ∧ atomLexOK true (.num (.int 8 8)) = true ∧
    atomLexOK true (.num (.flt "100.125")) = true ∧ atomLexOK true (.dur 5400000000000 "") = true ∧
    atomLexOK true (.dur 9000 "9µ") = true ∧ atomLexOK true (.str "a\\" false) = true ∧
    atomLexOK true (.str "say 'hi' there" true) = true ∧ atomLexOK false (.rx "a/b" "") = true ∧
    atomLexOK true (.rx "a/b" "") = false ∧ atomLexOK true (.num (.flt "-2.5")) = true ∧
    atomLexOK true (.dur (-60000000000) "") = true := by decide

/-- a negative duration is printed as `-` and the text of its absolute value (so it is read as unary minus) -/
theorem negative_duration_text (d : Int) (h : d < 0) :
    (formatDuration d).toList = '-' :: (formatDuration (-d)).toList :=
  formatDuration_neg d h

/-- `lexer_reads_formatted` for all atom kinds and both states: for every tree that passes the decidable,
state-threaded check `lexOK` (each operand token checked in the state the lexer is in when it reaches it: the
left operand inherits the state, `(`, unary operators and ordinary binary operators leave state false, AND / OR
leave state true, a regex directly after `=~` / `!~` is scanned by the operator branch; a star is accepted as a
whole call argument or as the whole expression), the lexer – with its fixed fuel – turns the printed TEXT back
into the raw token sequence of the tree. -/
theorem lexer_reads_formatted_all (e : Expr) (h : isStar e = true ∨ lexOK e false false = true) :
    lex (fmtChars e) = .ok (rawToksS e false) := by
  refine lex_fmtCharsS e ?_
  rcases h with h | h
  · exact Or.inl h
  · exact Or.inr (lexOK_sound e false false h)

/-- non-vacuity: `"host" =~ /^a\/b/ AND f(*, -3, 1.5, 90m) > -(x + 1)` – regex after the match operator,
keyword operator, star argument, negative number, float, duration, unary over derived parentheses -/
example : lexOK (.bin .TokenAnd
      (.bin .TokenRegexEqual (.lit (.ref "host")) (.lit (.rx "^a/b" "^a\\/b")) false)
      (.bin .TokenGreater
        (.call "f" [.lit .star, .lit (.num (.int 10 (-3))), .lit (.num (.flt "1.5")), .lit (.dur 5400000000000 "90m")])
        (.un .neg (.bin .TokenPlus (.id "x") (.lit (.num (.int 10 1))) false)) false) false) false false = true := by
  decide

/-- a regex directly after AND / OR is NOT read back (the lexer is in the state "after an operand" there: `/` is
the division operator) – the state-dependent check says so -/
example : lexOK (.bin .TokenOr (.id "a") (.lit (.rx "x" "x")) false) false false = false := by decide

/-- `lexer_decodes_formatted` (was: stated, not proved; the hypotheses it needs are now explicit and decidable):
for every tree that passes `lexOK` (above) and `decOK` (every literal VALUE is one its printed token denotes:
integers within int64, floats in canonical spelling, durations a multiple of 1us within int64 or with a literal
that denotes the value, regex literal denoting the regex and passing the bracket check that stands in for
regexp.Compile), lexing the printed text and decoding the raw tokens (`newNumber`, `newDur`, `newString`,
`newRegex`, `newReference`) gives exactly the decoded tokens of the NORMALISED tree: each literal with the
spelling that was printed, a negative number as unary minus applied to its absolute value. -/
theorem lexer_decodes_formatted (e : Expr) (h1 : isStar e = true ∨ lexOK e false false = true)
    (h2 : decOK e = true) : (lex (fmtChars e)).bind decodeAll = .ok (fmtToks (norm e)) :=
  lex_decode_fmt e h1 h2

/-- … hence the whole pipeline text → lexer → decoder → parser returns the normalised tree with the Parens flags
the grammar needs, equal to it up to Parens flags: Format followed by ParseLambda, at CHARACTER level, for every
tree shape. -/
theorem format_then_parse_chars (e : Expr) (h1 : isStar e = true ∨ lexOK e false false = true)
    (h2 : decOK e = true) :
    ((lex (fmtChars e)).bind decodeAll).bind parseTokens = .ok (canonize (norm e)) ∧
    erase (canonize (norm e)) = erase (norm e) := by
  rw [lexer_decodes_formatted e h1 h2]
  exact parse_format (norm e)

example : decOK (.bin .TokenAnd
      (.bin .TokenRegexEqual (.lit (.ref "host")) (.lit (.rx "^a/b" "^a\\/b")) false)
      (.bin .TokenGreater
        (.call "f" [.lit .star, .lit (.num (.int 10 (-3))), .lit (.num (.flt "1.5")), .lit (.dur 5400000000000 "90m")])
        (.un .neg (.bin .TokenPlus (.id "x") (.lit (.num (.int 10 1))) false)) false) false) = true := by
  decide

/-! ## Float literals of every magnitude (NumberNode.Format / newNumber on IsFloat numbers)

`F64.Val` is an exact binary64 value `m * 2^e`; `F64.parse` rounds the decimal text correctly (ties to even, overflow
is a parse error); `F64.fmt` prints the shortest decimal that parses back (the closer one of two), in %f layout with
the `.0` NumberNode.Format appends to a whole value. `Num.flt` keeps the float as this canonical text. -/

/-- the property for one float, on binary64 VALUES: the text Format prints for `v` is read back as `v` -/
theorem float_text_parses_back (v : F64.Val) (t : List Char) (h : F64.fmt v = some t) : F64.parse t = some v :=
  F64.fmt_parses_back v t h

/-- … and it is `digits . digits` with both sides non-empty – in particular a WHOLE value is printed with a decimal
point (so that it is read back as a float, not as an integer), and never with a sign or an exponent -/
theorem float_text_shape (v : F64.Val) (t : List Char) (h : F64.fmt v = some t) : fltTextOK t = true :=
  F64.fmt_shape v t h

/-- a float literal of ANY spelling (any number of digits, `3.`, `.5`, leading zeros, up to the largest finite
binary64): the text Format prints for the number `newNumber` read denotes the same binary64 value as the source
text -/
theorem float_literal_value_preserved (text c : String) (h : newNumber text = .ok (.flt c)) :
    F64.parse c.toList = F64.parse text.toList ∧ (F64.parse text.toList).isSome = true := by
  have hc : canonFloat text.toList = .ok c := by
    unfold newNumber at h
    simp only at h
    split at h
    · simp at h
    · split at h
      · cases hcf : canonFloat text.toList with
        | ok c' =>
          rw [hcf] at h
          simp only [Res.bind, Res.ok.injEq, Num.flt.injEq] at h
          rw [h]
        | err => rw [hcf] at h; simp [Res.bind] at h
        | na w => rw [hcf] at h; simp [Res.bind] at h
      · split at h <;> simp at h
  obtain ⟨v, t, hv, ht, hct⟩ := canonFloat_ok_iff _ c hc
  rw [hct, String.toList_ofList, F64.fmt_parses_back v t ht, hv]
  exact ⟨rfl, rfl⟩

/-- formatting is idempotent on floats: the canonical text is its own canonical text (a second Format pass after
re-parsing prints the same characters) -/
theorem float_format_idempotent (cs : List Char) (c : String) (h : canonFloat cs = .ok c) :
    canonFloat c.toList = .ok c :=
  canonFloat_idem cs c h

/-- every float the parser can produce passes the per-token checks of the character-level theorems: the hypotheses
`lexOK` / `decOK` of `lexer_reads_formatted_all` / `lexer_decodes_formatted` are discharged for the whole image of
the float branch of `newNumber` (was: floats of at most 15 significant digits, checked case by case) -/
theorem float_literal_lex_dec_ok (text c : String) (h : newNumber text = .ok (.flt c)) (b : Bool) :
    atomLexOK b (.num (.flt c)) = true ∧ atomDecOK (.num (.flt c)) = true :=
  newNumber_float_ok text c h b

/-- hence, at CHARACTER level: Format of a float literal node that came out of the parser, read by lexer, decoder
and parser, is the same node -/
theorem float_literal_format_then_parse (text c : String) (h : newNumber text = .ok (.flt c)) :
    ((lex (fmtChars (.lit (.num (.flt c))))).bind decodeAll).bind parseTokens = .ok (.lit (.num (.flt c))) := by
  obtain ⟨h1, h2⟩ := newNumber_float_ok text c h false
  have hn : fltNegText c.toList = none := by
    simp only [atomLexOK, Bool.or_eq_true] at h1
    rcases h1 with h1 | h1
    · exact fltTextOK_not_neg _ h1
    · cases hf : fltNegText c.toList with
      | none => rfl
      | some t =>
        -- a canonical text from the parser never starts with `-`
        have hc : canonFloat text.toList = .ok c := by
          unfold newNumber at h
          simp only at h
          split at h
          · simp at h
          · split at h
            · cases hcf : canonFloat text.toList with
              | ok c' =>
                rw [hcf] at h
                simp only [Res.bind, Res.ok.injEq, Num.flt.injEq] at h
                rw [h]
              | err => rw [hcf] at h; simp [Res.bind] at h
              | na w => rw [hcf] at h; simp [Res.bind] at h
            · split at h <;> simp at h
        obtain ⟨v, t', _, ht, hct⟩ := canonFloat_ok_iff _ c hc
        have := fltTextOK_not_neg _ (F64.fmt_shape v t' ht)
        rw [hct, String.toList_ofList] at hf
        rw [this] at hf
        exact absurd hf (by simp)
  have hfinal := format_then_parse_chars (.lit (.num (.flt c))) (Or.inr (by simpa [lexOK] using h1))
    (by simpa [decOK] using h2)
  have hnorm : norm (.lit (.num (.flt c))) = .lit (.num (.flt c)) := by
    simp [norm, normLit, hn]
  rw [hnorm] at hfinal
  simpa [canonize] using hfinal.1

/-- non-vacuity and regression values: whole floats at and beyond 2^63 (1e19, 2^63, 2^64 - the shortest text of a
power of two is NOT its exact expansion -, 1e30), a value that needs 17 digits, a literal with more digits than a
binary64 keeps (tie at 2^53+1 rounds to even), `3.` / `.5` spellings, a tiny fraction -/
example : newNumber "10000000000000000000.0" = .ok (.flt "10000000000000000000.0") ∧
    newNumber "9223372036854775808.0" = .ok (.flt "9223372036854776000.0") ∧
    newNumber "9223372036854776000.0" = .ok (.flt "9223372036854776000.0") ∧
    newNumber "18446744073709551616.0" = .ok (.flt "18446744073709552000.0") ∧
    newNumber "1000000000000000000000000000000.0" = .ok (.flt "1000000000000000000000000000000.0") ∧
    newNumber "0.30000000000000004" = .ok (.flt "0.30000000000000004") ∧
    newNumber "0.1000000000000000055511151231257827" = .ok (.flt "0.1") ∧
    newNumber "9007199254740993.0" = .ok (.flt "9007199254740992.0") ∧
    newNumber "3." = .ok (.flt "3.0") ∧ newNumber ".5" = .ok (.flt "0.5") ∧
    newNumber "0.0000001" = .ok (.flt "0.0000001") := by decide

/-- the binary64 values behind some of them: 1e19 = 0x8AC7230489E80000 = 4882812500000000 * 2^11, 2^63, 0.1 -/
example : F64.parse "10000000000000000000.0".toList = some ⟨4882812500000000, 11⟩ ∧
    F64.parse "9223372036854775808.0".toList = some ⟨4503599627370496, 11⟩ ∧
    F64.parse "9223372036854775807.0".toList = some ⟨4503599627370496, 11⟩ ∧
    F64.parse "0.1".toList = some ⟨7205759403792794, -56⟩ ∧
    F64.fmt ⟨4503599627370496, 11⟩ = some "9223372036854776000.0".toList := by decide

set_option maxRecDepth 4000 in
set_option exponentiation.threshold 1100 in
/-- the ends of the range: the largest finite binary64 (2^1024 - 2^971, 309 digits) is accepted and printed in its
shortest spelling `17976931348623157` followed by 292 zeros and `.0`; everything below half an ulp above it still
rounds to it, half an ulp above it the literal is rejected (ParseFloat: value out of range) like an integer literal
beyond int64; the smallest subnormal 2^-1074 is printed `0.` 323 zeros `5`; half of it is 0, three halves round to
even -/
example : F64.round (2 ^ 1024 - 2 ^ 971) 1 = some ⟨9007199254740991, 971⟩ ∧
    F64.round (2 ^ 1024 - 2 ^ 971 + 2 ^ 970 - 1) 1 = some ⟨9007199254740991, 971⟩ ∧
    F64.round (2 ^ 1024 - 2 ^ 971 + 2 ^ 970) 1 = none ∧
    (F64.fmt ⟨9007199254740991, 971⟩).map (fun t => (t.take 20, t.length, t.drop 307)) =
      some ("17976931348623157000".toList, 311, "00.0".toList) ∧
    F64.round 1 (2 ^ 1074) = some ⟨1, -1074⟩ ∧ F64.round 1 (2 ^ 1075) = some ⟨0, -1074⟩ ∧
    F64.round 3 (2 ^ 1075) = some ⟨2, -1074⟩ ∧
    (F64.fmt ⟨1, -1074⟩).map (fun t => (t.take 4, t.length, t.drop 324)) = some ("0.00".toList, 326, "05".toList) := by
  decide

/-- what a whole-valued float would become if Format went through an int64 (the shortcut
`strconv.FormatInt(int64(f), 10) + ".0"`): exact below 2^63, but the conversion wraps at 2^63 – the text of 1e19
would be that of another number. The model prints the float's own digits. -/
theorem whole_float_is_not_printed_through_int64 :
    canonFloat "10000000000000000000.0".toList = .ok "10000000000000000000.0" ∧
    toString (wrap64 10000000000000000000) ++ ".0" ≠ "10000000000000000000.0" := by decide

/-- `default-int-field` (recorded finding, real code: pipeline JSON of |default().field('n', 9223372036854775807)): an
int64 that goes through float64 – as every integer default does in DefaultNode.UnmarshalJSON – is another number
beyond 2^53 -/
theorem default_int_field_json_counterexample :
    ∃ v : Int, -int64Max ≤ v ∧ v ≤ int64Max ∧ roundF64 v ≠ v :=
  ⟨9223372036854775807, by decide, by decide, by decide⟩

/-- `default-zero-field` BEFORE the repair aaa5b64 (real code: pipeline/tick of |default().field('x', 0.0)): the
builder call `Dot("field", key, value)` that pipeline/tick/default.go used drops a zero VALUE and keeps the key: the
link was printed `.field('x')` with one argument, which is not the property call the pipeline came from (and does
not build) -/
theorem old_default_zero_field_tick_counterexample :
    (Tick.applyCall "Dot" "field" [.str "x", .flt "0.0"] [Tick.mkLink .pipe "default" []]).map
      (fun ls => ls.map (fun l => (l.name, l.args.map List.length))) =
    some [("default", some 0), ("field", some 1)] := by decide

/-- … the repaired builder call `DotZeroValueOK("field", key, value)` keeps both arguments, for every zero value
TICKscript can spell (0.0, -0.0, 0, FALSE, '') -/
theorem default_zero_field_tick_repaired :
    [Tick.Val.flt "0.0", .flt "-0.0", .int 0, .bool false, .str ""].all (fun z =>
      (Tick.applyCall "DotZeroValueOK" "field" [.str "x", z] [Tick.mkLink .pipe "default" []]).map
        (fun ls => ls.map (fun l => (l.name, l.args.map List.length))) ==
      some [("default", some 0), ("field", some 2)]) = true := by decide

/-- stated, not proved: `F64.fmt` finds a text for EVERY canonical binary64 value (classically: 17 significant
digits always parse back; the search allows 20). Evaluated above on the boundary values and measured on every
float of every case of the run (a `none` would surface as branch `na:float-no-short-decimal`). -/
def float_format_total_stmt : Prop :=
  ∀ cs v, F64.parse cs = some v → (F64.fmt v).isSome = true

end Kap.Props.C13
