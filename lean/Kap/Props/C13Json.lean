/-
Property C13 – pipeline JSON, structurally: what the per-node `MarshalJSON` methods of package pipeline WRITE
against what the `UnmarshalJSON` methods and `Pipeline.unmarshalNode` (pipeline/json.go) READ / KNOW.

All tables are regenerated from the Go source on every run by /verif/extract/c13json (Kap/Gen/C13Json.lean):
  jsonMarshal / jsonUnmarshal : (Go node type, node kind, sorted top-level JSON keys written / read), keys computed
                                with the field rules of encoding/json; "*" = computed keys (the UDF option map)
  jsonDecoderKinds            : kinds `unmarshalNode` can dispatch (literal keys of the tables of json.go)
  jsonDispatch                : (kind, table, special-case function, Go node type the entry constructs)
  jsonDispatchReads           : (kind, keys the dispatcher itself decodes before the node exists)
  jsonNoop, jsonSpecialUnused, jsonUnknown (fail closed)

The four defects repaired earlier (87e021a, 7d115a3, 35a2cc3, 7eed78f) were asymmetries of exactly this kind
(7d115a3: Marshal wrote kind "barrier", the decoder did not know it). The theorems below are the symmetric closure:
  * every key an UnmarshalJSON reads is written by the MarshalJSON of the same node type and kind, and back;
  * every kind a MarshalJSON writes is a kind the decoder dispatches (found "trickle" missing: repaired in /repo);
  * the node type the decoder constructs for a kind accepts that kind in its UnmarshalJSON;
  * every key the dispatcher reads itself is written by the node it constructs – EXCEPT "tags" of top / bottom.
Every check is a Bool function over the tables, proved `= true` by kernel evaluation, and each comes with the
∀/∃ statement derived from it by a soundness lemma that holds for ALL tables; `*_rejects` theorems show that the
checkers refuse hand-made asymmetric tables.

Asymmetries found in the real code (exact lists: `json_undecodable`, `json_accept_only`, `json_dispatch_read_only`):
  * kind "trickle" (TrickleNode.MarshalJSON) was in no table of json.go and `chainnodeAlias` had no `Trickle`: a
    pipeline with `|trickle()` was written by Pipeline.MarshalJSON and refused by Pipeline.Unmarshal
    ("unknown function type trickle") – the 7d115a3 class. REPAIRED in /repo (fix: commit, see findings/C13.txt);
    `json_kinds_decodable` is now the full theorem, `json_kinds_decodable_before_fix` keeps the old table refused.
  * kind "holtWintersWithFit" is dispatched and accepted by InfluxQLNode.UnmarshalJSON but no constructor ever sets
    it (both HoltWinters and HoltWintersWithFit build Method "holtWinters"): accepted, never written (harmless).
  * unmarshalTopBottom decodes a key "tags" that InfluxQLNode.MarshalJSON never writes (the tags travel in "args"):
    the node is constructed with Top(0, field) – no tags, and the reducer closure keeps num = 0.
-/
import Kap.Gen.C13Json

namespace Kap.Props.C13Json
open Kap.C13

abbrev Entry := String × String × List String
abbrev Disp := String × String × String × String

/-! ## The checkers (Bool) and their meaning (for ALL tables) -/

def subsetB (a b : List String) : Bool := a.all fun k => b.contains k

/-- every key read is a key written by the MarshalJSON of the same Go type and the same kind -/
def fieldsSymmetric (us ms : List Entry) : Bool :=
  us.all fun u => ms.any fun m => m.1 == u.1 && m.2.1 == u.2.1 && subsetB u.2.2 m.2.2

/-- the same per Go type only (the kind is not compared) -/
def fieldsSymmetricTypes (us ms : List Entry) : Bool :=
  us.all fun u => ms.any fun m => m.1 == u.1 && subsetB u.2.2 m.2.2

def kindsDecodable (ms : List Entry) (ks : List String) : Bool := ms.all fun m => ks.contains m.2.1

/-- the node type constructed for a kind has an UnmarshalJSON that accepts the kind -/
def dispatchAccepts (ds : List Disp) (us : List Entry) : Bool :=
  ds.all fun d => us.any fun u => u.1 == d.2.2.2 && u.2.1 == d.1

/-- a key the dispatcher reads is written by the MarshalJSON of the node type it constructs for that kind -/
def dispatchKeyWritten (ds : List Disp) (ms : List Entry) (kind key : String) : Bool :=
  ds.any fun d => d.1 == kind && ms.any fun m => m.1 == d.2.2.2 && m.2.2.contains key

theorem subsetB_iff {a b : List String} : subsetB a b = true ↔ ∀ k ∈ a, k ∈ b := by
  simp [subsetB, List.all_eq_true]

theorem fieldsSymmetric_iff {us ms : List Entry} :
    fieldsSymmetric us ms = true ↔
      ∀ u ∈ us, ∃ m ∈ ms, m.1 = u.1 ∧ m.2.1 = u.2.1 ∧ ∀ k ∈ u.2.2, k ∈ m.2.2 := by
  simp [fieldsSymmetric, List.all_eq_true, List.any_eq_true, subsetB_iff, and_assoc]

theorem fieldsSymmetricTypes_iff {us ms : List Entry} :
    fieldsSymmetricTypes us ms = true ↔ ∀ u ∈ us, ∃ m ∈ ms, m.1 = u.1 ∧ ∀ k ∈ u.2.2, k ∈ m.2.2 := by
  simp [fieldsSymmetricTypes, List.all_eq_true, List.any_eq_true, subsetB_iff]

theorem kindsDecodable_iff {ms : List Entry} {ks : List String} :
    kindsDecodable ms ks = true ↔ ∀ m ∈ ms, m.2.1 ∈ ks := by
  simp [kindsDecodable, List.all_eq_true]

theorem dispatchAccepts_iff {ds : List Disp} {us : List Entry} :
    dispatchAccepts ds us = true ↔ ∀ d ∈ ds, ∃ u ∈ us, u.1 = d.2.2.2 ∧ u.2.1 = d.1 := by
  simp [dispatchAccepts, List.all_eq_true, List.any_eq_true]

theorem dispatchKeyWritten_iff {ds : List Disp} {ms : List Entry} {kind key : String} :
    dispatchKeyWritten ds ms kind key = true ↔
      ∃ d ∈ ds, d.1 = kind ∧ ∃ m ∈ ms, m.1 = d.2.2.2 ∧ key ∈ m.2.2 := by
  simp [dispatchKeyWritten, List.any_eq_true]

/-! ## The exception lists, COMPUTED from the tables -/

/-- (Go type, kind) an UnmarshalJSON accepts although no MarshalJSON of that type writes the kind -/
def jsonAcceptOnly : List (String × String) :=
  (Gen.jsonUnmarshal.filter fun u => !(Gen.jsonMarshal.any fun m => m.1 == u.1 && m.2.1 == u.2.1)).map
    fun u => (u.1, u.2.1)

/-- (Go type, key) written by a MarshalJSON and read by no UnmarshalJSON of the same type and kind -/
def jsonWriteOnly : List (String × String) :=
  Gen.jsonMarshal.flatMap fun m =>
    (m.2.2.filter fun k =>
      !(Gen.jsonUnmarshal.any fun u => u.1 == m.1 && u.2.1 == m.2.1 && u.2.2.contains k)).map fun k => (m.1, k)

/-- kinds some MarshalJSON writes that `unmarshalNode` cannot dispatch -/
def jsonUndecodable : List String :=
  (Gen.jsonMarshal.filter fun m => !Gen.jsonDecoderKinds.contains m.2.1).map (·.2.1)

/-- (kind, key) the dispatcher decodes itself although the node type it constructs never writes the key -/
def jsonDispatchReadOnly : List (String × String) :=
  Gen.jsonDispatchReads.flatMap fun r =>
    (r.2.filter fun k => !dispatchKeyWritten Gen.jsonDispatch Gen.jsonMarshal r.1 k).map fun k => (r.1, k)

/-! ## Theorems over the regenerated tables -/

set_option maxRecDepth 8192

/-- the extractor recognised every shape (fail closed) -/
theorem json_no_unknown : Gen.jsonUnknown = [] := by decide

/-- exactly one accepted-but-never-written kind -/
theorem json_accept_only : jsonAcceptOnly = [("InfluxQLNode", "holtWintersWithFit")] := by decide

/-- FULL statement (false today only because of `holtWintersWithFit`, see `json_fields_symmetric_counterexample`) -/
def json_fields_symmetric_stmt : Prop :=
  ∀ u ∈ Gen.jsonUnmarshal, ∃ m ∈ Gen.jsonMarshal, m.1 = u.1 ∧ m.2.1 = u.2.1 ∧ ∀ k ∈ u.2.2, k ∈ m.2.2

/-- Bool form: the unmarshal table without the accept-only kinds is symmetric to the marshal table -/
theorem json_fields_symmetric_bool :
    fieldsSymmetric (Gen.jsonUnmarshal.filter fun u => !jsonAcceptOnly.contains (u.1, u.2.1)) Gen.jsonMarshal = true := by
  decide

/-- every key an UnmarshalJSON reads is written by the MarshalJSON of the same Go type and the same kind -/
theorem json_fields_symmetric_partial :
    ∀ u ∈ Gen.jsonUnmarshal, (u.1, u.2.1) ∉ [("InfluxQLNode", "holtWintersWithFit")] →
      ∃ m ∈ Gen.jsonMarshal, m.1 = u.1 ∧ m.2.1 = u.2.1 ∧ ∀ k ∈ u.2.2, k ∈ m.2.2 := by
  intro u hu hne
  refine fieldsSymmetric_iff.mp json_fields_symmetric_bool u ?_
  rw [json_accept_only]
  simp only [List.mem_filter, hu, true_and, Bool.not_eq_true', List.contains_eq_mem, decide_eq_false_iff_not]
  exact hne

/-- the exclusion is necessary: the accepted kind `holtWintersWithFit` has no writer -/
theorem json_fields_symmetric_counterexample : ¬ json_fields_symmetric_stmt := by
  intro h
  have hb : fieldsSymmetric Gen.jsonUnmarshal Gen.jsonMarshal = true := fieldsSymmetric_iff.mpr h
  revert hb
  decide

/-- per Go type there is NO exception: every key any UnmarshalJSON reads is written by the MarshalJSON of its type -/
theorem json_fields_symmetric_types :
    ∀ u ∈ Gen.jsonUnmarshal, ∃ m ∈ Gen.jsonMarshal, m.1 = u.1 ∧ ∀ k ∈ u.2.2, k ∈ m.2.2 :=
  fieldsSymmetricTypes_iff.mp (by decide)

/-- nothing is written that is not read back -/
theorem json_write_only_none : jsonWriteOnly = [] := by decide

/-- the other direction, in full: every (type, kind) written has a reader of the same type and kind, and every key
written is read -/
theorem json_written_fields_read :
    ∀ m ∈ Gen.jsonMarshal, ∃ u ∈ Gen.jsonUnmarshal, u.1 = m.1 ∧ u.2.1 = m.2.1 ∧ ∀ k ∈ m.2.2, k ∈ u.2.2 :=
  fieldsSymmetric_iff.mp (by decide)

/-- no written kind is unknown to the decoder (the check found `|trickle()` written by TrickleNode.MarshalJSON and
dispatched by no table of json.go – the 7d115a3 class; repaired in /repo, `fixed:` line in findings/C13.txt) -/
theorem json_undecodable : jsonUndecodable = [] := by decide

/-- FULL statement: every kind a MarshalJSON writes is a kind `Pipeline.unmarshalNode` dispatches -/
theorem json_kinds_decodable : ∀ m ∈ Gen.jsonMarshal, m.2.1 ∈ Gen.jsonDecoderKinds := by
  have h : kindsDecodable Gen.jsonMarshal Gen.jsonDecoderKinds = true := by decide
  exact kindsDecodable_iff.mp h

/-- the table before the repair (the trickle entry without a decoder kind) is refused by the same checker -/
theorem json_kinds_decodable_before_fix :
    kindsDecodable Gen.jsonMarshal (Gen.jsonDecoderKinds.filter (· != "trickle")) = false := by decide

/-- a kind is registered in one table only (else the first table `unmarshalNode` looks at would win silently) -/
theorem json_decoder_kinds_distinct : Gen.jsonDecoderKinds.Nodup := by decide

/-- the decoder kinds are exactly the kinds of the dispatch table -/
theorem json_decoder_kinds_eq : Gen.jsonDecoderKinds = Gen.jsonDispatch.map (·.1) := by decide

/-- for every kind the decoder knows, the node type it constructs has an UnmarshalJSON that accepts this kind
(a table entry wired to the wrong chain method would be decoded into a node that refuses its own JSON) -/
theorem json_dispatch_type_accepts :
    ∀ d ∈ Gen.jsonDispatch, ∃ u ∈ Gen.jsonUnmarshal, u.1 = d.2.2.2 ∧ u.2.1 = d.1 :=
  dispatchAccepts_iff.mp (by decide)

/-- exactly these keys are decoded by the dispatcher and never written -/
theorem json_dispatch_read_only : jsonDispatchReadOnly = [("bottom", "tags"), ("top", "tags")] := by decide

/-- FULL statement (false today: "tags" of top / bottom) -/
def json_dispatch_reads_written_stmt : Prop :=
  ∀ r ∈ Gen.jsonDispatchReads, ∀ k ∈ r.2,
    ∃ d ∈ Gen.jsonDispatch, d.1 = r.1 ∧ ∃ m ∈ Gen.jsonMarshal, m.1 = d.2.2.2 ∧ k ∈ m.2.2

/-- every key the dispatcher decodes itself (`field` of the InfluxQL kinds) is written by the node type it
constructs – except "tags" of top / bottom -/
theorem json_dispatch_reads_written_partial :
    ∀ r ∈ Gen.jsonDispatchReads, ∀ k ∈ r.2, (r.1, k) ∉ [("bottom", "tags"), ("top", "tags")] →
      ∃ d ∈ Gen.jsonDispatch, d.1 = r.1 ∧ ∃ m ∈ Gen.jsonMarshal, m.1 = d.2.2.2 ∧ k ∈ m.2.2 := by
  have h : (Gen.jsonDispatchReads.all fun r => r.2.all fun k =>
      [("bottom", "tags"), ("top", "tags")].contains (r.1, k) ||
        dispatchKeyWritten Gen.jsonDispatch Gen.jsonMarshal r.1 k) = true := by decide
  intro r hr k hk hne
  have := List.all_eq_true.mp (List.all_eq_true.mp h r hr) k hk
  rcases Bool.or_eq_true_iff.mp this with h1 | h2
  · exact absurd (by simpa using h1) hne
  · exact dispatchKeyWritten_iff.mp h2

theorem json_dispatch_reads_written_counterexample : ¬ json_dispatch_reads_written_stmt := by
  intro h
  have := h ("top", ["field", "tags"]) (by decide) "tags" (by decide)
  have hb : dispatchKeyWritten Gen.jsonDispatch Gen.jsonMarshal "top" "tags" = true := dispatchKeyWritten_iff.mpr this
  revert hb
  decide

/-- the nodes that write nothing are exactly the no-op node, and the only unregistered special-case function is the
dead `unmarshalStats` ("stats" is decoded through `chainFunctions`) -/
theorem json_noop_and_dead : Gen.jsonNoop = ["NoOpNode"] ∧ Gen.jsonSpecialUnused = ["unmarshalStats"] := by decide

/-! ## Non-vacuity and rejection -/

example : 50 ≤ Gen.jsonMarshal.length ∧ 50 ≤ Gen.jsonUnmarshal.length ∧ 50 ≤ Gen.jsonDecoderKinds.length ∧
    20 ≤ Gen.jsonDispatchReads.length := by decide

example : ("WindowNode", "window",
    ["align", "every", "everyCount", "fillPeriod", "id", "period", "periodCount", "typeOf"]) ∈ Gen.jsonMarshal := by decide

example : ∃ m ∈ Gen.jsonMarshal, m.1 = "WindowNode" ∧ "period" ∈ m.2.2 ∧ "every" ∈ m.2.2 :=
  ⟨("WindowNode", "window", ["align", "every", "everyCount", "fillPeriod", "id", "period", "periodCount", "typeOf"]),
    by decide, by decide⟩

example : "barrier" ∈ Gen.jsonDecoderKinds ∧ ("barrier", "chainFunctions", "", "BarrierNode") ∈ Gen.jsonDispatch := by decide

-- the hypotheses of the partial theorems are satisfiable on real entries
example : ∃ u ∈ Gen.jsonUnmarshal, (u.1, u.2.1) ∉ [("InfluxQLNode", "holtWintersWithFit")] :=
  ⟨("TrickleNode", "trickle", ["id", "typeOf"]), by decide, by decide⟩
example : ∃ m ∈ Gen.jsonMarshal, m.2.1 ∉ ["trickle"] :=
  ⟨("UnionNode", "union", ["id", "rename", "typeOf"]), by decide, by decide⟩

/-- a key read but not written is rejected -/
theorem fieldsSymmetric_rejects_key :
    fieldsSymmetric [("XNode", "x", ["id", "new", "typeOf"])] [("XNode", "x", ["id", "typeOf"])] = false := by decide

/-- a kind checked that differs from the kind written is rejected (copy-paste of another node's kind) -/
theorem fieldsSymmetric_rejects_kind :
    fieldsSymmetric [("XNode", "y", ["id", "typeOf"])] [("XNode", "x", ["id", "typeOf"])] = false := by decide

/-- the situation before 7d115a3: kind "barrier" written, not in the decoder tables -/
theorem kindsDecodable_rejects :
    kindsDecodable [("BarrierNode", "barrier", ["id", "typeOf"]), ("WindowNode", "window", ["id", "typeOf"])]
      ["window", "stream"] = false := by decide

/-- a table entry wired to a chain method of another node type is rejected -/
theorem dispatchAccepts_rejects :
    dispatchAccepts [("shift", "chainFunctions", "", "SampleNode")]
      [("ShiftNode", "shift", ["id"]), ("SampleNode", "sample", ["id"])] = false := by decide

end Kap.Props.C13Json
