/-
C14 — property theorems (every `theorem` in this module is a proof obligation; `bin/check C14` audits each one's
axioms). Helper lemmas live in Kap/Proofs/C14.lean; the model in Kap/Model/C14.lean is the transcription of
services/task_store/service.go + dao.go (after the two `fix:` commits of findings/C14.txt; `Variant.snapshot` keeps
the order of the pinned snapshot so that the repaired defects stay demonstrable).

Statement (properties.jsonl): through any sequence of create, update, enable, disable and delete requests and
restarts, the API shows exactly the tasks that were successfully defined with their last accepted definition, a task
is executing iff it is enabled and its start succeeded, and after a restart every enabled task is executing again.
Updating a template changes all tasks created from it or none of them.

What is PROVED here, for all states / requests / oracles (no size bound):
  * a request answered 400/404 leaves NO trace — tasks, templates, associations, executing set (all seven handlers);
  * the outcome of every start attempt is the oracle's (`startOK`), and a start touches nothing but that task's flag;
  * a (re)start of the process on ANY consistent file changes nothing stored and executes exactly the enabled tasks
    whose start succeeds; the running-state invariant (executing ⇒ stored ∧ enabled) holds afterwards;
  * delete keeps that invariant and, given it, leaves the ID neither stored nor executing (the Go code stops the task
    only when it is stored as enabled — without the invariant a deleted task would keep running).
What is proved by counterexample (`decide` on the model, replayed on the real code by corpus/C14/*.ops): the two
repaired defects on the snapshot order, and the four recorded findings on today's code.
What is only STATED (`…_stmt`, tied by the correspondence run and the spec oracle only): the refinement of the
catalogue spec over whole deviation-free histories, the invariant over all handlers, all-or-none for accepted /
rolled-back template updates.
-/
import Kap.Proofs.C14
namespace Kap.Props.C14
open Kap.C14

/-! ### Rejected requests -/

/-- **A rejected request leaves the catalogue unchanged** — every handler, every state, every oracle: when the
answer is 400 or 404, the tasks, the templates, the template associations and the executing set are exactly as
before (the repaired code; see `snapshot_rejected_create_leaves_association` for the pinned snapshot). -/
theorem rejected_request_leaves_no_trace (env : Env) (fail : List String) (w : World) (op : Op)
    (h : (handle Variant.fixed env fail w op).2 = .bad ∨ (handle Variant.fixed env fail w op).2 = .nf) :
    Same w (handle Variant.fixed env fail w op).1 :=
  handle_rejected env fail w op h

/-- … in particular a template update rejected by validation changes none of the tasks. -/
theorem template_update_rejected_changes_none (env : Env) (fail : List String) (w : World) (id newId script : String)
    (h : (updateTemplate env fail w id newId script).2 = .bad ∨ (updateTemplate env fail w id newId script).2 = .nf) :
    (updateTemplate env fail w id newId script).1.store.tasks = w.store.tasks :=
  (updateTemplate_rejected env fail w id newId script h).tasks

/-! ### Starting tasks -/

/-- **Its start succeeded** = the oracle: `startTask` answers `startOK`, stores nothing visible, and changes the
executing flag of that task only — to true exactly when the start succeeds. -/
theorem start_outcome_is_oracle (env : Env) (fail : List String) (w : World) (t : Task) :
    (startTask env fail w t).2 = startOK env fail t ∧
    (startTask env fail w t).1.store = w.store ∧
    (startTask env fail w t).1.exec = fun j => if j = t.id then (startOK env fail t || w.exec j) else w.exec j :=
  ⟨startTask_ok env fail w t, startTask_store env fail w t, startTask_exec env fail w t⟩

/-! ### Restart -/

/-- **After a restart every enabled task is executing again** (when its start succeeds), nothing else is, and the
stored catalogue is untouched — for ANY file whose task keys are consistent (clean restart or restart from a
snapshot at a transaction boundary alike). -/
theorem restart_restores (env : Env) (fail : List String) (s : Store) (br : List String) (h : Dom s) :
    (boot env fail s br).store = s ∧
    ∀ i, (boot env fail s br).exec i = true ↔
      ∃ t, s.tasks i = some t ∧ t.enabled = true ∧ startOK env fail t = true :=
  boot_spec env fail s br h

/-- The running-state invariant (executing ⇒ stored and enabled) holds after every process start. -/
theorem restart_establishes_invariant (env : Env) (fail : List String) (s : Store) (br : List String) (h : Dom s) :
    Inv (boot env fail s br) :=
  boot_inv env fail s br h

/-! ### Delete -/

/-- Delete preserves the running-state invariant … -/
theorem delete_preserves_invariant (w : World) (id : String) (h : Inv w) : Inv (deleteTask w id).1 :=
  deleteTask_inv w id h

/-- … and, given it, the deleted ID is neither shown nor executing afterwards. (`deleteTask` calls
`TaskMaster.DeleteTask` only when the stored status is Enabled: this is where executing ⇒ enabled is needed.) -/
theorem delete_removes_and_stops (w : World) (id : String) (h : Inv w) :
    (deleteTask w id).1.store.tasks id = none ∧ (deleteTask w id).1.exec id = false :=
  deleteTask_gone w id h

/-! ### Counterexamples: the repaired defects (snapshot order) and the recorded findings (today's code) -/

/-- corpus/C14/fixed-assoc-before-validation.ops, case w1. -/
def hijack : List Req :=
  [ ⟨.tcreate "T" "t0", [], none⟩,
    ⟨.create "a" { tmpl := "T", dbrps := ["db.rp"], vars := "v3" }, [], none⟩,   -- rejected: t0 does not build with v3
    ⟨.create "a" { script := "s0", dbrps := ["db.rp"] }, [], none⟩,               -- a plain task takes the ID
    ⟨.tupdate "T" "" "td", [], none⟩ ]

/-- Snapshot ef0888e: the rejected create leaves an association behind … -/
theorem snapshot_rejected_create_leaves_association :
    (run Variant.snapshot demoEnv (hijack.take 2)).store.assoc "T" "a" = true ∧
    (run Variant.snapshot demoEnv (hijack.take 2)).store.tasks "a" = none := by decide

/-- … and the template update then overwrites the unrelated task `a` (defect repaired by d5e8cfe). -/
theorem snapshot_rejected_create_hijacks_task :
    ((run Variant.snapshot demoEnv hijack).store.tasks "a").map (fun t => (t.script, t.tmpl)) = some ("td", "T") := by
  decide

/-- The repaired order leaves `a` alone. -/
theorem fixed_rejected_create_harmless :
    ((run Variant.fixed demoEnv hijack).store.tasks "a").map (fun t => (t.script, t.tmpl)) = some ("s0", "") := by
  decide

/-- corpus/C14/fixed-template-change-keeps-old-association.ops, case w1. -/
def retemplate : List Req :=
  [ ⟨.tcreate "T" "t0", [], none⟩, ⟨.tcreate "U" "t0", [], none⟩,
    ⟨.create "a" { tmpl := "T", dbrps := ["db.rp"] }, [], none⟩,
    ⟨.update "a" { tmpl := "U" }, [], none⟩,
    ⟨.tupdate "U" "" "td", [], none⟩ ]

/-- Snapshot ef0888e: a task moved to template `U` (without rename) is not followed by `U`'s update
(defect repaired by aa29701) … -/
theorem snapshot_template_change_not_followed :
    ((run Variant.snapshot demoEnv retemplate).store.tasks "a").map (fun t => (t.script, t.tmpl)) = some ("t0", "U") := by
  decide

/-- … the repaired code re-synchronises it. -/
theorem fixed_template_change_followed :
    ((run Variant.fixed demoEnv retemplate).store.tasks "a").map (fun t => (t.script, t.tmpl)) = some ("td", "U") := by
  decide

/-- Finding `start-failure-after-commit`: the create is answered 500, yet the task is stored as enabled and is not
executing (the full statement `rejected_request_leaves_catalogue_stmt` is false for answers 500). -/
theorem start_failure_leaves_enabled_not_executing :
    let x := step Variant.fixed demoEnv ["a"] none {} (.create "a" { script := "s0", dbrps := ["db.rp"], status := some true })
    x.2 = .fail ∧ (x.1.store.tasks "a").map (·.enabled) = some true ∧ x.1.exec "a" = false := by decide

/-- corpus/C14/finding-template-update-rollback-incomplete.ops, case dbrps. -/
def rollbackDbrps : List Req :=
  [ ⟨.tcreate "T" "t0", [], none⟩,
    ⟨.create "a" { tmpl := "T", dbrps := ["db.rp"], status := some true }, [], none⟩,
    ⟨.create "b" { tmpl := "T", dbrps := ["db.rp"], status := some true }, [], none⟩,
    ⟨.tupdate "T" "" "td", ["b"], none⟩ ]

/-- Finding `template-update-rollback-incomplete`: the update fails on the second task and is answered 500; the
rollback restores the scripts but `a` keeps the NEW script's dbrps and the template keeps the NEW script. -/
theorem rollback_keeps_new_dbrps_and_template :
    let w := run Variant.fixed demoEnv rollbackDbrps
    (w.store.tasks "a").map (fun t => (t.script, t.dbrps)) = some ("t0", ["pdb.prp"]) ∧
    (w.store.tmpls "T").map (·.script) = some "td" ∧
    (step Variant.fixed demoEnv ["b"] none (run Variant.fixed demoEnv (rollbackDbrps.take 3)) (.tupdate "T" "" "td")).2 = .fail := by
  decide

/-- Same finding, template renamed: the old template is gone, the tasks still name it, and the tasks touched before
the failure stay associated with the new ID. -/
theorem rollback_after_template_rename_leaves_stale_state :
    let w := run Variant.fixed demoEnv (rollbackDbrps.take 3 ++ [⟨.tupdate "T" "U" "", ["b"], none⟩])
    w.store.tmpls "T" = none ∧ (w.store.tasks "a").map (·.tmpl) = some "T" ∧
    w.store.assoc "U" "a" = true ∧ w.store.assoc "T" "a" = false := by decide

/-- Finding `crash-between-transactions`: a restart from the file as it was after the first transaction of a rename
shows BOTH IDs, both executing. -/
theorem crash_in_rename_shows_both_ids :
    let w := run Variant.fixed demoEnv
      [ ⟨.create "a" { script := "s0", dbrps := ["db.rp"], status := some true }, [], none⟩,
        ⟨.update "a" { newId := "b" }, [], some 1⟩ ]
    (w.store.tasks "a").isSome = true ∧ (w.store.tasks "b").isSome = true ∧ w.exec "a" = true ∧ w.exec "b" = true := by
  decide

/-- Finding `template-delete-orphans-tasks`: after delete + re-create of template `T`, task `b` still names `T`
but is not associated, and `T`'s update does not reach it. -/
theorem template_delete_orphans_tasks :
    let w := run Variant.fixed demoEnv
      [ ⟨.tcreate "T" "t0", [], none⟩, ⟨.create "b" { tmpl := "T", dbrps := ["db.rp"] }, [], none⟩,
        ⟨.tdelete "T", [], none⟩, ⟨.tcreate "T" "t0", [], none⟩, ⟨.tupdate "T" "" "td", [], none⟩ ]
    (w.store.tasks "b").map (fun t => (t.script, t.tmpl)) = some ("t0", "T") ∧ w.store.assoc "T" "b" = false ∧
    (w.store.tmpls "T").map (·.script) = some "td" := by decide

/-! ### Full-strength statements that are NOT proved (tied by the correspondence run and the spec oracle only) -/

/-- The model state as the catalogue a client sees. -/
def shows (w : World) (c : Cat) : Prop :=
  w.store.tasks = c.tasks ∧ (∀ i, (w.store.tmpls i).map (·.script) = c.tmpls i) ∧ ∀ i, w.exec i = c.executing i

/-- Clause excluding the recorded findings from a history: no refused start on a create/update, no template update
answered 500, no crash point, no delete of a template in use. -/
def deviationFree (env : Env) (c : Cat) (r : Req) (resp : Resp) : Prop :=
  r.cut = none ∧ ¬ devStartFail env r.fail c r.op resp = true ∧
  (∀ id n s, r.op = .tupdate id n s → resp ≠ .fail) ∧
  (∀ id, r.op = .tdelete id → ∀ i t, c.tasks i = some t → t.tmpl ≠ id)

/-- `api_shows_last_accepted` + `executing_iff_enabled_and_started`, full strength: along every deviation-free
history the model shows exactly the spec catalogue (accepted ⇒ declared effect, rejected ⇒ nothing; executing ⇔
enabled ∧ started). Missing: the per-handler effect lemmas for accepted create/update/template update and the
association invariant (assoc m k ⇔ task k has template m) they need. -/
def api_shows_last_accepted_stmt : Prop :=
  ∀ (env : Env) (w : World) (c : Cat) (r : Req), Inv w → shows w c →
    let x := step Variant.fixed env r.fail r.cut w r.op
    deviationFree env c r x.2 → shows x.1 (specStep env r.fail c r.op x.2)

/-- Rejected requests at full strength (answers 500 included) — FALSE of today's code
(`start_failure_leaves_enabled_not_executing`, `rollback_keeps_new_dbrps_and_template`); proved for 400/404 as
`rejected_request_leaves_no_trace`. -/
def rejected_request_leaves_catalogue_stmt : Prop :=
  ∀ (env : Env) (fail : List String) (w : World) (op : Op),
    (handle Variant.fixed env fail w op).2 ≠ .ok → Same w (handle Variant.fixed env fail w op).1

/-- The running-state invariant over ALL handlers and crash points (proved here for delete and for every process
start; create / update / template update are exercised by the correspondence run only). -/
def executing_implies_enabled_stmt : Prop :=
  ∀ (v : Variant) (env : Env) (r : Req) (w : World), Inv w → Inv (step v env r.fail r.cut w r.op).1

/-- All-or-none for template updates, on the model: every task created from the template is re-synchronised, or
every one is as before. FALSE of today's code when the update is answered 500
(`rollback_keeps_new_dbrps_and_template`); unproved for accepted updates (needs the association invariant and an
induction over `updateAll`). Proved: `template_update_rejected_changes_none` (400/404). -/
def template_update_all_or_none_stmt : Prop :=
  ∀ (env : Env) (fail : List String) (w : World) (id newId script : String) (ids : List String) (orig : Tmpl),
    w.store.tmpls id = some orig →
    let w' := (updateTemplate env fail w id newId script).1
    allOrNone env ids w.store.tasks w'.store.tasks id orig.script
      (if newId ≠ "" then newId else id) (if script ≠ "" then script else orig.script) = true

/-! ### Non-vacuity -/

/-- A rejected request with a non-trivial state: the hypothesis of `rejected_request_leaves_no_trace` is met. -/
example : (handle Variant.fixed demoEnv [] (run Variant.fixed demoEnv (hijack.take 1))
    (.create "a" { tmpl := "T", dbrps := ["db.rp"], vars := "v3" })).2 = .bad := by decide

/-- The hypotheses of the restart / delete theorems are met by a reachable, non-empty state, and a restart there
runs exactly the enabled task. -/
def twoTasks : List Req :=
  [ ⟨.create "a" { script := "s0", dbrps := ["db.rp"], status := some true }, [], none⟩,
    ⟨.create "b" { script := "s0", dbrps := ["db.rp"] }, [], none⟩, ⟨.restart, [], none⟩ ]

example : (run Variant.fixed demoEnv twoTasks).store.tids = ["a", "b"] ∧
    ((run Variant.fixed demoEnv twoTasks).store.tasks "a").map (·.id) = some "a" ∧
    (run Variant.fixed demoEnv twoTasks).exec "a" = true ∧ (run Variant.fixed demoEnv twoTasks).exec "b" = false := by
  decide

end Kap.Props.C14
