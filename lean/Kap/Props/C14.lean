/-
C14 — property theorems (every `theorem` in this module is a proof obligation; `bin/check C14` audits each one's
axioms). Helper lemmas live in Kap/Proofs/C14.lean; the model in Kap/Model/C14.lean is the transcription of
services/task_store/service.go + dao.go (after the two `fix:` commits of findings/C14.txt; `Variant.snapshot` keeps
the order of the pinned snapshot so that the repaired defects stay demonstrable).

Statement (properties.jsonl): through any sequence of create, update, enable, disable and delete requests and
restarts, the API shows exactly the tasks that were successfully defined with their last accepted definition, a task
is executing iff it is enabled and its start succeeded, and after a restart every enabled task is executing again.
Updating a template changes all tasks created from it or none of them.

What is PROVED here, for all states / requests / oracles (no size bound):
  * a request answered 400/404 leaves NO trace — tasks, templates, associations, executing set (all seven handlers);
  * the outcome of every start attempt is the oracle's (`startOK`), and a start touches nothing but that task's flag;
  * the running-state invariant (executing ⇒ stored ∧ enabled) is preserved by EVERY handler (create, update incl.
    rename / template change, delete, template create / update with its rollback loop / delete, restart), for every
    revision of the code, every oracle and every crash point — hence after every history;
  * a (re)start of the process on ANY file whose tasks are enumerated changes nothing stored and executes exactly the
    enabled tasks whose start succeeds;
  * along EVERY deviation-free history of create / update / delete / template create / update / delete / restart
    requests the model's view IS the catalogue spec (accepted ⇒ declared effect, rejected ⇒ nothing, executing ⇔
    enabled ∧ started);
  * an accepted template update re-synchronises exactly the tasks created from the template (all), one rejected by
    validation none: all-or-none for every answer other than 500.
  * storage faults (second semantics Kap/Model/C14Fault.lean: the k-th Update transaction of the request fails): without
    a fault it IS the model; the running-state invariant survives a fault in any transaction of any request; per
    handler and per fault position, what the failed transaction leaves behind (`…_under_fault`);
  * a task that dies at run time (`Op.die`) is not executing afterwards and nothing stored changes; deaths are ordinary
    steps of the history theorems.
What is proved by counterexample (`decide` on the model, replayed on the real code by corpus/C14/*.ops): the two
repaired defects on the snapshot order, and the four recorded findings on today's code (incl. the 500 case of
all-or-none).
  * answers 500 (`answer_500_effects_characterised`): for every handler but the template update, exactly what a 500
    leaves — inside the decidable clause `leaves500` the catalogue of the accepted request with the task not executing,
    outside it nothing; batch tasks: three-way start outcome (`start_outcome_is_oracle`,
    `batching_refused_is_not_executing`).
  * the paged / filtered listings (GET /tasks, GET /templates with pattern, offset, limit; model Kap/Model/C14List.lean,
    spec Kap/Spec/C14List.lean): the loop of storage.DoListFunc computes filter | drop(offset) | take(limit) — offset and
    limit count MATCHES — for every index, match function, offset and limit; along every deviation-free history the
    list handlers show exactly the page of the catalogue sorted by ID; pages with consecutive offsets concatenate to the
    filtered listing and an ID appears in at most one of them.
What is only STATED (`…_stmt`): all-or-none for template updates answered 500 (FALSE of today's code), kept next to its
counterexample.
-/
import Kap.Proofs.C14Full
import Kap.Proofs.C14Fault
import Kap.Proofs.C14Five
import Kap.Proofs.C14Idx
namespace Kap.Props.C14
open Kap.C14

/-! ### Rejected requests -/

/-- **A rejected request leaves the catalogue unchanged** — every handler, every state, every oracle: when the
answer is 400 or 404, the tasks, the templates, the template associations and the executing set (the `view`) are
exactly as before (the repaired code; see `snapshot_rejected_create_leaves_association` for the pinned snapshot). -/
theorem rejected_request_leaves_no_trace (env : Env) (fail : List String) (w : World) (op : Op)
    (h : (handle Variant.fixed env fail w op).2 = .bad ∨ (handle Variant.fixed env fail w op).2 = .nf) :
    (handle Variant.fixed env fail w op).1.view = w.view :=
  handle_rejected env fail w op h

/-- … in particular a template update rejected by validation changes none of the tasks. -/
theorem template_update_rejected_changes_none (env : Env) (fail : List String) (w : World) (id newId script : String)
    (h : (updateTemplate env fail w id newId script).2 = .bad ∨ (updateTemplate env fail w id newId script).2 = .nf) :
    (updateTemplate env fail w id newId script).1.store.tasks = w.store.tasks :=
  congrArg View.tasks (updateTemplate_rejected env fail w id newId script h)

/-! ### Starting tasks -/

/-- **Its start succeeded** = the oracle, three-way: `startTask` answers `startOK` (the task builds, TaskMaster.StartTask
accepts it AND — batch tasks — StartBatching succeeds), stores nothing visible, and changes the executing flag of that
task only: to true exactly when the start succeeds, to FALSE when StartBatching was refused (`batchRefused`: the task
was in TaskMaster.tasks for a moment and is stopped again), and not at all when the start itself was refused. -/
theorem start_outcome_is_oracle (env : Env) (fail : List String) (w : World) (id : String) (t : Task) :
    (startTask env fail w id t).2 = startOK env fail id t ∧
    (startTask env fail w id t).1.store = w.store ∧
    (startTask env fail w id t).1.exec =
      (fun j => if j = id then (startOK env fail id t || (w.exec j && !batchRefused env fail id t)) else w.exec j) ∧
    (batchRefused env fail id t = true → startOK env fail id t = false) :=
  ⟨startTask_ok env fail w id t, startTask_store env fail w id t, startTask_exec env fail w id t, batchRefused_not_ok⟩

/-- **A batch task whose StartBatching is refused is not executing afterwards** — whatever the TaskMaster held under
that ID before — and the attempt is reported as failed (the caller answers 500 / logs it). The refusal is
deterministic: a query of the script reads a db.rp that is not among the task's dbrps. -/
theorem batching_refused_is_not_executing (env : Env) (fail : List String) (w : World) (id : String) (t : Task)
    (h : batchRefused env fail id t = true) :
    (startTask env fail w id t).2 = false ∧ (startTask env fail w id t).1.exec id = false ∧
    (∀ j, j ≠ id → (startTask env fail w id t).1.exec j = w.exec j) := by
  refine ⟨by rw [startTask_ok]; exact batchRefused_not_ok h, ?_, fun j hj => ?_⟩
  · rw [startTask_exec]; simp [h, batchRefused_not_ok h]
  · rw [startTask_exec]; simp [hj]

/-- Non-vacuity + the three outcomes on the pool's batch scripts (`b1` reads odb.orp): ok / start refused / batching
refused; with the right dbrps `b1` starts. -/
example : startOK demoEnv [] "a" ⟨"b0", "v0", "", ["db.rp"], true⟩ = true ∧
    startOK demoEnv ["a"] "a" ⟨"b0", "v0", "", ["db.rp"], true⟩ = false ∧
    batchRefused demoEnv ["a"] "a" ⟨"b0", "v0", "", ["db.rp"], true⟩ = false ∧
    batchRefused demoEnv [] "a" ⟨"b1", "v0", "", ["db.rp"], true⟩ = true ∧
    startOK demoEnv [] "a" ⟨"b1", "v0", "", ["odb.orp"], true⟩ = true := by decide

/-! ### Restart -/

/-- **After a restart every enabled task is executing again** (when its start succeeds), nothing else is, and the
stored catalogue is untouched — for ANY file whose tasks are enumerated by the ID index (clean restart or restart
from a snapshot at a transaction boundary alike). -/
theorem restart_restores (env : Env) (fail : List String) (s : Store) (br : List String) (h : Dom s) :
    (boot env fail s br).store = s ∧
    ∀ i, (boot env fail s br).exec i = true ↔
      ∃ t, s.tasks i = some t ∧ t.enabled = true ∧ startOK env fail i t = true := by
  obtain ⟨hs, he⟩ := boot_spec env fail s br
  refine ⟨hs, fun i => ?_⟩
  rw [he i]
  constructor
  · rintro ⟨_, t, ht, hen, hok⟩; exact ⟨t, ht, hen, hok⟩
  · rintro ⟨t, ht, hen, hok⟩; exact ⟨h i t ht, t, ht, hen, hok⟩

/-! ### The running-state invariant: executing ⇒ stored and enabled -/

/-- **Every step preserves the running-state invariant** — every handler (create, update incl. rename and template
change, delete, template create / update with its rollback loop / delete, restart), every revision of the code
(`Variant`), every oracle, and every crash point (restart from the file at any transaction boundary of the request). -/
theorem executing_implies_enabled (v : Variant) (env : Env) (r : Req) (w : World) (h : ExecInv w) :
    ExecInv (step v env r.fail r.cut w r.op).1 :=
  step_inv v env r.fail r.cut w r.op h

/-- … hence it holds after EVERY history of requests, restarts and crashes. -/
theorem executing_implies_enabled_all_histories (v : Variant) (env : Env) (reqs : List Req) :
    ExecInv (run v env reqs) := by
  unfold run
  suffices ∀ (w : World), ExecInv w → ExecInv (reqs.foldl (fun w r => (step v env r.fail r.cut w r.op).1) w) from
    this {} (fun i hi => by simp [World.view] at hi)
  induction reqs with
  | nil => exact fun w h => h
  | cons r rest ih => exact fun w h => ih _ (step_inv v env r.fail r.cut w r.op h)

/-- Every process start establishes it, whatever the file holds. -/
theorem restart_establishes_invariant (env : Env) (fail : List String) (s : Store) (br : List String) :
    ExecInv (boot env fail s br) :=
  boot_inv env fail s br

/-- Given the invariant, a deleted ID is neither shown nor executing afterwards. (`deleteTask` calls
`TaskMaster.DeleteTask` only when the stored status is Enabled: this is where executing ⇒ enabled is needed.) -/
theorem delete_removes_and_stops (w : World) (id : String) (h : ExecInv w) :
    (deleteTask w id).1.store.tasks id = none ∧ (deleteTask w id).1.exec id = false := by
  have hinv := deleteTask_inv w id h
  have hnone : (deleteTask w id).1.store.tasks id = none := by
    cases ht : w.store.tasks id with
    | none => have := congrArg View.tasks (deleteTask_view_none w id ht); simp at this; rw [this]; exact ht
    | some t =>
      have := congrArg View.tasks (deleteTask_view_some w id t ht)
      simp only [view_tasks] at this
      rw [this]; simp [View.del]
  exact ⟨hnone, View.EI.not_exec hinv hnone⟩

/-! ### The API shows the last accepted definitions; executing ⇔ enabled ∧ started -/

/-- **Refinement along whole histories** (`api_shows_last_accepted` + `executing_iff_enabled_and_started`): run the
model and the catalogue spec in lockstep over ANY history of create, update (script, dbrps, vars, id, template,
status), delete, template create / update / delete and restart requests — accepted or rejected, any oracle — in which
no recorded deviation occurs (`AllFree`: no crash point, no refused start on a create / update, no delete of a
template that tasks were created from, no template update answered 500). Then after every step the model's view IS
the spec catalogue: the tasks shown are exactly the accepted definitions (an accepted request has its declared
effect, a rejected one none), the templates likewise, a task is executing iff it is enabled and its most recent start
attempt succeeded, the association table is accurate, the ID index enumerates the tasks, whatever executes is stored
and enabled. By induction over the history from per-handler refinement lemmas (closed forms of every handler
sub-step; inductions over the template-update loop). -/
theorem api_shows_last_accepted (env : Env) (reqs : List Req) (hok : AllFree env reqs ({}, {})) :
    RInv (runBoth env reqs ({}, {})).1 (runBoth env reqs ({}, {})).2 :=
  refine_history_full env reqs {} {} RInv.init hok

/-- One step, from any state satisfying the invariant (the induction step of the theorem above). -/
theorem api_shows_last_accepted_step (env : Env) (w : World) (c : Cat) (r : Req) (h : RInv w c)
    (hs : StepFree env c r (step Variant.fixed env r.fail r.cut w r.op).2) :
    RInv (step Variant.fixed env r.fail r.cut w r.op).1
      (specStep env r.fail c r.op (step Variant.fixed env r.fail r.cut w r.op).2) :=
  refine_step_full env w c r h hs

/-- What the invariant says about the executing set, spelled out: **a task is executing if and only if it is enabled
and its (most recent) start succeeded**. -/
theorem executing_iff_enabled_and_started (w : World) (c : Cat) (h : RInv w c) (i : String) :
    w.exec i = true ↔ ∃ t, w.store.tasks i = some t ∧ t.enabled = true ∧ c.started i = true := by
  have he := h.d.exec i
  have ht : w.store.tasks = c.tasks := h.d.tasks
  simp only [view_exec, Cat.executing] at he
  rw [he, ← ht]
  cases w.store.tasks i with
  | none => simp
  | some t => simp

/-- **What an answer 500 leaves behind** — the positive form of "a rejected request leaves the catalogue unchanged",
which is FALSE for answers 500 as worded (`start_failure_leaves_enabled_not_executing`). For every handler except the
template update, every state in which the view shows the catalogue (`RInv`), every oracle: when the request is answered
500, the view afterwards shows EXACTLY `effect500` — inside the decidable clause `leaves500` (the definition could be
committed: new ID free; and the start the request attempts — it becomes enabled, or is renamed while enabled — is
refused by the oracle: start OR batching) the catalogue of the ACCEPTED request, i.e. the definition is stored as
enabled and the task is not executing (finding start-failure-after-commit, now a theorem); outside the clause NOTHING
changed (rename onto a taken ID). Delete, template create / delete, restart and run-time death are never answered 500
in the fault-free semantics (their 500s need a storage fault: `…_under_fault`). The driver's KNOWN clause
start-failure-after-commit evaluates `leaves500` / `effect500` on the observed answer. -/
theorem answer_500_effects_characterised (env : Env) (fail : List String) (w : World) (c : Cat) (op : Op)
    (h : RInv w c) (hnt : ∀ id n s, op ≠ .tupdate id n s)
    (hf : (handle Variant.fixed env fail w op).2 = .fail) :
    DInv (handle Variant.fixed env fail w op).1.view (effect500 env fail c op) ∧
    (leaves500 env fail c op = false → (handle Variant.fixed env fail w op).1.view = w.view) := by
  have hd := handle_500 env fail w c op h.ei h.d hnt hf
  refine ⟨hd, fun hl => ?_⟩
  -- outside the clause the view is literally unchanged: tasks, templates, executing set from DInv, associations
  -- from the per-handler closed forms (only create / update can answer 500)
  cases op with
  | create id r =>
    exfalso
    simp only [handle] at hf
    have := (createTask_500 env fail w c id r h.ei h.d hf).1
    simp [leaves500, this, renameTaken] at hl
  | update id r =>
    simp only [handle] at hf ⊢
    unfold updateTask at hf ⊢
    split at hf
    · cases hf
    · rename_i orig ho
      split at hf
      · cases hf
      · rename_i script m hus
        obtain ⟨hm, hscript⟩ := updateScript_some hus
        have htm : w.store.tmpls = c.tmpls := h.d.tmpls
        have hs : script = updateScriptOf c orig r := by
          rw [hscript, hm]; unfold updateScriptOf; rw [htm]
        dsimp only at hf ⊢
        simp only [show Variant.fixed.assocEarly = false from rfl, Bool.and_false, Bool.false_eq_true, if_false] at hf ⊢
        split at hf
        · cases hf
        · rename_i upd hv
          have hupd : upd = updateDef env c orig r := by
            rw [updateValidate_ok hv]; exact updateRecord_eq_def env c orig r script m hm hs
          have hmt : m = (updateDef env c orig r).tmpl := by rw [hm]; rfl
          rw [hupd, hmt] at hf ⊢
          replace hf : (updateCommit Variant.fixed env fail w id (updateId id r) orig (updateDef env c orig r)
              (needsReassoc Variant.fixed id (updateId id r) orig (updateDef env c orig r).tmpl)).2 = .fail := hf
          show (updateCommit Variant.fixed env fail w id (updateId id r) orig (updateDef env c orig r)
              (needsReassoc Variant.fixed id (updateId id r) orig (updateDef env c orig r).tmpl)).1.view = w.view
          by_cases hsd : (storeDefinition w id (updateId id r) (updateDef env c orig r)).2 = true
          · -- stored and answered 500 ⇒ inside the clause: contradiction
            exfalso
            have htasks : w.store.tasks = c.tasks := h.d.tasks
            have hfresh : id ≠ updateId id r → w.store.tasks (updateId id r) = none := by
              intro hne
              have := hsd
              rw [storeDefinition_ok w id _ _ orig ho, if_pos hne] at this
              cases hx : w.store.tasks (updateId id r)
              · rfl
              · rw [hx] at this; simp at this
            have hidle : (updateDef env c orig r).enabled = true → (orig.enabled = false ∨ id ≠ updateId id r) →
                w.exec (updateId id r) = false := by
              intro _ hor
              by_cases hid : id = updateId id r
              · rcases hor with hoe | hne
                · rw [← hid]; exact View.EI.not_exec_disabled h.ei (t := orig) ho hoe
                · exact absurd hid hne
              · exact View.EI.not_exec h.ei (hfresh hid)
            obtain ⟨hresp, _⟩ := updateCommit_closed env fail w id (updateId id r) orig (updateDef env c orig r) ho hsd hidle
            rw [hresp] at hf
            have hc : c.tasks id = some orig := by rw [← htasks]; exact ho
            by_cases hcnd : (updateDef env c orig r).enabled = true ∧ (orig.enabled = false ∨ id ≠ updateId id r) ∧
                startOK env fail (updateId id r) (updateDef env c orig r) = false
            · obtain ⟨hue, hor, hk⟩ := hcnd
              have hcnd2 : ((updateDef env c orig r).enabled && (!orig.enabled || decide (updateId id r ≠ id))) = true := by
                rcases hor with hoe | hne
                · simp [hue, hoe]
                · have : updateId id r ≠ id := fun e => hne e.symm
                  simp [hue, this]
              have hor' : orig.enabled = false ∨ ¬ updateId id r = id := by
                rcases hor with hoe | hne
                · exact Or.inl hoe
                · exact Or.inr (fun e => hne e.symm)
              have hnt' : renameTaken c (.update id r) = false := by
                simp only [renameTaken]
                by_cases hid : id = updateId id r
                · simp [← hid]
                · rw [← htasks, hfresh hid]; simp
              simp [leaves500, devStartFail, attempted, hc, hcnd2, hk, hnt'] at hl
              rw [if_pos ⟨hue, hor'⟩] at hl
              simp [hk] at hl
            · rw [if_neg hcnd] at hf; cases hf
          · unfold updateCommit
            have hnot : (!(storeDefinition w id (updateId id r) (updateDef env c orig r)).2) = true := by simp [hsd]
            rw [if_pos hnot]
            exact storeDefinition_failed w id _ _ orig ho hsd
  | delete id => simp only [handle, deleteTask_ok] at hf; cases hf
  | tcreate id s =>
    have := handle_500 env fail w c (.tcreate id s) h.ei h.d hnt hf
    exfalso
    simp only [handle, createTemplate] at hf
    split at hf
    · cases hf
    · rename_i hn
      split at hf
      · cases hf
      · rw [tmplCreate_ok] at hf; simp at hn; simp [hn] at hf
  | tupdate id n s => exact absurd rfl (hnt id n s)
  | tdelete id => simp only [handle, deleteTemplate] at hf; cases hf
  | restart => simp only [handle] at hf; cases hf
  | die id => simp only [handle, dieTask_ok] at hf; cases hf

/-- Non-vacuity: on the reachable state with the stored batch task `a` (disabled), enabling it with dbrps that do not
cover its query is answered 500 inside the clause (batching refused); renaming it onto the taken ID `b` while a start
would be refused is answered 500 outside the clause. -/
def batchBase : List Req :=
  [ ⟨.create "a" { script := "b1", dbrps := ["db.rp"] }, [], none⟩,
    ⟨.create "b" { script := "b0", dbrps := ["db.rp"], status := some true }, [], none⟩ ]

example : (handle Variant.fixed demoEnv [] (run Variant.fixed demoEnv batchBase) (.update "a" { status := some true })).2 = .fail ∧
    leaves500 demoEnv [] (runBoth demoEnv batchBase ({}, {})).2 (.update "a" { status := some true }) = true ∧
    ((effect500 demoEnv [] (runBoth demoEnv batchBase ({}, {})).2 (.update "a" { status := some true })).tasks "a").map (·.enabled) = some true ∧
    (effect500 demoEnv [] (runBoth demoEnv batchBase ({}, {})).2 (.update "a" { status := some true })).executing "a" = false ∧
    (run Variant.fixed demoEnv batchBase).exec "b" = true ∧
    (handle Variant.fixed demoEnv [] (run Variant.fixed demoEnv batchBase) (.update "a" { newId := "b", status := some true })).2 = .fail ∧
    leaves500 demoEnv [] (runBoth demoEnv batchBase ({}, {})).2 (.update "a" { newId := "b", status := some true }) = false := by
  decide

/-- **A template update onto a taken template ID is answered 500 and leaves nothing** (the one 500 of
handleUpdateTemplate outside the rollback cases; those — finding template-update-rollback-incomplete — are
characterised by the model only: `rollback_keeps_new_dbrps_and_template`). -/
theorem template_update_onto_taken_id_leaves_nothing (env : Env) (fail : List String) (w : World) (id newId script os : String)
    (hos : w.store.tmpls id = some os) (hne : newId ≠ "" ∧ newId ≠ id) (htk : (w.store.tmpls newId).isSome = true)
    (hacc : tmplAccepts env os (if script ≠ "" then script else os) = true) :
    (updateTemplate env fail w id newId script).2 = .fail ∧ (updateTemplate env fail w id newId script).1.view = w.view :=
  updateTemplate_taken env fail w id newId script os hos hne htk hacc

/-! ### Template update: all or none -/

/-- **An accepted template update changes ALL tasks created from the template** (and no other task): in a state
where the association table is accurate (`AssocInv`) and the ID index enumerates the stored tasks (`Dom`), a template
update answered 2xx leaves every task whose template it is re-synchronised with the new definition — the spec's
`resync` — and every other task untouched. By induction over the forward loop of updateAllAssociatedTasks. -/
theorem template_update_accepted_changes_all (env : Env) (fail : List String) (w : World) (id newId script os : String)
    (hos : w.store.tmpls id = some os) (hid : id ≠ "") (hdom : Dom w.store) (hassoc : AssocInv w.view)
    (hok : (updateTemplate env fail w id newId script).2 = .ok) :
    (updateTemplate env fail w id newId script).1.store.tasks =
      fun i => match w.store.tasks i with
        | some t => if t.tmpl = id then
            some (resync env os (if newId ≠ "" then newId else id) (if script ≠ "" then script else os) t) else some t
        | none => none :=
  updateTemplate_accepted_tasks env fail w id newId script os hos hid hdom hassoc hok

/-- **All or none** (the spec's predicate `allOrNone`, the one the driver evaluates on the real code's listings), for
every template update that is NOT answered 500: accepted ⇒ all, rejected by validation ⇒ none. The excluded case is
false of today's code: `rollback_keeps_new_dbrps_and_template` (finding template-update-rollback-incomplete). -/
theorem template_update_all_or_none_partial (env : Env) (fail : List String) (w : World) (id newId script os : String)
    (ids : List String)
    (hos : w.store.tmpls id = some os) (hid : id ≠ "") (hdom : Dom w.store) (hassoc : AssocInv w.view)
    (hresp : (updateTemplate env fail w id newId script).2 ≠ .fail) :
    allOrNone env ids w.store.tasks (updateTemplate env fail w id newId script).1.store.tasks id os
      (if newId ≠ "" then newId else id) (if script ≠ "" then script else os) = true :=
  updateTemplate_allOrNone env fail w id newId script os ids hos hid hdom hassoc hresp

/-- The full statement (no hypothesis on the answer) — FALSE of today's code, see above. -/
def template_update_all_or_none_stmt : Prop :=
  ∀ (env : Env) (fail : List String) (w : World) (id newId script os : String) (ids : List String),
    w.store.tmpls id = some os → id ≠ "" → Dom w.store → AssocInv w.view →
    allOrNone env ids w.store.tasks (updateTemplate env fail w id newId script).1.store.tasks id os
      (if newId ≠ "" then newId else id) (if script ≠ "" then script else os) = true

/-! ### Counterexamples: the repaired defects (snapshot order) and the recorded findings (today's code) -/

/-- corpus/C14/fixed-assoc-before-validation.ops, case w1. -/
def hijack : List Req :=
  [ ⟨.tcreate "T" "t0", [], none⟩,
    ⟨.create "a" { tmpl := "T", dbrps := ["db.rp"], vars := "v3" }, [], none⟩,   -- rejected: t0 does not build with v3
    ⟨.create "a" { script := "s0", dbrps := ["db.rp"] }, [], none⟩,               -- a plain task takes the ID
    ⟨.tupdate "T" "" "td", [], none⟩ ]

/-- Snapshot ef0888e: the rejected create leaves an association behind … -/
theorem snapshot_rejected_create_leaves_association :
    (run Variant.snapshot demoEnv (hijack.take 2)).store.assoc "T" "a" = true ∧
    (run Variant.snapshot demoEnv (hijack.take 2)).store.tasks "a" = none := by decide

/-- … and the template update then overwrites the unrelated task `a` (defect repaired by d5e8cfe). -/
theorem snapshot_rejected_create_hijacks_task :
    ((run Variant.snapshot demoEnv hijack).store.tasks "a").map (fun t => (t.script, t.tmpl)) = some ("td", "T") := by
  decide

/-- The repaired order leaves `a` alone. -/
theorem fixed_rejected_create_harmless :
    ((run Variant.fixed demoEnv hijack).store.tasks "a").map (fun t => (t.script, t.tmpl)) = some ("s0", "") := by
  decide

/-- corpus/C14/fixed-template-change-keeps-old-association.ops, case w1. -/
def retemplate : List Req :=
  [ ⟨.tcreate "T" "t0", [], none⟩, ⟨.tcreate "U" "t0", [], none⟩,
    ⟨.create "a" { tmpl := "T", dbrps := ["db.rp"] }, [], none⟩,
    ⟨.update "a" { tmpl := "U" }, [], none⟩,
    ⟨.tupdate "U" "" "td", [], none⟩ ]

/-- Snapshot ef0888e: a task moved to template `U` (without rename) is not followed by `U`'s update
(defect repaired by aa29701) … -/
theorem snapshot_template_change_not_followed :
    ((run Variant.snapshot demoEnv retemplate).store.tasks "a").map (fun t => (t.script, t.tmpl)) = some ("t0", "U") := by
  decide

/-- … the repaired code re-synchronises it. -/
theorem fixed_template_change_followed :
    ((run Variant.fixed demoEnv retemplate).store.tasks "a").map (fun t => (t.script, t.tmpl)) = some ("td", "U") := by
  decide

/-- Finding `start-failure-after-commit`: the create is answered 500, yet the task is stored as enabled and is not
executing (the full statement `rejected_request_leaves_catalogue_stmt` is false for answers 500). -/
theorem start_failure_leaves_enabled_not_executing :
    (step Variant.fixed demoEnv ["a"] none {} (.create "a" { script := "s0", dbrps := ["db.rp"], status := some true })).2 = .fail ∧
    ((step Variant.fixed demoEnv ["a"] none {} (.create "a" { script := "s0", dbrps := ["db.rp"], status := some true })).1.store.tasks "a").map (·.enabled) = some true ∧
    (step Variant.fixed demoEnv ["a"] none {} (.create "a" { script := "s0", dbrps := ["db.rp"], status := some true })).1.exec "a" = false := by
  decide

/-- corpus/C14/finding-template-update-rollback-incomplete.ops, case dbrps. -/
def rollbackDbrps : List Req :=
  [ ⟨.tcreate "T" "t0", [], none⟩,
    ⟨.create "a" { tmpl := "T", dbrps := ["db.rp"], status := some true }, [], none⟩,
    ⟨.create "b" { tmpl := "T", dbrps := ["db.rp"], status := some true }, [], none⟩,
    ⟨.tupdate "T" "" "td", ["b"], none⟩ ]

/-- Finding `template-update-rollback-incomplete`: the update fails on the second task and is answered 500; the
rollback restores the scripts but `a` keeps the NEW script's dbrps and the template keeps the NEW script
(so `template_update_all_or_none_stmt` is false for answers 500). -/
theorem rollback_keeps_new_dbrps_and_template :
    ((run Variant.fixed demoEnv rollbackDbrps).store.tasks "a").map (fun t => (t.script, t.dbrps)) = some ("t0", ["pdb.prp"]) ∧
    (run Variant.fixed demoEnv rollbackDbrps).store.tmpls "T" = some "td" ∧
    (step Variant.fixed demoEnv ["b"] none (run Variant.fixed demoEnv (rollbackDbrps.take 3)) (.tupdate "T" "" "td")).2 = .fail := by
  decide

/-- Same finding, template renamed: the old template is gone, the tasks still name it, and the tasks touched before
the failure stay associated with the new ID. -/
def rollbackRename : List Req := rollbackDbrps.take 3 ++ [⟨.tupdate "T" "U" "", ["b"], none⟩]

theorem rollback_after_template_rename_leaves_stale_state :
    (run Variant.fixed demoEnv rollbackRename).store.tmpls "T" = none ∧
    ((run Variant.fixed demoEnv rollbackRename).store.tasks "a").map (·.tmpl) = some "T" ∧
    (run Variant.fixed demoEnv rollbackRename).store.assoc "U" "a" = true ∧
    (run Variant.fixed demoEnv rollbackRename).store.assoc "T" "a" = false := by decide

/-- Finding `crash-between-transactions`: a restart from the file as it was after the first transaction of a rename
shows BOTH IDs, both executing. -/
def crashRename : List Req :=
  [ ⟨.create "a" { script := "s0", dbrps := ["db.rp"], status := some true }, [], none⟩,
    ⟨.update "a" { newId := "b" }, [], some 1⟩ ]

theorem crash_in_rename_shows_both_ids :
    ((run Variant.fixed demoEnv crashRename).store.tasks "a").isSome = true ∧
    ((run Variant.fixed demoEnv crashRename).store.tasks "b").isSome = true ∧
    (run Variant.fixed demoEnv crashRename).exec "a" = true ∧ (run Variant.fixed demoEnv crashRename).exec "b" = true := by
  decide

/-- Finding `template-delete-orphans-tasks`: after delete + re-create of template `T`, task `b` still names `T`
but is not associated, and `T`'s update does not reach it. -/
def orphan : List Req :=
  [ ⟨.tcreate "T" "t0", [], none⟩, ⟨.create "b" { tmpl := "T", dbrps := ["db.rp"] }, [], none⟩,
    ⟨.tdelete "T", [], none⟩, ⟨.tcreate "T" "t0", [], none⟩, ⟨.tupdate "T" "" "td", [], none⟩ ]

theorem template_delete_orphans_tasks :
    ((run Variant.fixed demoEnv orphan).store.tasks "b").map (fun t => (t.script, t.tmpl)) = some ("t0", "T") ∧
    (run Variant.fixed demoEnv orphan).store.assoc "T" "b" = false ∧
    (run Variant.fixed demoEnv orphan).store.tmpls "T" = some "td" := by decide

def twoUp : List Req :=
  [ ⟨.create "a" { script := "s0", dbrps := ["db.rp"], status := some true }, [], none⟩,
    ⟨.create "b" { script := "s0", dbrps := ["db.rp"], status := some true }, [], none⟩ ]

/-! ### Run-time death -/

/-- **A task that dies on its own is not shown as executing**: after `Op.die id` (the goroutine of startTask stops
the task and records the error) the task is not executing, every other task's running state is untouched, and nothing
stored changes — the task keeps its definition and its status (enabled), which is why it comes back at the next
restart (`restart_restores`). In the catalogue spec the task is no longer `started`, so `api_shows_last_accepted` /
`executing_iff_enabled_and_started` cover histories with deaths (they put no restriction on `die`). Tied to the code by
the `die` op of the harness: a poison point makes the task's UDF node fail. -/
theorem dead_task_is_not_executing (v : Variant) (env : Env) (fail : List String) (w : World) (id : String) :
    (handle v env fail w (.die id)).1.exec id = false ∧
    (∀ j, j ≠ id → (handle v env fail w (.die id)).1.exec j = w.exec j) ∧
    (handle v env fail w (.die id)).1.store = w.store ∧
    (∀ c : Cat, (accept env fail c (.die id)).executing id = false) := by
  have hv := congrArg View.exec (dieTask_view w id)
  simp only [view_exec] at hv
  refine ⟨?_, fun j hj => ?_, dieTask_store w id, ?_⟩
  · show (dieTask w id).1.exec id = false
    rw [hv]; simp [View.setExec]
  · show (dieTask w id).1.exec j = w.exec j
    rw [hv]; simp [View.setExec, hj]
  · intro c
    simp only [accept, Cat.executing, setStarted]
    cases c.tasks id <;> simp

/-- … witnessed on a reachable state with two executing tasks (corpus/C14/run-time-death.ops): `a` dies, stays
enabled, `b` keeps executing; re-asserting `enabled` does not restart it, a restart does. -/
theorem death_then_restart :
    (run Variant.fixed demoEnv (twoUp ++ [⟨.die "a", [], none⟩])).exec "a" = false ∧
    (run Variant.fixed demoEnv (twoUp ++ [⟨.die "a", [], none⟩])).exec "b" = true ∧
    ((run Variant.fixed demoEnv (twoUp ++ [⟨.die "a", [], none⟩])).store.tasks "a").map (·.enabled) = some true ∧
    (run Variant.fixed demoEnv (twoUp ++ [⟨.die "a", [], none⟩, ⟨.update "a" { status := some true }, [], none⟩])).exec "a" = false ∧
    (run Variant.fixed demoEnv (twoUp ++ [⟨.die "a", [], none⟩, ⟨.restart, [], none⟩])).exec "a" = true := by
  decide

/-! ### Storage faults (Kap/Model/C14Fault.lean: the k-th Update transaction of the request fails) -/

/-- A fault in the FIRST transaction of a create leaves nothing behind and is answered 500 — for every state and
request whose validation passes (the first transaction is tasks.Create). General, not a sample. -/
theorem fault_in_first_transaction_of_create (env : Env) (fail : List String) (w : World) (id : String) (r : TaskReq)
    (h0 : w.ntx = 0) :
    (handleF env fail (some 1) w (.create id r)).1.view = w.view ∧
    ((handleF env fail (some 1) w (.create id r)).2 = .bad ∨ (handleF env fail (some 1) w (.create id r)).2 = .fail) := by
  simp only [handleF, createTaskF]
  split
  · exact ⟨note_view w _, Or.inl rfl⟩
  · rename_i hn
    split
    · exact ⟨note_view w _, Or.inl rfl⟩
    · split
      · exact ⟨note_view w _, Or.inl rfl⟩
      · rename_i t _
        have hc : (createF ⟨w, some 1, false⟩ id t).2 = false ∧ (createF ⟨w, some 1, false⟩ id t).1.w.view = w.view := by
          simp only [createF, hn, Bool.false_eq_true, if_false, FW.tx, h0]
          simp
        unfold createCommitF
        simp only [hc.1, Bool.not_false, if_true]
        exact ⟨by show ((createF ⟨w, some 1, false⟩ id t).1.w.note _).view = _; rw [note_view]; exact hc.2, Or.inr trivial⟩

def faultBase : List Req :=
  [ ⟨.tcreate "T" "t0", [], none⟩, ⟨.tcreate "U" "t0", [], none⟩,
    ⟨.create "a" { tmpl := "T", dbrps := ["db.rp"], status := some true }, [], none⟩ ]

/-- A fault in Delete(old) during a rename is only logged: the request is answered 200 and BOTH IDs stay stored
(finding crash-between-transactions, fault flavour; replayed by corpus/C14/fault-injection.ops). -/
theorem fault_in_rename_keeps_both_ids :
    (handleF demoEnv [] (some 2) (beginReq (run Variant.fixed demoEnv faultBase) none) (.update "a" { newId := "b" })).2 = .ok ∧
    ((handleF demoEnv [] (some 2) (beginReq (run Variant.fixed demoEnv faultBase) none) (.update "a" { newId := "b" })).1.store.tasks "a").isSome = true ∧
    ((handleF demoEnv [] (some 2) (beginReq (run Variant.fixed demoEnv faultBase) none) (.update "a" { newId := "b" })).1.store.tasks "b").isSome = true ∧
    (handleF demoEnv [] (some 2) (beginReq (run Variant.fixed demoEnv faultBase) none) (.update "a" { newId := "b" })).1.exec "a" = false := by
  decide

/-- After 9eb6f45: an association error during "move to template U and disable" is answered 500, but the running
state still follows the stored definition (stored disabled ⇒ stopped). -/
theorem fault_in_association_still_stops_the_task :
    (handleF demoEnv [] (some 2) (beginReq (run Variant.fixed demoEnv faultBase) none) (.update "a" { tmpl := "U", status := some false })).2 = .fail ∧
    ((handleF demoEnv [] (some 2) (beginReq (run Variant.fixed demoEnv faultBase) none) (.update "a" { tmpl := "U", status := some false })).1.store.tasks "a").map (·.enabled) = some false ∧
    (handleF demoEnv [] (some 2) (beginReq (run Variant.fixed demoEnv faultBase) none) (.update "a" { tmpl := "U", status := some false })).1.exec "a" = false := by
  decide

/-- **Without a fault the fault semantics IS the model** (conservative extension): for every request — the
faultable ones, whose handlers are transcribed a second time in Kap/Model/C14Fault.lean, and trivially the delegated
ones — the same stored data (tasks, templates, associations AND the two ID enumerations), the same executing set,
the same number of storage transactions and the same answer. By a simulation relation carried through every DAO
call, every sub-step and every handler (Kap/Proofs/C14Fault.lean, part A). The driver also compares the two at run
time on every request. -/
theorem fault_semantics_conservative (env : Env) (fail : List String) (w : World) (op : Op) :
    (handleF env fail none w op).1.store = (handle Variant.fixed env fail w op).1.store ∧
    (handleF env fail none w op).1.view = (handle Variant.fixed env fail w op).1.view ∧
    (handleF env fail none w op).2 = (handle Variant.fixed env fail w op).2 ∧
    (handleF env fail none w op).1.ntx = (handle Variant.fixed env fail w op).1.ntx := by
  obtain ⟨hs, he, hn, hr⟩ := handleF_none env fail w op
  exact ⟨hs, by unfold World.view; rw [hs, he], hr, hn⟩

/-- **The running-state invariant survives a fault in ANY transaction of ANY request**: whatever transaction `k`
of the request fails (and commits nothing), and whatever the handler then does with the error (500 and return, or log
and go on), everything TaskMaster executes afterwards is still a stored, enabled task. All states, all oracles, all
`k` (also `k` = 0 or beyond the last transaction: no fault). Part B of Kap/Proofs/C14Fault.lean: per DAO call, per
sub-step, per handler. -/
theorem executing_implies_enabled_under_faults (env : Env) (fail : List String) (k : Nat) (w : World) (op : Op)
    (h : ExecInv w) : ExecInv (handleF env fail (some k) w op).1 :=
  handleF_inv env fail (some k) w op h

/-- … hence along every history in which any request may suffer a fault in any of its transactions. -/
theorem executing_implies_enabled_all_faulted_histories (env : Env) (reqs : List (Op × List String × Option Nat)) :
    ExecInv (reqs.foldl (fun w r => (handleF env r.2.1 r.2.2 (beginReq w none) r.1).1) {}) := by
  suffices ∀ (w : World), ExecInv w →
      ExecInv (reqs.foldl (fun w r => (handleF env r.2.1 r.2.2 (beginReq w none) r.1).1) w) from
    this {} (fun i hi => by simp [World.view] at hi)
  induction reqs with
  | nil => exact fun w h => h
  | cons r rest ih => exact fun w h => ih _ (handleF_inv env r.2.1 r.2.2 (beginReq w none) r.1 h)

/-! ### What a failed transaction leaves behind (the correct form of "the first k-1 effects")

"A request whose k-th transaction fails leaves exactly the effects of the first k-1" is FALSE of the code
(`fault_in_rename_keeps_both_ids`, `fault_in_association_still_stops_the_task`: some errors are only logged and the
handler goes on). What holds, per handler: **the failed transaction loses exactly its own effect; whether the later
steps still happen depends on the call that failed** — spelled out below for every position `k` (transactions are
counted from the start of the request: `w.ntx = 0`, which `beginReq` establishes). -/

/-- Bridge: once the request passed validation, `handleF` on a create is `createCommitF` … -/
theorem handleF_create_commit (env : Env) (fail : List String) (fault : Option Nat) (w : World) (id : String) (r : TaskReq)
    (script : String) (templated : Bool) (t : Task) (hn : w.store.tasks id = none)
    (hs : createScript w.store r = some (script, templated)) (hv : createValidate env r script = .ok t) :
    handleF env fail fault w (.create id r) =
      ((createCommitF env fail ⟨w, fault, false⟩ id t templated).1.w, (createCommitF env fail ⟨w, fault, false⟩ id t templated).2) := by
  simp only [handleF, createTaskF, hn, hs, hv, Option.isSome_none, Bool.false_eq_true, if_false]

/-- … and on an update `updateCommitF`. -/
theorem handleF_update_commit (env : Env) (fail : List String) (fault : Option Nat) (w : World) (id : String) (r : TaskReq)
    (orig upd : Task) (script m : String) (ho : w.store.tasks id = some orig)
    (hs : updateScript env w.store orig r = some (script, m)) (hv : updateValidate env orig r script m = .ok upd) :
    handleF env fail fault w (.update id r) =
      ((updateCommitF env fail ⟨w, fault, false⟩ id (if r.newId ≠ "" then r.newId else id) orig upd m).1.w,
       (updateCommitF env fail ⟨w, fault, false⟩ id (if r.newId ≠ "" then r.newId else id) orig upd m).2) := by
  simp only [handleF, updateTaskF, ho, hs, hv]

/-- **Create under a fault.** Transaction 1 = tasks.Create, transaction 2 (templated task) = AssociateTask, all later
ones are saveLastError writes inside startTask.
k = 1: nothing stored, 500. k = 2 on a templated task: the task IS stored but neither associated nor started, 500
(here "the first k-1 effects" is right). Any other k: exactly the fault-free outcome — view and answer. -/
theorem create_under_fault (env : Env) (fail : List String) (w : World) (id : String) (t : Task) (templated : Bool)
    (k : Nat) (h0 : w.ntx = 0) (hn : w.store.tasks id = none) :
    (k = 1 → (createCommitF env fail ⟨w, some k, false⟩ id t templated).1.w.view = w.view ∧
             (createCommitF env fail ⟨w, some k, false⟩ id t templated).2 = .fail) ∧
    (k = 2 → templated = true →
             (createCommitF env fail ⟨w, some k, false⟩ id t templated).1.w.view = w.view.put id t ∧
             (createCommitF env fail ⟨w, some k, false⟩ id t templated).2 = .fail) ∧
    (k ≠ 1 → ¬ (k = 2 ∧ templated = true) →
             (createCommitF env fail ⟨w, some k, false⟩ id t templated).1.w.view =
               (createCommit Variant.fixed env fail w id t templated).1.view ∧
             (createCommitF env fail ⟨w, some k, false⟩ id t templated).2 =
               (createCommit Variant.fixed env fail w id t templated).2) :=
  createCommitF_fault env fail w id t templated k h0 hn

/-- **Delete under a fault.** Transaction 1 = snapshots.Delete (error ignored), 2 = DisassociateTask for a templated
task (error logged), last = tasks.Delete (error answered 500). For EVERY k the view is `delViewF`: the association is
dropped unless k hit DisassociateTask, the task is stopped whenever it was enabled, the record is removed unless k hit
tasks.Delete — so after a failed DisassociateTask the record is gone but a stale association stays (200), and after a
failed tasks.Delete the task is still shown as enabled but no longer executes (500). -/
theorem delete_under_fault (w : World) (id : String) (t : Task) (k : Nat) (h0 : w.ntx = 0) (ht : w.store.tasks id = some t) :
    (deleteTaskF ⟨w, some k, false⟩ id).1.w.view = delViewF w.view id t k ∧
    (deleteTaskF ⟨w, some k, false⟩ id).2 = (if k = (if t.tmpl ≠ "" then 3 else 2) then .fail else .ok) ∧
    (k ≠ 2 → k ≠ 3 → delViewF w.view id t k = (deleteTask w id).1.view) :=
  ⟨(deleteTaskF_fault w id t k h0 ht).1, (deleteTaskF_fault w id t k h0 ht).2,
   fun h2 h3 => delViewF_nofault w id t k ht h2 h3⟩

/-- **Update under a fault.** Transaction 1 = tasks.Create(new) / tasks.Replace; for a rename 2 = tasks.Delete(old)
(error only logged); then the association writes (answered 500 after the running state was adjusted); the rest are
saveLastError writes.
k = 1: nothing changes, 500. k ≠ 1: the executing set is EXACTLY the one the fault-free update leaves, the new record
is stored, the old ID of a rename disappears unless k = 2 (then both IDs stay stored — the old one stopped), templates
are untouched, and the answer is the fault-free one or 500. -/
theorem update_under_fault (env : Env) (fail : List String) (w : World) (id newId : String) (orig upd : Task)
    (k : Nat) (h0 : w.ntx = 0) (ho : w.store.tasks id = some orig) (hfree : id ≠ newId → w.store.tasks newId = none)
    (hinv : ExecInv w) :
    (k = 1 → (updateCommitF env fail ⟨w, some k, false⟩ id newId orig upd upd.tmpl).1.w.view = w.view ∧
             (updateCommitF env fail ⟨w, some k, false⟩ id newId orig upd upd.tmpl).2 = .fail) ∧
    (k ≠ 1 →
      (updateCommitF env fail ⟨w, some k, false⟩ id newId orig upd upd.tmpl).1.w.exec =
        (updateCommit Variant.fixed env fail w id newId orig upd (needsReassoc Variant.fixed id newId orig upd.tmpl)).1.exec ∧
      (updateCommitF env fail ⟨w, some k, false⟩ id newId orig upd upd.tmpl).1.w.store.tasks =
        (fun i => if i = newId then some upd else if i = id then (if k = 2 then some orig else none) else w.store.tasks i) ∧
      (updateCommitF env fail ⟨w, some k, false⟩ id newId orig upd upd.tmpl).1.w.store.tmpls = w.store.tmpls ∧
      ((updateCommitF env fail ⟨w, some k, false⟩ id newId orig upd upd.tmpl).2 = .fail ∨
       (updateCommitF env fail ⟨w, some k, false⟩ id newId orig upd upd.tmpl).2 =
        (updateCommit Variant.fixed env fail w id newId orig upd (needsReassoc Variant.fixed id newId orig upd.tmpl)).2)) := by
  have hidle : upd.enabled = true → (orig.enabled = false ∨ id ≠ newId) → w.exec newId = false := by
    intro _ hor
    by_cases hid : id = newId
    · subst hid
      rcases hor with hoe | hne
      · exact View.EI.not_exec_disabled hinv (t := orig) ho hoe
      · exact absurd rfl hne
    · exact View.EI.not_exec hinv (hfree hid)
  obtain ⟨hA, hB⟩ := updateCommitF_fault env fail w id newId orig upd upd.tmpl k h0 ho hfree hidle
  have hsd : (storeDefinition w id newId upd).2 = true := by
    rw [storeDefinition_ok w id newId upd orig ho]
    split
    · rename_i hne; rw [hfree hne]; rfl
    · rfl
  obtain ⟨c1, c2⟩ := updateCommit_closed env fail w id newId orig upd ho hsd hidle
  refine ⟨hA, fun h1 => ?_⟩
  obtain ⟨e1, e2, e3, e4⟩ := hB h1
  have c2e := congrArg View.exec c2
  simp only [view_exec] at c2e
  exact ⟨by rw [e1, c2e], e2, e3, by rw [c1]; exact e4⟩

/-- **Template create / delete under a fault**: their single transaction fails ⇒ nothing changes, not answered 2xx. -/
theorem template_create_delete_under_fault (env : Env) (w : World) (id s : String) (h0 : w.ntx = 0) :
    ((createTemplateF env ⟨w, some 1, false⟩ id s).1.w.view = w.view ∧
     (createTemplateF env ⟨w, some 1, false⟩ id s).2 ≠ .ok) ∧
    ((deleteTemplateF ⟨w, some 1, false⟩ id).1.w.view = w.view ∧ (deleteTemplateF ⟨w, some 1, false⟩ id).2 = .fail) :=
  templateF_fault env w id s h0

/-! ### Non-vacuity -/

/-- The hypothesis of `executing_implies_enabled_under_faults` is met by a reachable state with an executing,
templated task (the state on which the fault witnesses above are evaluated), and there the faulted requests do
change the store and the executing set. -/
example : ExecInv (beginReq (run Variant.fixed demoEnv faultBase) none) ∧
    (run Variant.fixed demoEnv faultBase).exec "a" = true :=
  ⟨executing_implies_enabled_all_histories Variant.fixed demoEnv faultBase, by decide⟩

/-- The hypotheses of the `…_under_fault` theorems are met on the reachable state `faultBase` (after `beginReq`:
`ntx = 0`; `b` is free, `a` is stored, templated and enabled), and the faulted outcomes there differ from the
fault-free ones. -/
example : (beginReq (run Variant.fixed demoEnv faultBase) none).ntx = 0 ∧
    (beginReq (run Variant.fixed demoEnv faultBase) none).store.tasks "b" = none ∧
    ((beginReq (run Variant.fixed demoEnv faultBase) none).store.tasks "a").map (fun t => (t.tmpl, t.enabled)) = some ("T", true) ∧
    (deleteTaskF ⟨beginReq (run Variant.fixed demoEnv faultBase) none, some 2, false⟩ "a").2 = .ok ∧
    (deleteTaskF ⟨beginReq (run Variant.fixed demoEnv faultBase) none, some 2, false⟩ "a").1.w.store.assoc "T" "a" = true ∧
    (deleteTaskF ⟨beginReq (run Variant.fixed demoEnv faultBase) none, some 3, false⟩ "a").2 = .fail ∧
    (deleteTaskF ⟨beginReq (run Variant.fixed demoEnv faultBase) none, some 3, false⟩ "a").1.w.exec "a" = false := by
  decide

/-- A rejected request with a non-trivial state: the hypothesis of `rejected_request_leaves_no_trace` is met. -/
example : (handle Variant.fixed demoEnv [] (run Variant.fixed demoEnv (hijack.take 1))
    (.create "a" { tmpl := "T", dbrps := ["db.rp"], vars := "v3" })).2 = .bad := by decide

/-- `AllFree` is met by a non-trivial history (accepted and rejected requests, an enabled templated task, a rename
while enabled, a template update that re-synchronises it, a restart), and the theorem then gives the catalogue one
expects. -/
def lifecycle : List Req :=
  [ ⟨.tcreate "T" "t0", [], none⟩,
    ⟨.create "a" { tmpl := "T", dbrps := ["db.rp"], status := some true }, [], none⟩,
    ⟨.create "a" { script := "s0", dbrps := ["db.rp"] }, [], none⟩,     -- rejected: the ID exists
    ⟨.update "a" { newId := "b" }, [], none⟩,                            -- rename while enabled
    ⟨.tupdate "T" "" "td", [], none⟩,                                   -- re-synchronises b
    ⟨.restart, [], none⟩,
    ⟨.delete "b", [], none⟩ ]

example : AllFree demoEnv lifecycle ({}, {}) := by
  refine ⟨⟨rfl, by decide, (fun id h => by cases h), (fun id n s h => by cases h)⟩,
    ⟨rfl, by decide, (fun id h => by cases h), (fun id n s h => by cases h)⟩,
    ⟨rfl, by decide, (fun id h => by cases h), (fun id n s h => by cases h)⟩,
    ⟨rfl, by decide, (fun id h => by cases h), (fun id n s h => by cases h)⟩,
    ⟨rfl, by decide, (fun id h => by cases h), (fun id n s h => by cases h; exact ⟨by decide, by decide⟩)⟩,
    ⟨rfl, by decide, (fun id h => by cases h), (fun id n s h => by cases h)⟩,
    ⟨rfl, by decide, (fun id h => by cases h), (fun id n s h => by cases h)⟩, trivial⟩

example : ((runBoth demoEnv (lifecycle.take 6) ({}, {})).2.tasks "b").map (fun t => (t.script, t.dbrps)) = some ("td", ["pdb.prp"]) ∧
    (runBoth demoEnv (lifecycle.take 6) ({}, {})).2.executing "b" = true ∧
    (runBoth demoEnv (lifecycle.take 6) ({}, {})).2.tasks "a" = none ∧
    (runBoth demoEnv lifecycle ({}, {})).2.tasks "b" = none := by decide

/-- The hypotheses of the restart / delete theorems are met by a reachable, non-empty state, and a restart there
runs exactly the enabled task. -/
def twoTasks : List Req :=
  [ ⟨.create "a" { script := "s0", dbrps := ["db.rp"], status := some true }, [], none⟩,
    ⟨.create "b" { script := "s0", dbrps := ["db.rp"] }, [], none⟩, ⟨.restart, [], none⟩ ]

example : (run Variant.fixed demoEnv twoTasks).store.tids = ["a", "b"] ∧
    (run Variant.fixed demoEnv twoTasks).exec "a" = true ∧ (run Variant.fixed demoEnv twoTasks).exec "b" = false := by
  decide

/-! ### Paged and filtered listings (GET /tasks, GET /templates with pattern / offset / limit) -/

/-- **storage.DoListFunc shows filter | drop(offset) | take(limit)**: for EVERY index list, match function, offset
and limit, the transcribed loop (count the matches, skip the first `offset` of THEM, stop after
`min(offset+limit, len) - offset` results) returns exactly the matching entries without the first `offset` matching
ones, cut after `limit`. In particular entries that do not match never count against the offset. -/
theorem list_loop_is_filter_drop_take (l : List String) (m : String → Bool) (offset limit : Nat) :
    doListFunc l m offset limit = ((l.filter m).drop offset).take limit :=
  doListFunc_eq_pageIds l m offset limit

/-- **A listing request shows the page of the catalogue**: in every state whose view is the catalogue (`RInv`) and
whose ID indexes are sorted (`WIdx`; both hold along every deviation-free history, next theorem), for every pattern,
offset and limit, GET /tasks shows exactly the catalogue's tasks sorted by ID, restricted to the IDs the pattern
denotes, without the first `offset` and cut after `limit` of those — each with its last accepted definition and
executing ⇔ enabled ∧ started — and GET /templates likewise. `known` is any list that contains the defined IDs. -/
theorem listing_page_shows_catalogue (w : World) (c : Cat) (h : RInv w c) (hi : WIdx w)
    (known knownT : List String) (hk : ∀ i t, c.tasks i = some t → i ∈ known)
    (hkT : ∀ i s, c.tmpls i = some s → i ∈ knownT) (pattern : String) (offset limit : Nat) :
    listTasks w pattern offset limit = c.taskPage known pattern offset limit ∧
    listTmpls w pattern offset limit = c.tmplPage knownT pattern offset limit :=
  ⟨listTasks_eq_taskPage h hi known hk pattern offset limit, listTmpls_eq_tmplPage h hi knownT hkT pattern offset limit⟩

/-- … **after every deviation-free history** of create / update / delete / template / restart / death requests, accepted
or rejected, any oracle: every listing request — any pattern, offset, limit — shows the page of the catalogue the
history defines. -/
theorem listing_pages_show_catalogue_all_histories (env : Env) (reqs : List Req) (hok : AllFree env reqs ({}, {}))
    (known knownT : List String) (hk : ∀ i t, (runBoth env reqs ({}, {})).2.tasks i = some t → i ∈ known)
    (hkT : ∀ i s, (runBoth env reqs ({}, {})).2.tmpls i = some s → i ∈ knownT) (pattern : String) (offset limit : Nat) :
    listTasks (runBoth env reqs ({}, {})).1 pattern offset limit =
      (runBoth env reqs ({}, {})).2.taskPage known pattern offset limit ∧
    listTmpls (runBoth env reqs ({}, {})).1 pattern offset limit =
      (runBoth env reqs ({}, {})).2.tmplPage knownT pattern offset limit :=
  listing_page_shows_catalogue _ _ (refine_history_full env reqs {} {} RInv.init hok)
    (runBoth_idx env reqs {} {} WIdx.init hok) known knownT hk hkT pattern offset limit

/-- The ID indexes stay strictly sorted (key order, no duplicates) through every request handler, every revision of
the code, every oracle. -/
theorem index_stays_sorted (v : Variant) (env : Env) (fail : List String) (w : World) (op : Op) (h : WIdx w) :
    WIdx (handle v env fail w op).1 :=
  h.handle v env fail op

/-- **Pages with consecutive offsets concatenate**: the page at `offset` of `k` entries followed by the page at
`offset + k` of `k'` entries is the page at `offset` of `k + k'` entries … -/
theorem pages_concatenate (ids : List String) (m : String → Bool) (offset k k' : Nat) :
    pageIds ids m offset k ++ pageIds ids m (offset + k) k' = pageIds ids m offset (k + k') :=
  pageIds_append ids m offset k k'

/-- … so **the walk of a paging client** (pages of `lim` entries at offsets 0, lim, 2·lim, …) yields the filtered
listing, in order, without gaps or repetitions: after `n` pages exactly its first `n·lim` entries, and all of it once
`n·lim` reaches its length. -/
theorem paging_walk_is_filtered_listing (ids : List String) (m : String → Bool) (lim n : Nat) :
    walk ids m lim n = (ids.filter m).take (n * lim) ∧
    ((ids.filter m).length ≤ n * lim → walk ids m lim n = ids.filter m) := by
  refine ⟨walk_eq ids m lim n, fun h => ?_⟩
  rw [walk_eq, List.take_of_length_le h]

/-- **An ID appears in at most one page**: two pages of the same listing that do not overlap in offsets
(`o1 + l1 ≤ o2`) have no ID in common — for the sorted catalogue of any history (`Cat.taskIds`, `Cat.tmplIds` have no
duplicates) and every pattern. -/
theorem id_in_at_most_one_page (c : Cat) (known : List String) (m : String → Bool) (o1 l1 o2 l2 : Nat)
    (hle : o1 + l1 ≤ o2) (x : String) :
    (x ∈ pageIds (c.taskIds known) m o1 l1 → x ∉ pageIds (c.taskIds known) m o2 l2) ∧
    (x ∈ pageIds (c.tmplIds known) m o1 l1 → x ∉ pageIds (c.tmplIds known) m o2 l2) :=
  ⟨fun h => pageIds_disjoint (Sorted.nodup (List.Pairwise.filter _ (sortIds_sorted known))) m hle h,
   fun h => pageIds_disjoint (Sorted.nodup (List.Pairwise.filter _ (sortIds_sorted known))) m hle h⟩

example : "b" ∈ pageIds ["a", "ab", "b", "c"] (matchFn "?") 1 1 ∧ "b" ∉ pageIds ["a", "ab", "b", "c"] (matchFn "?") 2 1 ∧
    pageIds ["a", "ab", "b", "c"] (matchFn "?") 0 1 ++ pageIds ["a", "ab", "b", "c"] (matchFn "?") 1 2 = ["a", "b", "c"] := by
  decide

/-- Regression witness (seeded change C14-8, "skip the first `offset` index entries before matching"): on the index
a, ab, b with pattern `b*` and offset 1 the page is EMPTY (b is the only match and it is skipped); dropping the first
INDEX entry instead shows b — a paging client would see b twice. The two readings differ exactly when an ID that
does not match sorts before one that does. -/
theorem offset_counts_matches_not_index_entries :
    doListFunc ["a", "ab", "b"] (matchFn "b*") 1 1 = [] ∧
    (((["a", "ab", "b"].drop 1).filter (matchFn "b*")).take 1) = ["b"] ∧
    doListFunc ["a", "ab", "b"] (matchFn "b*") 0 1 = ["b"] := by
  decide

/-- Non-vacuity: the listing theorems apply to a reachable state with several tasks (`twoTasks` is deviation-free), the
pattern `?` there denotes both IDs and the second page of one entry shows b, not executing. -/
example : AllFree demoEnv twoTasks ({}, {}) ∧
    (listTasks (runBoth demoEnv twoTasks ({}, {})).1 "?" 1 1).map (fun r => (r.1, r.2.2)) = [("b", false)] ∧
    matchFn "a*" "ab" = true ∧ matchFn "a" "ab" = false ∧ matchFn "?" "ab" = false ∧ matchFn "" "ab" = true ∧
    walk ["a", "ab", "b", "c"] (matchFn "?") 1 3 = ["a", "b", "c"] := by
  refine ⟨?_, by decide, by decide, by decide, by decide, by decide, by decide⟩
  simp only [AllFree, twoTasks]
  refine ⟨⟨rfl, by decide, ?_, ?_⟩, ⟨rfl, by decide, ?_, ?_⟩, ⟨rfl, by decide, ?_, ?_⟩, trivial⟩ <;> intros <;> simp_all

end Kap.Props.C14
