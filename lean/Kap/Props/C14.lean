import Kap.Spec.C14
namespace Kap.Props.C14
end Kap.Props.C14
