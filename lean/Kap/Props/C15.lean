/-
C15 — property theorems (every `theorem` in this module is a proof obligation; `bin/check C15` audits each one's
axioms). Helper lemmas live in Kap/Proofs/C15*.lean.

Statement (properties.jsonl): after any sequence of create, put, replace and delete operations (each atomic: a
failed or rejected operation leaves no trace), get returns the last value stored under an ID, every index lists
exactly the stored objects, each once, in index order, pagination with offset/limit and glob patterns returns the
corresponding slice of that list, and reopening the store yields the same contents.

What is proved for ALL histories / states / fault positions (no size bound), about the model transcribed from
indexed.go / storage.go / bolt.go:
  * `failed_op_no_trace`          any operation that reports an error (rejection, fault at ANY write, failed commit)
                                  leaves the committed bucket unchanged;
  * `keys_faithful_on_wf`         on well-formed configurations/objects (ids may be clean MULTI-segment paths such as
                                  "tasks/cpu") `path.Join`'s cleaning is the identity and the key layout is injective
                                  (data vs index area, index vs index, value vs value);
  * `step_refines_map`            one API call refines one step of the abstract map (result codes by the exists /
                                  replace rules and the uniqueness of the unique indexes, only an injected fault can
                                  make it fail otherwise) and keeps data area and index area in bijection with the map
                                  — for ANY well-formed configuration, unique secondary indexes included;
  * `unique_conflict_rejected`    storing an object whose value of a unique index is held by another stored object
                                  is rejected with `conflict`, whatever the fault, and changes nothing;
  * `history_refines_map`, `get_returns_last_stored`, `index_bijection`, `unique_indexes_stay_unique`
                                  the same for every history; uniqueness of every unique index is an invariant;
  * `pagination_exact`, `nolimit_exact`   `DoListFunc` = filter ▸ drop offset ▸ take limit.
  * `bucket_stays_sorted`, `prefix_scan_exact`, `composite_key_order(_exact)`, `index_listing`, `list_is_page_of_listing`
                                  every index lists exactly the stored objects, each once, ascending by (value, id),
                                  and `List`/`ReverseList` with any pattern/offset/limit is the page of that listing —
                                  for every index outside the EXACT predicate of finding `index-order-separator`
                                  (`lowSepDev`, the one the driver's KNOWN clause uses);
  * `rebuild_identity`            `Rebuild` leaves every reachable bucket exactly as it was.
Nothing is left stated-only.
-/
import Kap.Proofs.C15Rebuild
namespace Kap.Props.C15
open Kap.C15

/-! ### Atomicity -/

/-- **A failed or rejected operation leaves no trace**: whatever the operation, the configuration, the state, and
wherever the fault strikes (any write position, or the commit), an operation that reports an error leaves the
committed bucket exactly as it was. -/
theorem failed_op_no_trace (c : Cfg) (kv : KV) (op : Op) (e : Err)
    (h : (step c kv op).2 = some e) : (step c kv op).1 = kv := by
  cases op <;> first | exact update_error_keeps _ _ _ _ h | rfl

/-- Non-vacuity: a replace whose 2nd write (the new index entry) fails after the data key was already rewritten. -/
example :
    let c : Cfg := { pfx := "p".toList, indexes := [⟨"id".toList, true, .id⟩, ⟨"grp".toList, false, .grp⟩] }
    let kv := run c [.create ⟨"a".toList, "g".toList, [], "1".toList⟩ .none]
    (step c kv (.replace ⟨"a".toList, "h".toList, [], "2".toList⟩ (.write 1))).2 = some .io := by decide

/-! ### The key layout -/

/-- **On well-formed configurations and objects the key layout is faithful** (`path.Join`'s cleaning changes
nothing; data keys, index keys of different indexes, of different values and — for non-unique indexes — of
different ids never coincide). -/
theorem keys_faithful_on_wf (c : Cfg) (hc : c.wf = true) : KeysOK c (fun o => c.wfObj o = true) :=
  keysOK_of_wf c hc

/-! ### Refinement of the abstract map -/

/-- **One API call** (create / put / replace / delete / rebuild / reopen, with any fault) from a sorted bucket in
which data area and index area are in bijection with the abstract map `m`: the reported result is admissible for the
abstract map (`specStep`: "exists" / "missing" exactly by the rules, then "conflict" exactly when a unique index
already has the value for another id, `io` only when a fault was injected, no success when the commit fails;
`Rebuild` changes nothing) and the bijection — uniqueness of every unique index included — holds again for the
abstract successor. No hypothesis on the unique indexes: they may be on any attribute. -/
theorem step_refines_map (c : Cfg) (hc : c.wf = true) (kv : KV) (m : Abs)
    (hi : Inv c (fun o => c.wfObj o = true) kv m) (hs : Sorted kv) (op : Op)
    (hwf : ∀ o, op.obj? = some o → c.wfObj o = true) :
    ∃ m', specStep c m op (step c kv op).2 = some m' ∧
      Inv c (fun o => c.wfObj o = true) (step c kv op).1 m' :=
  step_refines_all hc (fun _ h => h) (keysOK_of_wf c hc) hi hs op hwf

/-- **A unique index never takes a second holder**: when a stored object of another id already has the value of
some unique index, `Put` — and `Create` of an absent id, `Replace` of a present one — answers `conflict` and the
committed bucket is exactly what it was, whatever fault is armed (the check runs before the first write). -/
theorem unique_conflict_rejected (c : Cfg) (hc : c.wf = true) (kv : KV) (m : Abs)
    (hi : Inv c (fun o => c.wfObj o = true) kv m) (o : Obj) (hwf : c.wfObj o = true) (f : Fault)
    (hcf : absConflict c m o = true) :
    step c kv (.put o f) = (kv, some .conflict) ∧
    ((absGet m o.id).isNone = true → step c kv (.create o f) = (kv, some .conflict)) ∧
    ((absGet m o.id).isSome = true → step c kv (.replace o f) = (kv, some .conflict)) := by
  have hk := keysOK_of_wf c hc
  have h1 := putTx_result hk hi o hwf true false (beginTx kv f) rfl
  have h2 := putTx_result hk hi o hwf false false (beginTx kv f) rfl
  have h3 := putTx_result hk hi o hwf true true (beginTx kv f) rfl
  cases hg : absGet m o.id with
  | none =>
    rw [hg] at h1 h2
    simp only [Bool.false_eq_true, ↓reduceIte, hcf] at h1 h2
    refine ⟨?_, fun _ => ?_, fun h => by simp at h⟩ <;> simp only [step, update, h1, h2]
  | some x =>
    rw [hg] at h1 h3
    simp only [↓reduceIte, hcf] at h1 h3
    refine ⟨?_, fun h => by simp at h, fun _ => ?_⟩ <;> simp only [step, update, h1, h3]

/-- Non-vacuity: a unique index on the tag; "b" asks for the tag "a" holds. -/
example :
    let c : Cfg := { pfx := "p".toList, indexes := [⟨"id".toList, true, .id⟩, ⟨"tag".toList, true, .tag⟩] }
    let m : Abs := [⟨"a".toList, [], "t".toList, "1".toList⟩]
    c.wf = true ∧ c.wfObj ⟨"b".toList, [], "t".toList, "2".toList⟩ = true ∧
      absConflict c m ⟨"b".toList, [], "t".toList, "2".toList⟩ = true ∧
      (absRun c [.create ⟨"a".toList, [], "t".toList, "1".toList⟩ .none] [] []) = some m := by decide

/-- **Every history** of create / put / replace / delete / rebuild / reopen with well-formed objects, with a fault injected
at any write or commit of any operation, on ANY well-formed configuration (unique indexes on any attribute):
all results are admissible for the abstract map and the final bucket is in bijection with the final map. -/
theorem history_refines_map (c : Cfg) (hc : c.wf = true) (ops : List Op)
    (hops : ∀ op ∈ ops, ∀ o, op.obj? = some o → c.wfObj o = true) :
    ∃ m, absRun c ops [] [] = some m ∧ Inv c (fun o => c.wfObj o = true) (run c ops) m :=
  history_refines_all hc (fun _ h => h) (keysOK_of_wf c hc) ops [] [] (inv_empty c _) List.Pairwise.nil hops

/-- **get returns the last value stored under an ID** — after every such history. -/
theorem get_returns_last_stored (c : Cfg) (hc : c.wf = true) (ops : List Op)
    (hops : ∀ op ∈ ops, ∀ o, op.obj? = some o → c.wfObj o = true) :
    ∃ m, absRun c ops [] [] = some m ∧
      ∀ id, get c (run c ops) id = match absGet m id with | some o => .ok o | none => .error .missing := by
  obtain ⟨m, hr, hi⟩ := history_refines_map c hc ops hops
  exact ⟨m, hr, fun id => getTx_spec (keysOK_of_wf c hc) hi id⟩

/-- **Index entries and stored objects are in bijection** — after every such history: every stored object has its
entry (holding its id) in every index, every key of the bucket is the data key of a stored object or the index
entry of a stored object, and two (index, object) pairs never share an entry. -/
theorem index_bijection (c : Cfg) (hc : c.wf = true) (ops : List Op)
    (hops : ∀ op ∈ ops, ∀ o, op.obj? = some o → c.wfObj o = true) :
    ∃ m, absRun c ops [] [] = some m ∧
      (∀ o ∈ m, ∀ i ∈ c.indexes, kvGet (run c ops) (ikey c i o) = some (.ref o.id)) ∧
      (∀ k v, kvGet (run c ops) k = some v →
        (∃ o ∈ m, k = dataKey c o.id ∧ v = .obj o) ∨ (∃ o ∈ m, ∃ i ∈ c.indexes, k = ikey c i o ∧ v = .ref o.id)) ∧
      (∀ a ∈ m, ∀ b ∈ m, ∀ i ∈ c.indexes, ∀ j ∈ c.indexes, ikey c i a = ikey c j b → i = j ∧ a = b) := by
  obtain ⟨m, hr, hi⟩ := history_refines_map c hc ops hops
  have hk := keysOK_of_wf c hc
  refine ⟨m, hr, hi.index, hi.only, ?_⟩
  intro a ha b hb i hi' j hj he
  obtain ⟨hij, hsel, hnu⟩ := hk.index_inj i j a b hi' hj (hi.wf a ha) (hi.wf b hb) he
  refine ⟨hij, hi.ids a ha b hb ?_⟩
  cases hun : i.unique with
  | false => exact hnu hun
  | true => exact hi.uniq i hi' hun a ha b hb hsel

/-- **Uniqueness of every unique index is an invariant** — after every such history no two stored objects share a
value of an index marked `Unique` (so no object can be pushed out of the listing of a unique index). -/
theorem unique_indexes_stay_unique (c : Cfg) (hc : c.wf = true) (ops : List Op)
    (hops : ∀ op ∈ ops, ∀ o, op.obj? = some o → c.wfObj o = true) :
    ∃ m, absRun c ops [] [] = some m ∧ uniqueOK c m = true ∧
      ∀ i ∈ c.indexes, i.unique = true → ∀ a ∈ m, ∀ b ∈ m, i.sel.get a = i.sel.get b → a = b := by
  obtain ⟨m, hr, hi⟩ := history_refines_map c hc ops hops
  refine ⟨m, hr, ?_, fun i hi' hun a ha b hb hsel => hi.ids a ha b hb (hi.uniq i hi' hun a ha b hb hsel)⟩
  simp only [uniqueOK, List.all_eq_true, Bool.or_eq_true, Bool.not_eq_true', decide_eq_true_eq]
  intro i hi'
  cases hun : i.unique with
  | false => exact Or.inl rfl
  | true =>
    right
    intro a ha b hb
    by_cases hsel : i.sel.get a = i.sel.get b
    · exact Or.inl (hi.uniq i hi' hun a ha b hb hsel)
    · exact Or.inr hsel

/-- Non-vacuity of the hypotheses: the default configuration is well-formed, and a history with a replace that
moves the object to another group, a rejected create, a faulted put and a delete satisfies the premises; the
abstract run is defined. -/
example :
    let c : Cfg := { pfx := "p".toList, indexes := [⟨"id".toList, true, .id⟩, ⟨"grp".toList, false, .grp⟩] }
    let ops : List Op := [.create ⟨"a".toList, "g".toList, [], "1".toList⟩ .none,
      .create ⟨"ab".toList, "g".toList, [], "2".toList⟩ .none,
      .replace ⟨"a".toList, "h".toList, [], "3".toList⟩ .none,
      .create ⟨"a".toList, "g".toList, [], "4".toList⟩ .none,
      .put ⟨"b".toList, "g".toList, [], "5".toList⟩ (.write 1), .delete "ab".toList .none, .rebuild (.write 2),
      .rebuild .none, .reopen]
    c.wf = true ∧
      (ops.all (fun op => match op.obj? with | some o => c.wfObj o | none => true)) = true ∧
      (absRun c ops [] []).isSome = true ∧ (run c ops).length = 3 := by decide

/-! ### Pagination -/

/-- **`DoListFunc` returns exactly the requested slice**: the matches, minus the first `offset`, cut to `limit`
(for every list, match function, offset and limit). -/
theorem pagination_exact (l : List Str) (m : Str → Bool) (offset limit : Nat) :
    doListFunc l m (offset : Int) (limit : Int) = ((l.filter m).drop offset).take limit :=
  doListFunc_eq l m offset limit

/-- … and with the limit that `list` substitutes for a negative one (`len(ids)`) nothing is cut. -/
theorem nolimit_exact (l : List Str) (m : Str → Bool) (offset : Nat) :
    doListFunc l m (offset : Int) (l.length : Int) = (l.filter m).drop offset := by
  rw [doListFunc_eq]
  apply List.take_of_length_le
  have := List.length_filter_le m l
  simp; omega

/-! ### Counterexamples: where the code violates the property -/

/-- `r` is the successful answer `v`. -/
def answers {α : Type} [DecidableEq α] (r : Except Err α) (v : α) : Bool :=
  match r with | .ok x => decide (x = v) | .error _ => false

def cfg2 : Cfg := { pfx := "p".toList, indexes := [⟨"id".toList, true, .id⟩, ⟨"grp".toList, false, .grp⟩] }
def cfg3 : Cfg := { pfx := "p".toList, indexes := [⟨"id".toList, true, .id⟩, ⟨"tag".toList, true, .tag⟩] }

/-- Finding `path-clean-keys`: an object with ID "." (an accepted task ID) is stored and `Get`-able, but `indexKey`
cleans "/p/indexes/id/." to "/p/indexes/id", so it is missing from the listing of the id index
(replayed on the real code by corpus/C15/finding-path-clean-keys.ops). -/
theorem dot_id_is_stored_but_not_listed :
    let kv := run cfg2 [.create ⟨".".toList, "g".toList, [], "1".toList⟩ .none]
    answers (get cfg2 kv ".".toList) ⟨".".toList, "g".toList, [], "1".toList⟩ = true ∧
    answers (list cfg2 kv "id".toList [] 0 (-1) false) [] = true := by decide

/-- Finding `path-clean-keys`, collision: ID "a/../b" is stored under its own data key but its id-index entry is
the one of "b" ("/p/indexes/id/b"); the clean id "b" can then not be created at all — the uniqueness check finds
its entry held by another id — although no object "b" is stored. -/
theorem cleaned_id_occupies_entry :
    let kv := run cfg2 [.create ⟨"a/../b".toList, "g".toList, [], "1".toList⟩ .none]
    (get cfg2 kv "a/../b".toList).toBool = true ∧ (get cfg2 kv "b".toList).toBool = false ∧
    (step cfg2 kv (.create ⟨"b".toList, "g".toList, [], "2".toList⟩ .none)).2 = some .conflict := by decide

/-- Finding `path-clean-keys`, outside the directory: the value "../id/b" of the non-unique group index puts the
entry of object "zz" INTO the directory of the id index ("/p/indexes/id/b/zz"): the id listing answers "zz" twice. -/
theorem cleaned_value_lands_in_other_index :
    let b : Obj := ⟨"b".toList, "g".toList, [], "1".toList⟩
    let z : Obj := ⟨"zz".toList, "../id/b".toList, [], "2".toList⟩
    let kv := run cfg2 [.create b .none, .create z .none]
    answers (list cfg2 kv "id".toList [] 0 (-1) false) [b, z, z] = true := by decide

/-- The defect repaired by the `fix:` commit that added the uniqueness check (former finding
`unique-index-no-check`): with the `putTx` of before (`putTxOld`) a second object with the same value of a unique
index took over the entry — the first object was stored but no longer listed on that index. Today the same call is
rejected with `conflict` and changes nothing (replayed on the real code by
corpus/C15/unique-index-conflict-rejected.ops). -/
theorem putTxOld_unique_entry_taken_over :
    let a : Obj := ⟨"a".toList, [], "t".toList, "1".toList⟩
    let b : Obj := ⟨"b".toList, [], "t".toList, "2".toList⟩
    let kv1 := run cfg3 [.create a .none]
    let old := update kv1 .none (fun t => putTxOld cfg3 t b false false)
    old.2 = none ∧ (get cfg3 old.1 "a".toList).toBool = true ∧
    answers (list cfg3 old.1 "tag".toList [] 0 (-1) false) [b] = true ∧
    step cfg3 kv1 (.create b .none) = (kv1, some .conflict) ∧
    answers (list cfg3 kv1 "tag".toList [] 0 (-1) false) [a] = true := by decide

/-- Finding `index-order-separator`: values "g" and "g.1" of a non-unique index: the entry keys are "g/a" and
"g.1/b", and '.' sorts below '/', so the object of the LARGER value is listed first. -/
theorem separator_breaks_value_order :
    let kv := run cfg2 [.create ⟨"a".toList, "g".toList, [], "1".toList⟩ .none,
                        .create ⟨"b".toList, "g.1".toList, [], "2".toList⟩ .none]
    answers (list cfg2 kv "grp".toList [] 0 (-1) false)
      [⟨"b".toList, "g.1".toList, [], "2".toList⟩, ⟨"a".toList, "g".toList, [], "1".toList⟩] = true ∧
    keyLt ("g".toList, "a".toList) ("g.1".toList, "b".toList) = true := by decide

/-- The defect repaired by commit 7ff1085: with a negative limit the `list` of snapshot ef0888e ignored pattern
and offset (here: pattern "b", offset 1 — the correct answer is the empty page). -/
theorem listOld_nolimit_ignores_pattern_offset :
    let kv := run cfg2 [.create ⟨"a".toList, "g".toList, [], "1".toList⟩ .none,
                        .create ⟨"b".toList, "g".toList, [], "2".toList⟩ .none]
    answers (listOld cfg2 kv "id".toList "b".toList 1 (-1) false)
      [⟨"a".toList, "g".toList, [], "1".toList⟩, ⟨"b".toList, "g".toList, [], "2".toList⟩] = true ∧
    answers (list cfg2 kv "id".toList "b".toList 1 (-1) false) [] = true := by decide

/-- Non-vacuity with a unique SECONDARY index: "b" is refused the tag of "a" (create and put), takes it after "a"
moved to another tag, after which "a" cannot move back; the abstract run is defined and the tag listing has both. -/
example :
    let c : Cfg := { pfx := "p".toList, indexes := [⟨"id".toList, true, .id⟩, ⟨"tag".toList, true, .tag⟩] }
    let ops : List Op := [.create ⟨"a".toList, [], "t".toList, "1".toList⟩ .none,
      .create ⟨"b".toList, [], "t".toList, "2".toList⟩ .none,
      .put ⟨"b".toList, [], "t".toList, "3".toList⟩ (.write 0),
      .replace ⟨"a".toList, [], "s".toList, "4".toList⟩ .none,
      .put ⟨"b".toList, [], "t".toList, "5".toList⟩ .none,
      .replace ⟨"a".toList, [], "t".toList, "6".toList⟩ .commit]
    c.wf = true ∧
      (ops.all (fun op => match op.obj? with | some o => c.wfObj o | none => true)) = true ∧
      (absRun c ops [] []).isSome = true ∧
      (step c (run c (ops.take 1)) (ops.getD 1 .reopen)).2 = some .conflict ∧
      (step c (run c (ops.take 2)) (ops.getD 2 .reopen)).2 = some .conflict ∧
      (step c (run c (ops.take 5)) (ops.getD 5 .reopen)).2 = some .conflict ∧
      answers (list c (run c ops) "tag".toList [] 0 (-1) false)
        [⟨"a".toList, [], "s".toList, "4".toList⟩, ⟨"b".toList, [], "t".toList, "5".toList⟩] = true := by decide

/-! ### Listings: exactly the stored objects, each once, in index order; pages are slices -/

/-- **The bucket stays sorted** under every API call (any configuration, arguments, fault). -/
theorem bucket_stays_sorted (c : Cfg) (ops : List Op) : Sorted (run c ops) := run_sorted c ops

/-- **On a sorted bucket the `Seek`/`Next`-while-`HasPrefix` scan of `Bolt.list` is the filter by prefix.** -/
theorem prefix_scan_exact (kv : KV) (hs : Sorted kv) (p : Str) :
    kvList kv p = kv.filter (fun e => p.isPrefixOf e.1) := kvList_eq_filter p kv hs

/-- **`value ++ "/" ++ id` orders like the pair (value, id)** when the values have no byte ≤ '/'. -/
theorem composite_key_order (va vb a b : Str) (ha : SepSafe va = true) (hb : SepSafe vb = true) :
    (va ++ '/' :: a < vb ++ '/' :: b) ↔ (va < vb ∨ (va = vb ∧ a < b)) := composite_lt_iff va vb a b ha hb

/-- … and, sharper, whenever neither value is a proper prefix of the other followed by a byte ≤ '/'
(`lowSepPair`, the exact predicate of finding `index-order-separator`): e.g. values of EQUAL LENGTH such as the
RFC 3339 dates of the replay service's date indexes, although they contain '-' (which sorts below '/'). -/
theorem composite_key_order_exact (va vb a b : Str) (h1 : lowSepPair va vb = false) (h2 : lowSepPair vb va = false) :
    (va ++ '/' :: a < vb ++ '/' :: b) ↔ (va < vb ∨ (va = vb ∧ a < b)) := composite_lt_iff_compat va vb a b h1 h2

/-- Conversely, INSIDE the predicate the order is always broken (whatever the ids): when `vb` continues `va` with a
byte below '/', the entry of the larger value `vb` sorts before the entry of `va`. -/
theorem composite_key_order_broken_on_low_separator (va rest a b : Str) (ch : Char) (hch : ch < '/') :
    va < va ++ ch :: rest ∧ (va ++ ch :: rest) ++ '/' :: b < va ++ '/' :: a := by
  constructor
  · have := (append_lt_append_left va [] (ch :: rest)).mpr (List.nil_lt_cons _ _)
    simpa using this
  · rw [List.append_assoc, append_lt_append_left, List.cons_append, List.cons_lt_cons_iff]
    exact Or.inl hch

/-- Sufficient for an index to be outside the deviation: it is unique, or its stored values have no byte ≤ '/'. -/
theorem sepSafe_values_outside_deviation (i : Index) (m : Abs) (h : ∀ o ∈ m, Index.wfObj i o = true) :
    lowSepDev i m = false := lowSepDev_of_sepSafe h

/-- **Every index lists exactly the stored objects, each once, in index order** — after every history of create /
put / replace / delete / rebuild / reopen (faults anywhere) on any well-formed configuration, for every index whose
stored values are outside the deviation `index-order-separator` (`lowSepDev`: the decidable predicate the driver
uses for the KNOWN clause — so the theorem covers exactly the complement of the finding): the unbounded
`List(index, "", 0, -1)` succeeds and its answer is strictly ascending by (index value, id) and has exactly the
objects of the abstract map as members. -/
theorem index_listing (c : Cfg) (hc : c.wf = true) (ops : List Op)
    (hops : ∀ op ∈ ops, ∀ o, op.obj? = some o → c.wfObj o = true) :
    ∃ m, absRun c ops [] [] = some m ∧
      ∀ i ∈ c.indexes, lowSepDev i m = false →
        ∃ l, list c (run c ops) i.name [] 0 (-1) false = .ok l ∧ IsListing i.sel m l := by
  obtain ⟨m, hr, hi⟩ := history_refines_map c hc ops hops
  refine ⟨m, hr, ?_⟩
  intro i hi' hdev
  obtain ⟨l, hres, hlist⟩ := listing_of_inv hc (fun _ h => h) hi (run_sorted c ops) i hi' hdev
  refine ⟨l, ?_, hlist⟩
  have := list_page_of_resolves hres [] 0 (-1) false
  have e : specPage (if false = true then l.reverse else l) (matchFn []) ((0 : Nat) : Int) (-1) = l := by
    simp [specPage, matchFn]
  rw [e] at this
  exact this

/-- **Pagination with offset/limit and glob patterns returns the corresponding slice of that list** — after every
such history, for every such index, pattern, offset, limit (negative = no limit) and direction: `List`/`ReverseList`
answers exactly `specPage` of THE listing `l` (filter by the pattern on the id ▸ drop offset ▸ take limit). -/
theorem list_is_page_of_listing (c : Cfg) (hc : c.wf = true) (ops : List Op)
    (hops : ∀ op ∈ ops, ∀ o, op.obj? = some o → c.wfObj o = true) :
    ∃ m, absRun c ops [] [] = some m ∧
      ∀ i ∈ c.indexes, lowSepDev i m = false → ∃ l, IsListing i.sel m l ∧
        ∀ (pat : Str) (off : Nat) (lim : Int) (rev : Bool),
          list c (run c ops) i.name pat (off : Int) lim rev
            = .ok (specPage (if rev then l.reverse else l) (matchFn pat) (off : Int) lim) := by
  obtain ⟨m, hr, hi⟩ := history_refines_map c hc ops hops
  refine ⟨m, hr, ?_⟩
  intro i hi' hdev
  obtain ⟨l, hres, hlist⟩ := listing_of_inv hc (fun _ h => h) hi (run_sorted c ops) i hi' hdev
  exact ⟨l, hlist, fun pat off lim rev => list_page_of_resolves hres pat off lim rev⟩

/-- Non-vacuity: ids that are prefixes of each other, two groups, a replace that moves an object; the listing of
the group index is by (group, id). -/
example :
    let c : Cfg := { pfx := "p".toList, indexes := [⟨"id".toList, true, .id⟩, ⟨"grp".toList, false, .grp⟩] }
    let ops : List Op := [.create ⟨"ab".toList, "g".toList, [], "1".toList⟩ .none,
      .create ⟨"a".toList, "h".toList, [], "2".toList⟩ .none,
      .create ⟨"b".toList, "g".toList, [], "3".toList⟩ .none,
      .replace ⟨"a".toList, "g".toList, [], "4".toList⟩ .none]
    (ops.all (fun op => match op.obj? with | some o => c.wfObj o | none => true)) = true ∧
    (match absRun c ops [] [] with | some m => c.indexes.all (fun i => !lowSepDev i m) | none => false) = true ∧
    answers (list c (run c ops) "grp".toList [] 0 (-1) false)
      [⟨"a".toList, "g".toList, [], "4".toList⟩, ⟨"ab".toList, "g".toList, [], "1".toList⟩,
       ⟨"b".toList, "g".toList, [], "3".toList⟩] = true := by decide

/-- Non-vacuity on the only kind of non-unique index kapacitor configures (replay service: RFC 3339 dates, equal
length, with '-' and ':' that sort below '/' resp. above): outside the deviation, listed by (date, id). -/
example :
    let c : Cfg := { pfx := "recordings".toList, indexes := [⟨"id".toList, true, .id⟩, ⟨"date".toList, false, .grp⟩] }
    let ops : List Op := [.create ⟨"r2".toList, "2017-01-02T00:00:00Z".toList, [], "1".toList⟩ .none,
      .create ⟨"r1".toList, "2017-01-02T00:00:00Z".toList, [], "2".toList⟩ .none,
      .create ⟨"r3".toList, "2017-01-01T10:00:00Z".toList, [], "3".toList⟩ .none]
    (ops.all (fun op => match op.obj? with | some o => c.wfObj o | none => true)) = true ∧
    (match absRun c ops [] [] with | some m => c.indexes.all (fun i => !lowSepDev i m) | none => false) = true ∧
    answers (list c (run c ops) "date".toList [] 0 (-1) false)
      [⟨"r3".toList, "2017-01-01T10:00:00Z".toList, [], "3".toList⟩,
       ⟨"r1".toList, "2017-01-02T00:00:00Z".toList, [], "2".toList⟩,
       ⟨"r2".toList, "2017-01-02T00:00:00Z".toList, [], "1".toList⟩] = true := by decide

/-! ### Rebuild and reopen -/

/-- **`Rebuild` is the identity on every reachable state** (the index area is a function of the data area): after
every such history `Rebuild` succeeds and the bucket is exactly — key by key — what it was. -/
theorem rebuild_identity (c : Cfg) (hc : c.wf = true) (ops : List Op)
    (hops : ∀ op ∈ ops, ∀ o, op.obj? = some o → c.wfObj o = true) :
    step c (run c ops) (.rebuild .none) = (run c ops, none) := by
  obtain ⟨m, _, hi⟩ := history_refines_map c hc ops hops
  obtain ⟨h1, h2⟩ := update_rebuild_refines hc (fun _ h => h) (keysOK_of_wf c hc) hi (run_sorted c ops) .none
  have h3 : (step c (run c ops) (.rebuild .none)).2 = none := by
    cases hres : (update (run c ops) Fault.none fun t => rebuildTx c t).2 with
    | none => exact hres
    | some e => rw [hres] at h1; cases e <;> simp [specStepCore] at h1
  exact Prod.ext h2 h3

/- Reopen: no theorem. `step c kv .reopen = (kv, none)` holds by definition — `IndexedStore` holds configuration
only, so the model has no volatile state. Where reopening is really checked is the tie: the harness closes and
reopens the real Bolt file after EVERY operation and the raw bucket is compared key by key with the model. -/

end Kap.Props.C15
