/-
C15 — property theorems (every `theorem` in this module is a proof obligation, axiom-audited by bin/check).
-/
import Kap.Spec.C15
namespace Kap.Props.C15
open Kap.C15

theorem update_error_keeps (kv : KV) (f : Fault) (g : Tx → Except Err Tx) (e : Err)
    (h : (update kv f g).2 = some e) : (update kv f g).1 = kv := by
  unfold update at h ⊢
  split
  · rfl
  · split
    · rfl
    · rename_i heq hne
      rw [heq] at h
      simp [hne] at h

/-- **A failed or rejected operation leaves no trace**: whatever the operation, whatever the configuration and
wherever the fault strikes (any write position, or the commit), an operation that reports an error leaves the
committed bucket exactly as it was. -/
theorem failed_op_no_trace (c : Cfg) (kv : KV) (op : Op) (e : Err)
    (h : (step c kv op).2 = some e) : (step c kv op).1 = kv := by
  cases op <;> first | exact update_error_keeps _ _ _ _ h | rfl

end Kap.Props.C15
