/- C16 — property theorems (in progress). -/
import Kap.Spec.C16
namespace Kap.Props.C16
open Kap.C16

end Kap.Props.C16
