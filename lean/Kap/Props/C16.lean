/-
C16 — property theorems (every `theorem` in this module is a proof obligation; `bin/check C16` audits each
one's axioms). Helper lemmas live in Kap/Proofs/C16*.lean.

Statement (properties.jsonl): each query a batch task issues selects data with time in [stop−period, stop)
where stop is the tick time minus the offset, whatever WHERE clause, group-by or fill the user wrote,
keeping the user's conditions intact; ticks follow every()/cron() (aligned when requested), and the
historical query list for a time span is exactly the list of queries live ticks in that span would have
issued. A task may only query the database/retention policies it declared.

The theorems are about the model of Kap/Model/C16.lean, which follows the code after the three `fix:`
commits of findings/C16.txt; the snapshot's behaviour is kept as `spliceOld`, `tickerNextOld`,
`cloneWith false` for the counterexample theorems.
-/
import Kap.Proofs.C16Ticks
import Kap.Proofs.C16Zone
import Kap.Proofs.C16Range
import Kap.Proofs.C16Gen
namespace Kap.Props.C16
open Kap.C16

/-! ### (1) the issued text means: user condition AND time range — for every WHERE clause -/

/-- Whatever tree is printed, the parser accepts the text and builds `reparse` of it (the fuel the model
parser is given always suffices). -/
theorem parse_print (e : Cond) : parse e.print = some (reparse e) := parse_print' e

/-- Everything the parser builds is canonical: no bare OR directly under an AND (the user's condition
always is a parser output: NewQuery gets it from `influxql.ParseQuery`). -/
theorem parser_output_canonical (toks : List Tok) (c : Cond) (h : parse toks = some c) : c.canon = true :=
  parse_canon' toks c h

/-- Printing and re-parsing a canonical tree (any nesting of AND/OR/parentheses) preserves its meaning. -/
theorem reparse_preserves_meaning (c : Cond) (h : c.canon = true) (env : Env) :
    (reparse c).eval env = c.eval env := reparse_eval env c h

/-- **splice_semantics.** For EVERY user WHERE text the parser accepts and every range: the text NewQuery
issues parses, and it is true of a row exactly when the user's condition is true of it and
s ≤ time < e. -/
theorem splice_semantics (toks : List Tok) (c : Cond) (hp : parse toks = some c) (s e : Int) :
    ∃ t, parse (splice (some c) s e).print = some t ∧ RangeSpec (some c) t s e := by
  refine ⟨reparse (splice (some c) s e), parse_print _, fun env => ?_⟩
  rw [reparse_eval env _ (splice_canon c s e (parse_canon' toks c hp))]
  simp [splice, Cond.eval, wrapUser_eval, geTL, ltTL, Atom.eval, TOp.eval, Bool.and_assoc]

/-- … and without a WHERE clause the issued condition is the range. -/
theorem splice_semantics_no_where (s e : Int) :
    ∃ t, parse (splice none s e).print = some t ∧ RangeSpec none t s e := by
  refine ⟨reparse (splice none s e), parse_print _, fun env => ?_⟩
  rw [reparse_eval env _ (by simp [splice, Cond.canon, geTL, ltTL, Cond.notOr])]
  simp [splice, Cond.eval, geTL, ltTL, Atom.eval, TOp.eval]

/-- The same as the executable check the driver runs on observed texts. -/
theorem splice_passes_driver_check :
    let c := Cond.bin .or (.atom (.opq 1)) (.bin .and (.atom (.opq 2)) (.atom (.time .gt 15 false)))
    (parse (splice (some c) 10 20).print).map (fun t => rangeHolds (some c) t 10 20) = some true := by decide

/-- Counterexample (the defect repaired by 1577e3b): NewQuery of snapshot ef0888e, user text `a OR b`, range
[10,20): the issued text is true of a row with a true and time 0. Replayed on the real code by
corpus/C16/or-precedence.ops. -/
theorem spliceOld_loses_time_bound :
    ∃ (c : Cond) (env : Env), parse [.atom (.opq 1), .op .or, .atom (.opq 2)] = some c ∧
      (parse (spliceOld (some c) 10 20).print).map (·.eval env) = some true ∧
      ¬ (10 ≤ env.time ∧ env.time < 20) :=
  ⟨.bin .or (.atom (.opq 1)) (.atom (.opq 2)), ⟨fun id => id == 1, 0⟩, by decide⟩

/-! ### (1b) Clone re-finds exactly the spliced literals; live state never leaks -/

/-- **clone_finds_the_spliced_literals.** In every state the node's query can be in, Clone succeeds and
returns the same query: the walk picks the two literals NewQuery created (never a user predicate) and the
group-by literals of the statement. `userNoTL`: no user atom is an in-memory TimeLiteral — true of every
parsed text (printing erases the flag: `parse_print`; influxql's parser has no TimeLiteral production). -/
theorem clone_finds_the_spliced_literals (user : Option Cond) (gb : Option (Int × Int)) (ag : Bool) (extra : String)
    (q : Query) (hq : Reach user gb ag q extra) (hu : userNoTL user = true) : q.clone = some q := reach_clone hq hu

/-- Clone NEVER adopts a literal of the user's condition — even for trees no parser produces (user atoms that
are in-memory TimeLiterals): whenever it succeeds, `startTL`/`stopTL` are the two spliced literals; with such a
user atom it fails instead (multiple start/stop conditions). -/
theorem clone_never_adopts_user_literal (user : Option Cond) (s e : Int) (q' : Query)
    (h : ({ cond := splice user s e, startIdx := userAtoms user, stopIdx := userAtoms user + 1 } : Query).clone = some q') :
    q'.startIdx = userAtoms user ∧ q'.stopIdx = userAtoms user + 1 := by
  simp only [Query.clone, Query.cloneWith] at h
  split at h
  · rename_i i j hs hp he
    simp at h; subst h
    simp only
    cases user with
    | none =>
      simp only [walk, splice, Cond.atoms, geTL, ltTL, List.singleton_append] at hs hp he
      exact walk_tail _ 0 s e i j hs hp he
    | some c =>
      simp only [walk, splice, Cond.atoms, wrapUser_atoms, geTL, ltTL, List.singleton_append] at hs hp he
      rw [walkFrom_append] at hs hp he
      have := walk_tail _ _ s e i j hs hp he
      simpa [userAtoms, atoms_length] using this
  · simp at h

/-- Setting a range on ANY reachable state (fresh, after any live ticks, or a clone) issues exactly the text
that depends on the configuration and the range only. -/
theorem issued_text_depends_on_range_only (user : Option Cond) (gb : Option (Int × Int)) (ag : Bool) (extra : String)
    (q : Query) (hq : Reach user gb ag q extra) (r : Int × Int) :
    (q.setRange r).issue = issueFor user gb ag r extra ∧ Reach user gb ag (q.setRange r) extra :=
  ⟨(reach_setRange hq r).2, (reach_setRange hq r).1⟩

theorem newQuery_reachable (user : Option Cond) (gb : Option (Int × Int)) (ag : Bool) (extra : String) :
    Reach user gb ag (newQuery user gb ag extra) extra := reach_new user gb ag extra

/-- Counterexample (the defect repaired by b9dddd3): with the snapshot's Clone (detached group-by literals)
and alignGroup, the historical query for the tick at 17 says `time(4, 0)`, the live one `time(4, 3)`. Replayed
by corpus/C16/aligngroup-clone-offset.ops. -/
theorem cloneOld_keeps_stale_group_offset :
    let q0 := newQuery none (some (4, 0)) true
    (queriesWith (Query.cloneWith false) (fun t => some (tickerNext 10 false t)) 0 10 q0 7 (some 20) 1000).map (·.map (·.gb))
      = some [some (4, 0)] ∧
    (liveRun 0 10 q0 [17]).map (·.gb) = [some (4, 3)] := by decide

/-! ### (2) the range of a tick, for every tick history -/

/-- **range_exact.** Whatever ticks came before (the node mutates ONE query object), the text issued at tick T
is the configuration's text for [T − offset − period, T − offset) … -/
theorem live_queries_exact (user : Option Cond) (gb : Option (Int × Int)) (ag : Bool) (extra : String)
    (offset period : Int) (ticks : List Int) :
    liveRun offset period (newQuery user gb ag extra) ticks =
      ticks.map (fun T => issueFor user gb ag (rangeOfTick offset period T) extra) := by
  rw [liveRun_eq offset period ticks _ (reach_new user gb ag extra)]
  rfl

/-- … and that text means: user condition AND stop − period ≤ time < stop with stop = T − offset; fill option
and tag / `*` dimensions are the configured ones. -/
theorem issued_query_meaning (toks : List Tok) (c : Cond) (hp : parse toks = some c)
    (gb : Option (Int × Int)) (ag : Bool) (extra : String) (offset period T : Int) :
    ∃ t, (issueFor (some c) gb ag (rangeOfTick offset period T) extra).cond = some t ∧
      (issueFor (some c) gb ag (rangeOfTick offset period T) extra).extra = extra ∧
      RangeSpec (some c) t (T - offset - period) (T - offset) := by
  obtain ⟨t, h1, h2⟩ := splice_semantics toks c hp (T - offset - period) (T - offset)
  exact ⟨t, h1, rfl, h2⟩

/-- alignGroup: the offset written by SetStartTime aligns the buckets with the start of the range. -/
theorem aligngroup_offset_aligned (s len : Int) : gbAligned s (len, Int.tmod s len) = true := by
  simp only [gbAligned, decide_eq_true_eq]
  have := Int.mul_tdiv_add_tmod s len
  rw [show s - s.tmod len = len * (s.tdiv len) by omega]
  exact Int.mul_emod_right _ _

/-! ### (3) ticks -/

/-- **aligned Next.** `timeTicker.Next` under align() is the FIRST multiple of `every` (Go's grid) after
`now`, for every phase of `now`. -/
theorem tickerNext_aligned_is_first_multiple (d now : Int) (hd : 0 < d) :
    now < tickerNext d true now ∧ (tickerNext d true now + zeroOff) % d = 0 ∧
    ∀ u, now < u → (u + zeroOff) % d = 0 → tickerNext d true now ≤ u := by
  have h := first_multiple_after d zeroOff now hd
  simp only [tickerNext, ↓reduceIte, goTruncate_eq now d hd]
  exact ⟨h.1, h.2.1, h.2.2.2⟩

/-- The live aligned ticker: `Truncate(now)+every` first, then the runtime's ticker times rounded — as long as
the runtime is less than half an interval off, the k-th tick is the (k+1)-th multiple after the start. -/
theorem live_aligned_ticks_are_consecutive_multiples (d s0 j : Int) (k : Nat) (hd : 0 < d)
    (hj1 : -d ≤ 2 * j) (hj2 : 2 * j < d) :
    liveTick d true s0 k j = goTruncate s0 d + (k + 1) * d := by
  have hm : (goTruncate s0 d + (k + 1) * d + zeroOff) % d = 0 := by
    have h := (first_multiple_after d zeroOff s0 hd).2.1
    rw [goTruncate_eq s0 d hd]
    obtain ⟨m, hm⟩ := (emod_zero_iff _ _).mp h
    rw [emod_zero_iff]
    exact ⟨m + k, by rw [Int.mul_add, Int.add_mul, Int.mul_comm (k : Int) d]; omega⟩
  unfold liveTick
  simp only [↓reduceIte]
  split
  · rename_i hk; subst hk; simp
  · rw [show goTruncate s0 d + d + ↑k * d + j = (goTruncate s0 d + (↑k + 1) * d) + j by rw [Int.add_mul]; omega]
    exact goRound_near_multiple d _ j hd hm hj1 hj2

/-- Counterexample (the defect repaired by dca7c35): every 10 aligned, start at phase 5: the snapshot's Next
(`Round`) makes the historical loop start at 20, the live ticker's first tick is 10. Replayed by
corpus/C16/align-round-vs-truncate.ops. -/
theorem tickerNextOld_skips_first_tick :
    histTicks (fun t => some (tickerNextOld 10 true t)) 35 1000 0 (histFuel 5 35) 5 = [20, 30] ∧
    (List.range 3).map (fun k => liveTick 10 true 5 k) = [10, 20, 30] := by decide

/-! ### (4) the historical list is exactly the live list -/

/-- General form: whenever `next t` is the first live time after `t` (for `t` = the start or a live time),
the ranges `Queries(start, stop)` produces satisfy `HistSpec` — for every span, offset, period and `now`.
This is the contract under which a cron schedule is covered (`cronexpr.Next` = first firing after t). -/
theorem historical_equals_live_of_next (live : Int → Bool) (next : Int → Option Int)
    (start stop now offset period : Int)
    (hnext : ∀ t, (t = start ∨ (start < t ∧ live t = true)) → IsNext live next t) :
    HistSpec live start stop now offset period
      ((histTicks next stop now offset (histFuel start stop) start).map (tickRange offset period)) := by
  have h := histTicks_exact live next stop now offset (histFuel start stop) start hnext (by simp [histFuel])
  refine ⟨?_, ?_, ?_⟩
  · rw [ticksOf_map_tickRange]; exact h.1
  · rw [ticksOf_map_tickRange]; exact h.2
  · intro r hr
    obtain ⟨T, _, rfl⟩ := List.mem_map.mp hr
    simp only [tickRange, rangeOfTick]
    congr 1 <;> omega

/-- **historical_equals_live** for every()/align(): every interval, aligned or not, every start phase, span,
offset, period and `now`. -/
theorem historical_equals_live (d : Int) (hd : 0 < d) (align : Bool) (start stop now offset period : Int) :
    HistSpec (LiveTick (.every d align) start) start stop now offset period
      ((histTicks (fun t => some (tickerNext d align t)) stop now offset (histFuel start stop) start).map
        (tickRange offset period)) := by
  apply historical_equals_live_of_next
  intro t ht
  cases align with
  | true => exact isNext_aligned d start t hd (by rcases ht with rfl | ⟨h, _⟩ <;> omega)
  | false => exact isNext_unaligned d start t hd ht

/-- … and for the `*/k` cron schedules the correspondence run uses. -/
theorem historical_equals_live_cron (K : Int) (hK : 0 < K) (start stop now offset period : Int) :
    HistSpec (LiveTick (.cronEvery K) start) start stop now offset period
      ((histTicks (cronNext K) stop now offset (histFuel start stop) start).map (tickRange offset period)) := by
  apply historical_equals_live_of_next
  intro t ht
  exact isNext_cronEvery K start t hK (by rcases ht with rfl | ⟨h, _⟩ <;> omega)

/-- The texts: `Queries(start, stop)` on a node in ANY reachable state (fresh, or after any live ticks) returns
exactly the texts a fresh task's live ticks at those times issue — conditions, ranges and group-by offsets. -/
theorem historical_texts_equal_live_texts (user : Option Cond) (hu : userNoTL user = true)
    (gb : Option (Int × Int)) (ag : Bool) (extra : String) (next : Int → Option Int) (offset period : Int)
    (q : Query) (hq : Reach user gb ag q extra) (start : Int) (stop : Option Int) (now : Int) :
    queries next offset period q start stop now =
      some (liveRun offset period (newQuery user gb ag extra)
        (histTicks next (effStop stop now) now offset (histFuel start (effStop stop now)) start)) := by
  rw [queries_eq next offset period q hq hu, liveRun_eq offset period _ _ (reach_new user gb ag extra)]

/-- The Go loop has no fuel: any fuel above `stop − start` gives the same list (so the model's bound loses
nothing), whenever `next` moves forward. -/
theorem queries_fuel_irrelevant (next : Int → Option Int) (stop now offset start : Int) (k : Nat)
    (hinc : ∀ t c, next t = some c → t < c) :
    histTicks next stop now offset (histFuel start stop + k) start = histTicks next stop now offset (histFuel start stop) start :=
  histTicks_fuel next stop now offset hinc _ _ k (by simp [histFuel])

/-- … and for a cron schedule that ENDS (firing times `fires`, ascending): after the last firing `Next` is the zero
time, the loop stops (`current.IsZero()`), and nothing is missing. -/
theorem historical_equals_live_cron_ending (fires : List Int) (hs : fires.Pairwise (· < ·))
    (start stop now offset period : Int) :
    HistSpec (LiveTick (.cronList fires) start) start stop now offset period
      ((histTicks (cronListNext fires) stop now offset (histFuel start stop) start).map (tickRange offset period)) := by
  apply historical_equals_live_of_next
  intro t ht
  exact isNext_cronList fires hs start t (by rcases ht with rfl | ⟨h, _⟩ <;> omega)

/-- The closed form the driver's spec check uses (`firstLiveAfter`, with which it validates the injected tick
lists and hence `historical-equals-live`) IS the first live tick after `t` — or `none` exactly when there is none
(for `t` at or after the start; for the unaligned ticker, on its own grid). -/
theorem firstLiveAfter_least (sch : Schedule) (s0 t : Int)
    (hs : match sch with | .every d _ => 0 < d | .cronEvery K => 0 < K | .cronList fires => fires.Pairwise (· < ·) | .cronZone tod _ => TodOk tod)
    (ht : match sch with
      | .every _ false => t = s0 ∨ (s0 < t ∧ LiveTick sch s0 t = true)
      | _ => s0 ≤ t) :
    IsNext (LiveTick sch s0) (firstLiveAfter sch s0) t := by
  match sch, hs, ht with
  | .every d true, hs, ht =>
    have h := isNext_aligned d s0 t hs ht
    have e : firstLiveAfter (.every d true) s0 t = some (tickerNext d true t) := by
      have := Int.mul_ediv_add_emod (t + zeroOff) d
      simp only [firstLiveAfter, tickerNext, ↓reduceIte, goTruncate_eq t d hs, Option.some.injEq]
      rw [Int.add_mul, Int.mul_comm]; omega
    unfold IsNext at h ⊢; rw [e]; exact h
  | .every d false, hs, ht =>
    have h := isNext_unaligned d s0 t hs ht
    have e : firstLiveAfter (.every d false) s0 t = some (tickerNext d false t) := by
      simp only [firstLiveAfter, tickerNext, Bool.false_eq_true, ↓reduceIte, Option.some.injEq]
      have hk : (t - s0) % d = 0 := by
        rcases ht with rfl | ⟨_, h2⟩
        · simp
        · simp only [LiveTick, Bool.and_eq_true, decide_eq_true_eq] at h2; exact h2.2
      have := Int.mul_ediv_add_emod (t - s0) d
      rw [Int.add_mul, Int.mul_comm]; omega
    unfold IsNext at h ⊢; rw [e]; exact h
  | .cronEvery K, hs, ht =>
    exact isNext_cronEvery K s0 t hs ht
  | .cronList fires, hs, ht =>
    exact isNext_cronList fires hs s0 t ht
  | .cronZone tod off, hs, ht =>
    have h := isNext_cronZone tod hs off s0 t ht
    unfold IsNext at h ⊢; rw [firstLiveAfter_cronZone tod hs off s0 t]; exact h

/-! ### (4b) cron() speaks of the host's clock: the live ticker and the historical list must read the SAME clock -/

/-- **cron in a zone.** `cronexpr.Next` as `Queries` uses it (on `start.Local()`: the host's zone, `off` ahead of UTC)
answers the first instant after `t` at which the host's clock shows one of the named times of day — for EVERY zone
offset, every list of named times and every `t`. -/
theorem cronZoneNext_is_first_firing (tod : List Int) (hok : TodOk tod) (off s0 t : Int) (ht : s0 ≤ t) :
    IsNext (LiveTick (.cronZone tod off) s0) (cronZoneNext tod off) t := isNext_cronZone tod hok off s0 t ht

/-- Evaluating a schedule in a zone `off` ahead of UTC is evaluating it in UTC on the zone's clock reading. -/
theorem cronZoneNext_shift (tod : List Int) (off t : Int) :
    cronZoneNext tod off t = (cronZoneNext tod 0 (t + off)).map (· - off) := by
  simp only [cronZoneNext, Int.add_zero, Int.sub_zero]
  cases tod.find? (fun x => decide ((t + off) % dayNs < x)) with
  | some x => simp
  | none => cases tod.head? <;> simp

/-- **historical_equals_live** for a cron() naming hours / minutes / seconds on a host in ANY zone: the ranges
`Queries(start, stop)` lists are exactly those of the instants in the span at which the host's clock shows a named time. -/
theorem historical_equals_live_cron_zone (tod : List Int) (hok : TodOk tod) (off start stop now offset period : Int) :
    HistSpec (LiveTick (.cronZone tod off) start) start stop now offset period
      ((histTicks (cronZoneNext tod off) stop now offset (histFuel start stop) start).map (tickRange offset period)) := by
  apply historical_equals_live_of_next
  intro t ht
  exact isNext_cronZone tod hok off start t (by rcases ht with rfl | ⟨h, _⟩ <;> omega)

/-- **The live cron ticker and the historical list coincide when they read the same clock** — for every zone offset `z`,
every named-time list, start, span, offset and `now`: what `cronTicker.Start` sends (first `n` ticks, `Next` evaluated
in the zone of `time.Now()`) up to the end of the span IS the list of ticks `Queries` walks (`Next` evaluated in the
zone of `start.Local()`). -/
theorem cron_live_equals_historical_same_zone (tod : List Int) (hne : tod ≠ []) (z stop now offset : Int) (n : Nat) (s0 : Int) :
    histTicks (cronZoneNext tod z) stop now offset n s0 =
      (cronLiveIn tod z n s0).takeWhile (fun c => decide (c ≤ stop) && decide (c - offset ≤ now)) :=
  have _ := hne
  histTicks_eq_live_takeWhile _ stop now offset n s0

/-- … so the live ticks of a span are exactly the schedule's instants in it, each once, in order (`HistSpec` of the LIVE list). -/
theorem live_cron_ticks_in_span_exact (tod : List Int) (hok : TodOk tod) (hne : tod ≠ []) (z start stop now offset period : Int) :
    HistSpec (LiveTick (.cronZone tod z) start) start stop now offset period
      (((cronLiveIn tod z (histFuel start stop) start).takeWhile (fun c => decide (c ≤ stop) && decide (c - offset ≤ now))).map
        (tickRange offset period)) := by
  rw [← cron_live_equals_historical_same_zone tod hne]
  exact historical_equals_live_cron_zone tod hok z start stop now offset period

/-- Counterexample (what a live ticker that reads the clock in UTC on a host that is not in UTC does — the reason the
two zones of the model are tied to ONE `time.Local` by the correspondence run `cronlive`): cron() at 09:00, host five
hours east of UTC, a task started at the Unix epoch (05:00 on the host), span of two days. History lists 09:00 host
time = 04:00 UTC of each day; a live ticker evaluating in UTC ticks at 09:00 UTC: no historical query is a live one. -/
theorem cron_live_in_utc_differs_from_history :
    ∃ (tod : List Int) (zHist zLive stop : Int),
      TodOk tod ∧
      histTicks (cronZoneNext tod zHist) stop (stop + 1) 0 5 0 = [4 * 3600000000000, 28 * 3600000000000] ∧
      (cronLiveIn tod zLive 5 0).takeWhile (fun c => decide (c ≤ stop)) = [9 * 3600000000000, 33 * 3600000000000] :=
  ⟨[9 * 3600000000000], 5 * 3600000000000, 0, 2 * 86400000000000, ⟨by decide, by decide⟩, by decide, by decide⟩

/-- **The live cron ticker and the historical list coincide for EVERY cron schedule, also one that ends** (a year
field in the past, a list of firings that runs out): what `cronTicker.Start` sends up to the end of the span is the
list of ticks `Queries` walks — both loops stop at the zero time `Next` answers for an ended schedule. -/
theorem cron_live_equals_historical_any_schedule (next : Int → Option Int) (stop now offset : Int) (n : Nat) (s0 : Int) :
    histTicks next stop now offset n s0 =
      (cronLiveTicks next n s0).takeWhile (fun c => decide (c ≤ stop) && decide (c - offset ≤ now)) :=
  histTicks_eq_live_takeWhile next stop now offset n s0

/-- An ended schedule is silent: no live tick, no historical query. -/
theorem ended_cron_is_silent (next : Int → Option Int) (now : Int) (h : next now = none) (n : Nat) (stop nw offset : Int) :
    cronLiveTicks next n now = [] ∧ histTicks next stop nw offset n now = [] := by
  cases n <;> simp [cronLiveTicks, histTicks, h]

/-- Counterexample (the tree before the `fix:` recorded in findings/C16.txt, found by the `cronlive` op with shape `end`:
165081 live queries for a range in year 1 within one second): a cron schedule that has ENDED. `Queries` stops at the
zero time `Next` answers; the old `cronTicker.Start` did not test it: `next.Sub(now)` is negative, `time.After` fires at
once, and the zero time is sent as a tick — in a loop without pause. Those ticks are not on the schedule and the
historical list of the span is empty. -/
theorem old_ended_cron_live_sends_zero_time :
    cronLiveTicksOld (cronListNext [10]) 3 10 = [zeroTime, zeroTime, zeroTime] ∧
    cronLiveTicks (cronListNext [10]) 3 10 = [] ∧
    histTicks (cronListNext [10]) 100 1000 0 5 10 = [] ∧
    LiveTick (.cronList [10]) 10 zeroTime = false := by decide

/-! ### (5b) no setting crashes the node; the batch carries the window's end -/

/-- **No division by zero.** `Query.Dimensions` now refuses a time dimension that is not positive; in every state an
accepted node's query can reach, `SetStartTime`'s `% groupByTimeDL.Val` has a non-zero divisor. -/
theorem accepted_dimensions_never_trap (user : Option Cond) (gb : Option (Int × Int)) (ag : Bool) (extra : String)
    (q : Query) (hv : validDims gb = true) (hq : Reach user gb ag q extra) : q.setStartTimeTraps = false := by
  obtain ⟨s, e, g, rfl, hg, _⟩ := hq
  cases g with
  | none => simp [Query.setStartTimeTraps]
  | some a =>
    cases gb with
    | none => simp at hg
    | some b =>
      simp only [Option.map_some, Option.some.injEq] at hg
      obtain ⟨len, o⟩ := a
      obtain ⟨len', o'⟩ := b
      simp only [validDims, decide_eq_true_eq] at hv
      simp only at hg
      have : len ≠ 0 := by omega
      simp [Query.setStartTimeTraps, this]

/-- Counterexample (the defect repaired by the fourth `fix:` commit of findings/C16.txt): `groupBy(time(0s))` with
`alignGroup()` was accepted, and the first `SetStartTime` divides by zero — in `doQuery`'s goroutine, which nothing
recovers: the whole process dies. Replayed on the real code by corpus/C16/time0-aligngroup.ops. -/
theorem time0_alignGroup_trapped :
    validDims (some (0, 0)) = false ∧ (newQuery none (some (0, 0)) true).setStartTimeTraps = true := by decide

/-- The batch handed downstream carries the window's end (`stop = tick − offset`) whenever the query is not grouped
by time (and then the result's own latest point time, or again the stop without points). -/
theorem batch_time_is_window_end (grouped : Bool) (ptMax : Option Int) (offset period tick : Int) :
    batchTimeHolds grouped ptMax (rangeOfTick offset period tick).2
      (batchTime grouped ptMax (tickRange offset period tick).2) = true := by
  cases grouped <;> cases ptMax <;> simp [batchTimeHolds, batchTime, rangeOfTick, tickRange]

/-! ### (6) declared sources only -/

/-- **only_declared_dbrps.** When StartBatching / BatchQueries let the task run, every source of every query
node (hence of every issued query) is declared; otherwise nothing is issued at all. -/
theorem only_declared_dbrps (declared : List DBRP) (nodes : List (List DBRP)) :
    match startBatching declared nodes with
    | some issued => ∀ srcs ∈ issued, onlyDeclared declared srcs = true
    | none => ∃ srcs ∈ nodes, onlyDeclared declared srcs = false := by
  by_cases h : checkDBRPs declared nodes = true
  · simp only [startBatching, h, ↓reduceIte]
    simp only [checkDBRPs, List.all_eq_true] at h
    intro srcs hs
    simp only [onlyDeclared, List.all_eq_true]
    exact h srcs hs
  · simp only [startBatching, h, Bool.false_eq_true, ↓reduceIte]
    simp only [checkDBRPs, List.all_eq_true] at h
    apply Classical.byContradiction
    intro hn
    apply h
    intro srcs hs d hd
    apply Classical.byContradiction
    intro hc
    apply hn
    refine ⟨srcs, hs, ?_⟩
    simp only [onlyDeclared, Bool.eq_false_iff, ne_eq, List.all_eq_true]
    intro hall
    exact hc (hall d hd)

/-! ### the arithmetic found in the Go source today is the model's

`/verif/extract/c16` (go/ast) rewrites `Kap/Gen/C16.lean` from batch.go / query.go on every run; a shape it does not
recognise becomes `.unknown`, evaluates to `none`, and these theorems stop checking (fail closed). -/

/-- `doQuery`: `stop := now − offset`; SetStartTime(stop − period); SetStopTime(stop) — the model's `tickRange`. -/
theorem gen_doQuery_range (tick offset period : Int) :
    let ρ := envOf [("now", tick), ("n.b.Offset", offset), ("n.b.Period", period)]
    (Gen.doQueryStop.eval ρ).bind (fun st =>
      (Gen.doQueryStartArg.eval (ρ.set "stop" st)).bind (fun a =>
        (Gen.doQueryStopArg.eval (ρ.set "stop" st)).map (fun b => (a, b)))) = some (tickRange offset period tick) := gen_doQuery_range' tick offset period

/-- `timeTicker.Next` — the model's `tickerNext`. -/
theorem gen_tickerNext (every now : Int) (align : Bool) :
    let ρ := envOf [("now", now), ("t.every", every)] [("t.align", align)]
    (Gen.nextCond.eval ρ).bind (fun c => if c then Gen.nextThen.eval ρ else Gen.nextElse.eval ρ)
      = some (tickerNext every align now) := gen_tickerNext' every now align

/-- `SetStartTime`: under alignGroup with a time dimension the offset becomes `start % length` (Go's remainder). -/
theorem gen_groupByOffset (s len : Int) (ag hasTime hasOff : Bool) :
    let ρ := envOf [("s", s), ("q.groupByTimeDL.Val", len)]
      [("q.alignGroup", ag), ("q.groupByTimeDL != nil", hasTime), ("q.groupByOffsetDL != nil", hasOff)]
    Gen.gbOffsetGuard.eval ρ = some (ag && hasTime && hasOff) ∧ Gen.gbOffsetValue.eval ρ = some (Int.tmod s len) := gen_groupByOffset' s len ag hasTime hasOff

/-- `Dimensions`: both accepted forms of a time dimension are refused exactly when the model's `validDims` says so. -/
theorem gen_dimensions_reject (len off : Int) :
    Gen.dimensionRejects.map (BE.eval (envOf [("dim", len), ("dim.Length", len)])) =
      [some (!validDims (some (len, off))), some (!validDims (some (len, off)))] := gen_dimensions_reject' len off

/-- `Queries`: `current` starts at `start` and advances by `n.ticker.Next(current)`; the loop leaves when that is the
zero time or after `stop`, then when `qstop = current − offset` is after `now`; the clone gets
[qstop − period, qstop) — the model's `histTicks` / `tickRange`; a zero `stop` means `now` (`effStop`). -/
theorem gen_queries_loop (c stop now offset period : Int) (next : Int → Option Int) (cur : Int) :
    Gen.queriesInit = .name "start.Local()" ∧
    Gen.queriesAdvance.eval (envOf [("current", cur)] [] [] next) = next cur ∧
    (let ρ := envOf [("current", c), ("stop", stop), ("now", now), ("n.b.Offset", offset), ("n.b.Period", period)]
     (Gen.queriesQstop.eval ρ) = some (c - offset) ∧
     Gen.queriesBreaks.map (BE.eval (ρ.set "qstop" (c - offset))) = [some (decide (c > stop)), some (decide (c - offset > now))] ∧
     (Gen.queriesStartArg.eval (ρ.set "qstop" (c - offset)), Gen.queriesStopArg.eval (ρ.set "qstop" (c - offset)))
       = (some (tickRange offset period c).1, some (tickRange offset period c).2)) ∧
    (Gen.queriesBreaks.head?.bind (BE.eval (envOf [("stop", stop)] [] ["current"]))) = some true ∧
    Gen.queriesStopDefaultsToNowWhen.eval (envOf [] [] ["stop"]) = some true ∧
    Gen.queriesStopDefaultsToNowWhen.eval (envOf [("stop", stop)]) = some false :=
  gen_queries_loop' c stop now offset period next cur

/-- The batch time stamp: `stop` when the result has no point time or the query is not grouped by time — the
model's `batchTime`. -/
theorem gen_batchTime (grouped : Bool) (ptMax : Option Int) (stop : Int) :
    let ρ := envOf ([("stop", stop)] ++ (match ptMax with | some t => [("bch.Begin().Time()", t)] | none => []))
      [("n.query.IsGroupedByTime()", grouped)] (match ptMax with | some _ => [] | none => ["bch.Begin().Time()"])
    (Gen.batchTimeCond.eval ρ).bind (fun c => if c then Gen.batchTimeValue.eval ρ else ptMax)
      = some (batchTime grouped ptMax stop) :=
  gen_batchTime' grouped ptMax stop

/-! ### the driver's finite check is exact -/

/-- `rangeHolds` — what the driver evaluates on every OBSERVED text (all assignments of the comparisons that
occur × all times next to a literal that occurs) — holds exactly when `RangeSpec` does (all rows): the driver's
SPECFAIL `time-bound-and-user-condition` / `live-range-exact` verdicts are neither too weak nor too strong. -/
theorem rangeHolds_decides_RangeSpec (user : Option Cond) (issued : Cond) (s e : Int) :
    rangeHolds user issued s e = true ↔ RangeSpec user issued s e := rangeHolds_iff user issued s e

/-! ### non-vacuity: the hypotheses are met by concrete, non-trivial instances -/

example : (parse [.lp, .atom (.opq 1), .op .or, .atom (.opq 2), .rp, .op .and, .atom (.opq 3), .op .or, .atom (.time .gt 5 false)]).map
    (fun c => c.canon && userNoTL (some c) && c.natoms == 4) = some true := by decide

example : Reach (some (.atom (.opq 1))) (some (4, 0)) true
    ((newQuery (some (.atom (.opq 1))) (some (4, 0)) true "fill(0);host").setRange (7, 17)) "fill(0);host" :=
  (reach_setRange (reach_new _ _ _ _) _).1
example : histTicks (cronListNext [10, 41, 69]) 100 1000 0 (histFuel 30 100) 30 = [41, 69] := by decide
-- a host 3:30 west of UTC, cron() at 00:15:00 and 23:45:30 host time, from the epoch (20:30 on the host) for two days
example : TodOk [900000000000, 85530000000000] ∧ [900000000000, 85530000000000] ≠ [] := ⟨⟨by decide, by decide⟩, by decide⟩
example : histTicks (cronZoneNext [900000000000, 85530000000000] (-12600000000000)) 172800000000000 172800000000001 0 9 0 =
    [11730000000000, 13500000000000, 98130000000000, 99900000000000] := by decide
example : cronLiveIn [900000000000, 85530000000000] (-12600000000000) 3 0 = [11730000000000, 13500000000000, 98130000000000] := by decide
example : validDims (some (4, 1)) = true ∧ [10, 41, 69].Pairwise (· < ·) := by decide

example : histTicks (fun t => some (tickerNext 10 true t)) 35 1000 0 (histFuel 5 35) 5 = [10, 20, 30] := by decide
example : histTicks (fun t => some (tickerNext 10 false t)) 35 22 1 (histFuel 5 35) 5 = [15] := by decide
example : histTicks (cronNext 15) 50 1000 0 (histFuel 7 50) 7 = [15, 30, 45] := by decide
example : startBatching [("db", "rp")] [[("db", "rp")], [("dbx", "rp")]] = none := by decide
example : startBatching [("db", "rp")] [[("db", "rp")]] = some [[("db", "rp")]] := by decide

end Kap.Props.C16
