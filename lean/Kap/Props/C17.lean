/-
C17 — property theorems (every `theorem` in this module is a proof obligation; `bin/check C17` audits each one's
axioms). Helper lemmas live in Kap/Proofs/C17*.lean.

Statement (properties.jsonl): for every scheduled task the executor is invoked for consecutive occurrences of its
cron/every schedule after its last-scheduled time, each occurrence exactly once, in increasing order, never before
occurrence+offset on the scheduler's clock, never concurrently for the same task, and not at all for occurrences
after the task was released; scheduling, rescheduling and releasing always return promptly, and the last-scheduled
checkpoint only moves forward.

The transition system (Kap/Model/C17.lean) has the actions Schedule, Release, clock advance, timer fire, tick
consumption, one pass of the main loop's inner `for` (with `process()`), and a finished execution with outcome
ok/error/panic and checkpoint ok/error. The theorems hold for EVERY finite sequence of these actions from the
initial state — every interleaving of API calls, clock jumps of any size, loop passes at any moment (also when no
timer fired) and executor latencies — for every schedule oracle `nx` that is strictly increasing, every
assignment `wk` of task ids to workers, any number of tasks and workers.
-/
import Kap.Proofs.C17Run
import Kap.Proofs.C17Hist
namespace Kap.Props.C17
open Kap.C17

/-! ### the comparator (`Item.Less`) -/

/-- `Item.Less` is a strict order, total on distinct (when, id) keys: the btree is well-formed. -/
theorem less_strict_total_order :
    (∀ a, less a a = false) ∧
    (∀ a b, less a b = true → less b a = false) ∧
    (∀ a b c, less a b = true → less b c = true → less a c = true) ∧
    (∀ a b, same a b = false → less a b = true ∨ less b a = true) ∧
    (∀ a b, same a b = true ↔ a.whn = b.whn ∧ a.id = b.id) :=
  ⟨less_irrefl, fun _ _ => less_asymm, fun _ _ _ => less_trans, fun _ _ => less_total, same_iff⟩

/-! ### index / queue agreement -/

/-- **Uniqueness index and queue agree, in every reachable state**: `nextTime[id] = w` exactly when the queue holds
an item of `id`, that item has `when = w`, there is one item per id, `when = next + Offset`, and the queue is
ordered by `Less` (so `Min`/`Ascend` see the earliest item first). Release and re-Schedule therefore always find
and remove THE entry of the task. -/
theorem index_queue_agree (E : Env) (hincr : Incr E.nx) (acts : List Act) :
    let s := runActs E {} acts
    (∀ id w, aget s.index id = some w ↔ ∃ it ∈ s.queue, it.id = id ∧ it.whn = w) ∧
    (∀ a ∈ s.queue, ∀ b ∈ s.queue, a.id = b.id → a = b) ∧
    (∀ it ∈ s.queue, it.whn = it.next + it.off) ∧
    Sorted s.queue := by
  have h := (good_runActs hincr acts (good_init E)).q
  exact ⟨h.idx, h.uniq, h.whn, h.sorted⟩

/-! ### the master safety theorem -/

/-- **Every history the scheduler can produce is accepted by the property monitor** (Kap/Spec/C17.lean): every
executor entry is for a task that is scheduled at that moment (released-is-silent), is the next occurrence of its
schedule after the last-scheduled time / the previous run (consecutive-in-order-once), happens at or after
occurrence+offset on the clock (never-early), while no run of the same task is in progress or awaiting its
checkpoint (no-overlap), is told `runAt = occurrence+offset`; every checkpoint is that of the run that just
finished and lies above the previous checkpoint of the same scheduling (checkpoint-moves-forward). -/
theorem history_accepted (E : Env) (hincr : Incr E.nx) (acts : List Act) :
    Accepts E.nx (runActs E {} acts).trace.reverse := by
  obtain ⟨m, ht, _⟩ := (good_runActs hincr acts (good_init E)).mon
  exact ht.accepts

/-- The op-level model that the correspondence run compares with the real TreeScheduler (`step`: an op followed
by the main loop running to quiescence) only takes action sequences, so everything above holds of it. -/
theorem ops_are_action_sequences (E : Env) (ops : List (List Nat × Op)) :
    ∃ acts, runOps E {} ops = runActs E {} acts :=
  runOps_acts E ops {}

theorem ops_history_accepted (E : Env) (hincr : Incr E.nx) (ops : List (List Nat × Op)) :
    Accepts E.nx (runOps E {} ops).trace.reverse := by
  obtain ⟨acts, h⟩ := runOps_acts E ops {}
  rw [h]; exact history_accepted E hincr acts

/-! ### what acceptance means, read off the history (no monitor in the statement) -/

/-- **Exactly once, in order, only while scheduled, never early, never overlapping.**
Take any reachable history and any executor entry `start id occ runAt` in it, and let `tr` be the history before
that entry. Then, in terms of `tr` alone:
  * the last Schedule/Release call for `id` was a Schedule (`epochOf`: with schedule `sc`, offset `off`,
    last-scheduled time `last`) — nothing runs for a released or never scheduled task;
  * no run of `id` is in progress (`inProgress`: every earlier entry has had its checkpoint);
  * the occurrences run since that Schedule call, followed by `occ`, are exactly the CONSECUTIVE occurrences
    `Next(last), Next(Next(last)), …` of the schedule (`Chain`) — none skipped, none repeated, in order;
  * `occ + off ≤` the scheduler's clock (`lastClock`), and the executor is told `runAt = occ + off`. -/
theorem every_run_is_the_next_due_occurrence (E : Env) (hincr : Incr E.nx) (acts : List Act)
    (post tr : List Ev) (id : Nat) (occ runAt : Int)
    (h : (runActs E {} acts).trace = post ++ Ev.start id occ runAt :: tr) :
    ∃ sc off last, epochOf id tr = some (sc, off, last) ∧
      inProgress id tr = false ∧
      Chain E.nx sc last (startsSince id tr ++ [occ]) (E.nx sc occ) ∧
      occ + off ≤ lastClock tr ∧ runAt = occ + off := by
  have hacc := history_accepted E hincr acts
  rw [h] at hacc
  obtain ⟨m, hm⟩ := accepts_prefix hacc
  exact start_clauses hm

/-- … hence the occurrences run under one scheduling are strictly increasing and all lie after the
last-scheduled time it was given (each occurrence at most once). -/
theorem runs_strictly_increasing (E : Env) (hincr : Incr E.nx) (acts : List Act)
    (post tr : List Ev) (id : Nat) (occ runAt : Int)
    (h : (runActs E {} acts).trace = post ++ Ev.start id occ runAt :: tr) :
    ∃ sc off last, epochOf id tr = some (sc, off, last) ∧
      (∀ o ∈ startsSince id tr ++ [occ], last < o) ∧ (startsSince id tr ++ [occ]).Pairwise (· < ·) := by
  obtain ⟨sc, off, last, h1, _, h3, _⟩ := every_run_is_the_next_due_occurrence E hincr acts post tr id occ runAt h
  exact ⟨sc, off, last, h1, chain_increasing hincr h3⟩

/-- Released is silent, spelled out: if the last Schedule/Release call for `id` before some point of a reachable
history is a Release (or there was none), no executor entry for `id` happens at that point. -/
theorem released_is_silent (E : Env) (hincr : Incr E.nx) (acts : List Act)
    (post tr : List Ev) (id : Nat) (occ runAt : Int) (hrel : epochOf id tr = none) :
    (runActs E {} acts).trace ≠ post ++ Ev.start id occ runAt :: tr := by
  intro h
  obtain ⟨sc, off, last, h1, _⟩ := every_run_is_the_next_due_occurrence E hincr acts post tr id occ runAt h
  rw [hrel] at h1; cases h1

/-! ### liveness at quiescence (stated, not proved) -/

/-- The half of "exactly once" that safety cannot give — no due occurrence is forgotten: after every harness op
(API call / clock move / finished run, followed by the main loop running until it blocks, with real-timer behaviour
and no mid-pass race), every queued item that is due is waiting for a BUSY worker. It needs the timer invariants
(`s.when` ≤ every queued `when`; an armed deadline never lies after max(now, s.when); a deadline in the past fires at
the next clock movement) and a bound on the loop fuel by the number of workers. NOT PROVED: on every run the driver
evaluates exactly this clause (`dueIdle`, SPECFAIL due-run-dispatched) on the real scheduler's observed output and the
model is compared with the real queue, so a violation is found by search, not excluded by proof. -/
def due_runs_dispatched_stmt : Prop :=
  ∀ (E : Env), Incr E.nx → (∀ id, E.wk id < 32) → ∀ (ops : List Op),
    let s := runOps E {} (ops.map (fun op => ([], op)))
    ∀ it ∈ s.queue, it.whn ≤ s.now → (aget s.busy (E.wk it.id)).isSome = true

/-! ### non-vacuity and sensitivity -/

/-- A concrete oracle: every schedule fires every 10 s; one worker. -/
def E10 : Env := { nx := fun _ t => some (t + 10), wk := fun _ => 0 }

theorem E10_incr : Incr E10.nx := by
  intro sc t t' h
  simp only [E10, Option.some.injEq] at h
  omega

/-- The hypotheses are satisfiable and the theorems are not about empty histories: two tasks sharing the single
worker, a clock jump over several occurrences, a failing run, a Release while in flight — the history contains
three executor entries (task 1 at 10 and 20, task 2 at 15), in that order. -/
example :
    (runActs E10 {} [.sched 1 0 3 0, .sched 2 1 0 5, .adv 40, .fire, .consume, .iter [], .iter [], .done 1 .ok true,
        .iter [], .rel 2, .done 2 .err false, .iter [], .iter []]).trace.reverse =
      [Ev.sched 1 0 3 0, Ev.sched 2 1 0 5, Ev.clock 40, Ev.start 1 10 13, Ev.finish 1 10, Ev.ckpt 1 10,
       Ev.start 2 15 15, Ev.rel 2, Ev.finish 2 15, Ev.onErr 2, Ev.ckpt 2 15, Ev.onErr 2, Ev.start 1 20 23] := by
  decide

/-- The monitor is not trivially true: it rejects an early run, a skipped occurrence, a repeated occurrence, an
overlapping run, a run after Release, and a checkpoint that moves backwards. -/
example : ¬ Accepts E10.nx [Ev.sched 1 0 3 0, Ev.clock 12, Ev.start 1 10 13] := by decide
example : Accepts E10.nx [Ev.sched 1 0 3 0, Ev.clock 13, Ev.start 1 10 13] := by decide
example : ¬ Accepts E10.nx [Ev.sched 1 0 0 0, Ev.clock 30, Ev.start 1 20 20] := by decide
example : ¬ Accepts E10.nx [Ev.sched 1 0 0 0, Ev.clock 30, Ev.start 1 10 10, Ev.finish 1 10, Ev.ckpt 1 10,
    Ev.start 1 10 10] := by decide
example : ¬ Accepts E10.nx [Ev.sched 1 0 0 0, Ev.clock 30, Ev.start 1 10 10, Ev.start 1 20 20] := by decide
example : ¬ Accepts E10.nx [Ev.sched 1 0 0 0, Ev.clock 30, Ev.rel 1, Ev.start 1 10 10] := by decide
example : ¬ Accepts (fun _ t => some (t - 10)) [Ev.sched 1 0 0 100, Ev.clock 100, Ev.start 1 90 90, Ev.finish 1 90,
    Ev.ckpt 1 90, Ev.start 1 80 80, Ev.finish 1 80, Ev.ckpt 1 80] := by decide

end Kap.Props.C17
