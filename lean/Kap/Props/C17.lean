/-
C17 — property theorems (every `theorem` in this module is a proof obligation; `bin/check C17` audits each one's
axioms). Helper lemmas live in Kap/Proofs/C17*.lean.

Statement (properties.jsonl): for every scheduled task the executor is invoked for consecutive occurrences of its
cron/every schedule after its last-scheduled time, each occurrence exactly once, in increasing order, never before
occurrence+offset on the scheduler's clock, never concurrently for the same task, and not at all for occurrences
after the task was released; scheduling, rescheduling and releasing always return promptly, and the last-scheduled
checkpoint only moves forward.

The transition system (Kap/Model/C17.lean) has the actions Schedule, Release, clock advance, timer fire, tick
consumption, one pass of the main loop's inner `for` (with `process()`), and a finished execution with outcome
ok/error/panic and checkpoint ok/error. The theorems hold for EVERY finite sequence of these actions from the
initial state — every interleaving of API calls, clock jumps of any size, loop passes at any moment (also when no
timer fired) and executor latencies — for every schedule oracle `nx` that is strictly increasing, every
assignment `wk` of task ids to workers, any number of tasks and workers.
-/
import Kap.Proofs.C17Fuel
import Kap.Proofs.C17Hist
namespace Kap.Props.C17
open Kap.C17

/-! ### the comparator (`Item.Less`) -/

/-- `Item.Less` is a strict order, total on distinct (when, id) keys: the btree is well-formed. -/
theorem less_strict_total_order :
    (∀ a, less a a = false) ∧
    (∀ a b, less a b = true → less b a = false) ∧
    (∀ a b c, less a b = true → less b c = true → less a c = true) ∧
    (∀ a b, same a b = false → less a b = true ∨ less b a = true) ∧
    (∀ a b, same a b = true ↔ a.whn = b.whn ∧ a.id = b.id) :=
  ⟨less_irrefl, fun _ _ => less_asymm, fun _ _ _ => less_trans, fun _ _ => less_total, same_iff⟩

/-! ### index / queue agreement -/

/-- **Uniqueness index and queue agree, in every reachable state**: `nextTime[id] = w` exactly when the queue holds
an item of `id`, that item has `when = w`, there is one item per id, `when = next + Offset` (`Offset` = the whole
seconds of the task's offset, a positive sub-second rest rounded up: `secUp`), and the queue is ordered by `Less` (so `Min`/`Ascend` see the earliest item first). Release and re-Schedule therefore always find
and remove THE entry of the task. -/
theorem index_queue_agree (E : Env) (hincr : Incr E.nx) (acts : List Act) :
    let s := runActs E {} acts
    (∀ id w, aget s.index id = some w ↔ ∃ it ∈ s.queue, it.id = id ∧ it.whn = w) ∧
    (∀ a ∈ s.queue, ∀ b ∈ s.queue, a.id = b.id → a = b) ∧
    (∀ it ∈ s.queue, it.whn = it.next + secUp it.off) ∧
    Sorted s.queue := by
  have h := (good_runActs hincr acts (good_init E)).q
  exact ⟨h.idx, h.uniq, h.whn, h.sorted⟩

/-! ### the master safety theorem -/

/-- **Every history the scheduler can produce is accepted by the property monitor** (Kap/Spec/C17.lean): every
executor entry is for a task that is scheduled at that moment (released-is-silent), is the next occurrence of its
schedule after the last-scheduled time / the previous run (consecutive-in-order-once), happens at or after
occurrence+offset on the clock, with the EXACT offset in milliseconds (never-early), while no run of the same task
is in progress or awaiting its checkpoint (no-overlap), is told `runAt = occurrence + whole seconds of the offset`;
every checkpoint is that of the run that just
finished and lies above the previous checkpoint of the same scheduling (checkpoint-moves-forward). -/
theorem history_accepted (E : Env) (hincr : Incr E.nx) (acts : List Act) :
    Accepts E.nx (runActs E {} acts).trace.reverse := by
  obtain ⟨m, ht, _⟩ := (good_runActs hincr acts (good_init E)).mon
  exact ht.accepts

/-- The op-level model that the correspondence run compares with the real TreeScheduler (`step`: an op followed
by the main loop running to quiescence) only takes action sequences, so everything above holds of it. -/
theorem ops_are_action_sequences (E : Env) (ops : List (List Nat × Op)) :
    ∃ acts, runOps E {} ops = runActs E {} acts :=
  runOps_acts E ops {}

theorem ops_history_accepted (E : Env) (hincr : Incr E.nx) (ops : List (List Nat × Op)) :
    Accepts E.nx (runOps E {} ops).trace.reverse := by
  obtain ⟨acts, h⟩ := runOps_acts E ops {}
  rw [h]; exact history_accepted E hincr acts

/-! ### what acceptance means, read off the history (no monitor in the statement) -/

/-- **Exactly once, in order, only while scheduled, never early, never overlapping.**
Take any reachable history and any executor entry `start id occ runAt` in it, and let `tr` be the history before
that entry. Then, in terms of `tr` alone:
  * the last Schedule/Release call for `id` was a Schedule (`epochOf`: with schedule `sc`, offset `off` in
    MILLISECONDS, last-scheduled time `last`) — nothing runs for a released or never scheduled task;
  * no run of `id` is in progress (`inProgress`: every earlier entry has had its checkpoint);
  * the occurrences run since that Schedule call, followed by `occ`, are exactly the CONSECUTIVE occurrences
    `Next(last), Next(Next(last)), …` of the schedule (`Chain`) — none skipped, none repeated, in order;
  * `occ + off ≤` the scheduler's clock (`lastClock`) — in milliseconds, the exact offset, nothing truncated —
    and the executor is told `runAt = occ +` the whole seconds of the offset (truncated toward zero). -/
theorem every_run_is_the_next_due_occurrence (E : Env) (hincr : Incr E.nx) (acts : List Act)
    (post tr : List Ev) (id : Nat) (occ runAt : Int)
    (h : (runActs E {} acts).trace = post ++ Ev.start id occ runAt :: tr) :
    ∃ sc off last, epochOf id tr = some (sc, off, last) ∧
      inProgress id tr = false ∧
      Chain E.nx sc last (startsSince id tr ++ [occ]) (E.nx sc occ) ∧
      occ * 1000 + off ≤ lastClock tr * 1000 ∧ runAt = occ + off.tdiv 1000 := by
  have hacc := history_accepted E hincr acts
  rw [h] at hacc
  obtain ⟨m, hm⟩ := accepts_prefix hacc
  exact start_clauses hm

/-- … hence the occurrences run under one scheduling are strictly increasing and all lie after the
last-scheduled time it was given (each occurrence at most once). -/
theorem runs_strictly_increasing (E : Env) (hincr : Incr E.nx) (acts : List Act)
    (post tr : List Ev) (id : Nat) (occ runAt : Int)
    (h : (runActs E {} acts).trace = post ++ Ev.start id occ runAt :: tr) :
    ∃ sc off last, epochOf id tr = some (sc, off, last) ∧
      (∀ o ∈ startsSince id tr ++ [occ], last < o) ∧ (startsSince id tr ++ [occ]).Pairwise (· < ·) := by
  obtain ⟨sc, off, last, h1, _, h3, _⟩ := every_run_is_the_next_due_occurrence E hincr acts post tr id occ runAt h
  exact ⟨sc, off, last, h1, chain_increasing hincr h3⟩

/-- Released is silent, spelled out: if the last Schedule/Release call for `id` before some point of a reachable
history is a Release (or there was none), no executor entry for `id` happens at that point. -/
theorem released_is_silent (E : Env) (hincr : Incr E.nx) (acts : List Act)
    (post tr : List Ev) (id : Nat) (occ runAt : Int) (hrel : epochOf id tr = none) :
    (runActs E {} acts).trace ≠ post ++ Ev.start id occ runAt :: tr := by
  intro h
  obtain ⟨sc, off, last, h1, _⟩ := every_run_is_the_next_due_occurrence E hincr acts post tr id occ runAt h
  rw [hrel] at h1; cases h1

/-! ### the timer bookkeeping and liveness at quiescence -/

/-- **The loop's re-arm always reaches the head's due time** — in every reachable state with a non-empty queue the
main loop is running, or a tick is waiting for it, or the timer is armed with a deadline that has ALREADY PASSED
(a real timer fires at once, the mock at the next clock movement) or is not after the `when` of any queued item.
This covers the line `s.timer.Reset(ts.Sub(it.When()))` of the main loop, which re-arms with the NEGATIVE duration
now − when and leaves `s.when` stale: its deadline lies in the past, so the loop is woken again immediately and
re-tests the head (a busy wait with a real clock — wasteful, but no due run is late by more than one loop turn and
no API call blocks, because every turn releases the mutex). Sub-second offsets included: `Schedule` arms the timer
with the exact offset, which is never after the item's `when` (the offset's whole seconds, ROUNDED UP). -/
theorem timer_covers_head (E : Env) (hincr : Incr E.nx) (acts : List Act) :
    let s := runActs E {} acts
    s.queue ≠ [] → s.spinning = true ∨ s.tick = true ∨
      ∃ d, s.timer = some d ∧ (d ≤ s.now * 1000 ∨ ∀ it ∈ s.queue, d ≤ it.whn * 1000) := by
  intro s hne
  have ht : TInv s := tinv_runActs hincr acts tinv_init (good_init E)
  cases hw : s.swhen with
  | none => exact absurd (ht.k2 hw) hne
  | some w =>
    rcases ht.j w hw with h | h | ⟨d, hd, h⟩
    · exact Or.inl h
    · exact Or.inr (Or.inl h)
    · refine Or.inr (Or.inr ⟨d, hd, ?_⟩)
      rcases h with h | h
      · exact Or.inl h
      · exact Or.inr (fun it hit => Int.le_trans h (ht.k1 w hw it hit))

/-- **No due occurrence is forgotten** (the half of "exactly once" that safety cannot give): in every reachable
state that is quiescent — the main loop cannot move (parked at its `select` with no tick, or spinning without
being able to dispatch) and the timer cannot fire — every queued item that is due (`when ≤ now`) is waiting for a
BUSY worker. So a due run is only ever delayed by a run in progress on its worker. -/
theorem quiescent_due_runs_wait_for_busy_worker (E : Env) (hincr : Incr E.nx) (acts : List Act)
    (hq : Quiescent E (runActs E {} acts)) :
    ∀ it ∈ (runActs E {} acts).queue, it.whn ≤ (runActs E {} acts).now →
      (aget (runActs E {} acts).busy (E.wk it.id)).isSome = true :=
  quiescent_due_busy (good_runActs hincr acts (good_init E))
    (tinv_runActs hincr acts tinv_init (good_init E)) hq

/-- **The main loop always comes to rest, and `settle` always ends in a quiescent state**: started in ANY state
(reachable or not), with no mid-pass race, what the harness does after every op — let the loop run, fire the timer,
let it run, fire, let it run — ends in a state in which the loop cannot move and a firing timer changes nothing.
The loop fuel (64) is never used up when fewer than 30 workers are in use: a pass of the inner loop that goes round
again has handed an item to an idle worker (at most one such pass per worker, workers are only freed outside the
loop) or has changed nothing at all (the loop spins on busy workers); every other pass leaves the inner loop, which
is re-entered only through a tick, and only the timer makes ticks. The negative-duration `Reset` of the main loop
(head not due) re-wakes the loop at once; that pass re-arms the same deadline and reproduces the state. -/
theorem settle_ends_quiescent (E : Env) (hwk : ∀ id, E.wk id < 30) (s : St) : Quiescent E (settle E [] s) :=
  settle_quiescent E 30 hwk (by decide) s

/-- **Every due occurrence whose worker is idle gets dispatched** (op level, racy histories): after any non-empty
sequence of harness ops — each op followed by the main loop running until it rests — of which the LAST had no
mid-pass race (empty skip set; all earlier ops may have had arbitrary races), every queued item that is due is
waiting for a BUSY worker. No `Quiescent` hypothesis any more: it is proved (`settle_ends_quiescent`). -/
theorem due_runs_dispatched_after_racy_ops (E : Env) (hincr : Incr E.nx) (hwk : ∀ id, E.wk id < 30)
    (ops : List (List Nat × Op)) (hlast : ∀ p ∈ ops.getLast?, p.1 = []) :
    ∀ it ∈ (runOps E {} ops).queue, it.whn ≤ (runOps E {} ops).now →
      (aget (runOps E {} ops).busy (E.wk it.id)).isSome = true := by
  by_cases hne : ops = []
  · subst hne
    intro it hit
    simp [runOps] at hit
  · have hq := runOps_quiescent E 30 hwk (by decide) ops {} hne hlast
    obtain ⟨acts, hacts⟩ := runOps_acts E ops {}
    rw [hacts] at hq ⊢
    exact quiescent_due_runs_wait_for_busy_worker E hincr acts hq

/-- **Liveness, full-strength op-level statement**: after every sequence of harness ops (with no mid-pass race)
every due item waits for a busy worker — a due occurrence whose worker is idle has been dispatched. -/
theorem due_runs_dispatched :
    ∀ (E : Env), Incr E.nx → (∀ id, E.wk id < 30) → ∀ (ops : List Op),
    let s := runOps E {} (ops.map (fun op => ([], op)))
    ∀ it ∈ s.queue, it.whn ≤ s.now → (aget s.busy (E.wk it.id)).isSome = true := by
  intro E hincr hwk ops
  refine due_runs_dispatched_after_racy_ops E hincr hwk _ ?_
  · intro p hp
    rw [List.getLast?_map] at hp
    simp only [Option.mem_def, Option.map_eq_some_iff] at hp
    obtain ⟨a, _, rfl⟩ := hp
    rfl

/-- A concrete oracle: every schedule fires every 10 s; one worker. -/
def E10 : Env := { nx := fun _ t => some (t + 10), wk := fun _ => 0 }

theorem E10_incr : Incr E10.nx := by
  intro sc t t' h
  simp only [E10, Option.some.injEq] at h
  omega

/-- Non-vacuity of the liveness theorems: two tasks on the single worker, the clock jumps over several occurrences;
task 1 is running, the due occurrence of task 2 (and the next one of task 1) wait in the queue for the busy worker,
and the state `settle` ended in is quiescent with the loop SPINNING. After the run finishes the waiting occurrence
is dispatched at once. -/
example :
    let ops : List Op := [.sched 1 0 3 0 0, .sched 2 1 0 5 0, .adv 40]
    let s := runOps E10 {} (ops.map (fun op => ([], op)))
    (∃ it ∈ s.queue, it.id = 2 ∧ it.whn ≤ s.now) ∧ s.spinning = true ∧ Quiescent E10 s ∧
      Ev.start 1 10 13 ∈ s.trace ∧
      Ev.start 2 15 15 ∈ (runOps E10 {} ((ops ++ [Op.done 1 .ok true]).map (fun op => ([], op)))).trace := by
  decide

/-! ### sub-second offsets (defect subsecond-offset-truncated, repaired in /repo) -/

/-- **Never early, with the exact offset**: every executor entry happens when the scheduler's clock has reached
occurrence + offset IN MILLISECONDS — also for an offset with a sub-second part, whose positive rest the scheduler
now rounds up to the next whole second instead of dropping it (before the repair such a run started up to 999 ms
early). -/
theorem never_early_exact (E : Env) (hincr : Incr E.nx) (acts : List Act)
    (post tr : List Ev) (id : Nat) (occ runAt : Int)
    (h : (runActs E {} acts).trace = post ++ Ev.start id occ runAt :: tr) :
    ∃ sc offms last, epochOf id tr = some (sc, offms, last) ∧ occ * 1000 + offms ≤ lastClock tr * 1000 := by
  obtain ⟨sc, off, last, h1, _, _, h4, _⟩ := every_run_is_the_next_due_occurrence E hincr acts post tr id occ runAt h
  exact ⟨sc, off, last, h1, h4⟩

/-- The scenario of the former counterexample (replayed on the real code by
corpus/C17/fixed-subsecond-offset-truncated.ops): offset 2.5 s, occurrence 10 is due at 12.5 s; a second task (offset
2 s) wakes the loop at 12 s. Occurrence 10 of task 1 is NOT handed to the executor with the clock at 12 s (the truncating
code did that); it is at 13 s, and the executor is told `runAt` = 12 as before. -/
theorem subsecond_offset_not_early :
    let s12 := runActs E10 {} [.sched 1 0 2 0 500, .sched 2 1 2 0 0, .adv 12, .fire, .consume, .iter []]
    let s13 := runActs E10 s12 [.done 2 .ok true, .adv 1, .fire, .consume, .iter []]
    s12.trace.reverse = [Ev.sched 1 0 2500 0, Ev.sched 2 1 2000 0, Ev.clock 12, Ev.start 2 10 12] ∧
      s13.trace.reverse = s12.trace.reverse ++
        [Ev.finish 2 10, Ev.ckpt 2 10, Ev.clock 13, Ev.start 1 10 12] := by
  decide

/-! ### the coordinator (shapes regenerated from task/backend/coordinator/coordinator.go) -/

/-- `TaskDeleted` forwards exactly `Release(id)`. -/
theorem coord_deleted_releases (frm to : CTask) : coordFwd .deleted frm to = Fwd.rel := rfl

/-- `TaskCreated` forwards `Schedule` with the last-scheduled time picked by `NewSchedulableTask` and aligned by
`NewSchedule`; without cron/every it forwards nothing and returns the error. -/
theorem coord_created_schedules (to : CTask) :
    coordFwd .created to to = (if !to.hasSchedule then Fwd.err else
      match pickTs to with
      | some (some ts) => Fwd.sched (alignTs to.every ts)
      | _ => Fwd.unknown) := by
  simp only [coordFwd, Gen.coordCreated, applyShape, schedFwd]
  split
  · rfl
  · cases pickTs to with
    | none => rfl
    | some o => cases o <;> rfl

/-- `TaskUpdated` forwards `Release` exactly when the task has a schedule and the update DEACTIVATES it (status
changed, new status inactive); every other update of a task with a schedule forwards `Schedule` — also one that
leaves an inactive task inactive (which thereby gets scheduled). -/
theorem coord_updated_releases_iff (frm to : CTask) (last : Int) (h : schedFwd to = Fwd.sched last) :
    (coordFwd .updated frm to = Fwd.rel ↔ (frm.active ≠ to.active ∧ to.active = false)) ∧
    (coordFwd .updated frm to ≠ Fwd.rel → coordFwd .updated frm to = Fwd.sched last) := by
  simp only [coordFwd, Gen.coordUpdated, applyShape, h]
  cases hf : frm.active <;> cases ht : to.active <;> simp

/-- The alignment of the last-scheduled time for `@every N` never moves it forward and moves it back by less than
one period: no occurrence after the given time is skipped by it. -/
theorem alignTs_bounds (n ts : Int) (hn : n > 0) :
    alignTs (some n) ts ≤ ts ∧ ts - alignTs (some n) ts < n := by
  simp only [alignTs, hn, ite_true]
  have h1 := Int.emod_nonneg (ts + goEpoch) (Int.ne_of_gt hn)
  have h2 := Int.emod_lt_of_pos (ts + goEpoch) hn
  omega

/-- A forwarded call is one scheduler action (or none): histories produced through the coordinator are action
sequences, so every theorem above applies to them. -/
theorem coord_forward_is_one_action (E : Env) (s : St) (id sc : Nat) (offms : Int) (f : Fwd) :
    ∃ acts, acts.length ≤ 1 ∧
      (match fwdAct id sc offms f with | some a => act E s a | none => s) = runActs E s acts := by
  cases h : fwdAct id sc offms f with
  | none => exact ⟨[], by simp, rfl⟩
  | some a => exact ⟨[a], by simp, rfl⟩

/-! ### non-vacuity and sensitivity -/

/-- The hypotheses are satisfiable and the theorems are not about empty histories: two tasks sharing the single
worker, a clock jump over several occurrences, a failing run, a Release while in flight — the history contains
three executor entries (task 1 at 10 and 20, task 2 at 15), in that order. -/
example :
    (runActs E10 {} [.sched 1 0 3 0 0, .sched 2 1 0 5 0, .adv 40, .fire, .consume, .iter [], .iter [], .done 1 .ok true,
        .iter [], .rel 2, .done 2 .err false, .iter [], .iter []]).trace.reverse =
      [Ev.sched 1 0 3000 0, Ev.sched 2 1 0 5, Ev.clock 40, Ev.start 1 10 13, Ev.finish 1 10, Ev.ckpt 1 10,
       Ev.start 2 15 15, Ev.rel 2, Ev.finish 2 15, Ev.onErr 2, Ev.ckpt 2 15, Ev.onErr 2, Ev.start 1 20 23] := by
  decide

/-- The monitor is not trivially true: it rejects an early run, a skipped occurrence, a repeated occurrence, an
overlapping run, a run after Release, and a checkpoint that moves backwards (offsets in ms; an offset of 2.5 s
may not run at 12 s, and is told runAt = occurrence + 2 s). -/
example : ¬ Accepts E10.nx [Ev.sched 1 0 3000 0, Ev.clock 12, Ev.start 1 10 13] := by decide
example : Accepts E10.nx [Ev.sched 1 0 3000 0, Ev.clock 13, Ev.start 1 10 13] := by decide
example : ¬ Accepts E10.nx [Ev.sched 1 0 2500 0, Ev.clock 12, Ev.start 1 10 12] := by decide
example : Accepts E10.nx [Ev.sched 1 0 2500 0, Ev.clock 13, Ev.start 1 10 12] := by decide
example : Accepts E10.nx [Ev.sched 1 0 (-2500) 0, Ev.clock 8, Ev.start 1 10 8] := by decide
example : ¬ Accepts E10.nx [Ev.sched 1 0 0 0, Ev.clock 30, Ev.start 1 20 20] := by decide
example : ¬ Accepts E10.nx [Ev.sched 1 0 0 0, Ev.clock 30, Ev.start 1 10 10, Ev.finish 1 10, Ev.ckpt 1 10,
    Ev.start 1 10 10] := by decide
example : ¬ Accepts E10.nx [Ev.sched 1 0 0 0, Ev.clock 30, Ev.start 1 10 10, Ev.start 1 20 20] := by decide
example : ¬ Accepts E10.nx [Ev.sched 1 0 0 0, Ev.clock 30, Ev.rel 1, Ev.start 1 10 10] := by decide
example : ¬ Accepts (fun _ t => some (t - 10)) [Ev.sched 1 0 0 100, Ev.clock 100, Ev.start 1 90 90, Ev.finish 1 90,
    Ev.ckpt 1 90, Ev.start 1 80 80, Ev.finish 1 80, Ev.ckpt 1 80] := by decide

end Kap.Props.C17
