import Kap.Spec.C18
namespace Kap.Props.C18
open Kap.C18

end Kap.Props.C18
