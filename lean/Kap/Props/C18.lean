/-
C18 — property theorems (every `theorem` here is a proof obligation, axiom-audited by `bin/check C18`).
Helper lemmas: Kap/Proofs/C18.lean.

Statement (properties.jsonl): a stream or batch recording, when replayed, delivers to the task the same sequence of
points/batches that was recorded: same database, retention policy, measurement, tags, field names, field values and
field types, group and order, with timestamps either identical (recorded-time replay) or all shifted by one constant
offset, and the replay ends after the last recorded item.

The executable statement of the property is `specStream` / `specBatch` (Kap/Spec/C18.lean). The theorems say that the
MODEL of the code (Kap/Model/C18.lean, tied to /repo by the correspondence run) satisfies it
  * for streams: for every list of points whose frames are clean (no line feed in any component, no carriage return at
    the end of a component, below the scanner's token limit) — given the external line-protocol law `LPLaw`;
  * for batches: for EVERY list of batches, relative to the input rewritten by exactly the three recorded deviations.
-/
import Kap.Proofs.C18Live
import Kap.Proofs.C18Sink
namespace Kap.Props.C18
open Kap.C18

/-- A float codec that knows no float (for examples without float fields). -/
def exF0 : FloatCodec := { fmt := fun _ => [], parse := fun _ => none }

/-! ### Stream framing (`WritePointForRecording` / `readPointsFromIO`'s Scanner loop) -/

/-- **framing_roundtrip** (reader since c988361): frames whose database and retention policy are clean (no line
feed, no trailing carriage return, below the Scanner limit) and whose line has line feeds only INSIDE quoted field
values (`lpClosed`: the state machine of `scanLineProtocolLine` ends outside quotes and meets no unquoted line feed)
are read back exactly, without error — for every list of frames. -/
theorem framing_roundtrip (fs : List Frame) (h : ∀ f ∈ fs, f.clean) :
    readFrames maxTok (writeFrames fs) = (fs, true) :=
  readFrames_writeFrames fs h

/-- **framing_roundtrip_iff — the reader since c988361, characterised exactly**: for EVERY list of frames the
recording reads back as the frames that were written, without error, IF AND ONLY IF every frame is `clean`: database and
retention policy without line feed, without trailing carriage return and below the Scanner limit; the line below the
limit, without trailing carriage return, and ONE token of `scanLineProtocolLine` (`lpClosed`: every line feed in it is
inside a quoted field value or protected by a backslash, and the line neither ends inside an open quote nor in a lone
backslash). ⇒ is by inversion of the reader: a token never contains the line feed it stopped at, `dropCR` only removes,
and a token of the quote-aware search that equals the written line forces its final state to be outside quotes. -/
theorem framing_roundtrip_iff (fs : List Frame) :
    readFrames maxTok (writeFrames fs) = (fs, true) ↔ ∀ f ∈ fs, f.clean :=
  readFrames_writeFrames_iff fs

/-- Non-vacuity of both sides: a frame whose line carries a line feed inside a quoted field value is clean and reads
back; the same bytes with the line feed in a tag value are not clean and do not. -/
example : (⟨[100], [114], [109, 32, 115, 61, 34, 97, 10, 98, 34, 32, 49]⟩ : Frame).clean ∧
    ¬ (⟨[100], [114], [109, 44, 107, 61, 97, 10, 98, 32, 118, 61, 49, 32, 53]⟩ : Frame).clean := by decide

/-- **Every clause of `clean` is needed — one failing shape each** (evaluation of the reader): line feed in the
database; in the retention policy; carriage return at the end of the database; of the retention policy; unquoted line
feed in the line (tag value); a line ending in a lone backslash (it swallows the terminating line feed); a line ending
inside an open quote; a line ending in a carriage return. None reads back as written. -/
theorem framing_failing_shapes :
    readFrames maxTok (writeFrames [⟨[97, 10, 98], [114], [109]⟩]) ≠ ([⟨[97, 10, 98], [114], [109]⟩], true) ∧
    readFrames maxTok (writeFrames [⟨[100], [114, 10, 120], [109]⟩]) ≠ ([⟨[100], [114, 10, 120], [109]⟩], true) ∧
    readFrames maxTok (writeFrames [⟨[100, 13], [114], [109]⟩]) ≠ ([⟨[100, 13], [114], [109]⟩], true) ∧
    readFrames maxTok (writeFrames [⟨[100], [114, 13], [109]⟩]) ≠ ([⟨[100], [114, 13], [109]⟩], true) ∧
    readFrames maxTok (writeFrames [⟨[100], [114], [109, 44, 107, 61, 97, 10, 98, 32, 118, 61, 49, 32, 53]⟩]) ≠
      ([⟨[100], [114], [109, 44, 107, 61, 97, 10, 98, 32, 118, 61, 49, 32, 53]⟩], true) ∧
    readFrames maxTok (writeFrames [⟨[100], [114], [109, 92]⟩]) ≠ ([⟨[100], [114], [109, 92]⟩], true) ∧
    readFrames maxTok (writeFrames [⟨[100], [114], [109, 32, 115, 61, 34, 97]⟩]) ≠
      ([⟨[100], [114], [109, 32, 115, 61, 34, 97]⟩], true) ∧
    readFrames maxTok (writeFrames [⟨[100], [114], [109, 13]⟩]) ≠ ([⟨[100], [114], [109, 13]⟩], true) :=
  ⟨framing_fail_nl_in_db, framing_fail_nl_in_rp, framing_fail_cr_db, framing_fail_cr_rp, framing_fail_nl_in_tag,
   framing_fail_trailing_backslash, framing_fail_open_quote, framing_fail_cr_line⟩

/-- The two shapes that are specific to the quote-aware search fail SILENTLY: the token runs over the written line
feed to the end of the input, the reader reports no error and hands a wrong line to the parser. -/
theorem framing_silent_overrun :
    readFrames maxTok (writeFrames [⟨[100], [114], [109, 92]⟩]) = ([⟨[100], [114], [109, 92, 10]⟩], true) ∧
    readFrames maxTok (writeFrames [⟨[100], [114], [109, 32, 115, 61, 34, 97]⟩]) =
      ([⟨[100], [114], [109, 32, 115, 61, 34, 97, 10]⟩], true) :=
  ⟨framing_trailing_backslash_result, framing_open_quote_result⟩

/-- The length clause (out of reach of evaluation): a component of 64 MiB or more is never read back. -/
theorem framing_too_long_fails (f : Frame) (h : maxTok ≤ f.db.length ∨ maxTok ≤ f.rp.length ∨ maxTok ≤ f.line.length) :
    readFrames maxTok (writeFrames [f]) ≠ ([f], true) :=
  framing_fail_too_long f h

/-- **The snapshot's framing (before c988361), characterised exactly**: with plain line splitting for all three
lines the recording read back as written IF AND ONLY IF no component had any line feed (nor a trailing carriage
return, nor reached the limit) — so every string field value with a line feed broke it. Both directions, all frame
lists (⇒ by counting lines). -/
theorem framing_roundtrip_iff_before_fix (fs : List Frame) :
    readFramesOld maxTok (writeFrames fs) = (fs, true) ↔ ∀ f ∈ fs, f.cleanOld :=
  ⟨readFramesOld_writeFrames_inv fs, readFramesOld_writeFrames fs⟩

/-- Witness of the defect repaired by c988361: the line `m s="a\nb" 1` (a string field with a line feed). The
snapshot's reader sees 4 lines — a frame with a truncated line and an incomplete second frame; the reader since the
fix returns the frame. -/
theorem framing_newline_in_string_field :
    ∃ f : Frame, readFramesOld maxTok (writeFrames [f]) = ([⟨f.db, f.rp, [109, 32, 115, 61, 34, 97]⟩], false) ∧
      readFrames maxTok (writeFrames [f]) = ([f], true) :=
  ⟨⟨[100], [114], [109, 32, 115, 61, 34, 97, 10, 98, 34, 32, 49]⟩, by decide, by decide⟩

/-- Counterexample (finding `stream-newline-framing`, still true): a line feed in the database name shifts every
following component by one line and the reader delivers frames with the wrong database, retention policy and line. -/
theorem framing_newline_in_db_reframes :
    readFrames maxTok (writeFrames [⟨[97, 10, 98], [114], [109, 32, 118, 61, 49, 32, 53]⟩, ⟨[100], [114], [109, 32, 118, 61, 50, 32, 54]⟩]) =
      ([⟨[97], [98], [114]⟩, ⟨[109, 32, 118, 61, 49, 32, 53], [100], [114]⟩], false) := by
  decide

/-- Counterexample: a line feed in a TAG value (unquoted part of the line) still breaks the record. -/
theorem framing_newline_in_tag_breaks :
    readFrames maxTok (writeFrames [⟨[100], [114], [109, 44, 107, 61, 97, 10, 98, 32, 118, 61, 49, 32, 53]⟩]) =
      ([⟨[100], [114], [109, 44, 107, 61, 97]⟩], false) := by
  decide

/-- Counterexample: a carriage return at the end of the database name is dropped by the Scanner. -/
theorem framing_trailing_cr_dropped :
    readFrames maxTok (writeFrames [⟨[100, 13], [114], [109]⟩]) = ([⟨[100], [114], [109]⟩], true) := by
  decide

/-- Counterexample for the snapshot's Scanner limit (64 KiB, repaired by 45d6388): a record whose line has 65536
bytes or more stops the scan with `ErrTooLong`; the reader delivers nothing of it and reports an error. -/
theorem scanner_limit_before_fix (db rp line : Bytes) (hdb : db.length < 65536) (hrp : rp.length < 65536)
    (h : 65536 ≤ line.length) :
    frames (scanLines maxTokOld [db, rp, line]).1 (scanLines maxTokOld [db, rp, line]).2 = ([], false) := by
  have a1 : ¬ db.length ≥ maxTokOld := by unfold maxTokOld; omega
  have a2 : ¬ rp.length ≥ maxTokOld := by unfold maxTokOld; omega
  have a3 : line.length ≥ maxTokOld := by unfold maxTokOld; omega
  simp [scanLines, a1, a2, a3, frames]

/-! ### Stream record → replay -/

/-- **Stream replay is faithful** (db, rp, measurement, tags, field names, values and TYPES, group, order, times
identical or one offset, closed once after the last point): for every list of points with clean frames, every clock
zero, both clock modes — given the external line-protocol law for these points (precision ns, as the replay service
uses). -/
theorem stream_replay_faithful (F : FloatCodec) (zero : Int) (recTime : Bool) (ps : List SPoint)
    (G : List (Bytes × Bool × List Bytes))
    (hlaw : LPLaw F 1 ps) (hclean : ∀ p ∈ ps, (frameOf F 1 p).clean) :
    specStream recTime ps G (sObs (streamRoundTrip F 1 zero recTime ps) G) = none := by
  have hr := readStream_record F 1 ps hlaw hclean
  have hid : ps.map (fun p => { p with time := p.time.tdiv 1 * 1 }) = ps := by
    conv => rhs; rw [← List.map_id ps]
    apply List.map_congr_left; intro p _; simp
  rw [hid] at hr
  unfold streamRoundTrip
  rw [hr]
  exact specStream_replay zero recTime ps G

/-! ### Field values through the line protocol (the part of the codec that the model makes concrete) -/

/-- **types_preserved_stream (strings)**: a string field value — ANY bytes: quotes, backslashes (also trailing),
commas, spaces, `=`, unicode — is written by `appendField`/`EscapeStringField` and read back by the value parser as
the same STRING. (Line feeds included at this level; they break the framing one level up.) -/
theorem string_field_roundtrip (F : FloatCodec) (s : Bytes) :
    unescStr (escStr s) = s ∧ parseFV F (renderFV F (.str s)) = some (.str s) :=
  ⟨unescStr_escStr s, parseFV_render_str F s⟩

/-- **types_preserved_stream (booleans)**. -/
theorem bool_field_roundtrip (F : FloatCodec) (b : Bool) : parseFV F (renderFV F (.bool b)) = some (.bool b) :=
  parseFV_render_bool F b

/-- **Decimal round trip**: `strconv.FormatInt(v, 10)` parsed back gives `v`, for EVERY integer. -/
theorem decimal_roundtrip (v : Int) : Kap.C18.parseInt? (intDigits v) = some v := parseInt?_intDigits v

/-- **types_preserved_stream (integers)**: every int64 — beyond 2^53, MinInt64, MaxInt64 — is written as
`<decimal>i` and read back as the same INTEGER (never as a float). -/
theorem int_field_roundtrip (F : FloatCodec) (v : Int) (hr : -(2:Int)^63 ≤ v ∧ v < (2:Int)^63) :
    parseFV F (renderFV F (.int v)) = some (.int v) :=
  parseFV_render_int F v hr

/-- **types_preserved_stream, all four field types**: the value parser applied to what `appendField` wrote gives the
value back with its type. Floats: parametrically in the law of the external float codec for that bit pattern
(`FloatLaw`: the text is a number — no leading quote, no trailing `i`, not a boolean literal — and parses back to the
same bits; true of `strconv` 'f' -1 / `ParseFloat` for every finite float64, exercised by the correspondence run). -/
theorem value_roundtrip (F : FloatCodec) (v : FV)
    (hint : ∀ i, v = .int i → -(2:Int)^63 ≤ i ∧ i < (2:Int)^63)
    (hfloat : ∀ b, v = .float b → FloatLaw F b) :
    parseFV F (renderFV F v) = some v := by
  cases v with
  | float b => exact parseFV_render_float F b (hfloat b rfl)
  | int i => exact parseFV_render_int F i (hint i rfl)
  | str s => exact parseFV_render_str F s
  | bool b => exact parseFV_render_bool F b

/-- Non-vacuity of `FloatLaw`: the example codec satisfies it for 1.5. -/
example : FloatLaw ⟨fun b => if b = 0x3ff8000000000000 then [49, 46, 53] else [],
                    fun s => if s = [49, 46, 53] then some 0x3ff8000000000000 else none⟩ 0x3ff8000000000000 := by
  refine ⟨⟨49, [46, 53], by decide, by decide⟩, by decide, by decide, by decide⟩

/-- **Names survive the escaping**: measurement (`EscapeMeasurement ∘ unescapeMeasurement` / `unescapeMeasurement`),
tag keys and values (`escapeTag` / `unescapeTag`) and field keys (`escape.String` / `escape.UnescapeString`) come back
unchanged for EVERY backslash-free byte string — commas, spaces, `=`, quotes, unicode, control characters. -/
theorem name_escape_roundtrip (s : Bytes) (h : BS ∉ s) :
    unescMeas (escMeas (unescMeas s)) = s ∧ unescTag (escTag s) = s ∧ unescKey (escKey s) = s :=
  ⟨unescMeas_escMeas s h, unescTag_escTag s h, unescKey_escKey s h⟩

/-- Counterexample (finding `stream-backslash-name`): the hypothesis is needed. The measurement `a\,b` is written
as `a\,b` (`MakeKey` unescapes first) and read back as `a,b`; a tag value ending in a backslash swallows the
separator and the line no longer parses. -/
theorem backslash_name_not_representable :
    unescMeas (escMeas (unescMeas [97, 92, 44, 98])) = [97, 44, 98] ∧
    parseLine exF0 1 (lineOf exF0 1 ⟨[100], [114], [109], [([107], [97, 92])], [([118], .int 1)], 5⟩) = .error := by
  decide

/-- A line feed reaches the recorded line only from the point's own strings (measurement, tag keys/values, field
keys, string field values): the escaping functions never add or remove one, numbers and booleans have none. -/
theorem line_newline_only_from_point (F : FloatCodec) (mult : Int) (p : SPoint) (hF : FloatTextClean F p)
    (hd : p.dirty = false) (hstr : p.fields.any (fun kv => kv.2.hasNL) = false) :
    NL ∉ lineOf F mult p ∧ (lineOf F mult p).getLast? ≠ some CR :=
  ⟨line_newline_free F mult p hF hd hstr, line_last_not_CR F mult p⟩

/-! Non-vacuity: the hypotheses of `stream_replay_faithful` hold of concrete awkward points — database `my db`,
measurement `a,b c`, tag `k=1`=`v 2`, fields: float 1.5, int 2^53+1, string `q"\, x=é`, bool — with the model's own
parser (so `LPLaw` is not an empty assumption), and the conclusion is then the full spec. -/

/-- `strconv` restricted to the one float of the example. -/
def exF : FloatCodec :=
  { fmt := fun b => if b = 0x3ff8000000000000 then [49, 46, 53] else [],
    parse := fun s => if s = [49, 46, 53] then some 0x3ff8000000000000 else none }

def exP1 : SPoint :=
  ⟨[109, 121, 32, 100, 98], [114, 112], [97, 44, 98, 32, 99], [([107, 61, 49], [118, 32, 50])],
   [([102], .float 0x3ff8000000000000), ([105], .int 9007199254740993),
    ([115], .str [113, 34, 92, 44, 32, 120, 61, 195, 169]), ([116], .bool true)], 1500000000000000000⟩

def exP2 : SPoint := ⟨[100], [114], [109], [], [([118], .int (-7))], 1500000000000000005⟩

set_option maxRecDepth 8000 in
example : LPLaw exF 1 [exP1, exP2] ∧ (∀ p ∈ [exP1, exP2], (frameOf exF 1 p).clean) := by
  unfold LPLaw; decide

set_option maxRecDepth 8000 in
example : specStream false [exP1, exP2] [] (sObs (streamRoundTrip exF 1 42 false [exP1, exP2]) []) = none ∧
    ((streamRoundTrip exF 1 42 false [exP1, exP2]).items.map (·.p.time)) = [42, 47] := by
  decide

/-- **The line-protocol law is a THEOREM for the model's writer and parser** on the domain `LPDomain`: non-empty
backslash-free measurement / tag keys / tag values / field keys (any commas, spaces, `=`, quotes, unicode), the
measurement not starting with TAB, NUL or `#`, at least one field, every field value of the four types (any string
bytes incl. line feeds; every int64; floats whose `strconv` text satisfies `FloatLaw` and `FloatPlain`), tags and fields
sorted by key. The whole line is split at the unescaped, unquoted separators and every component comes back. -/
theorem lp_law_on_domain (F : FloatCodec) (mult : Int) (ps : List SPoint) (h : ∀ p ∈ ps, LPDomain F p) :
    LPLaw F mult ps :=
  fun p hp => parseLine_lineOf F mult p (h p hp)

/-- **Stream replay is faithful — without assuming the line-protocol law**: for every list of points of the domain
whose frames are clean, both clock modes, every clock zero. What remains external is only that the real influxdb
parser agrees with the model's parser on these lines (exercised by the correspondence run on every case). -/
theorem stream_replay_faithful_domain (F : FloatCodec) (zero : Int) (recTime : Bool) (ps : List SPoint)
    (G : List (Bytes × Bool × List Bytes))
    (hdom : ∀ p ∈ ps, LPDomain F p) (hclean : ∀ p ∈ ps, (frameOf F 1 p).clean) :
    specStream recTime ps G (sObs (streamRoundTrip F 1 zero recTime ps) G) = none :=
  stream_replay_faithful F zero recTime ps G (lp_law_on_domain F 1 ps hdom) hclean

/-- The line written for a point of the domain is ONE token of the quote-aware reader, whatever its string field
values contain (line feeds, quotes, backslashes, commas …), provided no NAME has a line feed. -/
theorem line_is_one_token (F : FloatCodec) (mult : Int) (p : SPoint) (h : LineDomain F p) :
    lpClosed (lineOf F mult p) = true :=
  lpClosed_lineOf F mult p h

/-- **Stream replay is faithful, stated on the POINTS, with no assumption about the line protocol or the bytes**:
for every list of points of the domain `LPDomain` to none of which the clause of finding `stream-newline-framing`
applies (no line feed in a name, no carriage return at the end of db/rp — string field values may contain line feeds),
whose float texts are line-feed free and whose lines fit the Scanner; both clock modes, every clock zero. -/
theorem stream_replay_faithful_points (F : FloatCodec) (zero : Int) (recTime : Bool) (ps : List SPoint)
    (G : List (Bytes × Bool × List Bytes))
    (hpts : ∀ p ∈ ps, LPDomain F p ∧ FloatTextClean F p ∧ p.dirty = false ∧ FitsScanner F 1 p) :
    specStream recTime ps G (sObs (streamRoundTrip F 1 zero recTime ps) G) = none :=
  stream_replay_faithful_domain F zero recTime ps G (fun p hp => (hpts p hp).1)
    (fun p hp => frame_clean_of_point F 1 p (hpts p hp).1 (hpts p hp).2.1 (hpts p hp).2.2.1 (hpts p hp).2.2.2)

/-- Non-vacuity of `stream_replay_faithful_points`: a point whose string field is `a⏎b"` meets every hypothesis,
and its replay satisfies the spec. -/
def exP3 : SPoint := ⟨[100], [114], [109], [], [([115], .str [97, 10, 98, 34])], 7⟩

example : LPDomain exF0 exP3 ∧ FloatTextClean exF0 exP3 ∧ exP3.dirty = false ∧ FitsScanner exF0 1 exP3 := by
  refine ⟨⟨by decide, by decide, by intro c h; cases h; decide, by decide, by decide, by decide,
      by intro kv h c hc; cases h; cases hc; decide, ?_, by decide, by decide⟩,
    ?_, by decide, by unfold FitsScanner; decide⟩
  · intro kv hkv
    simp only [exP3, List.mem_cons, List.not_mem_nil, or_false] at hkv
    subst hkv; trivial
  · intro kv hkv b hb
    simp only [exP3, List.mem_cons, List.not_mem_nil, or_false] at hkv
    subst hkv; cases hb

/-- Non-vacuity: the awkward example point is in the domain. -/
example : LPDomain exF exP1 where
  name_ne := by decide
  name_bs := by decide
  name_head := by intro c h; cases h; decide
  tags := by decide
  fields_ne := by decide
  fkeys := by decide
  fkey_head := by intro kv h c hc; cases h; cases hc; decide
  vals := by
    intro kv hkv
    simp only [exP1, List.mem_cons, List.not_mem_nil, or_false] at hkv
    rcases hkv with rfl | rfl | rfl | rfl
    · refine ⟨⟨⟨49, [46, 53], by decide, by decide⟩, by decide, by decide, by decide⟩, ?_⟩
      intro x hx
      have hx' : x ∈ ([49, 46, 53] : Bytes) := hx
      clear hx; revert x; decide
    · show -(2:Int)^63 ≤ 9007199254740993 ∧ (9007199254740993 : Int) < (2:Int)^63
      decide
    · trivial
    · trivial
  tagsSorted := by decide
  fieldsSorted := by decide

/-- **The framing of a RECORDING, characterised on the points**: for points of the domain (`LPDomain`, float texts
without line feed, lines that fit the Scanner) the framing layer returns exactly the written frames IF AND ONLY IF the
clause of finding `stream-newline-framing` applies to no point — no line feed in database, retention policy,
measurement, tag keys, tag values, field keys; no carriage return at the end of database / retention policy. String
field VALUES are unconstrained. So the finding's clause is exact: not one point more is excluded than must be. -/
theorem recording_frames_iff_not_dirty (F : FloatCodec) (mult : Int) (ps : List SPoint)
    (hdom : ∀ p ∈ ps, LPDomain F p ∧ FloatTextClean F p ∧ FitsScanner F mult p) :
    readFrames maxTok (record F mult ps) = (ps.map (frameOf F mult), true) ↔ ∀ p ∈ ps, p.dirty = false :=
  readFrames_record_iff F mult ps hdom

/-- Non-vacuity: the point with the string field `a⏎b"` meets the hypotheses (and is not dirty). -/
example : LPDomain exF0 exP3 ∧ FloatTextClean exF0 exP3 ∧ FitsScanner exF0 1 exP3 ∧ exP3.dirty = false := by
  refine ⟨⟨by decide, by decide, by intro c h; cases h; decide, by decide, by decide, by decide,
      by intro kv h c hc; cases h; cases hc; decide, ?_, by decide, by decide⟩,
    ?_, by unfold FitsScanner; decide, by decide⟩
  · intro kv hkv
    simp only [exP3, List.mem_cons, List.not_mem_nil, or_false] at hkv
    subst hkv; trivial
  · intro kv hkv b hb
    simp only [exP3, List.mem_cons, List.not_mem_nil, or_false] at hkv
    subst hkv; cases hb

/-- The domain hypothesis "no backslash in a name" is needed for ⇒: in the measurement `m\⏎x` the backslash protects
the line feed from `scanLineProtocolLine`, the frame is clean although the finding's clause applies. -/
theorem frame_clean_though_dirty_with_backslash :
    ∃ p : SPoint, (frameOf exF0 1 p).clean ∧ p.dirty = true :=
  ⟨⟨[100], [114], [109, 92, 10, 120], [], [([118], .int 1)], 5⟩, by decide, by decide⟩

/-- Counterexample (finding `stream-whitespace-fieldkey`, found by driving the real parser on lines of the model's
grammar): the line written for a point whose first field key is `⇥v` parses — `scanFields` begins with
`skipWhitespace` — to a point whose key is `v`; the hypothesis `LPDomain.fkey_head` is needed. -/
theorem whitespace_fieldkey_not_representable :
    parseLine exF0 1 (lineOf exF0 1 ⟨[100], [114], [109], [], [([9, 118], .int 1)], 5⟩) =
      .point [109] [] [([118], .int 1)] 5 := by
  decide

/-- **shift_is_constant (stream)**: whatever was read from the recording, each delivered point is the read point with
time `t` (recorded-time mode) or `t + (zero − first)` (otherwise), the clock is asked to wait until
`t + (zero − first)` in both modes, and nothing else about the point changes. -/
theorem stream_shift_is_constant (zero : Int) (recTime : Bool) (ps : List SPoint) :
    replayStream zero recTime ps =
      ps.map (fun p =>
        ⟨if recTime then p else { p with time := p.time + (zero - (ps.head?.map (·.time)).getD 0) },
         p.time + (zero - (ps.head?.map (·.time)).getD 0)⟩) :=
  replayStream_eq zero recTime ps

/-- **replay_ends_after_last (stream)**: the replay delivers exactly one item per point read, in order, and the model
closes the collector once, after all of them (the close is the `defer` of `replayStreamFromChan`). -/
theorem stream_replay_ends_after_last (F : FloatCodec) (mult zero : Int) (recTime : Bool) (ps : List SPoint) :
    let r := streamRoundTrip F mult zero recTime ps
    r.closes = 1 ∧ r.closedAt = r.items.length ∧
      r.items.length = (readStream F mult (record F mult ps)).1.length := by
  simp [streamRoundTrip, replayStream, replayStreamGo_length]

/-- A parse failure (or a broken frame) stops the reading, but everything read before it is still replayed
faithfully and the replay then reports the error: prefix property used by the deviation clauses. -/
theorem stream_error_reported (F : FloatCodec) (mult zero : Int) (recTime : Bool) (ps : List SPoint) :
    (streamRoundTrip F mult zero recTime ps).status = (readStream F mult (record F mult ps)).2 := by
  simp [streamRoundTrip]

/-! ### Batches -/

/-- **Batch replay is faithful except exactly the recorded deviations** — for EVERY list of batches, every clock zero,
both clock modes: the deliveries of `WriteBatchForRecording` → `ReplayBatchFromIO` satisfy the property's spec
(name, by-name, tags, group, dimensions, number/tags/field names/types/values of points, all timestamps incl. tmax
identical or shifted by one offset, closed once after the last batch) relative to the input rewritten by
`batch-int-as-float`, `batch-tagless-point-inherits`, `batch-empty-skipped` — each the identity where its clause
does not apply. -/
theorem batch_replay_faithful_except_known (zero : Int) (recTime : Bool) (bs : List Batch) :
    specBatch recTime (batchDevs bs).2 (groupsOf (batchDevs bs).2) (bObs (batchRoundTrip true zero recTime bs)) = none :=
  batchRoundTrip_spec zero recTime bs

/-- The three rewrites are the identity exactly when no clause applies … -/
theorem batch_no_deviation_identity (bs : List Batch) (h : (batchDevs bs).1 = []) : (batchDevs bs).2 = bs :=
  batchDevs_id bs h

/-- … hence **types_preserved_batch_partial**: for batches with no int64 field, no empty batch and no tagless point in
a tagged batch, the replay is faithful to the RECORDED batches themselves. The excluded inputs are exactly the three
findings; the unrestricted statement is false (`batch_int_becomes_float`). -/
theorem batch_replay_faithful_partial (zero : Int) (recTime : Bool) (bs : List Batch) (h : (batchDevs bs).1 = []) :
    specBatch recTime bs (groupsOf bs) (bObs (batchRoundTrip true zero recTime bs)) = none := by
  have := batch_replay_faithful_except_known zero recTime bs
  rwa [batch_no_deviation_identity bs h] at this

/-- The unrestricted statement (false of the unchanged code, see the counterexamples). -/
def batch_replay_faithful_stmt : Prop :=
  ∀ (zero : Int) (recTime : Bool) (bs : List Batch),
    specBatch recTime bs (groupsOf bs) (bObs (batchRoundTrip true zero recTime bs)) = none

/-- Counterexample (finding `batch-int-as-float`): an int64 field comes back as a float64 — the spec fails at
"same-field-types" — and beyond 2^53 with a different value: 9007199254740993 ↦ bits of 9007199254740992.0. -/
theorem batch_int_becomes_float :
    specBatch true [⟨[109], false, 10, [], [⟨[], [([118], .int 9007199254740993)], 5⟩]⟩] (groupsOf [⟨[109], false, 10, [], []⟩])
      (bObs (batchRoundTrip true 0 true [⟨[109], false, 10, [], [⟨[], [([118], .int 9007199254740993)], 5⟩]⟩])) = some "same-field-types"
    ∧ jsonFV (.int 9007199254740993) = .float 0x4340000000000000
    ∧ jsonFV (.int 9007199254740992) = .float 0x4340000000000000 := by
  decide

/-- Counterexample (finding `batch-empty-skipped`). -/
theorem batch_empty_is_dropped :
    (batchRoundTrip true 0 true [⟨[109], false, 10, [], []⟩]).items = [] := by
  decide

/-- Counterexample (finding `batch-tagless-point-inherits`). -/
theorem batch_tagless_point_inherits :
    ((batchRoundTrip true 0 true [⟨[109], false, 10, [([104], [97])], [⟨[], [([118], .bool true)], 5⟩]⟩]).items.map
      (fun o => o.b.points.map (·.tags))) = [[[([104], [97])]]] := by
  decide

/-- **shift_is_constant (batch)**: every delivered batch is the read batch with all point times shifted by
`zero − (first point of the first batch)` (or kept, in recorded-time mode); the clock waits until the shifted last point. -/
theorem batch_shift_is_constant (zero : Int) (recTime : Bool) (bs : List Batch) :
    (batchRoundTrip true zero recTime bs).items =
      (readBatches bs).map (replayOne recTime (batchOffset zero (readBatches bs))) := by
  simp [batchRoundTrip, replayBatchesGo_none]

/-- **tmax is shifted with the points** (since the `fix:` commit): for a batch whose tmax is not before its points. -/
theorem batch_tmax_shifted (recTime : Bool) (d : Int) (b : Batch) (hne : b.points ≠ []) (hwf : b.wfTmax = true) :
    (replayOne recTime d b).b.tmax = if recTime then b.tmax else b.tmax + d :=
  replayOne_tmax recTime d b hne hwf

/-- Counterexample for the snapshot's rule (`shiftTmax = false`, before the `fix:`): points at 0 and 5, tmax 10,
replayed at clock zero 100 ⇒ points 100 and 105 but tmax 105 instead of 110: not one offset. -/
theorem batch_tmax_not_shifted_before_fix :
    (replayBatchesGo false 100 false none [⟨[109], false, 10, [], [⟨[], [], 0⟩, ⟨[], [], 5⟩]⟩]).map (fun o => (o.b.points.map (·.time), o.b.tmax))
      = [([100, 105], 105)]
    ∧ (replayBatchesGo true 100 false none [⟨[109], false, 10, [], [⟨[], [], 0⟩, ⟨[], [], 5⟩]⟩]).map (fun o => (o.b.points.map (·.time), o.b.tmax))
      = [([100, 105], 110)] := by
  decide

/-- **replay_ends_after_last (batch)**. -/
theorem batch_replay_ends_after_last (zero : Int) (recTime : Bool) (bs : List Batch) :
    let r := batchRoundTrip true zero recTime bs
    r.status = .ok ∧ r.closes = 1 ∧ r.closedAt = r.items.length ∧ r.items.length = (readBatches bs).length := by
  simp [batchRoundTrip, replayBatchesGo_none]

/-! ### Live replays (`replay-live`: `ReplayStreamFromChan` / `ReplayBatchFromChan` fed from a channel) -/

/-- **Live stream replay is faithful — EVERY list of points**, every clock zero, both clock modes: nothing is written
or parsed between the query and the task, so no domain hypothesis and no deviation clause (names with line feeds,
backslashes, `#` … are all delivered as they are). -/
theorem live_stream_replay_faithful (zero : Int) (recTime : Bool) (ps : List SPoint) (G : List (Bytes × Bool × List Bytes)) :
    specStream recTime ps G (sObs (liveStreamReplay zero recTime ps) G) = none :=
  liveStreamReplay_spec zero recTime ps G

/-- **Live batch replay is faithful — EVERY list of batches a channel can carry** (code since the `fix:` commit for
empty batches): batches with and WITHOUT points, with a batch time or with the zero time, int fields, tagless points;
every clock zero, both clock modes. Every batch is delivered (none skipped), name / by-name / tags / group /
dimensions / points' tags, field names, types and values unchanged, a batch time that was there is still there, and
ALL timestamps — point times and batch times, also those of batches without points — identical or shifted by one
offset; the collector is closed once after the last batch. -/
theorem live_batch_replay_faithful (zero : Int) (recTime : Bool) (bs : List LBatch) :
    specBatchLive recTime bs (groupsOfL bs) (lObs (liveBatchReplay true zero recTime bs)) = none :=
  liveBatchReplay_spec zero recTime bs

/-- Non-vacuity / shape of the result: a leading empty batch (time 100) anchors the offset at clock zero 1000, the
points at 150 and 160 follow at 1050 and 1060, the empty batch with time 300 is delivered at 1200, the empty batch
with the zero time inherits that. -/
example :
    (liveBatchReplay true 1000 false
      [⟨⟨[109], false, 100, [], []⟩, true⟩,
       ⟨⟨[109], false, 200, [], [⟨[], [([118], .int 9007199254740993)], 150⟩, ⟨[], [([118], .bool true)], 160⟩]⟩, true⟩,
       ⟨⟨[109], false, 300, [], []⟩, true⟩,
       ⟨⟨[109], false, 0, [], []⟩, false⟩]).items.map (fun o => (o.b.points.map (·.time), o.b.tmax, o.hasT, o.until_))
      = [([], 1000, true, none), ([1050, 1060], 1100, true, some 1060), ([], 1200, true, none), ([], 1200, true, none)] := by
  decide

/-- **The offset of a live batch replay is one constant, fixed by the first item that carries a time**: there is a
`d` such that every delivered batch is the batch put on the channel with its point times and its batch time shifted by
`d` (kept, in recorded-time mode). -/
theorem live_batch_shift_is_constant (zero : Int) (recTime : Bool) (bs : List LBatch) :
    ∃ d, Forall₂ (LiveRel recTime d) bs (liveBatchReplay true zero recTime bs).items :=
  let ⟨d, _, h⟩ := replayLiveGo_rel zero recTime bs none none
  ⟨d, h⟩

/-- Counterexample for the snapshot's empty-batch branch (`fixed = false`, before the `fix:`): a point at 5 in a batch
with time 10, then a batch without points with time 20, replayed at clock zero 1000: the first batch is delivered at
1000 / 1005, the empty batch still at 20 — the spec fails at "times-identical-or-one-offset"; since the fix it is
delivered at 1015. -/
theorem live_empty_batch_time_not_shifted_before_fix :
    (liveBatchReplay false 1000 false [⟨⟨[109], false, 10, [], [⟨[], [([118], .int 1)], 5⟩]⟩, true⟩, ⟨⟨[109], false, 20, [], []⟩, true⟩]).items.map
        (fun o => (o.b.points.map (·.time), o.b.tmax)) = [([1000], 1005), ([], 20)]
    ∧ specBatchLive false [⟨⟨[109], false, 10, [], [⟨[], [([118], .int 1)], 5⟩]⟩, true⟩, ⟨⟨[109], false, 20, [], []⟩, true⟩]
        (groupsOfL [⟨⟨[109], false, 10, [], [⟨[], [([118], .int 1)], 5⟩]⟩, true⟩, ⟨⟨[109], false, 20, [], []⟩, true⟩])
        (lObs (liveBatchReplay false 1000 false [⟨⟨[109], false, 10, [], [⟨[], [([118], .int 1)], 5⟩]⟩, true⟩, ⟨⟨[109], false, 20, [], []⟩, true⟩]))
        = some "times-identical-or-one-offset"
    ∧ (liveBatchReplay true 1000 false [⟨⟨[109], false, 10, [], [⟨[], [([118], .int 1)], 5⟩]⟩, true⟩, ⟨⟨[109], false, 20, [], []⟩, true⟩]).items.map
        (fun o => (o.b.points.map (·.time), o.b.tmax)) = [([1000], 1005), ([], 1015)] := by
  decide

/-- **replay_ends_after_last (live)**: one delivery per item put on the channel, closed once after the last. -/
theorem live_replay_ends_after_last (zero : Int) (recTime : Bool) (ps : List SPoint) (bs : List LBatch) :
    (liveStreamReplay zero recTime ps).closes = 1 ∧ (liveStreamReplay zero recTime ps).closedAt = ps.length ∧
    (liveStreamReplay zero recTime ps).items.length = ps.length ∧
    (liveBatchReplay true zero recTime bs).closes = 1 ∧ (liveBatchReplay true zero recTime bs).closedAt = bs.length ∧
    (liveBatchReplay true zero recTime bs).items.length = bs.length := by
  obtain ⟨d, _, h⟩ := replayLiveGo_rel zero recTime bs none none
  have hl := h.length_eq
  simp [liveStreamReplay, liveBatchReplay, replayStream, replayStreamGo_length, ← hl]

/-! ### Recordings made one after the other in one process (the writer's state) -/

theorem writePointScratch_reset_empty (scratch : Bytes) (s : Sink) (f : Frame) :
    (writePointScratch true scratch s f).1 = [] := by
  simp [writePointScratch]

/-- **empty-after-every-record**: a writer that empties its scratch buffer after EVERY record (also after a failed
write) hands an empty buffer on, whatever the sink did. -/
theorem scratch_empty_after_every_record (s : Sink) (fs : List Frame) :
    (recordScratch true [] s fs).1 = [] := by
  suffices h : ∀ (fs : List Frame) (scr : Bytes) (s : Sink), scr = [] → (recordScratch true scr s fs).1 = [] from h fs [] s rfl
  intro fs
  induction fs with
  | nil => intro scr s h; simpa [recordScratch] using h
  | cons f fs ih =>
    intro scr s _
    simp only [recordScratch]
    exact ih _ _ (writePointScratch_reset_empty scr s f)

/-- **recordings_are_independent**: with the empty-after-every-record discipline, what a recording holds is a function
of ITS OWN points and sink only: whatever was recorded before in the same process (any points `fsA`, into any sink `sA`,
failing anywhere or not at all) changes nothing. -/
theorem recordings_are_independent (sA sB : Sink) (fsA fsB : List Frame) :
    (recordScratch true (recordScratch true [] sA fsA).1 sB fsB).2 = (recordScratch true [] sB fsB).2 := by
  rw [scratch_empty_after_every_record]

/-- The writer as it is (`writePoint`: no state besides the sink) on a healthy sink writes exactly the frames. -/
theorem healthy_recording_is_its_frames (o : Bytes) (fs : List Frame) :
    recordInto ⟨o, none⟩ fs = ⟨o ++ writeFrames fs, none⟩ := by
  induction fs generalizing o with
  | nil => simp [recordInto, writeFrames]
  | cons f fs ih =>
    have h : (writePoint ⟨o, none⟩ f).1 = ⟨o ++ f.bytes, none⟩ := by
      simp [writePoint, Sink.write, Frame.bytes]
    simp only [recordInto, List.foldl_cons] at ih ⊢
    rw [h, ih]
    simp [writeFrames]

/-- Counterexample for a scratch buffer that is NOT emptied after a failed write (`bytes.Buffer.WriteTo` empties it only
when the write succeeded completely): recording A (`dbA/rpA/"s v=1i 1"`, `"s v=2i 2"`) into a sink with room for 3
bytes, then recording B (`dbB/rpB/"c v=7i 5"`) into a healthy sink: B begins with the bytes of A the failed sink did
not take, its replay delivers A's second point, which was never recorded into it; with the discipline B is its frame. -/
theorem stale_scratch_contaminates_next_recording :
    let fA : List Frame := [⟨[100,98,65], [114,112,65], [115,32,118,61,49,105,32,49]⟩, ⟨[100,98,65], [114,112,65], [115,32,118,61,50,105,32,50]⟩]
    let fB : List Frame := [⟨[100,98,66], [114,112,66], [99,32,118,61,55,105,32,53]⟩]
    (recordScratch false (recordScratch false [] ⟨[], some 3⟩ fA).1 ⟨[], none⟩ fB).2.out ≠ writeFrames fB
    ∧ (readStream exF0 1 (recordScratch false (recordScratch false [] ⟨[], some 3⟩ fA).1 ⟨[], none⟩ fB).2.out).1.map (fun p => (p.db, p.time))
        = [([], 1), ([100,98,65], 2), ([100,98,66], 5)]
    ∧ (recordScratch true (recordScratch true [] ⟨[], some 3⟩ fA).1 ⟨[], none⟩ fB).2.out = writeFrames fB := by
  decide
/-- **A failed recording holds a prefix**: the writer as it is (three writes per point, stop at the first error, the
recorder ignoring the error and going on with the next point) leaves in a sink with room for `k` bytes exactly the first
`k` bytes of the recording — for every `k` and every list of records (also tied by the correspondence run on every fault
case, `cut` line). -/
theorem failed_recording_holds_prefix (k : Nat) (fs : List Frame) :
    (recordInto ⟨[], some k⟩ fs).out = (writeFrames fs).take k := by
  simpa using recordInto_some fs [] k

/-- One evaluated instance per class of `k` (before the first record, inside db/rp, inside the line, before the last
line feed, between two records, never reached). -/
theorem failed_recording_holds_prefix_instances :
    ∀ k ∈ [0, 2, 9, 15, 16, 20, 32, 40],
      (recordInto ⟨[], some k⟩ [⟨[100,98,65], [114,112,65], [115,32,118,61,49,105,32,49]⟩, ⟨[100,98,65], [114,112,65], [115,32,118,61,50,105,32,50]⟩]).out
        = (writeFrames [⟨[100,98,65], [114,112,65], [115,32,118,61,49,105,32,49]⟩, ⟨[100,98,65], [114,112,65], [115,32,118,61,50,105,32,50]⟩]).take k := by
  decide

end Kap.Props.C18
