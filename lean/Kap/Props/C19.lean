/-
C19 — property theorems (every `theorem` in this module is a proof obligation; `bin/check C19` audits each
one's axioms). Helper lemmas live in Kap/Proofs/C19Frame.lean and Kap/Proofs/C19Echo.lean.

Statement (properties.jsonl): points and batches sent through a UDF that echoes its input come back identical in
name, database, retention policy, group, dimensions, tags, field names, values and types, time and batch
boundaries, in order, and every protocol message written is read back as the same message regardless of how the
byte stream is fragmented; snapshot/restore returns the bytes the UDF supplied. Quantifier: all point/batch
sequences over all field types and group shapes, all splits of the byte stream into reads, all interleavings of
data with keepalive and snapshot requests.
-/
import Kap.Proofs.C19Frame
import Kap.Proofs.C19Echo
import Kap.Proofs.C19Trunc
import Kap.Proofs.C19Wire
import Kap.Gen.C19Writers
namespace Kap.Props.C19
open Kap.C19

/-! ### Framing (`udf/agent/io.go`) -/

/-- **uvarint round trip, under every fragmentation**: for every `n < 2^64`, however the bytes of
`PutUvarint(n)` (followed by anything) are split into chunks, `ReadUvarint` returns `n` and leaves exactly what
followed. -/
theorem uvarint_roundtrip (n : Nat) (hn : n < 2 ^ 64) (cs : Chunks) (rest : List Nat)
    (hcs : cs.flatten = putUvarint n ++ rest) :
    ∃ cs', readUvarint cs = .ok (n, cs') ∧ cs'.flatten = rest :=
  readUvarint_put n hn cs rest hcs

/-- `WriteMessage` puts exactly the frame on the wire (its 5-byte varint buffer is enough) for every payload
shorter than 2^35 bytes. -/
theorem writeMessage_is_frame (data : List Nat) (h : data.length < 2 ^ 35) : writeMessage data = some (frame data) :=
  writeMessage_frame_of_lt data h

/-- **Framing is independent of fragmentation**: for every list of payloads and EVERY split of the byte stream
that `WriteMessage` produced for them into reads (including empty reads, one-byte reads, splits inside the varint,
and a last read that carries `io.EOF` along with its bytes), the read loop returns exactly these payloads, in
order, and then the clean end of stream. -/
theorem framing_chunk_independent (ps : List (List Nat)) (hlen : ∀ p ∈ ps, p.length < 2 ^ 64)
    (cs : Chunks) (hcs : cs.flatten = (ps.map frame).flatten) (ewd : Bool) :
    readAll ewd cs = (ps, RdErr.eof) := by
  have hfuel : ps.length < totalBytes cs + 1 := by
    have := frames_length_ge ps
    unfold totalBytes; rw [hcs]; omega
  have := readAllWith_frames ewd ps (totalBytes cs + 1) cs hlen hcs hfuel
  unfold readAll srcDataFirst
  rw [← this.1, ← this.2]

/-- … hence every MESSAGE written is read back as the same message, for any codec that decodes what it encoded
(protobuf is trusted to be one), any message list, any fragmentation. -/
theorem messages_read_back {μ : Type} (enc : μ → List Nat) (dec : List Nat → Option μ)
    (hcodec : ∀ m, dec (enc m) = some m) (ms : List μ) (hlen : ∀ m ∈ ms, (enc m).length < 2 ^ 64)
    (cs : Chunks) (hcs : cs.flatten = (ms.map (fun m => frame (enc m))).flatten) (ewd : Bool) :
    (readAll ewd cs).1.map dec = ms.map some ∧ (readAll ewd cs).2 = RdErr.eof := by
  have h := framing_chunk_independent (ms.map enc) (by simpa using hlen) cs (by simpa [List.map_map, Function.comp_def] using hcs) ewd
  rw [h]
  simp [List.map_map, Function.comp_def, hcodec]

/-- Counterexample (snapshot ef0888e, repaired by the `fix:` commit recorded in findings/C19.txt): a reader that
delivers the last bytes of the stream together with `io.EOF` made the old `ReadMessage` loop drop them: two frames
are written, one message is read back, then an error (replayed by corpus/C19/eof-with-last-bytes.ops). -/
theorem old_readMessage_drops_last_message :
    ∃ (ps : List (List Nat)) (cs : Chunks), (∀ p ∈ ps, p.length < 2 ^ 64) ∧ cs.flatten = (ps.map frame).flatten ∧
      readAllOld true cs ≠ (ps, RdErr.eof) := by
  refine ⟨[[8, 42], [10, 2, 1, 2]], [[2, 8, 42, 4, 10, 2, 1, 2]], by decide, ?_, by decide⟩
  simp [frame, putUvarint_lt]

/-! ### Typed field maps (`fieldsToTypedMaps` / `typeMapsToFields`) -/

/-- **Fields survive the split into four typed maps and the merge back**: for every field set (a Go map: distinct
keys) over the four supported types, what `typeMapsToFields` rebuilds from the typed maps holds exactly the
entries that were sent — same names, same values, same types. -/
theorem fields_roundtrip (f : Fields) (hkeys : (keys f).Nodup) :
    (typeMapsToFields (strsOf f) (floatsOf f) (intsOf f) (boolsOf f)).Perm f ∧
    sameMap f (typeMapsToFields (strsOf f) (floatsOf f) (intsOf f) (boolsOf f)) = true :=
  ⟨rtFields_perm f hkeys, sameMap_of_perm (rtFields_perm f hkeys).symm⟩

/-! ### Echo identity, for every input sequence and every schedule -/

/-- The server writes, for a sequence of well-bracketed inputs (points, buffered batches, batches as
begin/points/end), exactly the requests `Item.reqs` lists — whatever `begin` it remembered before. -/
theorem server_writes_items (items : List Item) (st : Option Begin) :
    ∃ st', serverWriteAll st (items.flatMap Item.msgs) = some (st', items.flatMap Item.reqs) :=
  serverWriteAll_items items st

/-- **Echo identity.** Take ANY sequence of well-formed inputs; ANY management requests (keepalive, snapshot,
restore, info, init) interleaved ANYWHERE into the request stream; a peer that echoes every data request and
answers every management request; ANY interleaving of its echoed responses with its management responses.
Then `handleResponse` never dereferences nil, ends with no batch open, and hands out data messages that are
exactly the inputs: as many, in order, each the same in name, database, retention policy, group, dimensions,
tags, fields (names, values, types), time; batches with their boundaries and their points in order.
(This is the reading side; strings are arbitrary byte lists here. The WRITING side marshals every request iff the
strings are valid UTF-8 — `valid_utf8_marshals`, `invalid_utf8_aborts_session`, finding `invalid-utf8`.
`Item.WF` is what the edge constructors guarantee: derived group ID, batch dimensions = sorted tag keys, distinct
field keys; without the batch-header clause see `echo_identity_up_to_dims`.) -/
theorem echo_identity (items : List Item) (hwf : ∀ it ∈ items, it.WF)
    (ctl : List Request) (hctl : ∀ r ∈ ctl, r.isData = false)
    (reqs : List Request) (hreqs : Interleave (items.flatMap Item.reqs) ctl reqs)
    (h : Peer) (resps : List Response)
    (hresps : Interleave (agentRun h reqs).2.2 (agentRun h reqs).2.1 resps) :
    ∃ outs, handleAll {} resps = some ({}, outs) ∧
      echoIdentity (items.map Item.data) ((dataOuts outs).filterMap edgeData) = true ∧
      ctlOuts outs = (agentRun h ctl).2.1.flatMap ctlOutOf := by
  obtain ⟨outs, h1, h2, h3, _⟩ := echo_core items ctl hctl reqs hreqs h resps hresps
  exact ⟨outs, h1, by rw [h2]; exact echoIdentity_items items hwf, h3⟩

/-- **Echo identity up to re-derived batch dimensions** (the former finding `batch-dims-rederived`, repaired at its
source — `groupBy`, `fix:` 6ba92e9 — so that no in-tree code builds such a header any more) — the full characterisation of what the
code does for ARBITRARY batch headers (no `Begin.WF`): under the same schedules, what comes back is the input with
every batch's dimension list replaced by the sorted keys of its tags and its group ID re-derived from them
(`devDimsOut`), and nothing else changed. For headers built by `NewBeginBatchMessage`/`SetTags` this IS the
input (`echo_identity`); for the others see `duplicate_dimension_changes_group`. -/
theorem echo_identity_up_to_dims (items : List Item) (hwf : ∀ it ∈ items, it.WF0)
    (ctl : List Request) (hctl : ∀ r ∈ ctl, r.isData = false)
    (reqs : List Request) (hreqs : Interleave (items.flatMap Item.reqs) ctl reqs)
    (h : Peer) (resps : List Response)
    (hresps : Interleave (agentRun h reqs).2.2 (agentRun h reqs).2.1 resps) :
    ∃ outs, handleAll {} resps = some ({}, outs) ∧
      echoIdentityUpToDims (items.map Item.data) ((dataOuts outs).filterMap edgeData) = true := by
  obtain ⟨outs, h1, h2, _, _⟩ := echo_core items ctl hctl reqs hreqs h resps hresps
  exact ⟨outs, h1, by rw [h2]; exact echoIdentityUpToDims_items items hwf⟩

/-- Counterexample behind the former finding `batch-dims-rederived`: the header `GroupByNode` built for
`groupBy('a','a')` before `fix:` 6ba92e9 (`SetTagsAndDimensions` with the dimension named twice; today the dimension
list of a `groupBy` is duplicate-free and this header is hand-made) has group ID `a=x,a=x`; the batch that comes back through
the model of the boundary has dimensions `[a]` and group ID `a=x` — not the same batch
(replayed on the implementation by corpus/C19/synthetic-header-dims-rederived.ops). -/
theorem duplicate_dimension_changes_group :
    ∃ (b : Begin) (pts : List BP) (out : EdgeMsg),
      b = (newBegin [109] [([97], [120])] false 5 1).setTagsAndDimensions [([97], [120])] false [[97], [97]] ∧
      (Session.send {} (.buffered b pts)).map (·.2) = some [.msg out] ∧
      (edgeData out).map (sameData (.batch b pts)) = some false ∧ devDims (.batch b pts) = true :=
  ⟨_, [⟨[([118], .int 1)], [([97], [120])], 4⟩],
   .buffered (newBegin [109] [([97], [120])] false 5 1) [⟨[([118], .int 1)], [([97], [120])], 4⟩], rfl, by decide, by decide, by decide⟩

/-! ### Strings that are not valid UTF-8 (finding `invalid-utf8`) -/

/-- A message all of whose strings are valid UTF-8 never makes `proto.Marshal` fail: every request the server
writes for it marshals. (So for such inputs the write side never aborts and `echo_identity` applies.) -/
theorem valid_utf8_marshals (it : Item) (h : devUtf8 it.data = false) : ∀ r ∈ it.reqs, marshalOK r = true :=
  marshalOK_of_valid it h

/-- Counterexample behind finding `invalid-utf8`: a well-formed point whose string field holds the byte `0xFF`
(a Go string, not UTF-8) makes the model of `writeData` fail to marshal the request; the session aborts, nothing
comes back for it, and the VALID point sent after it is lost too
(replayed on the implementation by corpus/C19/finding-invalid-utf8.ops). -/
theorem invalid_utf8_aborts_session :
    ∃ (p q : Point), p.WF ∧ q.WF ∧ devUtf8 (.point p) = true ∧ devUtf8 (.point q) = false ∧
      ∃ s, Session.send {} (.point p) = some (s, []) ∧ s.aborted = true ∧ Session.send s (.point q) = some (s, []) :=
  ⟨newPoint [99] [100] [114] false [] [([118], .str [0xFF])] [] 2, newPoint [99] [100] [114] false [] [([118], .int 3)] [] 3,
   ⟨by decide, rfl⟩, ⟨by decide, rfl⟩, by decide, by decide, { aborted := true }, rfl, rfl, rfl⟩

/-! ### Snapshot / restore -/

/-- **Snapshot / restore carry the bytes unchanged, under every schedule**: with data flowing and management
requests interleaved in any way (hypotheses of `echo_identity`), every snapshot request is answered — in request
order — with exactly the bytes the UDF holds, and the UDF ends up holding for restore exactly the bytes of the
last restore request. -/
theorem snapshot_restore_bytes (items : List Item)
    (ctl : List Request) (hctl : ∀ r ∈ ctl, r.isData = false)
    (reqs : List Request) (hreqs : Interleave (items.flatMap Item.reqs) ctl reqs)
    (h : Peer) (resps : List Response)
    (hresps : Interleave (agentRun h reqs).2.2 (agentRun h reqs).2.1 resps) :
    ∃ outs, handleAll {} resps = some ({}, outs) ∧
      outs.filterMap snapOf = (ctl.filter isSnapshotReq).map (fun _ => h.snap) ∧
      (agentRun h reqs).1.restored = lastRestore ctl h.restored := by
  obtain ⟨outs, h1, _, h3, h4⟩ := echo_core items ctl hctl reqs hreqs h resps hresps
  have hsn := agentRun_ctl_snap ctl h
  exact ⟨outs, h1, by rw [filterMap_snapOf_ctlOuts, h3, hsn.1], by rw [h4, hsn.2.1]⟩

/-! ### Both halves together -/

/-- **The whole boundary**: bytes out, any fragmentation, the peer, bytes back, any fragmentation, reassembly.
For any request codec and response codec that decode what they encode: the peer decodes exactly the request stream
the server wrote, the server decodes exactly the response stream the peer wrote, both streams end cleanly, and
what `handleResponse` hands out is the input (conclusions of `echo_identity`). -/
theorem boundary_end_to_end
    (encQ : Request → List Nat) (decQ : List Nat → Option Request) (hQ : ∀ m, decQ (encQ m) = some m)
    (encR : Response → List Nat) (decR : List Nat → Option Response) (hR : ∀ m, decR (encR m) = some m)
    (items : List Item) (hwf : ∀ it ∈ items, it.WF)
    (ctl : List Request) (hctl : ∀ r ∈ ctl, r.isData = false)
    (reqs : List Request) (hreqs : Interleave (items.flatMap Item.reqs) ctl reqs)
    (hlenQ : ∀ m ∈ reqs, (encQ m).length < 2 ^ 64)
    (cs₁ : Chunks) (hcs₁ : cs₁.flatten = (reqs.map (fun m => frame (encQ m))).flatten) (ewd₁ : Bool)
    (h : Peer) (resps : List Response)
    (hresps : Interleave (agentRun h reqs).2.2 (agentRun h reqs).2.1 resps)
    (hlenR : ∀ m ∈ resps, (encR m).length < 2 ^ 64)
    (cs₂ : Chunks) (hcs₂ : cs₂.flatten = (resps.map (fun m => frame (encR m))).flatten) (ewd₂ : Bool) :
    ((readAll ewd₁ cs₁).1.map decQ = reqs.map some ∧ (readAll ewd₁ cs₁).2 = RdErr.eof) ∧
    ((readAll ewd₂ cs₂).1.map decR = resps.map some ∧ (readAll ewd₂ cs₂).2 = RdErr.eof) ∧
    ∃ outs, handleAll {} resps = some ({}, outs) ∧
      echoIdentity (items.map Item.data) ((dataOuts outs).filterMap edgeData) = true ∧
      ctlOuts outs = (agentRun h ctl).2.1.flatMap ctlOutOf :=
  ⟨messages_read_back encQ decQ hQ reqs hlenQ cs₁ hcs₁ ewd₁, messages_read_back encR decR hR resps hlenR cs₂ hcs₂ ewd₂,
   echo_identity items hwf ctl hctl reqs hreqs h resps hresps⟩

/-- **Truncation safety**: a stream that ends early — cut anywhere, delivered in any fragmentation — yields exactly
the whole frames it contains (never a phantom or altered message, never a lost whole one), and the early end is
reported as an error unless it falls on a frame boundary. -/
theorem framing_truncation_safe (ps : List (List Nat)) (cs : Chunks) (ewd : Bool) (hlen : ∀ p ∈ ps, p.length < 2 ^ 64)
    (hcut : cs.flatten <+: (ps.map frame).flatten) :
    (readAll ewd cs).1 = ps.take (wholeFrames (ps.map (fun p => (frame p).length)) cs.flatten.length).1 ∧
    ((readAll ewd cs).2 = RdErr.eof ↔ (wholeFrames (ps.map (fun p => (frame p).length)) cs.flatten.length).2 = true) := by
  obtain ⟨R, hR⟩ := hcut
  have := readAllWith_truncated ewd ps (totalBytes cs + 1) cs R hlen hR (by unfold totalBytes; omega)
  unfold readAll srcDataFirst
  exact this

/-! ### The write side: one writer per stream (`Server.writeData`, `Agent.writeLoop`) -/

/-- **One write loop puts whole frames on the wire**: whatever queue of marshalled messages the loop serves, the
bytes of its `Write` calls (two per message) are the concatenation of the messages' frames. -/
theorem single_writer_stream_is_frames (q : List (List Nat)) :
    wireBytes (wireSingle q) = (q.map frame).flatten :=
  wireSingle_bytes q

/-- **Every interleaving of data with keepalive and management requests reads back**: the write loop's `select`
may take the requests other goroutines hand it (`ks`: keepalive, snapshot, restore, …) at ANY position between the
data messages (`ds`) — for every such queue `q`, every fragmentation of the written bytes into reads and any codec
with `dec (enc m) = m`, the peer's read loop returns exactly `q`: every message once, as written, each stream in its
own order — in particular the data messages (`isData`) are exactly `ds`, in order, with nothing torn, lost or
invented by a request that fell between them. -/
theorem interleaved_requests_read_back {μ : Type} (enc : μ → List Nat) (dec : List Nat → Option μ)
    (hcodec : ∀ m, dec (enc m) = some m) (isData : μ → Bool) (ds ks q : List μ) (hq : Interleave ds ks q)
    (hd : ∀ m ∈ ds, isData m = true) (hk : ∀ m ∈ ks, isData m = false)
    (hlen : ∀ m ∈ q, (enc m).length < 2 ^ 64)
    (cs : Chunks) (hcs : cs.flatten = wireBytes (wireSingle (q.map enc))) (ewd : Bool) :
    (readAll ewd cs).1.map dec = q.map some ∧ (readAll ewd cs).2 = RdErr.eof ∧
    ((readAll ewd cs).1.filterMap dec).filter isData = ds := by
  have hcs' : cs.flatten = (q.map (fun m => frame (enc m))).flatten := by
    rw [hcs, wireSingle_bytes, List.map_map]; rfl
  obtain ⟨h1, h2⟩ := messages_read_back enc dec hcodec q hlen cs hcs' ewd
  refine ⟨h1, h2, ?_⟩
  have : (readAll ewd cs).1.filterMap dec = q := by
    have := congrArg (List.filterMap id) h1
    simpa [List.filterMap_map, Function.comp_def] using this
  rw [this]
  exact hq.filter_left isData hd hk

/-- Counterexample (why the write loop must be the ONLY writer; seeded change C19-6 made `runKeepalive` call
`writeRequest` itself): a second goroutine whose two `Write` calls fall between the two `Write` calls of the write
loop's message tears the frame — the data payload `[1,2,3]` and the keepalive payload `[9]` are both written
completely, yet the reader gets one message that is neither (`[1,9,1]`) and then an unexpected end of stream. -/
theorem second_writer_tears_frame :
    ∃ (d k : List Nat) (w : List (List Nat)), Interleave (writesOf d) (writesOf k) w ∧
      wireBytes w ≠ wireBytes (wireSingle [d, k]) ∧ wireBytes w ≠ wireBytes (wireSingle [k, d]) ∧
      d ∉ (readAll false [wireBytes w]).1 ∧ k ∉ (readAll false [wireBytes w]).1 ∧
      (readAll false [wireBytes w]).2 ≠ RdErr.eof := by
  refine ⟨[1, 2, 3], [9], [[3], [1], [9], [1, 2, 3]], ?_, ?_, ?_, by decide, by decide, by decide⟩
  · have h1 : writesOf [1, 2, 3] = [[3], [1, 2, 3]] := by simp [writesOf, putUvarint_lt]
    have h2 : writesOf [9] = [[1], [9]] := by simp [writesOf, putUvarint_lt]
    rw [h1, h2]
    exact .left (.right (.right (.left .nil)))
  · simp [wireBytes, wireSingle, writesOf, putUvarint_lt]
  · simp [wireBytes, wireSingle, writesOf, putUvarint_lt]

/-- **The source has one writer per stream** (regenerated from udf/server.go and udf/agent/agent.go on every run by
/verif/extract/c19writers): of all goroutine roots of `Server` (every `go` statement, every exported method) exactly
one reaches a write to `Server.out` — a goroutine the type starts itself (the write loop of `Start`), not a caller's —
and likewise for `Agent.out`; no use of either stream field escapes the extractor's rules (kind `unknown`). Which `go`
statement it is does not matter (a reordering of `Start` keeps the theorem). This is the hypothesis under which `wireSingle` is the byte
stream of the real code. -/
theorem one_writer_per_stream :
    Kap.C19.Gen.serverWriters.map Prod.fst = ["go"] ∧ Kap.C19.Gen.agentWriters.map Prod.fst = ["go"] := by
  decide

/-- **A process' pipe must be read to its end before the process is reaped** (`UDFProcess.Open`: `server.WaitIO()`
before `cmd.Wait()`; `exec.Cmd.Wait` closes the parent's end of the stdout pipe and whatever is still unread there is
gone): if the pipe is closed after the server has read only `cut` bytes of the frames the process wrote - at ANY point
before the end, under any fragmentation - the server gets a STRICT prefix of the messages: at least the last message
the process wrote back is lost (seeded change C19-8 reaped the process one second after it exited; with a consumer of
`Out()` stalled for longer, echoed points never came out). Read to the end (`framing_chunk_independent`) nothing is. -/
theorem early_reap_loses_messages (ps : List (List Nat)) (cs : Chunks) (ewd : Bool) (hlen : ∀ p ∈ ps, p.length < 2 ^ 64)
    (hcut : cs.flatten <+: (ps.map frame).flatten) (hshort : cs.flatten.length < (ps.map frame).flatten.length) :
    ∃ k, k < ps.length ∧ (readAll ewd cs).1 = ps.take k := by
  refine ⟨(wholeFrames (ps.map (fun p => (frame p).length)) cs.flatten.length).1, ?_,
    (framing_truncation_safe ps cs ewd hlen hcut).1⟩
  have h := wholeFrames_lt_of_cut_lt (ps.map (fun p => (frame p).length)) cs.flatten.length
    (by intro l hl; simp only [List.mem_map] at hl; obtain ⟨p, _, rfl⟩ := hl; exact frame_length_pos p)
    (by
      have : (ps.map (fun p => (frame p).length)).sum = (ps.map frame).flatten.length := by
        simp [List.length_flatten, List.map_map, Function.comp_def]
      omega)
  simpa using h

/-! ### Non-vacuity: the hypotheses are met by concrete, non-trivial instances -/

/-- 300 needs a two-byte varint; its bytes split one per read, a stray empty read, the rest in one chunk. -/
example : putUvarint 300 = [172, 2] ∧ readUvarint [[172], [], [2, 7, 7]] = .ok (300, [[7, 7]]) := by
  refine ⟨by rw [putUvarint_ge (by decide), putUvarint_lt (by decide)], by rfl⟩

/-- The same stream cut after 3 of its 4 bytes … and after 2 (inside the first frame): whole frames only, error. -/
example : readAll false [[2], [8, 42]] = ([[8, 42]], RdErr.eof) ∧ readAll false [[2, 8]] = ([], RdErr.bodyEOF) := by decide

/-- Two frames (the second empty) read back from one-byte reads with the last byte carrying `io.EOF`. -/
example : readAll true [[2], [8], [42], [0]] = ([[8, 42], []], RdErr.eof) := by decide

/-- cpu / db / rp, by-name, dimension `host`; fields v (NaN with payload), n (2^53+1), s ("é\n"), b. -/
def exPoint : Point := newPoint [99, 112, 117] [100, 98] [114, 112] true [[104, 111, 115, 116]]
  [([118], .float 0x7ff8000000000001), ([110], .int 9007199254740993), ([115], .str [0xC3, 0xA9, 10]), ([98], .bool true)]
  [([104, 111, 115, 116], [97])] 1
def exB : Begin := newBegin [109] [([100, 99], [120])] false 5 2
def exBP1 : BP := ⟨[([118], .int (-1))], [([100, 99], [120])], 4⟩
def exBP2 : BP := ⟨[], [], 5⟩
def exBatch : Item := .batch false exB [exBP1, exBP2]

theorem nonvacuity_inputs_wf : (Item.pt exPoint).WF ∧ exBatch.WF :=
  ⟨⟨by decide, rfl⟩, ⟨rfl, rfl⟩, by decide⟩

/-- `early_reap_loses_messages` instantiated: two frames written, the pipe closed after 5 of the 7 bytes. -/
example : ∃ k, k < 2 ∧ (readAll false [[2, 8], [42, 3, 1]]).1 = [[8, 42], [1, 2, 3]].take k :=
  early_reap_loses_messages [[8, 42], [1, 2, 3]] [[2, 8], [42, 3, 1]] false (by decide)
    (by simp [frame, putUvarint_lt]) (by simp [frame, putUvarint_lt])

/-- `interleaved_requests_read_back` instantiated: two data payloads, a keepalive taken between them, one-byte
reads, identity codec. -/
example : ((readAll true [[2], [1], [2], [1], [9], [1, 3]]).1.filterMap some).filter (fun m => m != [9]) = [[1, 2], [3]] :=
  (interleaved_requests_read_back id some (fun _ => rfl) (fun m => m != [9]) [[1, 2], [3]] [[9]] [[1, 2], [9], [3]]
    (.left (.right (.left .nil))) (by decide) (by decide) (by decide) _
    (by simp [wireBytes, wireSingle, writesOf, putUvarint_lt]) true).2.2

/-- `echo_identity` instantiated: a point with all four field types (NaN payload, an int beyond 2^53, a string with
a newline) followed by an unbuffered batch (begin, two points, end); a snapshot request is written between the
batch's begin and its first point and a keepalive after the batch; on the way back the snapshot response sits
between the echoed begin and the first echoed point, the keepalive response arrives before the echoed end.
The hypotheses hold, so the conclusion does. -/
example : ∃ outs, handleAll {} (echoOf (writePoint exPoint) ++ echoOf (writeBegin exB) ++ [.snapshot [9, 9]] ++
        echoOf (writeBatchPoint exB.group exBP1) ++ echoOf (writeBatchPoint exB.group exBP2) ++ [.keepalive 7] ++
        echoOf (writeEnd exB)) = some ({}, outs) ∧
    echoIdentity [Item.data (.pt exPoint), exBatch.data] ((dataOuts outs).filterMap edgeData) = true ∧
    ctlOuts outs = [.snapshot [9, 9]] :=
  echo_identity [.pt exPoint, exBatch] (by intro it hit; simp at hit; rcases hit with rfl | rfl; exact nonvacuity_inputs_wf.1; exact nonvacuity_inputs_wf.2)
    [.snapshot, .keepalive 7] (by decide)
    _ (.left (.left (.right (.left (.left (.left (.right .nil)))))))
    { snap := [9, 9] } _
    (.left (.left (.right (.left (.left (.right (.left .nil)))))))

end Kap.Props.C19
