/-
C19 — property theorems (every `theorem` in this module is a proof obligation, axiom-audited by bin/check).
-/
import Kap.Spec.C19
namespace Kap.Props.C19
open Kap.C19

/-- Counterexample (snapshot ef0888e): a reader that delivers the last bytes of the stream together with `io.EOF`
makes the old `ReadMessage` loop drop the last message: two frames are written, one is read back, then an error. -/
theorem old_readMessage_drops_last_message :
    ∃ (msgs : List (List Nat)) (cs : Chunks), cs.flatten = (msgs.map frame).flatten ∧
      readAllOld true cs ≠ (msgs, RdErr.eof) := by
  refine ⟨[[8, 42], [10, 2, 1, 2]], [[2, 8, 42, 4, 10, 2, 1, 2]], ?_, by decide⟩
  simp [frame, putUvarint]

end Kap.Props.C19
