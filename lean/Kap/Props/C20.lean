/-
C20 — property theorems (every `theorem` here is a proof obligation, axiom-audited by `bin/check C20`).
Helper lemmas: Kap/Proofs/C20*.lean. Model: Kap/Model/C20.lean (transcription of auth/auth.go and
services/httpd/handler.go, tables regenerated from the source into Kap/Gen/C20.lean). Spec: Kap/Spec/C20.lean.

Statement (properties.jsonl): with authentication enabled, a request is served only with valid credentials,
and a non-admin user may perform it only if the privilege required by the HTTP method is granted on the
closest ancestor-or-self of the normalised resource path that carries a grant; path tricks ('..', duplicate or
trailing slashes) never widen access, writes are additionally checked against the target database, and
distinct database names never map to the same resource.

Two defects found by this check are repaired in /repo (fix commits d662ebb: `all` granted together with another
privilege did not grant the rest; 06df506: NewUser kept one of several grants that clean to the same path,
chosen by map iteration order); their counterexamples on the OLD code stay here as theorems
(`authorizedOld_refuses_all_plus_other`, `newUserOld_order_dependent`), the model follows the repaired code.

HTTP depth: `served_resource_below_api` (what is served was authorised below "/api": route pattern shapes of the
regenerated table + what `AddRoute` can register), `resource_escapes_only_behind_v1_dotdot` / `escaping_urls_reach_only_404`
(exactly which clean URL paths leave "/api", and that only the 404 catch-all matches them),
`encoded_traversal_never_served` (raw request targets: one pass of percent-decoding in front of mux AND authorisation).
Byte level (strings that are not valid UTF-8): second props module `Kap.Props.C20Bytes`.

All theorems quantify over ALL strings, tables, accounts, requests (no size bound). The last clause is FALSE of
the code (finding `db-collision`): the full statement is `database_resource_injective_stmt`, its negation is
proved (`database_resource_not_injective`), the collisions are characterised exactly
(`database_resource_collisions_exactly`) and injectivity is proved where it holds
(`database_resource_injective_partial`).
-/
import Kap.Proofs.C20Ran
import Kap.Proofs.C20Api
import Kap.Proofs.C20Write
namespace Kap.Props.C20
open Kap.C20 Kap.C20.Spec

/-! ### The regenerated tables say what the statement says -/

def caseKnown : Gen.MethodCase → Bool
  | .priv _ _ => true
  | .unknown _ => false

/-- The translator recognised every shape it looked at in auth.go / handler.go (it fails closed: an
unrecognised shape lands in `Gen.problems` or as an `unknown` case and this theorem stops checking). -/
theorem gen_recognised :
    Gen.problems = [] ∧ Gen.earlyAllowShape = .noPrivilegesOrAdmin ∧ Gen.authorizedShape = .andNonZeroOrAllBit ∧
    Gen.newUserStoreShape = .storeOr ∧
    Gen.dbReplaceOld = ['/'] ∧ Gen.dbReplaceNew = ['_'] ∧ Gen.methodCases.all caseKnown = true ∧
    Gen.authMethods.length = 3 := by
  decide

/-- The privilege constants, resource roots and the method → privilege switch of the SOURCE are the ones the
statement talks about: HEAD/OPTIONS need nothing, GET read, POST/PATCH/PUT write, DELETE delete, any other
method is refused. -/
theorem gen_matches_statement :
    (noPriv, readPriv, writePriv, deletePriv, allPriv) = (pNone, pRead, pWrite, pDelete, pAll) ∧
    Gen.apiRootResource = "/api".toList ∧ Gen.databaseRootResource = "/database".toList ∧
    Gen.basePath = "/kapacitor/v1".toList ∧ Gen.subscriptionUser = subscriber ∧
    allowedMethods.all tableOK = true ∧
    requiredPrivilege "TRACE".toList = .unknownMethod ∧ requiredFor "TRACE".toList = none ∧
    requiredPrivilege "get".toList = .priv readPriv := by
  decide

/-! ### Path normalisation -/

/-- `path.Clean` (as modelled) is idempotent — for every string, rooted or not. -/
theorem clean_idempotent (p : Path) : clean (clean p) = clean p := clean_idempotent' p

/-- The cleaned form of a rooted path is THE canonical spelling of the node it denotes: "/" followed by the
node's names joined with single slashes, every name non-empty, not ".", not "..", without '/'. -/
theorem clean_is_canonical (p : Path) (n : Node) (h : nodeOf p = some n) :
    clean p = '/' :: join n ∧ ∀ s ∈ n, s ≠ [] ∧ s ≠ ['.'] ∧ s ≠ ['.', '.'] ∧ '/' ∉ s := by
  obtain ⟨hn, hc⟩ := nodeOf_normal p n h
  exact ⟨hc, fun s hs => ⟨(hn s hs).1.1, (hn s hs).1.2.1, (hn s hs).1.2.2, (hn s hs).2⟩⟩

/-- The code's left-to-right stack machine computes the node the statement's right-to-left reading defines
(two different algorithms agree on every element list). -/
theorem clean_computes_node (segs : List Seg) : cleanSegs true segs = (resolveRev 0 segs.reverse).reverse :=
  cleanSegs_eq_resolve segs

/-- A relative path stays relative, a rooted one rooted (so a relative grant can never match a request). -/
theorem clean_preserves_rootedness (p : Path) : isAbs (clean p) = isAbs p := isAbs_clean p

/-- `path.Dir` of a canonical path drops exactly its last name (the step of the loop). -/
theorem dir_drops_last (init : List Seg) (last : Seg) (h : NormalSegs (init ++ [last])) :
    dir ('/' :: join (init ++ [last])) = '/' :: join init := dir_canonical init last h

/-! ### The decision -/

/-- **decision_on_clean_path**: for EVERY user table (also one not built by `NewUser`), resource and
privilege, the decision is the decision on the cleaned resource. -/
theorem decision_on_clean_path (u : User) (resource : Path) (want : Nat) :
    authorizeAction u resource want = authorizeAction u (clean resource) want := by
  unfold authorizeAction
  rw [isAbs_clean, clean_idempotent']

/-- **Path tricks never widen (or narrow) access**: two spellings of the same node — extra or trailing slashes,
"." elements, "x/.." detours, ".." above the root — get the same decision from every user table. -/
theorem path_tricks_never_widen (u : User) (p q : Path) (want : Nat) (h : nodeOf p = nodeOf q) :
    authorizeAction u p want = authorizeAction u q want := by
  cases hp : nodeOf p with
  | none =>
    have hq : nodeOf q = none := by rw [← h, hp]
    have ap : isAbs p = false := by
      cases e : isAbs p with
      | false => rfl
      | true => obtain ⟨cs, rfl⟩ := (isAbs_iff p).mp e; rw [nodeOf_abs] at hp; cases hp
    have aq : isAbs q = false := by
      cases e : isAbs q with
      | false => rfl
      | true => obtain ⟨cs, rfl⟩ := (isAbs_iff q).mp e; rw [nodeOf_abs] at hq; cases hq
    unfold authorizeAction
    simp [ap, aq]
  | some n =>
    have hq : nodeOf q = some n := by rw [← h, hp]
    rw [decision_on_clean_path u p, decision_on_clean_path u q, (nodeOf_normal p n hp).2, (nodeOf_normal q n hq).2]

/-- **nearest_grant_only**: for every account (admin flag + the grant list handed to `NewUser`), resource and
privilege, `AuthorizeAction` answers exactly: allow for `NoPrivileges`/admin; "invalid" for a resource that is
not rooted; otherwise the mask test on the grant of the NEAREST ancestor-or-self that carries one — and
nothing else in the table matters; deny when no ancestor carries a grant. -/
theorem nearest_grant_only (a : Account) (resource : Path) (want : Nat) :
    authorizeAction a.user resource want =
      if want = noPriv ∨ a.admin = true then .allow
      else match nodeOf resource with
        | none => .invalid
        | some n =>
          match nearestGrant a.grants n with
          | some (_, ps) => if authorized (orMask ps) want then .allow else .deny
          | none => .deny :=
  authorizeAction_eq_nearest a resource want

/-- **The decision IS the statement's reference decision**: allowed iff `none` is wanted, or the user is admin,
or the resource is rooted and the privilege list on the nearest granted ancestor-or-self of its node contains the
wanted privilege or `all`. Tables and the wanted privilege range over the five declared privileges. -/
theorem decision_is_reference (a : Account) (resource : Path) (want : Nat)
    (hv : ∀ g ∈ a.grants, g.2.all validPriv = true) (hw : validPriv want = true) :
    authorizeAction a.user resource want = .allow ↔ mayAllow a resource want = true :=
  allow_iff_mayAllow a resource want hv hw

/-- The spec oracle the driver evaluates on the implementation's answers accepts the model's answer. -/
theorem model_passes_oracle (a : Account) (resource : Path) (want : Nat)
    (hv : ∀ g ∈ a.grants, g.2.all validPriv = true) (hw : validPriv want = true) :
    judgeDecision a resource want (authorizeAction a.user resource want == .allow) = none := by
  have hb := decision_is_reference a resource want hv hw
  unfold judgeDecision
  cases hd : (authorizeAction a.user resource want == Decision.allow) with
  | true =>
    have : authorizeAction a.user resource want = .allow := by simpa using hd
    simp [hb.mp this]
  | false =>
    have hne : authorizeAction a.user resource want ≠ .allow := by simpa using hd
    have : mayAllow a resource want = false := by
      cases hm : mayAllow a resource want with
      | false => rfl
      | true => exact absurd (hb.mpr hm) hne
    simp [this]

/-- **The decision is a function of the table, not of Go's map iteration order**: `NewUser` called on any
permutation of the same grants decides every action the same way. -/
theorem newUser_order_independent (admin : Bool) (g₁ g₂ : List (Path × List Nat)) (h : g₁.Perm g₂)
    (resource : Path) (want : Nat) :
    authorizeAction (newUser admin g₁) resource want = authorizeAction (newUser admin g₂) resource want :=
  authorize_perm admin g₁ g₂ h resource want

/-- Counterexample on the code as it was (repaired by 06df506): "/a" ↦ [read] and "/a/" ↦ [write] clean to the
same path; whichever entry the map iteration visited last decided (replayed by corpus/C20/fixed-newuser-order.ops). -/
theorem newUserOld_order_dependent :
    ∃ g₁ g₂ : List (Path × List Nat), g₁.Perm g₂ ∧
      authorizeAction (newUserOld false g₁) "/a".toList 4 ≠ authorizeAction (newUserOld false g₂) "/a".toList 4 :=
  ⟨[("/a".toList, [2]), ("/a/".toList, [4])], [("/a/".toList, [4]), ("/a".toList, [2])],
   List.Perm.swap _ _ _, by decide⟩

/-- Counterexample on the code as it was (repaired by d662ebb): the mask of [all, read] is not `== AllPrivileges`,
so write was refused although `all` is granted (replayed by corpus/C20/fixed-all-plus-other.ops). -/
theorem authorizedOld_refuses_all_plus_other :
    authorizedOld (orMask [16, 2]) 4 = false ∧ listed [16, 2] 4 = true ∧ authorized (orMask [16, 2]) 4 = true := by
  decide

/-- **A nearer grant wins over a farther one**: when the node itself carries a grant, that grant alone decides,
whatever its ancestors carry. -/
theorem nearer_grant_wins (a : Account) (resource : Path) (n : Node) (ps : List Nat) (want : Nat)
    (hn : nodeOf resource = some n) (hg : grantAt a.grants n = some ps)
    (h0 : ¬ (want = noPriv ∨ a.admin = true)) :
    authorizeAction a.user resource want = if authorized (orMask ps) want then .allow else .deny := by
  rw [nearest_grant_only, if_neg h0, hn]
  have : nearestGrant a.grants n = some (n, ps) := by
    unfold nearestGrant ancestors
    rw [List.range_succ]
    simp [hg]
  simp only [this]

/-- … concretely: `all` on /a does not help below /a/b when /a/b carries only `read` (and `read` on a nearer
node is enough although the farther one grants nothing useful). -/
theorem nearer_grant_wins_example :
    let acc : Account := { grants := [("/a".toList, [16]), ("/a/b".toList, [2]), ("/".toList, [8])] }
    authorizeAction acc.user "/a/b/c".toList 4 = .deny ∧ authorizeAction acc.user "/a/x".toList 4 = .allow ∧
    authorizeAction acc.user "/a/b/../b//c/.".toList 2 = .allow ∧ authorizeAction acc.user "/a/b/../../c".toList 4 = .deny ∧
    authorizeAction acc.user "/a/bc".toList 4 = .allow ∧ authorizeAction acc.user "/a/b/../../c".toList 8 = .allow := by
  decide

/-- **Admin / NoPrivileges / relative resources.** -/
theorem admin_and_noprivilege_cases (u : User) (resource : Path) (want : Nat) :
    (want = noPriv → authorizeAction u resource want = .allow) ∧
    (u.admin = true → authorizeAction u resource want = .allow) ∧
    (want ≠ noPriv → u.admin = false → isAbs resource = false → authorizeAction u resource want = .invalid) ∧
    (want ≠ noPriv → u.admin = false → u.privs = [] → isAbs resource = true → authorizeAction u resource want = .deny) := by
  unfold authorizeAction
  refine ⟨fun h => by simp [h], fun h => by simp [h], fun h1 h2 h3 => by simp [h1, h2, h3], fun h1 h2 h3 h4 => by simp [h1, h2, h3, h4]⟩

/-- The unbounded `for` loop of `AuthorizeAction` always ends (the model's fuel is never exhausted). -/
theorem authorize_never_diverges (a : Account) (resource : Path) (want : Nat) :
    authorizeAction a.user resource want ≠ .diverge := by
  rw [nearest_grant_only]
  repeat' split
  all_goals simp

/-! ### HTTP -/

/-- `parseCredentials` only produces the three declared authentication methods, so the `default:` clause of
`authenticate` (which writes a 401 but does NOT return) cannot be reached. -/
theorem default_clause_unreachable (a : ReqAuth) (c : Creds) (h : parseCredentials a = some c) : c.method ≠ .other :=
  parseCredentials_method a c h

/-- … which matters: whether the clause leaves the function is read from the source on every run
(`Gen.authDefaultReturns`, today `false`). Without the `return`, reaching the clause would run the inner handler
as the zero user after the 401 was written — and a HEAD request needs no privilege. Latent, not a violation
(the statement holds either way; this theorem is stated so that it survives the repair). -/
theorem default_clause_behaviour :
    authenticateCreds {} { method := .other } = (if Gen.authDefaultReturns then .rejected else .inner {} true) ∧
    authorizeRequest "HEAD".toList "/kapacitor/v1/ping".toList {} = true := by
  decide

/-- **Which routes skip authentication at all** (read off the Route literals of NewHandler on every run): only
routes marked `BypassAuth`, and those are exactly GET routes below "/kapacitor/v1/debug/" with plain handlers
(pprof index/cmdline/profile/symbol/trace, expvar); `addRawRoute` honours the mark only when pprof is exposed,
and never for a handler that receives the user (the write endpoint). -/
theorem exempt_routes_exactly :
    (∀ r ∈ builtinRoutes, r.bypass = true →
      r.method = "GET".toList ∧ "/kapacitor/v1/debug/".toList.isPrefixOf r.pattern = true ∧ r.kind = .other) ∧
    (builtinRoutes.filter (·.bypass)).length = 6 ∧
    (∀ (cfg : Cfg) (r : Route), routeRequiresAuth cfg r = false → cfg.requireAuth = true →
      r.bypass = true ∧ r.forward = false ∧ cfg.exposePprof = true) := by
  refine ⟨bypass_route_facts, by decide, ?_⟩
  intro cfg r h ha
  unfold routeRequiresAuth at h
  cases hf : r.forward <;> cases hb : r.bypass <;> cases hp : cfg.exposePprof <;> simp_all

/-- **unauthenticated_never_served**: with authentication enabled, whenever ANY route handler of the regenerated
route table (or an ordinary added route) ran or points were written, the URL path was not a path trick and the
request either presented valid credentials (password, bearer token or subscription token) for an account of the
auth service, or is one of the exempt profiling pages (`Spec.exempt`: pprof exposed, GET, below /debug/). -/
theorem unauthenticated_never_served (cfg : Cfg) (hauth : cfg.requireAuth = true)
    (hextra : ∀ r ∈ cfg.extra, r.kind = .recorder ∧ r.bypass = false) (fuel : Nat) (req : Req)
    (h : (serveHTTP cfg fuel req).served = true ∨ (serveHTTP cfg fuel req).wrote = true) :
    (validAccounts cfg.svc req.auth ≠ [] ∨ exempt cfg.exposePprof req = true) ∧ muxCleanPath req.path = req.path := by
  have hs := serveHTTP_sound cfg hextra fuel req _ rfl h
  obtain ⟨r, acc, w, hmm, hau, _, _⟩ := hs.chain
  refine ⟨?_, hs.cleanPath⟩
  cases hra : routeRequiresAuth cfg r with
  | true =>
    rw [hra] at hau
    have := (authenticate_valid cfg.svc req.auth acc w hau).2
    left; intro e; rw [e] at this; cases this
  | false =>
    right
    obtain ⟨hmem, hrm, hpm⟩ := route_mem cfg hextra r _ _ hmm
    have hx := exempt_routes_exactly.2.2 cfg r hra hauth
    rcases hmem with hb | he
    · obtain ⟨hget, hpre, _⟩ := bypass_route_facts r hb hx.1
      unfold exempt
      rw [hx.2.2, ← hrm, hget, pathMatch_prefix _ _ _ hpm hpre]
      decide
    · rw [he.2] at hx; cases hx.1

/-- A write is never exempt: points are written only with valid credentials, whatever pprof is set to. -/
theorem write_never_exempt (cfg : Cfg) (hauth : cfg.requireAuth = true)
    (hextra : ∀ r ∈ cfg.extra, r.kind = .recorder ∧ r.bypass = false) (fuel : Nat) (req : Req)
    (h : (serveHTTP cfg fuel req).wrote = true) : validAccounts cfg.svc req.auth ≠ [] := by
  have hs := serveHTTP_sound cfg hextra fuel req _ rfl (Or.inr h)
  obtain ⟨r, acc, w, _, hau, _, hw⟩ := hs.chain
  rw [(hw h).1, hauth] at hau
  have := (authenticate_valid cfg.svc req.auth acc w hau).2
  intro e; rw [e] at this; cases this

/-- **served ⇒ authorised**: … and unless exempt, a valid account may perform the method on the API resource of
the URL path according to the statement (`Spec.servedOK`, the very oracle the driver evaluates on the real handler). -/
theorem served_only_if_authorised (cfg : Cfg) (hextra : ∀ r ∈ cfg.extra, r.kind = .recorder ∧ r.bypass = false) (req : Req)
    (hv : ∀ acc ∈ validAccounts cfg.svc req.auth, ∀ g ∈ acc.grants, g.2.all validPriv = true)
    (fuel : Nat)
    (h : (serveHTTP cfg fuel req).served = true ∨ (serveHTTP cfg fuel req).wrote = true) :
    servedOK cfg.requireAuth cfg.exposePprof cfg.svc req = true := by
  have hs := serveHTTP_sound cfg hextra fuel req _ rfl h
  obtain ⟨r, acc, w, hmm, hau, haz, _⟩ := hs.chain
  have hm := hs.method
  unfold servedOK
  cases hra : cfg.requireAuth with
  | false => simp
  | true =>
    cases hex : exempt cfg.exposePprof req with
    | true => simp
    | false =>
      have hne := (unauthenticated_never_served cfg hra hextra fuel req h).1
      cases hrr : routeRequiresAuth cfg r with
      | false =>
        -- an exempt route: contradiction with hex
        exfalso
        obtain ⟨hmem, hrm, hpm⟩ := route_mem cfg hextra r _ _ hmm
        have hx := exempt_routes_exactly.2.2 cfg r hrr hra
        rcases hmem with hb | he
        · obtain ⟨hget, hpre, _⟩ := bypass_route_facts r hb hx.1
          unfold exempt at hex
          rw [hx.2.2, ← hrm, hget, pathMatch_prefix _ _ _ hpm hpre] at hex
          revert hex; decide
        · rw [he.2] at hx; cases hx.1
      | true =>
        rw [hrr] at hau
        have hmem := (authenticate_valid cfg.svc req.auth acc w hau).2
        simp only [Bool.not_true, Bool.false_or]
        unfold authorizeRequest at haz
        cases hr : requiredPrivilege req.method with
        | priv p =>
          rw [hr] at haz
          simp only [decide_eq_true_eq] at haz
          obtain ⟨p', hp1, hp2, hp3⟩ := requiredPrivilege_spec req.method hm
          rw [hr] at hp1; injection hp1 with hp1; subst hp1
          rw [hp2]
          simp only [List.any_eq_true]
          refine ⟨acc, hmem, ?_⟩
          rw [← mayAllow_congr acc _ _ p (apiResource_node req.path)]
          exact allow_mayAllow acc _ p (hv acc hmem) hp3 haz
        | unknownMethod => rw [hr] at haz; cases haz
        | unrecognised => rw [hr] at haz; cases haz

/-- **write_checks_database**: points are written only if the same valid account holds `write` on the API
resource of the URL path AND on the resource of the target database (`Spec.wroteOK`). -/
theorem write_checks_database (cfg : Cfg) (hextra : ∀ r ∈ cfg.extra, r.kind = .recorder ∧ r.bypass = false) (req : Req)
    (hv : ∀ acc ∈ validAccounts cfg.svc req.auth, ∀ g ∈ acc.grants, g.2.all validPriv = true)
    (fuel : Nat) (h : (serveHTTP cfg fuel req).wrote = true) :
    wroteOK databaseResource cfg.requireAuth cfg.svc req = true := by
  have hs := serveHTTP_sound cfg hextra fuel req _ rfl (Or.inr h)
  obtain ⟨r, acc, w, _, hau, haz, hw⟩ := hs.chain
  obtain ⟨hrr, hpost, hdb⟩ := hw h
  unfold wroteOK
  cases hra : cfg.requireAuth with
  | false => simp
  | true =>
    rw [hrr, hra] at hau
    have hmem := (authenticate_valid cfg.svc req.auth acc w hau).2
    simp only [Bool.not_true, Bool.false_or, List.any_eq_true, Bool.and_eq_true]
    refine ⟨acc, hmem, ?_, ?_⟩
    · unfold authorizeRequest at haz
      rw [hpost] at haz
      have : requiredPrivilege "POST".toList = .priv 4 := by decide
      rw [this] at haz
      simp only [decide_eq_true_eq] at haz
      rw [← mayAllow_congr acc _ _ pWrite (apiResource_node req.path)]
      exact allow_mayAllow acc _ 4 (hv acc hmem) (by decide) haz
    · exact allow_mayAllow acc _ 4 (hv acc hmem) (by decide) hdb

/-! ### The URL parameters of a write: only `db` decides -/

/-- **The resource a write is checked against is a function of the `db` parameter only**: two requests that name
the same database are checked against the same resource, whatever their `rp`, `precision`, `consistency`, path,
method or credentials are; and it is the database resource of that name — one element below "/database". -/
theorem write_resource_function_of_db (r₁ r₂ : Req) (h : r₁.db = r₂.db) :
    writeResource r₁ = writeResource r₂ ∧ writeResource r₁ = databaseResource r₁.db ∧
    (r₁.db ≠ [] → ∃ elem, nodeOf (writeResource r₁) = some ["database".toList, elem]) := by
  refine ⟨?_, rfl, fun hne => ⟨_, databaseResource_node r₁.db hne⟩⟩
  unfold writeResource; rw [h]

/-- **The decision of a request does not depend on `rp` nor on any parameter other than `db`**: status, served,
written and the user let through are the same for every value of `rp` (absent, plain, with '/', "..", "../x",
"../../api/write", …) and every list of further parameters. -/
theorem write_decision_ignores_rp_and_params (cfg : Cfg) (fuel : Nat) (req : Req) (rp : List Char) (params : Query) :
    serveHTTP cfg fuel { req with rp := rp, params := params } = serveHTTP cfg fuel req :=
  serveHTTP_ignores_rp_params cfg fuel req rp params

/-- … while `rp` is handed through to the points writer unchanged, next to the database that was authorised. -/
theorem write_target_is_authorised_database (req : Req) :
    (writeTarget req).1 = req.db ∧ (writeTarget req).2 = req.rp ∧ writeResource req = databaseResource (writeTarget req).1 :=
  ⟨rfl, rfl, rfl⟩

/-- **write_needs_database_grant_whatever_rp**: with authentication enabled, points are written — for ANY `rp` and
any further parameters — only if one valid account holds `write` both on the API resource of the URL path and on
the resource of the database the points go to (`writeTarget`), by the statement's own reference decision. -/
theorem write_needs_database_grant_whatever_rp (cfg : Cfg) (hauth : cfg.requireAuth = true)
    (hextra : ∀ r ∈ cfg.extra, r.kind = .recorder ∧ r.bypass = false) (req : Req)
    (hv : ∀ acc ∈ validAccounts cfg.svc req.auth, ∀ g ∈ acc.grants, g.2.all validPriv = true)
    (fuel : Nat) (rp : List Char) (params : Query)
    (h : (serveHTTP cfg fuel { req with rp := rp, params := params }).wrote = true) :
    ∃ acc ∈ validAccounts cfg.svc req.auth,
      mayAllow acc (apiNodeOf req.path) pWrite = true ∧
      mayAllow acc (databaseResource (writeTarget { req with rp := rp, params := params }).1) pWrite = true := by
  rw [write_decision_ignores_rp_and_params] at h
  have hw := write_checks_database cfg hextra req hv fuel h
  unfold wroteOK at hw
  rw [hauth] at hw
  simp only [Bool.not_true, Bool.false_or, List.any_eq_true, Bool.and_eq_true] at hw
  obtain ⟨acc, hmem, h1, h2⟩ := hw
  exact ⟨acc, hmem, h1, h2⟩

/-- `url.Values.Get`: when a parameter is given twice the FIRST value is the one that is both authorised and
written to — a second `db=` (or anything else appended to the query) cannot redirect the check. -/
theorem first_db_parameter_decides (req : Req) (db : List Char) (q₁ q₂ : Query) (h : ∀ e ∈ q₁, e.1 ≠ "db".toList) :
    writeResource (req.withQuery (q₁ ++ ("db".toList, db) :: q₂)) = databaseResource db ∧
    (writeTarget (req.withQuery (q₁ ++ ("db".toList, db) :: q₂))).1 = db := by
  have : qGet (q₁ ++ ("db".toList, db) :: q₂) "db".toList = db := by
    induction q₁ with
    | nil => exact qGet_cons_same _ _ _
    | cons x xs ih =>
      obtain ⟨a, b⟩ := x
      rw [List.cons_append, qGet_cons_other _ _ _ _ (h (a, b) (by simp))]
      exact ih (fun e he => h e (by simp [he]))
  exact ⟨by rw [writeResource_withQuery, this], this⟩

/-- Why the check must NOT be made against a resource that has `rp` joined in (`path.Join(DatabaseResource(db), rp)`):
the database name is one escaped element, `rp` is not — "../mine_clean" lands on another database, "../../api/write"
on the write endpoint itself, ".." on "/database"; a user without any grant covering database `secret` would pass. -/
theorem rp_joined_into_resource_would_widen :
    let bob : Account := { grants := [("/api/write".toList, [4]), ("/database/mine_clean".toList, [4])] }
    let carol : Account := { grants := [("/api".toList, [2, 4]), ("/database".toList, [4]), ("/database/secret_clean".toList, [1])] }
    let joined (rp : String) := pathJoin2 (databaseResource "secret".toList) rp.toList
    mayAllow bob (databaseResource "secret".toList) pWrite = false ∧
    mayAllow carol (databaseResource "secret".toList) pWrite = false ∧
    joined "../mine_clean" = "/database/mine_clean".toList ∧ authorizeAction bob.user (joined "../mine_clean") writePriv = .allow ∧
    joined "../../api/write" = "/api/write".toList ∧ authorizeAction bob.user (joined "../../api/write") writePriv = .allow ∧
    joined ".." = "/database".toList ∧ authorizeAction carol.user (joined "..") writePriv = .allow ∧
    -- ordinary values stay below the database and change nothing
    authorizeAction bob.user (joined "autogen") writePriv = .deny ∧ authorizeAction carol.user (joined "a/b") writePriv = .deny := by
  decide

/-- **rewritePreview re-enters the handler at most once**: two passes decide every request (more fuel changes
nothing), and the model's "fuel exhausted" answer 508 never shows. -/
theorem preview_depth_one (cfg : Cfg) (hextra : ∀ r ∈ cfg.extra, r.kind = .recorder ∧ r.bypass = false) (f : Nat) (req : Req) :
    serveHTTP cfg (f + 2) req = serveHTTP cfg 2 req ∧ (serveHTTP cfg (f + 2) req).status ≠ 508 :=
  ⟨serveHTTP_depth cfg hextra f req, serveHTTP_never_exhausted cfg hextra f req⟩

/-- **served_resource_below_api**: whatever is served or written was authorised as a resource BELOW "/api" —
`APIResource("../x")` leaves the API subtree (next theorem), but no URL path that reaches a route handler does.
Added routes are the ones `AddRoute` / `AddPreviewRoute` can register (`viaAddRoute`: BasePath or BasePreviewPath
followed by nothing or by something that begins with '/'; `added_route_without_slash_would_escape` shows that this
hypothesis — the "route patterns must begin with a '/'" test of AddRoute — is load-bearing). The driver evaluates
the same clause (`served-resource-below-api`) on every observed request. -/
theorem served_resource_below_api (cfg : Cfg)
    (hextra : ∀ r ∈ cfg.extra, r.kind = .recorder ∧ r.bypass = false ∧ viaAddRoute r.pattern = true)
    (fuel : Nat) (req : Req)
    (h : (serveHTTP cfg fuel req).served = true ∨ (serveHTTP cfg fuel req).wrote = true) :
    ∃ names, nodeOf (apiResource (trimPrefix req.path Gen.basePath)) = some ("api".toList :: names) := by
  cases fuel with
  | zero => simp [serveHTTP] at h
  | succ f =>
    have hx : ExtraOK cfg := fun r hr => ⟨(hextra r hr).1, (hextra r hr).2.1⟩
    obtain ⟨hcp, _, r, acc, w, hmm, _, _, hcase⟩ :=
      serveLevel_sound cfg hx (serveHTTP cfg f) req _ (by rw [serveHTTP]) h
    obtain ⟨hmem, _, hpm⟩ := muxMatch_spec _ _ _ _ hmm
    have hk : r.kind ≠ .notFound := by
      rcases hcase with ⟨hk, _, _⟩ | ⟨_, hk, _⟩
      · rw [hk]; decide
      · exact hk
    apply clean_url_below_api req.path hcp
    rcases List.mem_append.mp hmem with hb | he
    · exact builtin_match_firstOK r hb hk req.path hpm
    · exact added_match_firstOK r.pattern req.path (hextra r he).2.2 hpm

/-- **Which URL paths are authorised against a resource outside "/api"?** Of the paths the mux does not
redirect: exactly "/kapacitor/v1.." and the paths below "/kapacitor/v1../" (TrimPrefix cuts inside the element
"v1..", leaving a ".." that `path.Join("/api", …)` resolves against "/api"). -/
theorem resource_escapes_only_behind_v1_dotdot (p : Path) (hc : muxCleanPath p = p) :
    (∃ names, nodeOf (apiResource (trimPrefix p Gen.basePath)) = some ("api".toList :: names)) ∨
    p = "/kapacitor/v1..".toList ∨ "/kapacitor/v1../".toList.isPrefixOf p = true := by
  by_cases h : ∃ names, nodeOf (apiResource (trimPrefix p Gen.basePath)) = some ("api".toList :: names)
  · exact Or.inl h
  · right
    have e1 : Gen.basePath ++ dotdot = "/kapacitor/v1..".toList := by decide
    have e2 : Gen.basePath ++ dotdot ++ ['/'] = "/kapacitor/v1../".toList := by decide
    rw [← e1, ← e2]
    exact clean_url_escape_shape p hc h

/-- … and every such URL path (indeed every path that begins with "/kapacitor/v1..") is matched, among ALL
routes NewHandler installs (regenerated table), only by the "/" catch-all, whose handler is serve404. -/
theorem escaping_urls_reach_only_404 (r : Route) (hr : r ∈ builtinRoutes) (p : Path)
    (hp : "/kapacitor/v1..".toList.isPrefixOf p = true) (hm : pathMatch r.pattern p = true) :
    r.kind = .notFound ∧ r.pattern = ['/'] := by
  have e1 : "/kapacitor/v1..".toList = Gen.basePath ++ dotdot := by decide
  rw [e1] at hp
  have hk := escaping_url_only_catch_all r hr p hp hm
  have : ∀ r ∈ builtinRoutes, r.kind = .notFound → r.pattern = ['/'] := by decide
  exact ⟨hk, this r hr hk⟩

/-- The hypothesis on added routes is needed: a route registered as BasePath + ".." — which `AddRoute` refuses,
the pattern does not begin with '/' — would be served to a user who holds `read` on "/" only, authorised
against the ROOT resource. -/
theorem added_route_without_slash_would_escape :
    let mallory : Account := { grants := [("/database".toList, [2]), ("/".toList, [2]), ("/api".toList, [])] }
    let cfg : Cfg := { requireAuth := true, svc := { users := [("mallory".toList, "pw".toList, mallory)] },
                       extra := [{ method := "GET".toList, pattern := "/kapacitor/v1..".toList, kind := .recorder }] }
    let req : Req := { method := "GET".toList, path := "/kapacitor/v1..".toList, auth := { header := .basic "mallory".toList "pw".toList } }
    addRoutePattern base "..".toList = none ∧ viaAddRoute "/kapacitor/v1..".toList = false ∧
    (serveHTTP cfg 2 req).served = true ∧ apiResource (trimPrefix req.path Gen.basePath) = "/".toList ∧
    -- the same user is refused everything that IS below /api
    (serveHTTP { cfg with extra := [{ method := "GET".toList, pattern := "/kapacitor/v1/tasks".toList, kind := .recorder }] } 2
      { req with path := "/kapacitor/v1/tasks".toList }).status = 403 := by
  decide

/-- A URL path that reaches a route handler has no "." and no ".." element (and no empty one except in front
and at the very end) — whatever spelled them. -/
theorem served_path_has_no_dot_elements (cfg : Cfg) (hextra : ∀ r ∈ cfg.extra, r.kind = .recorder ∧ r.bypass = false)
    (fuel : Nat) (req : Req)
    (h : (serveHTTP cfg fuel req).served = true ∨ (serveHTTP cfg fuel req).wrote = true) :
    ∀ s ∈ split req.path, s = [] ∨ (s ≠ [] ∧ s ≠ ['.'] ∧ s ≠ ['.', '.']) := by
  have hc := (serveHTTP_sound cfg hextra fuel req _ rfl h).cleanPath
  obtain ⟨cs, hp⟩ := muxClean_rooted req.path hc
  rw [hp] at hc ⊢
  exact muxClean_segs cs hc

/-- **Encoded traversal** (`%2e%2e`, `%2F`, raw high bytes, double encoding): a request as it arrives on the wire
is served or written only if net/http accepted the target, and then everything above holds of the path obtained
by ONE pass of percent-decoding — the one string both the mux and `authorizeRequest` read: it is its own cleaned
form, has no "." / ".." element however those were spelled, and its API resource lies below "/api". -/
theorem encoded_traversal_never_served (cfg : Cfg)
    (hextra : ∀ r ∈ cfg.extra, r.kind = .recorder ∧ r.bypass = false ∧ viaAddRoute r.pattern = true)
    (fuel : Nat) (r : RawReq) (out : HttpOut) (hr : serveRaw cfg fuel r = some out)
    (h : out.served = true ∨ out.wrote = true) :
    ∃ p, parseTarget r.target = some p ∧ muxCleanPath p = p ∧
      (∀ s ∈ split p, s = [] ∨ (s ≠ [] ∧ s ≠ ['.'] ∧ s ≠ ['.', '.'])) ∧
      ∃ names, nodeOf (apiResource (trimPrefix p Gen.basePath)) = some ("api".toList :: names) := by
  unfold serveRaw at hr
  cases hp : parseTarget r.target with
  | none => rw [hp] at hr; cases hr
  | some p =>
    rw [hp] at hr
    injection hr with hr
    subst hr
    have hx : ∀ r ∈ cfg.extra, r.kind = .recorder ∧ r.bypass = false := fun r hr => ⟨(hextra r hr).1, (hextra r hr).2.1⟩
    let req : Req := { method := r.method, path := p, auth := r.auth, db := r.db }
    have h' : (serveHTTP cfg fuel req).served = true ∨ (serveHTTP cfg fuel req).wrote = true := h
    exact ⟨p, rfl, (serveHTTP_sound cfg hx fuel req _ rfl h').cleanPath,
      served_path_has_no_dot_elements cfg hx fuel req h', served_resource_below_api cfg hextra fuel req h'⟩

/-- Percent-decoding is the identity on a target without '%', so the plain requests are the special case. -/
theorem pctDecode_plain (p : List Char) (h : '%' ∉ p) : pctDecode p = some p := by
  induction p with
  | nil => rfl
  | cons c cs ih =>
    have hc : c ≠ '%' := fun e => h (by simp [e])
    have hcs : '%' ∉ cs := fun e => h (by simp [e])
    have : pctDecode (c :: cs) = match pctDecode cs with | some r => some (c :: r) | none => none := by
      rw [pctDecode.eq_def]
      split
      · rename_i heq; cases heq
      · rename_i heq; injection heq with h1 _; exact absurd h1 hc
      · rename_i heq; injection heq with h1 _; exact absurd h1 hc
      · rename_i heq; injection heq with h1 h2; subst h1; subst h2; rfl
    rw [this, ih hcs]

/-- … while the function by itself does leave the subtree (so the mux's redirect is load-bearing). -/
theorem api_resource_can_escape :
    apiResource "../database/x".toList = "/database/x".toList ∧ muxCleanPath "/kapacitor/v1/../database/x".toList ≠ "/kapacitor/v1/../database/x".toList ∧
    apiResource (trimPrefix "/kapacitor/v1..".toList Gen.basePath) = "/".toList ∧ muxCleanPath "/kapacitor/v1..".toList = "/kapacitor/v1..".toList := by
  decide

/-! ### Database resources -/

/-- FULL statement of the last clause (stated, not provable: it is false of the code). -/
def database_resource_injective_stmt : Prop := DbInjective databaseResource

/-- Counterexample (finding `db-collision`, replayed on the real code by corpus/C20/finding-db-collision.ops). -/
theorem database_resource_not_injective : ¬ DbInjective databaseResource := by
  intro h
  have := h "a/b_".toList "a_b/".toList (by decide)
  revert this; decide

/-- **The collisions are exactly the recorded deviation**: two names map to the same resource iff they are
equal or satisfy `Dev_db_collision` (both contain '/', and they agree after '/' ↦ '_'). Nothing else collides
— in particular "" (the root), names without '/', and a clean name against a dirty one never do. -/
theorem database_resource_collisions_exactly (a b : List Char) :
    databaseResource a = databaseResource b ↔ a = b ∨ Dev_db_collision a b = true :=
  databaseResource_eq_iff a b

/-- `database_resource_injective_partial`: injective on every pair in which at least one name has no '/'.
Missing for the full statement: pairs of names that both contain '/' (where it is false). -/
theorem database_resource_injective_partial (a b : List Char) (hex : ¬ ('/' ∈ a ∧ '/' ∈ b))
    (h : databaseResource a = databaseResource b) : a = b := by
  rcases (databaseResource_eq_iff a b).mp h with h | h
  · exact h
  · rw [dev_iff] at h
    exact absurd ⟨h.2.1, h.2.2.1⟩ hex

/-- A database is exactly ONE element below "/database", whatever its name contains ('/', "..", …): a
database grant can never reach another subtree. -/
theorem database_resource_single_element (d : List Char) (h : d ≠ []) :
    ∃ elem, nodeOf (databaseResource d) = some ["database".toList, elem] :=
  ⟨_, databaseResource_node d h⟩

/-! ### Non-vacuity -/

-- path tricks: different spellings, same node, hypotheses of `path_tricks_never_widen` met non-trivially
example : nodeOf "/a/b/../c//".toList = nodeOf "/a/./c".toList ∧ "/a/b/../c//".toList ≠ "/a/./c".toList ∧
    nodeOf "/a/b/../c//".toList = some ["a".toList, "c".toList] := by decide

-- `decision_within_bounds` / `served_only_if_authorised`: a well-formed table, a valid privilege
example : let acc : Account := { grants := [("/api/tasks".toList, [2, 4]), ("/api".toList, [16, 2])] }
    (∀ g ∈ acc.grants, g.2.all validPriv = true) ∧ validPriv 4 = true ∧
    mayAllow acc "/api/tasks/x".toList 4 = true ∧ mayAllow acc "/api/tasks/x".toList 8 = false ∧
    -- `all` listed together with another privilege grants everything (fix d662ebb)
    mayAllow acc "/api/other".toList 4 = true ∧ authorizeAction acc.user "/api/other".toList 4 = .allow := by decide

-- `newUser_order_independent`: two spellings of one node, both orders, same (united) decision
example : authorizeAction (newUser false [("/a".toList, [2]), ("/a/".toList, [4])]) "/a".toList 4 = .allow ∧
    authorizeAction (newUser false [("/a/".toList, [4]), ("/a".toList, [2])]) "/a".toList 2 = .allow := by decide

-- `unauthenticated_never_served` / `write_checks_database`: a request that IS served and one that writes
example :
    let alice : Account := { grants := [("/api".toList, [2, 4]), ("/database/db_clean".toList, [4])] }
    let cfg : Cfg := { requireAuth := true, svc := { users := [("alice".toList, "pw".toList, alice)] },
                       extra := [{ method := "GET".toList, pattern := "/kapacitor/v1/tasks".toList, kind := .recorder }] }
    let cred : ReqAuth := { header := .basic "alice".toList "pw".toList }
    (∀ r ∈ cfg.extra, r.kind = .recorder ∧ r.bypass = false) ∧
    (serveHTTP cfg 2 { method := "GET".toList, path := "/kapacitor/v1/tasks".toList, auth := cred }).served = true ∧
    (serveHTTP cfg 2 { method := "POST".toList, path := "/kapacitor/v1/write".toList, auth := cred, db := "db".toList }).wrote = true ∧
    (serveHTTP cfg 2 { method := "POST".toList, path := "/kapacitor/v1/write".toList, auth := cred, db := "other".toList }).status = 401 ∧
    (serveHTTP cfg 2 { method := "POST".toList, path := "/kapacitor/v1preview/write".toList, auth := cred, db := "db".toList }).wrote = true ∧
    (serveHTTP cfg 2 { method := "GET".toList, path := "/kapacitor/v1/tasks".toList }).status = 401 ∧
    -- the exempt pages: served without credentials only when pprof is exposed
    (serveHTTP cfg 2 { method := "GET".toList, path := "/kapacitor/v1/debug/vars".toList }).status = 401 ∧
    (serveHTTP { cfg with exposePprof := true } 2 { method := "GET".toList, path := "/kapacitor/v1/debug/vars".toList }).served = true ∧
    (serveHTTP { cfg with exposePprof := true } 2 { method := "GET".toList, path := "/kapacitor/v1/ping".toList }).status = 401 := by
  decide

-- `write_needs_database_grant_whatever_rp` / `write_decision_ignores_rp_and_params`: the three privilege tables that
-- make the difference (grant on another database; write on /api/write only; explicit none on the target below a
-- grant on /database), each asked with the rp values that would climb out of the database if rp were joined in
example :
    let bob : Account := { grants := [("/api/write".toList, [4]), ("/database/mine_clean".toList, [4])] }
    let erin : Account := { grants := [("/api/write".toList, [4])] }
    let carol : Account := { grants := [("/api".toList, [2, 4]), ("/database".toList, [4]), ("/database/secret_clean".toList, [1])] }
    let cfg : Cfg := { requireAuth := true, svc := { users := [("bob".toList, "pw".toList, bob), ("erin".toList, "pw".toList, erin),
                                                              ("carol".toList, "pw".toList, carol)] } }
    let post (n db rp : String) := serveHTTP cfg 2 { method := "POST".toList, path := "/kapacitor/v1/write".toList, auth := { header := .basic n.toList "pw".toList }, db := db.toList, rp := rp.toList, params := [("precision".toList, "s".toList)] }
    (∀ r ∈ cfg.extra, r.kind = .recorder ∧ r.bypass = false) ∧
    (post "bob" "mine" "autogen").wrote = true ∧ (post "bob" "mine" "../secret_clean").wrote = true ∧
    (post "bob" "secret" "").status = 401 ∧ (post "bob" "secret" "../mine_clean").status = 401 ∧
    (post "bob" "secret" "../../api/write").status = 401 ∧
    (post "erin" "secret" "../../api/write").status = 401 ∧ (post "erin" "secret" "..").status = 401 ∧
    (post "carol" "other" "..").wrote = true ∧ (post "carol" "secret" "..").status = 401 ∧ (post "carol" "secret" "../other_clean").status = 401 ∧
    writeTarget { method := [], path := [], db := "mine".toList, rp := "../secret_clean".toList } = ("mine".toList, "../secret_clean".toList) ∧
    -- `first_db_parameter_decides`: db=secret&rp=..&db=mine is a write to `secret`
    (({ method := [], path := [] } : Req).withQuery [("precision".toList, "s".toList), ("db".toList, "secret".toList), ("rp".toList, "..".toList),
        ("db".toList, "mine".toList)]).db = "secret".toList := by
  decide

-- `served_resource_below_api`: routes as AddRoute / AddPreviewRoute register them satisfy the hypothesis and ARE served
example :
    let alice : Account := { grants := [("/api".toList, [2, 4])] }
    let cfg : Cfg := { requireAuth := true, svc := { users := [("alice".toList, "pw".toList, alice)] },
                       extra := [{ method := "GET".toList, pattern := "/kapacitor/v1/tasks/".toList, kind := .recorder },
                                 { method := "GET".toList, pattern := "/kapacitor/v1".toList, kind := .recorder },
                                 { method := "GET".toList, pattern := "/kapacitor/v1preview/alerts".toList, kind := .recorder }] }
    let cred : ReqAuth := { header := .basic "alice".toList "pw".toList }
    (∀ r ∈ cfg.extra, r.kind = .recorder ∧ r.bypass = false ∧ viaAddRoute r.pattern = true) ∧
    addRoutePattern base "/tasks/".toList = some "/kapacitor/v1/tasks/".toList ∧ addRoutePattern base [] = some base ∧
    addRoutePattern preview "/alerts".toList = some "/kapacitor/v1preview/alerts".toList ∧
    (serveHTTP cfg 2 { method := "GET".toList, path := "/kapacitor/v1/tasks/x/y".toList, auth := cred }).served = true ∧
    (serveHTTP cfg 2 { method := "GET".toList, path := "/kapacitor/v1".toList, auth := cred }).served = true ∧
    (serveHTTP cfg 2 { method := "GET".toList, path := "/kapacitor/v1preview/alerts".toList, auth := cred }).served = true ∧
    -- the escaping URLs are mux-clean (hypothesis of `resource_escapes_only_behind_v1_dotdot`) and get the 404
    muxCleanPath "/kapacitor/v1../database/x".toList = "/kapacitor/v1../database/x".toList ∧
    apiResource (trimPrefix "/kapacitor/v1../database/x".toList Gen.basePath) = "/database/x".toList ∧
    (serveHTTP cfg 2 { method := "GET".toList, path := "/kapacitor/v1../database/x".toList, auth := cred }).status = 403 ∧
    (serveHTTP { cfg with requireAuth := false } 2 { method := "GET".toList, path := "/kapacitor/v1../database/x".toList }).status = 404 := by
  decide

-- `encoded_traversal_never_served`: what the encoded spellings decode to, and what happens to them
example :
    let alice : Account := { grants := [("/api".toList, [2, 4]), ("/database".toList, [4])] }
    let cfg : Cfg := { requireAuth := true, svc := { users := [("alice".toList, "pw".toList, alice)] },
                       extra := [{ method := "GET".toList, pattern := "/kapacitor/v1/tasks/".toList, kind := .recorder }] }
    let cred : ReqAuth := { header := .basic "alice".toList "pw".toList }
    let get (t : String) := (serveRaw cfg 2 { method := "GET".toList, target := t.toList, auth := cred }).map (·.status)
    parseTarget "/kapacitor/v1/tasks%2F..%2F..%2Fwrite".toList = some "/kapacitor/v1/tasks/../../write".toList ∧
    get "/kapacitor/v1/tasks%2F..%2F..%2Fwrite" = some 301 ∧          -- decoded, then redirected by the mux
    get "/kapacitor/v1/tasks/%2e%2e/%2E%2E/write" = some 301 ∧
    get "/kapacitor/v1/tasks/x%2Fy" = some 200 ∧                      -- an encoded slash IS a slash (served as /tasks/x/y)
    parseTarget "/kapacitor/v1/tasks/%252e%252e/x".toList = some "/kapacitor/v1/tasks/%2e%2e/x".toList ∧
    get "/kapacitor/v1/tasks/%252e%252e/x" = some 200 ∧               -- decoded ONCE: "%2e%2e" is then an ordinary name
    get "/kapacitor/v1%2e%2e/database/x" = some 403 ∧                 -- the escaping URL: refused (no grant on /database/x) …
    get "/kapacitor/v1/tasks/%zz" = none ∧ get "/kapacitor/v1/tasks/%2" = none ∧ get "kapacitor" = none ∧
    (serveRaw cfg 2 { method := "GET".toList, target := "/kapacitor/v1/tasks/x%2Fy".toList, auth := cred }).map (·.served) = some true := by
  decide

/-! ### the handler that RUNS is the one whose privilege was checked (routing method = authorised method) -/

/-- **The served handler's method is the authorised method**, for every configuration, request, set of headers and
depth of preview re-entry: when the chain (mux chosen by the wire method, `ranRoute wireMethod`) lets the handler of
route `r` run, `r` is registered for the method on the wire, and some request `q` of the re-entry chain — same method,
same credentials — passed `authenticate` for this very route and `authorizeRequest` for `r`'s OWN method on `q`'s
path, which `r`'s pattern covers. -/
theorem handler_that_runs_is_the_authorised_one (cfg : Cfg) (hdrs : Headers) (fuel : Nat) (req : Req) (r : Route)
    (h : ranRoute wireMethod cfg hdrs fuel req = some r) :
    r.method = req.method ∧
    ∃ (q : Req) (u : Account) (w : Bool), q.method = req.method ∧ q.auth = req.auth ∧
      authenticate (routeRequiresAuth cfg r) cfg.svc q.auth = .inner u w ∧
      authorizeRequest r.method q.path u = true ∧ pathMatch r.pattern q.path = true :=
  ranRoute_wire_sound cfg hdrs fuel req r h

example :
    (ranRoute wireMethod
      { requireAuth := false, extra := [{ method := "GET".toList, pattern := "/kapacitor/v1/tasks".toList, kind := .recorder }] }
      [] 2 { method := "GET".toList, path := "/kapacitor/v1/tasks".toList }).isSome = true := by decide

/-- **No header chooses the handler**: which route runs is the same for every two sets of request headers. -/
theorem headers_never_choose_the_handler (cfg : Cfg) (h₁ h₂ : Headers) (fuel : Nat) (req : Req) :
    ranRoute wireMethod cfg h₁ fuel req = ranRoute wireMethod cfg h₂ fuel req := by
  induction fuel generalizing req with
  | zero => rfl
  | succ n ih =>
    have : ranRoute wireMethod cfg h₁ n = ranRoute wireMethod cfg h₂ n := funext ih
    show ranLevel wireMethod cfg (ranRoute wireMethod cfg h₁ n) h₁ req = ranLevel wireMethod cfg (ranRoute wireMethod cfg h₂ n) h₂ req
    rw [this]
    rfl

/-- **Counterexample for a header-derived routing method** (the regression the `httph` cases and the extractor fact
`Gen.serveHTTPMethodSources` guard against): with the mux chosen by `X-HTTP-Method-Override` while authorisation reads
the wire method, a user holding read+write but NOT delete on /api runs the DELETE handler with a POST — and would be
refused the very same handler when asking for it with DELETE on the wire. -/
theorem method_override_would_run_unchecked_handler :
    let writer : Account := { grants := [("/api".toList, [2, 4])] }
    let cfg : Cfg := { requireAuth := true, svc := { users := [("w".toList, "pw".toList, writer)] },
                       extra := [{ method := "POST".toList, pattern := "/kapacitor/v1/tasks/".toList, kind := .recorder },
                                 { method := "DELETE".toList, pattern := "/kapacitor/v1/tasks/".toList, kind := .recorder }] }
    let cred : ReqAuth := { header := .basic "w".toList "pw".toList }
    let hdrs : Headers := [("X-HTTP-Method-Override".toList, "delete".toList)]
    let post : Req := { method := "POST".toList, path := "/kapacitor/v1/tasks/x".toList, auth := cred }
    (ranRoute overrideMethod cfg hdrs 2 post).map (·.method) = some "DELETE".toList ∧
    authorizeRequest "DELETE".toList post.path writer = false ∧
    Spec.ranOK true false cfg.svc post "DELETE".toList "/kapacitor/v1/tasks/".toList = false ∧
    ranRoute wireMethod cfg hdrs 2 { post with method := "DELETE".toList } = none ∧
    (ranRoute wireMethod cfg hdrs 2 post).map (·.method) = some "POST".toList ∧
    Spec.ranOK true false cfg.svc post "POST".toList "/kapacitor/v1/tasks/".toList = true := by
  decide

/-- The source routes on the wire method: `Handler.ServeHTTP` (re-read by the extractor on every run, fail closed)
indexes `h.methodMux` by a variable whose only sources are `r.Method` and the literal "GET" (for an empty method),
and uses the request for nothing but `r.Method` and handing it on. -/
theorem gen_routes_on_wire_method :
    Gen.serveHTTPMethodSources = ["r.Method", "\"GET\""] ∧ Gen.serveHTTPRequestUses = ["r.Method", "r"] := by
  decide

-- `database_resource_injective_partial`: its hypothesis holds for ordinary names
example : ¬ ('/' ∈ "telegraf".toList ∧ '/' ∈ "a/b".toList) := by decide
example : Dev_db_collision "a/b_".toList "a_b/".toList = true ∧ Dev_db_collision "a/b".toList "a_b".toList = false := by decide

end Kap.Props.C20
