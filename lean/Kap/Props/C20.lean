/-
C20 — property theorems (every `theorem` here is a proof obligation, axiom-audited by `bin/check C20`).
Helper lemmas: Kap/Proofs/C20*.lean. Model: Kap/Model/C20.lean (transcription of auth/auth.go and
services/httpd/handler.go, tables regenerated from the source into Kap/Gen/C20.lean). Spec: Kap/Spec/C20.lean.

Statement (properties.jsonl): with authentication enabled, a request is served only with valid credentials,
and a non-admin user may perform it only if the privilege required by the HTTP method is granted on the
closest ancestor-or-self of the normalised resource path that carries a grant; path tricks ('..', duplicate or
trailing slashes) never widen access, writes are additionally checked against the target database, and
distinct database names never map to the same resource.

All theorems quantify over ALL strings, tables, accounts, requests (no size bound). The last clause is FALSE of
the code (finding `db-collision`): the full statement is `database_resource_injective_stmt`, its negation is
proved (`database_resource_not_injective`), the collisions are characterised exactly
(`database_resource_collisions_exactly`) and injectivity is proved where it holds
(`database_resource_injective_partial`).
-/
import Kap.Proofs.C20Bounds
namespace Kap.Props.C20
open Kap.C20 Kap.C20.Spec

/-! ### The regenerated tables say what the statement says -/

def caseKnown : Gen.MethodCase → Bool
  | .priv _ _ => true
  | .unknown _ => false

/-- The translator recognised every shape it looked at in auth.go / handler.go (it fails closed: an
unrecognised shape lands in `Gen.problems` or as an `unknown` case and this theorem stops checking). -/
theorem gen_recognised :
    Gen.problems = [] ∧ Gen.earlyAllowShape = .noPrivilegesOrAdmin ∧ Gen.authorizedShape = .andNonZeroOrEqAll ∧
    Gen.dbReplaceOld = ['/'] ∧ Gen.dbReplaceNew = ['_'] ∧ Gen.methodCases.all caseKnown = true ∧
    Gen.authMethods.length = 3 := by
  decide

/-- The privilege constants, resource roots and the method → privilege switch of the SOURCE are the ones the
statement talks about: HEAD/OPTIONS need nothing, GET read, POST/PATCH/PUT write, DELETE delete, any other
method is refused. -/
theorem gen_matches_statement :
    (noPriv, readPriv, writePriv, deletePriv, allPriv) = (pNone, pRead, pWrite, pDelete, pAll) ∧
    Gen.apiRootResource = "/api".toList ∧ Gen.databaseRootResource = "/database".toList ∧
    Gen.basePath = "/kapacitor/v1".toList ∧ Gen.subscriptionUser = subscriber ∧
    allowedMethods.all tableOK = true ∧
    requiredPrivilege "TRACE".toList = .unknownMethod ∧ requiredFor "TRACE".toList = none ∧
    requiredPrivilege "get".toList = .priv readPriv := by
  decide

/-! ### Path normalisation -/

/-- `path.Clean` (as modelled) is idempotent — for every string, rooted or not. -/
theorem clean_idempotent (p : Path) : clean (clean p) = clean p := clean_idempotent' p

/-- The cleaned form of a rooted path is THE canonical spelling of the node it denotes: "/" followed by the
node's names joined with single slashes, every name non-empty, not ".", not "..", without '/'. -/
theorem clean_is_canonical (p : Path) (n : Node) (h : nodeOf p = some n) :
    clean p = '/' :: join n ∧ ∀ s ∈ n, s ≠ [] ∧ s ≠ ['.'] ∧ s ≠ ['.', '.'] ∧ '/' ∉ s := by
  obtain ⟨hn, hc⟩ := nodeOf_normal p n h
  exact ⟨hc, fun s hs => ⟨(hn s hs).1.1, (hn s hs).1.2.1, (hn s hs).1.2.2, (hn s hs).2⟩⟩

/-- The code's left-to-right stack machine computes the node the statement's right-to-left reading defines
(two different algorithms agree on every element list). -/
theorem clean_computes_node (segs : List Seg) : cleanSegs true segs = (resolveRev 0 segs.reverse).reverse :=
  cleanSegs_eq_resolve segs

/-- A relative path stays relative, a rooted one rooted (so a relative grant can never match a request). -/
theorem clean_preserves_rootedness (p : Path) : isAbs (clean p) = isAbs p := isAbs_clean p

/-- `path.Dir` of a canonical path drops exactly its last name (the step of the loop). -/
theorem dir_drops_last (init : List Seg) (last : Seg) (h : NormalSegs (init ++ [last])) :
    dir ('/' :: join (init ++ [last])) = '/' :: join init := dir_canonical init last h

/-! ### The decision -/

/-- **decision_on_clean_path**: for EVERY user table (also one not built by `NewUser`), resource and
privilege, the decision is the decision on the cleaned resource. -/
theorem decision_on_clean_path (u : User) (resource : Path) (want : Nat) :
    authorizeAction u resource want = authorizeAction u (clean resource) want := by
  unfold authorizeAction
  rw [isAbs_clean, clean_idempotent']

/-- **Path tricks never widen (or narrow) access**: two spellings of the same node — extra or trailing slashes,
"." elements, "x/.." detours, ".." above the root — get the same decision from every user table. -/
theorem path_tricks_never_widen (u : User) (p q : Path) (want : Nat) (h : nodeOf p = nodeOf q) :
    authorizeAction u p want = authorizeAction u q want := by
  cases hp : nodeOf p with
  | none =>
    have hq : nodeOf q = none := by rw [← h, hp]
    have ap : isAbs p = false := by
      cases e : isAbs p with
      | false => rfl
      | true => obtain ⟨cs, rfl⟩ := (isAbs_iff p).mp e; rw [nodeOf_abs] at hp; cases hp
    have aq : isAbs q = false := by
      cases e : isAbs q with
      | false => rfl
      | true => obtain ⟨cs, rfl⟩ := (isAbs_iff q).mp e; rw [nodeOf_abs] at hq; cases hq
    unfold authorizeAction
    simp [ap, aq]
  | some n =>
    have hq : nodeOf q = some n := by rw [← h, hp]
    rw [decision_on_clean_path u p, decision_on_clean_path u q, (nodeOf_normal p n hp).2, (nodeOf_normal q n hq).2]

/-- **nearest_grant_only**: for every account (admin flag + the grant list handed to `NewUser`), resource and
privilege, `AuthorizeAction` answers exactly: allow for `NoPrivileges`/admin; "invalid" for a resource that is
not rooted; otherwise the mask test on the grant of the NEAREST ancestor-or-self that carries one — and
nothing else in the table matters; deny when no ancestor carries a grant. -/
theorem nearest_grant_only (a : Account) (resource : Path) (want : Nat) :
    authorizeAction a.user resource want =
      if want = noPriv ∨ a.admin = true then .allow
      else match nodeOf resource with
        | none => .invalid
        | some n =>
          match nearestGrant a.grants n with
          | some (_, ps) => if authorized (orMask ps) want then .allow else .deny
          | none => .deny :=
  authorizeAction_eq_nearest a resource want

/-- **The statement's bounds**: allowed ⇒ the wanted privilege (or `all`) is listed on the nearest granted
ancestor ("only if"), and listed there (or the list is just `all`) ⇒ allowed. Tables and the wanted privilege
range over the five declared privileges. -/
theorem decision_within_bounds (a : Account) (resource : Path) (want : Nat)
    (hv : ∀ g ∈ a.grants, g.2.all validPriv = true) (hw : validPriv want = true) :
    (authorizeAction a.user resource want = .allow → mayAllow a resource want = true) ∧
    (mustAllow a resource want = true → authorizeAction a.user resource want = .allow) :=
  ⟨allow_mayAllow a resource want hv hw, mustAllow_allow a resource want hw⟩

/-- The spec oracle the driver evaluates on the implementation's answers accepts the model's answer. -/
theorem model_passes_oracle (a : Account) (resource : Path) (want : Nat)
    (hv : ∀ g ∈ a.grants, g.2.all validPriv = true) (hw : validPriv want = true) :
    judgeDecision a resource want (authorizeAction a.user resource want == .allow) = none := by
  have hb := decision_within_bounds a resource want hv hw
  unfold judgeDecision
  cases hd : (authorizeAction a.user resource want == Decision.allow) with
  | true =>
    have : authorizeAction a.user resource want = .allow := by simpa using hd
    simp [hb.1 this]
  | false =>
    have hne : authorizeAction a.user resource want ≠ .allow := by simpa using hd
    have : mustAllow a resource want = false := by
      cases hm : mustAllow a resource want with
      | false => rfl
      | true => exact absurd (hb.2 hm) hne
    simp [this]

/-- **A nearer grant wins over a farther one**: when the node itself carries a grant, that grant alone decides,
whatever its ancestors carry. -/
theorem nearer_grant_wins (a : Account) (resource : Path) (n : Node) (ps : List Nat) (want : Nat)
    (hn : nodeOf resource = some n) (hg : grantAt a.grants n = some ps)
    (h0 : ¬ (want = noPriv ∨ a.admin = true)) :
    authorizeAction a.user resource want = if authorized (orMask ps) want then .allow else .deny := by
  rw [nearest_grant_only, if_neg h0, hn]
  have : nearestGrant a.grants n = some (n, ps) := by
    unfold nearestGrant ancestors
    rw [List.range_succ]
    simp [hg]
  simp only [this]

/-- … concretely: `all` on /a does not help below /a/b when /a/b carries only `read` (and `read` on a nearer
node is enough although the farther one grants nothing useful). -/
theorem nearer_grant_wins_example :
    let acc : Account := { grants := [("/a".toList, [16]), ("/a/b".toList, [2]), ("/".toList, [8])] }
    authorizeAction acc.user "/a/b/c".toList 4 = .deny ∧ authorizeAction acc.user "/a/x".toList 4 = .allow ∧
    authorizeAction acc.user "/a/b/../b//c/.".toList 2 = .allow ∧ authorizeAction acc.user "/a/b/../../c".toList 4 = .deny ∧
    authorizeAction acc.user "/a/bc".toList 4 = .allow ∧ authorizeAction acc.user "/a/b/../../c".toList 8 = .allow := by
  decide

/-- **Admin / NoPrivileges / relative resources.** -/
theorem admin_and_noprivilege_cases (u : User) (resource : Path) (want : Nat) :
    (want = noPriv → authorizeAction u resource want = .allow) ∧
    (u.admin = true → authorizeAction u resource want = .allow) ∧
    (want ≠ noPriv → u.admin = false → isAbs resource = false → authorizeAction u resource want = .invalid) ∧
    (want ≠ noPriv → u.admin = false → u.privs = [] → isAbs resource = true → authorizeAction u resource want = .deny) := by
  unfold authorizeAction
  refine ⟨fun h => by simp [h], fun h => by simp [h], fun h1 h2 h3 => by simp [h1, h2, h3], fun h1 h2 h3 h4 => by simp [h1, h2, h3, h4]⟩

/-- The unbounded `for` loop of `AuthorizeAction` always ends (the model's fuel is never exhausted). -/
theorem authorize_never_diverges (a : Account) (resource : Path) (want : Nat) :
    authorizeAction a.user resource want ≠ .diverge := by
  rw [nearest_grant_only]
  repeat' split
  all_goals simp

/-! ### HTTP -/

/-- `parseCredentials` only produces the three declared authentication methods, so the `default:` clause of
`authenticate` (which writes a 401 but does NOT return) cannot be reached. -/
theorem default_clause_unreachable (a : ReqAuth) (c : Creds) (h : parseCredentials a = some c) : c.method ≠ .other :=
  parseCredentials_method a c h

/-- … which matters: whether the clause leaves the function is read from the source on every run
(`Gen.authDefaultReturns`, today `false`). Without the `return`, reaching the clause would run the inner handler
as the zero user after the 401 was written — and a HEAD request needs no privilege. Latent, not a violation
(the statement holds either way; this theorem is stated so that it survives the repair). -/
theorem default_clause_behaviour :
    authenticateCreds {} { method := .other } = (if Gen.authDefaultReturns then .rejected else .inner {} true) ∧
    authorizeRequest "HEAD".toList "/kapacitor/v1/ping".toList {} = true := by
  decide

/-- **unauthenticated_never_served**: with authentication enabled, whenever a route handler ran or points were
written, the request presented valid credentials (password, bearer token or subscription token) for an account
of the auth service, and the URL path was not a path trick (the mux redirects those). Any route table whose
extra routes are ordinary handlers; any fuel. -/
theorem unauthenticated_never_served (cfg : Cfg) (hauth : cfg.requireAuth = true)
    (hextra : ∀ r ∈ cfg.extra, r.kind = .recorder) (fuel : Nat) (req : Req)
    (h : (serveHTTP cfg fuel req).served = true ∨ (serveHTTP cfg fuel req).wrote = true) :
    validAccounts cfg.svc req.auth ≠ [] ∧ muxCleanPath req.path = req.path := by
  obtain ⟨hcp, _, acc, w, hau, _, _⟩ := serveHTTP_sound cfg hextra fuel req _ rfl h
  rw [hauth] at hau
  have := (authenticate_valid cfg.svc req.auth acc w hau).2
  refine ⟨?_, hcp⟩
  intro e
  rw [e] at this
  cases this

/-- **served ⇒ authorised**: … and that account may perform the method on the API resource of the URL path
according to the statement (`Spec.servedOK`, the very oracle the driver evaluates on the real handler). -/
theorem served_only_if_authorised (cfg : Cfg) (hextra : ∀ r ∈ cfg.extra, r.kind = .recorder) (req : Req)
    (hv : ∀ acc ∈ validAccounts cfg.svc req.auth, ∀ g ∈ acc.grants, g.2.all validPriv = true)
    (fuel : Nat)
    (h : (serveHTTP cfg fuel req).served = true ∨ (serveHTTP cfg fuel req).wrote = true) :
    servedOK cfg.requireAuth cfg.svc req = true := by
  obtain ⟨_, hm, acc, w, hau, haz, _⟩ := serveHTTP_sound cfg hextra fuel req _ rfl h
  unfold servedOK
  cases hra : cfg.requireAuth with
  | false => simp
  | true =>
    rw [hra] at hau
    have hmem := (authenticate_valid cfg.svc req.auth acc w hau).2
    simp only [Bool.not_true, Bool.false_or]
    unfold authorizeRequest at haz
    cases hr : requiredPrivilege req.method with
    | priv p =>
      rw [hr] at haz
      simp only [decide_eq_true_eq] at haz
      obtain ⟨p', hp1, hp2, hp3⟩ := requiredPrivilege_spec req.method hm
      rw [hr] at hp1; injection hp1 with hp1; subst hp1
      rw [hp2]
      simp only [List.any_eq_true]
      refine ⟨acc, hmem, ?_⟩
      rw [← mayAllow_congr acc _ _ p (apiResource_node req.path)]
      exact allow_mayAllow acc _ p (hv acc hmem) hp3 haz
    | unknownMethod => rw [hr] at haz; cases haz
    | unrecognised => rw [hr] at haz; cases haz

/-- **write_checks_database**: points are written only if the same valid account holds `write` on the API
resource of the URL path AND on the resource of the target database (`Spec.wroteOK`). -/
theorem write_checks_database (cfg : Cfg) (hextra : ∀ r ∈ cfg.extra, r.kind = .recorder) (req : Req)
    (hv : ∀ acc ∈ validAccounts cfg.svc req.auth, ∀ g ∈ acc.grants, g.2.all validPriv = true)
    (fuel : Nat) (h : (serveHTTP cfg fuel req).wrote = true) :
    wroteOK databaseResource cfg.requireAuth cfg.svc req = true := by
  obtain ⟨_, _, acc, w, hau, haz, hw⟩ := serveHTTP_sound cfg hextra fuel req _ rfl (Or.inr h)
  obtain ⟨hpost, hdb⟩ := hw h
  unfold wroteOK
  cases hra : cfg.requireAuth with
  | false => simp
  | true =>
    rw [hra] at hau
    have hmem := (authenticate_valid cfg.svc req.auth acc w hau).2
    simp only [Bool.not_true, Bool.false_or, List.any_eq_true, Bool.and_eq_true]
    refine ⟨acc, hmem, ?_, ?_⟩
    · unfold authorizeRequest at haz
      rw [hpost] at haz
      have : requiredPrivilege "POST".toList = .priv 4 := by decide
      rw [this] at haz
      simp only [decide_eq_true_eq] at haz
      rw [← mayAllow_congr acc _ _ pWrite (apiResource_node req.path)]
      exact allow_mayAllow acc _ 4 (hv acc hmem) (by decide) haz
    · exact allow_mayAllow acc _ 4 (hv acc hmem) (by decide) hdb

/-! ### Database resources -/

/-- FULL statement of the last clause (stated, not provable: it is false of the code). -/
def database_resource_injective_stmt : Prop := DbInjective databaseResource

/-- Counterexample (finding `db-collision`, replayed on the real code by corpus/C20/finding-db-collision.ops). -/
theorem database_resource_not_injective : ¬ DbInjective databaseResource := by
  intro h
  have := h "a/b_".toList "a_b/".toList (by decide)
  revert this; decide

/-- **The collisions are exactly the recorded deviation**: two names map to the same resource iff they are
equal or satisfy `Dev_db_collision` (both contain '/', and they agree after '/' ↦ '_'). Nothing else collides
— in particular "" (the root), names without '/', and a clean name against a dirty one never do. -/
theorem database_resource_collisions_exactly (a b : List Char) :
    databaseResource a = databaseResource b ↔ a = b ∨ Dev_db_collision a b = true :=
  databaseResource_eq_iff a b

/-- `database_resource_injective_partial`: injective on every pair in which at least one name has no '/'.
Missing for the full statement: pairs of names that both contain '/' (where it is false). -/
theorem database_resource_injective_partial (a b : List Char) (hex : ¬ ('/' ∈ a ∧ '/' ∈ b))
    (h : databaseResource a = databaseResource b) : a = b := by
  rcases (databaseResource_eq_iff a b).mp h with h | h
  · exact h
  · rw [dev_iff] at h
    exact absurd ⟨h.2.1, h.2.2.1⟩ hex

/-- A database is exactly ONE element below "/database", whatever its name contains ('/', "..", …): a
database grant can never reach another subtree. -/
theorem database_resource_single_element (d : List Char) (h : d ≠ []) :
    ∃ elem, nodeOf (databaseResource d) = some ["database".toList, elem] :=
  ⟨_, databaseResource_node d h⟩

/-! ### Non-vacuity -/

-- path tricks: different spellings, same node, hypotheses of `path_tricks_never_widen` met non-trivially
example : nodeOf "/a/b/../c//".toList = nodeOf "/a/./c".toList ∧ "/a/b/../c//".toList ≠ "/a/./c".toList ∧
    nodeOf "/a/b/../c//".toList = some ["a".toList, "c".toList] := by decide

-- `decision_within_bounds` / `served_only_if_authorised`: a well-formed table, a valid privilege
example : let acc : Account := { grants := [("/api/tasks".toList, [2, 4]), ("/api".toList, [16, 2])] }
    (∀ g ∈ acc.grants, g.2.all validPriv = true) ∧ validPriv 4 = true ∧
    mustAllow acc "/api/tasks/x".toList 4 = true ∧ mayAllow acc "/api/tasks/x".toList 8 = false ∧
    -- the gap between the bounds: `all` listed together with another privilege
    mayAllow acc "/api/other".toList 4 = true ∧ mustAllow acc "/api/other".toList 4 = false ∧
    authorizeAction acc.user "/api/other".toList 4 = .deny := by decide

-- `unauthenticated_never_served` / `write_checks_database`: a request that IS served and one that writes
example :
    let alice : Account := { grants := [("/api".toList, [2, 4]), ("/database/db_clean".toList, [4])] }
    let cfg : Cfg := { requireAuth := true, svc := { users := [("alice".toList, "pw".toList, alice)] },
                       extra := [⟨"GET".toList, "/kapacitor/v1/tasks".toList, .recorder⟩] }
    let cred : ReqAuth := { header := .basic "alice".toList "pw".toList }
    (∀ r ∈ cfg.extra, r.kind = .recorder) ∧
    (serveHTTP cfg 2 { method := "GET".toList, path := "/kapacitor/v1/tasks".toList, auth := cred }).served = true ∧
    (serveHTTP cfg 2 { method := "POST".toList, path := "/kapacitor/v1/write".toList, auth := cred, db := "db".toList }).wrote = true ∧
    (serveHTTP cfg 2 { method := "POST".toList, path := "/kapacitor/v1/write".toList, auth := cred, db := "other".toList }).status = 401 ∧
    (serveHTTP cfg 2 { method := "POST".toList, path := "/kapacitor/v1preview/write".toList, auth := cred, db := "db".toList }).wrote = true ∧
    (serveHTTP cfg 2 { method := "GET".toList, path := "/kapacitor/v1/tasks".toList }).status = 401 := by
  decide

-- `database_resource_injective_partial`: its hypothesis holds for ordinary names
example : ¬ ('/' ∈ "telegraf".toList ∧ '/' ∈ "a/b".toList) := by decide
example : Dev_db_collision "a/b_".toList "a_b/".toList = true ∧ Dev_db_collision "a/b".toList "a_b".toList = false := by decide

end Kap.Props.C20
