/-
C20 — property theorems (every `theorem` here is a proof obligation, axiom-audited by `bin/check C20`).
Helper lemmas: Kap/Proofs/C20*.lean.
-/
import Kap.Spec.C20
namespace Kap.Props.C20
open Kap.C20

/-! ### The regenerated tables say what the statement says -/

def caseKnown : Gen.MethodCase → Bool
  | .priv _ _ => true
  | .unknown _ => false

/-- The translator recognised every shape it looked at in auth.go / handler.go (fails closed otherwise). -/
theorem gen_recognised :
    Gen.problems = [] ∧ Gen.earlyAllowShape = .noPrivilegesOrAdmin ∧ Gen.authorizedShape = .andNonZeroOrEqAll ∧
    Gen.dbReplaceOld = ['/'] ∧ Gen.dbReplaceNew = ['_'] ∧
    Gen.methodCases.all caseKnown = true := by
  decide

end Kap.Props.C20
