/-
C20 — property theorems at the BYTE level (second props module of C20; every `theorem` here is a proof obligation).

Go strings are byte strings; a resource or URL path need not be valid UTF-8. `Kap/Model/C20Bytes.lean` repeats the
path / authorisation model over an arbitrary character type (`G.*`) and instantiates it at bytes (`B.*`, '/' = 47,
'.' = 46, '_' = 95). Here:

* `generic_model_is_char_model`: over ANY character type `α` and ANY injective `f : α → Char` that keeps '/' and
  '.', every function of the generic model commutes with `f` — the `List Char` model of `Kap/Model/C20.lean` is the
  image of the generic one, so nothing in the theorems of `Kap.Props.C20` depends on what a "character" is;
* `byte_model_is_char_model`: the instance for bytes and the Latin-1 reading `B.emb` (byte b ↦ the character
  with code b): what the code does on ANY byte string is what the `List Char` model does on its Latin-1 reading.
  The driver decodes every string of the harness this way and additionally runs `B.*` on the raw bytes;
* the key theorems restated on bytes (`*_bytes`), and generically (`clean_idempotent_generic`,
  `decision_on_clean_path_generic`).
-/
import Kap.Proofs.C20Bytes
import Kap.Proofs.C20Api
namespace Kap.Props.C20Bytes
open Kap.C20 Kap.C20.Spec

/-- **The model does not depend on the character type**: for every alphabet `α` (decidable equality), characters
`sl`, `dt` and injective `f : α → Char` with `f sl = '/'`, `f dt = '.'`, the generic `Clean`, `Dir`, `IsAbs`, `Join`,
mux `cleanPath`, `TrimPrefix`, `NewUser` and `AuthorizeAction` commute with `f`. -/
theorem generic_model_is_char_model {α : Type} [DecidableEq α] (sl dt : α) (f : α → Char) (E : G.Emb sl dt f) :
    (∀ p, (G.clean sl dt p).map f = clean (p.map f)) ∧
    (∀ p, (G.dir sl dt p).map f = dir (p.map f)) ∧
    (∀ p, G.isAbs sl p = isAbs (p.map f)) ∧
    (∀ a b, (G.pathJoin2 sl dt a b).map f = pathJoin2 (a.map f) (b.map f)) ∧
    (∀ p, (G.muxCleanPath sl dt p).map f = muxCleanPath (p.map f)) ∧
    (∀ s pre, (G.trimPrefix s pre).map f = trimPrefix (s.map f) (pre.map f)) ∧
    (∀ adm g, G.umap f (G.newUser sl dt adm g) = newUser adm (G.gmap f g)) ∧
    (∀ u r w, G.authorizeAction sl dt u r w = authorizeAction (G.umap f u) (r.map f) w) :=
  ⟨G.map_clean E, G.map_dir E, fun p => (G.map_isAbs E p).symm, G.map_pathJoin2 E, G.map_muxCleanPath E,
   G.map_trimPrefix E, G.map_newUser E, fun u r w => (G.map_authorizeAction E u r w).symm⟩

/-- Latin-1 (`B.emb`) is such an embedding of bytes, and it is injective on strings: distinct byte strings stay
distinct (nothing is merged, unlike a lossy UTF-8 decoding with replacement characters). -/
theorem latin1_embedding : G.Emb B.sl B.dt B.emb ∧ (∀ p q : B.Bytes, B.embL p = B.embL q ↔ p = q) ∧
    B.emb 47 = '/' ∧ B.emb 46 = '.' ∧ B.emb 95 = '_' :=
  ⟨B.latin1, B.embL_inj, by decide, by decide, by decide⟩

/-- **The byte model is the `List Char` model read through Latin-1**, function by function — including
`APIResource`, `DatabaseResource` (whose constants are ASCII) and the decision of a user built by `NewUser`. -/
theorem byte_model_is_char_model :
    (∀ p, B.embL (B.clean p) = clean (B.embL p)) ∧
    (∀ p, B.embL (B.dir p) = dir (B.embL p)) ∧
    (∀ p, B.isAbs p = isAbs (B.embL p)) ∧
    (∀ p, B.embL (B.apiResource p) = apiResource (B.embL p)) ∧
    (∀ d, B.embL (B.databaseResource d) = databaseResource (B.embL d)) ∧
    (∀ p, B.embL (B.muxCleanPath p) = muxCleanPath (B.embL p)) ∧
    (∀ p, B.embL (B.trimBase p) = trimPrefix (B.embL p) Gen.basePath) ∧
    (∀ u r w, B.authorizeAction u r w = authorizeAction (G.umap B.emb u) (B.embL r) w) ∧
    (∀ adm g r w, B.authorizeAction (B.newUser adm g) r w =
        authorizeAction ({ admin := adm, grants := G.gmap B.emb g } : Account).user (B.embL r) w) := by
  have E := B.latin1
  obtain ⟨c1, c2, c3, c4, c5, c6⟩ := B.consts_ascii
  refine ⟨G.map_clean E, G.map_dir E, fun p => (G.map_isAbs E p).symm, G.map_apiResource E _ c1,
    G.map_databaseResource E B.us c6 _ _ _ c2 c3 c4, G.map_muxCleanPath E, ?_,
    fun u r w => (G.map_authorizeAction E u r w).symm, ?_⟩
  · intro p
    have := G.map_trimPrefix E p (B.ofAscii Gen.basePath)
    rw [show List.map B.emb (B.ofAscii Gen.basePath) = Gen.basePath from c5] at this
    exact this
  · intro adm g r w
    unfold B.authorizeAction B.newUser
    rw [← G.map_authorizeAction E, G.map_newUser E]
    rfl

/-! ### key theorems, generically and on bytes -/

/-- `path.Clean` is idempotent over every character type that embeds into `Char` keeping '/' and '.'. -/
theorem clean_idempotent_generic {α : Type} [DecidableEq α] (sl dt : α) (f : α → Char) (E : G.Emb sl dt f)
    (p : List α) : G.clean sl dt (G.clean sl dt p) = G.clean sl dt p := by
  apply (E.map_inj _ _).mp
  rw [G.map_clean E, G.map_clean E, clean_idempotent']

/-- The decision is the decision on the cleaned resource — for every user table over every such character type. -/
theorem decision_on_clean_path_generic {α : Type} [DecidableEq α] (sl dt : α) (f : α → Char) (E : G.Emb sl dt f)
    (u : G.User α) (r : List α) (want : Nat) :
    G.authorizeAction sl dt u r want = G.authorizeAction sl dt u (G.clean sl dt r) want := by
  rw [← G.map_authorizeAction E, ← G.map_authorizeAction E, G.map_clean E]
  unfold authorizeAction
  rw [isAbs_clean, clean_idempotent']

/-- `path.Clean` on byte strings (valid UTF-8 or not) is idempotent. -/
theorem clean_idempotent_bytes (p : B.Bytes) : B.clean (B.clean p) = B.clean p :=
  clean_idempotent_generic B.sl B.dt B.emb B.latin1 p

/-- … keeps rootedness, and its result on a rooted byte string is the canonical spelling of the denoted node. -/
theorem clean_canonical_bytes (p : B.Bytes) (n : Node) (h : nodeOf (B.embL p) = some n) :
    B.isAbs (B.clean p) = B.isAbs p ∧ B.embL (B.clean p) = '/' :: join n := by
  obtain ⟨h1, _, h3, _⟩ := byte_model_is_char_model
  rw [h3, h3, h1, isAbs_clean]
  exact ⟨rfl, (nodeOf_normal _ n h).2⟩

theorem decision_on_clean_path_bytes (u : G.User UInt8) (r : B.Bytes) (want : Nat) :
    B.authorizeAction u r want = B.authorizeAction u (B.clean r) want :=
  decision_on_clean_path_generic B.sl B.dt B.emb B.latin1 u r want

/-- **Path tricks never widen access, on byte strings**: two byte spellings of the same node get the same decision
from every user table. -/
theorem path_tricks_never_widen_bytes (u : G.User UInt8) (p q : B.Bytes) (want : Nat)
    (h : nodeOf (B.embL p) = nodeOf (B.embL q)) : B.authorizeAction u p want = B.authorizeAction u q want := by
  have hb := byte_model_is_char_model.2.2.2.2.2.2.2.1
  rw [hb, hb]
  -- the `List Char` theorem, for every table
  cases hp : nodeOf (B.embL p) with
  | none =>
    have hq : nodeOf (B.embL q) = none := by rw [← h, hp]
    have abs : ∀ x : Path, nodeOf x = none → isAbs x = false := by
      intro x hx
      cases e : isAbs x with
      | false => rfl
      | true => obtain ⟨cs, rfl⟩ := (isAbs_iff x).mp e; rw [nodeOf_abs] at hx; cases hx
    unfold authorizeAction
    simp [abs _ hp, abs _ hq]
  | some n =>
    have hq : nodeOf (B.embL q) = some n := by rw [← h, hp]
    have dc : ∀ (u : User) (x : Path), authorizeAction u x want = authorizeAction u (clean x) want := by
      intro u x; unfold authorizeAction; rw [isAbs_clean, clean_idempotent']
    rw [dc _ (B.embL p), dc _ (B.embL q), (nodeOf_normal _ n hp).2, (nodeOf_normal _ n hq).2]

/-- **nearest_grant_only on bytes**: the decision of a user built by `NewUser` from a byte-keyed grant table, on a
byte resource, is exactly the reference: allow for NoPrivileges/admin, "invalid" for a resource that is not rooted,
otherwise the mask test on the grant of the nearest ancestor-or-self (of the node the bytes denote) carrying one. -/
theorem nearest_grant_only_bytes (adm : Bool) (grants : List (B.Bytes × List Nat)) (r : B.Bytes) (want : Nat) :
    B.authorizeAction (B.newUser adm grants) r want =
      if want = noPriv ∨ adm = true then .allow
      else match nodeOf (B.embL r) with
        | none => .invalid
        | some n =>
          match nearestGrant (G.gmap B.emb grants) n with
          | some (_, ps) => if authorized (orMask ps) want then .allow else .deny
          | none => .deny := by
  rw [byte_model_is_char_model.2.2.2.2.2.2.2.2]
  exact authorizeAction_eq_nearest _ _ _

/-- … and it IS the statement's reference decision (tables and wanted privilege over the five declared ones). -/
theorem decision_is_reference_bytes (adm : Bool) (grants : List (B.Bytes × List Nat)) (r : B.Bytes) (want : Nat)
    (hv : ∀ g ∈ grants, g.2.all validPriv = true) (hw : validPriv want = true) :
    B.authorizeAction (B.newUser adm grants) r want = .allow ↔
      mayAllow { admin := adm, grants := G.gmap B.emb grants } (B.embL r) want = true := by
  rw [byte_model_is_char_model.2.2.2.2.2.2.2.2]
  apply allow_iff_mayAllow _ _ _ _ hw
  intro g hg
  unfold G.gmap at hg
  simp only [List.mem_map] at hg
  obtain ⟨g0, hg0, rfl⟩ := hg
  exact hv g0 hg0

/-- A database is exactly ONE element below "/database" whatever bytes its name contains. -/
theorem database_resource_single_element_bytes (d : B.Bytes) (h : d ≠ []) :
    ∃ elem, nodeOf (B.embL (B.databaseResource d)) = some ["database".toList, elem] := by
  rw [byte_model_is_char_model.2.2.2.2.1]
  exact ⟨_, databaseResource_node (B.embL d) (by simpa [B.embL] using h)⟩

/-- A URL path (bytes) that the mux does not redirect is authorised against a resource below "/api" unless it
is "/kapacitor/v1.." or lies below "/kapacitor/v1../" (the byte form of `resource_escapes_only_behind_v1_dotdot`). -/
theorem resource_escapes_only_behind_v1_dotdot_bytes (p : B.Bytes) (hc : B.muxCleanPath p = p) :
    (∃ names, nodeOf (B.embL (B.apiResource (B.trimBase p))) = some ("api".toList :: names)) ∨
    p = B.ofAscii "/kapacitor/v1..".toList ∨ (B.ofAscii "/kapacitor/v1../".toList).isPrefixOf p = true := by
  obtain ⟨_, _, _, h4, _, h6, h7, _⟩ := byte_model_is_char_model
  have hc' : muxCleanPath (B.embL p) = B.embL p := by rw [← h6, hc]
  rw [h4, h7]
  by_cases h : ∃ names, nodeOf (apiResource (trimPrefix (B.embL p) Gen.basePath)) = some ("api".toList :: names)
  · exact Or.inl h
  · right
    rcases clean_url_escape_shape _ hc' h with h | h
    · left
      apply (B.embL_inj _ _).mp
      rw [h]; decide
    · right
      obtain ⟨t, ht⟩ := List.isPrefixOf_iff_prefix.mp h
      have e : Gen.basePath ++ dotdot ++ ['/'] = B.embL (B.ofAscii "/kapacitor/v1../".toList) := by decide
      rw [e] at ht
      -- a prefix of the Latin-1 reading is the reading of a prefix
      have hl : (B.ofAscii "/kapacitor/v1../".toList).length ≤ p.length := by
        have := congrArg List.length ht
        simp [B.embL] at this ⊢
        omega
      have : B.embL (p.take (B.ofAscii "/kapacitor/v1../".toList).length) = B.embL (B.ofAscii "/kapacitor/v1../".toList) := by
        unfold B.embL at ht ⊢
        rw [List.map_take, ← ht]
        simp
      have hp := (B.embL_inj _ _).mp this
      apply List.isPrefixOf_iff_prefix.mpr
      rw [← hp]
      exact List.take_prefix _ _

/-! ### Non-vacuity: byte strings that are NOT valid UTF-8 -/

-- 0xFF, 0xC3 0x28 (a broken two-byte sequence), 0x80 are treated as ordinary name bytes; ".." still cancels
example : B.clean [47, 255, 47, 46, 46, 47, 195, 40, 47, 47, 128] = [47, 195, 40, 47, 128] ∧
    B.dir [47, 195, 40, 47, 128] = [47, 195, 40] ∧
    B.apiResource [46, 46, 47, 255] = [47, 255] ∧ B.apiResource [255, 47, 46, 46, 47, 128] = B.ofAscii "/api/".toList ++ [128] ∧
    B.databaseResource [255, 47, 254] = B.ofAscii "/database/".toList ++ [255, 95, 254] ++ B.ofAscii "_dirty".toList ∧
    B.muxCleanPath [47, 255, 47, 47, 128] = [47, 255, 47, 128] := by decide

-- a grant keyed by a non-UTF-8 resource; the nearest grant decides, a byte path trick changes nothing
example :
    let u := B.newUser false [(B.ofAscii "/api/".toList ++ [255], [2]), (B.ofAscii "/api".toList, [16])]
    B.authorizeAction u (B.ofAscii "/api/".toList ++ [255, 47, 120]) 4 = .deny ∧
    B.authorizeAction u (B.ofAscii "/api/".toList ++ [255, 47, 120]) 2 = .allow ∧
    B.authorizeAction u (B.ofAscii "/api/".toList ++ [254, 47, 46, 46, 47, 255, 47, 120]) 4 = .deny ∧
    B.authorizeAction u (B.ofAscii "/api/".toList ++ [254]) 4 = .allow ∧
    nodeOf (B.embL (B.ofAscii "/api/".toList ++ [254, 47, 46, 46, 47, 255])) = nodeOf (B.embL (B.ofAscii "/api/".toList ++ [255])) := by
  decide

-- distinct invalid bytes stay distinct (0xFF and 0xFE are not merged into one replacement character)
example : B.embL [255] ≠ B.embL [254] ∧ B.clean [47, 255] ≠ B.clean [47, 254] := by decide

end Kap.Props.C20Bytes
