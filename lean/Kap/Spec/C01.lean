/-
C01 — the property itself, over the plain history of one alert ID, written without any of the machinery of the
code (no ring, no idx, no changed/expired flags, no firstTriggered/lastTriggered, no upward/downward search).

Statement (properties.jsonl): for every alert ID, the level attached to each data point is the highest severity
whose condition holds (held back by a reset condition when one is configured), and an event reaches the alert's
handlers exactly when that level is not OK or it has just returned to OK from a non-OK level; with
state-changes-only, only when the level differs from the previous one (or the configured interval has elapsed), and
with no-recoveries the OK event is withheld. Each event carries the level, the time of the triggering point and a
duration equal to the time since the ID last left OK.

How the statement is read here:
* `specLevel`   — the level of a point, given the level of the previous point of the same ID.
* `Track`       — what the statement talks about, per ID: the previous level, when the ID last left OK, when the
                  last event was delivered.
* `due`         — the emission rule; "the configured interval has elapsed" is measured "since the last alert"
                  (pipeline/alert.go:529-531): the last point at which an event was due and not suppressed by flap
                  detection. `withheld`: no-recoveries keeps the OK event from the handlers.
* flapping      — the statement does not say what flap detection does; the spec takes "is the ID flapping at this
                  point" as an INPUT flag and reads it as the documented suppression: a flapping ID delivers nothing
                  (stream) / nothing but the recovery (batch, as documented in the comment of `BufferedBatch`).
                  `docDiffs` / `specStreamFlags` define that flag from the plain level history by the DOCUMENTED
                  rule (adjacent pairs, newest change weighted most).
* batch form    — every point of a batch is judged against the level before the batch; the batch level is the highest
                  (with `all()`: the lowest) point level; the "triggering point" is the first point of the highest
                  level; for `all()` and for an OK batch there is no single triggering point and the batch's own time
                  is used (convention taken from the implementation; the statement is silent).
Core Lean only.
-/
import Kap.Model.C01
namespace Kap.C01

/-! ### Level of a point -/

/-- The condition of level `l` holds on `p`: the level has an expression and it evaluated to true. -/
def holds (c : Cfg) (p : Pt) (l : Nat) : Bool := levelExpr c l && (p.lv l == some true)

/-- Level `l` has a reset condition and on `p` it says "do not lower" (evaluated, without error, to false). -/
def heldBack (c : Cfg) (p : Pt) (l : Nat) : Bool := resetExpr c l && (p.rs l == some false)

/-- The highest severity whose condition holds (OK when none does). -/
def highestHolding (c : Cfg) (p : Pt) : Nat := ([3, 2, 1].find? (holds c p)).getD 0

/-- The level of point `p` of an ID whose previous level was `prev`. -/
def specLevel (c : Cfg) (p : Pt) (prev : Nat) : Nat :=
  let best := highestHolding c p
  if best < prev && heldBack c p prev then prev else best

/-! ### Emission rule -/

structure Track where
  level : Nat := 0                -- level of the previous point (OK before the first one)
  leftOK : Option Int := none     -- time of the point at which the ID last went from OK to a non-OK level
  lastAlert : Option Int := none  -- time of the last alert of the ID (see `due`)
deriving DecidableEq, Repr, Inhabited

/-- "the configured interval has elapsed" since the last alert (no interval configured: never; no alert yet:
nothing to wait for). -/
def intervalElapsed (c : Cfg) (t : Int) (lastAlert : Option Int) : Bool :=
  c.scoDur != 0 && (match lastAlert with
    | none => true
    | some u => decide (t - u ≥ c.scoDur))

/-- The ID alerts at a point of level `cur` (previous level `prev`, time `t`): an event is due. -/
def due (c : Cfg) (prev cur : Nat) (t : Int) (lastAlert : Option Int) : Bool :=
  (cur != 0 || prev != 0) &&                                   -- not OK, or just returned to OK from non-OK
  (!c.sco || cur != prev || intervalElapsed c t lastAlert)     -- state-changes-only

/-- no-recoveries withholds the OK event from the handlers (the alert itself still counts as the "last alert"
the state-changes-only interval is measured from). -/
def withheld (c : Cfg) (cur : Nat) : Bool := c.noRec && cur == 0

/-- Bookkeeping shared by both forms: the ID is at `cur` at time `t`; `alert` says whether it alerts there. -/
def advance (c : Cfg) (tr : Track) (cur : Nat) (t : Int) (alert : Bool) : Track × Option Ev :=
  let leftOK := if tr.level == 0 && cur != 0 then some t else tr.leftOK
  let tr' : Track := { level := cur, leftOK := leftOK, lastAlert := if alert then some t else tr.lastAlert }
  (tr', if alert && !withheld c cur then some { level := cur, time := t, dur := t - leftOK.getD t } else none)

/-- Stream form: one point; `fl` = the ID is flapping at this point. -/
def specPoint (c : Cfg) (tr : Track) (p : Pt) (fl : Bool) : Track × Option Ev :=
  let cur := specLevel c p tr.level
  advance c tr cur p.t (due c tr.level cur p.t tr.lastAlert && !fl)

/-- Level of a batch: every point is judged against the level before the batch. -/
def batchLevel (c : Cfg) (prev : Nat) (pts : List Pt) : Nat :=
  let lvls := pts.map (fun p => specLevel c p prev)
  if c.all then lvls.foldl min 3 else lvls.foldl max 0

/-- Time of a batch event: the time of the triggering point = the first point of the batch level; for `all()` and
for an OK batch there is no single triggering point: the batch's own time. -/
def batchTime (c : Cfg) (prev : Nat) (b : Batch) (cur : Nat) : Int :=
  if c.all || cur == 0 then b.tmax
  else match b.pts.find? (fun p => specLevel c p prev == cur) with
    | some p => p.t
    | none => b.tmax

/-- Batch form. -/
def specBatch (c : Cfg) (tr : Track) (b : Batch) (fl : Bool) : Track × Option Ev :=
  if b.pts.isEmpty then (tr, none) else
  let cur := batchLevel c tr.level b.pts
  let t := batchTime c tr.level b cur
  advance c tr cur t (due c tr.level cur t tr.lastAlert && (!fl || cur == 0))

def specStream (c : Cfg) (tr : Track) : List (Pt × Bool) → List Ev
  | [] => []
  | (p, fl) :: ps =>
    let (tr', e) := specPoint c tr p fl
    e.toList ++ specStream c tr' ps

def specBatches (c : Cfg) (tr : Track) : List (Batch × Bool) → List Ev
  | [] => []
  | (b, fl) :: bs =>
    let (tr', e) := specBatch c tr b fl
    e.toList ++ specBatches c tr' bs

/-! ### Task restart

The statement is about the history of an ID; a restart of the task is not part of it. What a restart may do is fixed
here in the statement's own terms: **the ID resumes from the last event its handlers received** (that is all that
survives a restart: the topic's event state) — at that event's level, "last alert" at its time, having left OK
`duration` before it. An ID without a delivered event, or whose last delivered event is its recovery, starts as
new. Flap detection starts over and knows the resumed level only. (Without no-recoveries and flap suppression the
last delivered event always carries the ID's current level, and resuming is invisible: levels, events and
durations continue as if there had been no restart.) -/

def specRestart (last : Option Ev) : Track :=
  match last with
  | some e => if e.level != 0 then { level := e.level, leftOK := some (e.time - e.dur), lastAlert := some e.time } else {}
  | none => {}

/-! ### Inhibition

"Inhibit other alerts in a category" (pipeline/alert.go `Inhibit`): while an ID of an alert declared with
`.inhibit(cat, tags…)` IS NOT OK — its level after its most recent point is not OK — every event of an alert of
category `cat` whose tags agree with that ID on the declared tags is kept from the handlers. Stated on the LEVEL of the
inhibiting ID (from its level history), not on what events it sent: no-recoveries, state-changes-only on the
inhibitor change nothing about when it is OK. The inhibited alert's own state machine is untouched (its levels,
durations, "last alert"), and its data is forwarded all the same. -/

/-- Does an inhibiting ID at level `aLevel`, declared `.inhibit(cat, tags…)` with the ID's tag values `tagset`, inhibit
an event of category `evCat` with tags `evTags`? (a tag the event lacks reads as "") -/
def inhibits (aLevel : Nat) (cat : String) (tagset : List (String × String))
    (evCat : String) (evTags : List (String × String)) : Bool :=
  aLevel != 0 && cat == evCat &&
  tagset.all (fun kv => ((evTags.find? (fun e => e.1 == kv.1)).map (·.2)).getD "" == kv.2)

/-- The two-ID world on the spec side: the tracks of A's ID and of B's ID. -/
structure SWorld where
  a : Track := {}
  b : Track := {}
deriving Repr, Inhabited

/-- `hit` = A's declaration matches B's events in category and tags. B's event reaches B's handlers iff the emission
rule delivers it AND A's ID is OK (or does not match). -/
def specWorldStep (ca cb : Cfg) (hit : Bool) (w : SWorld) : WOp → SWorld × Option Ev × Option Ev
  | .pa p => let r := specPoint ca w.a p false; ({ w with a := r.1 }, r.2, none)
  | .pb p =>
    let r := specPoint cb w.b p false
    ({ w with b := r.1 }, none, if w.a.level != 0 && hit then none else r.2)

def specRunWorld (ca cb : Cfg) (hit : Bool) (w : SWorld) : List WOp → List (Option Ev × Option Ev)
  | [] => []
  | op :: ops => let r := specWorldStep ca cb hit w op; r.2 :: specRunWorld ca cb hit r.1 ops

/-! ### What is forwarded downstream (the second place the events are observed)

For every delivered event — and for nothing else — the alert node forwards the data that triggered it: the point
(stream form) or the whole batch (batch form), augmented with the event: `levelField`/`levelTag` = the name of the
event's level, `idField`/`idTag` = the alert ID, `durationField` = the event's duration in nanoseconds,
`messageField` = the event's message (the harness keeps the default template `{{ .ID }} is {{ .Level }}`). In batch
form EVERY point of the forwarded batch, and the batch's own tags, carry these values. -/

/-- `alert.Level.String()` ("Level -- one of OK, INFO, WARNING or CRITICAL", pipeline/alert.go) -/
def levelName : Nat → String
  | 0 => "OK"
  | 1 => "INFO"
  | 2 => "WARNING"
  | 3 => "CRITICAL"
  | _ => "?"

structure Fwd where
  dataID : String      -- measurement:group of the forwarded message
  idField : String
  levelField : String
  time : Int           -- time of the forwarded point / of the forwarded batch
  durField : Int
  msgField : String
  levelTag : String
  idTag : String
  npts : Nat           -- number of points of the forwarded message (1 in stream form)
deriving DecidableEq, Repr, Inhabited

/-- What must be forwarded for event `e` of alert `id`; `time`/`npts` describe the data that triggered it. -/
def specForward (id : String) (e : Ev) (time : Int) (npts : Nat) : Fwd :=
  { dataID := id, idField := id, levelField := levelName e.level, time := time, durField := e.dur,
    msgField := id ++ " is " ++ levelName e.level, levelTag := levelName e.level, idTag := id, npts := npts }

/-! ### Flap detection on the plain level history

The documented rule (pipeline/alert.go `Flapping`, alert.go `weightDiff`/`maxWeight`): look at the last `history`
levels of the ID (levels before the first point count as OK); each of the `history − 1` ADJACENT pairs either is a
state change or not; changes are weighted, "the newest state change is weighted `weightDiff` times more than the
oldest"; the weighted percentage above `high` ⇒ flapping, below `low` ⇒ not flapping any more. So the comparisons
are the adjacent pairs in chronological order, oldest pair first (lowest weight), newest pair last (highest
weight). The weighting arithmetic and the hysteresis are the `FlapDecide` parameter. -/

/-- `recent` = all levels of the ID so far, NEWEST FIRST. The `n − 1` adjacent pairs of the last `n` levels, oldest
pair first: pair `i` compares the level `n−2−i` steps back with the one `n−1−i` steps back. -/
def docDiffs (n : Nat) (recent : List Nat) : List Bool :=
  (List.range (n - 1)).map (fun i => recent.getD (n - 2 - i) 0 != recent.getD (n - 1 - i) 0)

/-- What flap detection knows about an ID: its levels so far (newest first) and whether it is flapping. -/
structure FlapTrack where
  recent : List Nat := []
  flapping : Bool := false
deriving DecidableEq, Repr, Inhabited

/-- The ID is at level `cur` now. -/
def flapAdvance (c : Cfg) (dec : FlapDecide) (ft : FlapTrack) (cur : Nat) : FlapTrack :=
  let recent := cur :: ft.recent
  { recent := recent,
    flapping := if c.useFlap then dec ft.flapping (docDiffs c.history recent) else ft.flapping }

/-- The flapping flags of a stream history (the `fl` inputs of `specStream`). -/
def specStreamFlags (c : Cfg) (dec : FlapDecide) (ft : FlapTrack) : List Pt → List Bool
  | [] => []
  | p :: ps =>
    let ft' := flapAdvance c dec ft (specLevel c p (ft.recent.headD 0))
    (c.useFlap && ft'.flapping) :: specStreamFlags c dec ft' ps

/-- … and of a batch history (an empty batch changes nothing). -/
def specBatchFlags (c : Cfg) (dec : FlapDecide) (ft : FlapTrack) : List Batch → List Bool
  | [] => []
  | b :: bs =>
    let ft' := if b.pts.isEmpty then ft else flapAdvance c dec ft (batchLevel c (ft.recent.headD 0) b.pts)
    (c.useFlap && ft'.flapping) :: specBatchFlags c dec ft' bs

/-- flap detection after a task restart (see "Task restart" above) -/
def flapRestart (c : Cfg) (dec : FlapDecide) (last : Option Ev) : FlapTrack :=
  match last with
  | some e => if e.level != 0 then flapAdvance c dec {} e.level else {}
  | none => {}

end Kap.C01
