/-
C02 — the property itself, over the plain history of operations (no fork table, no keys, no edges):

  the sequence recorded under from-node #i of task t  =  the sequence of all points written
     * while t was enabled (started and not since stopped/deleted), under the definition it was started with,
     * to a (database, retention policy) that definition declares (a write without rp goes to the default rp),
     * and that from-node #i selects (every database / retentionPolicy / measurement it names equals the point's, and its
       where-predicate, if any, holds — and likewise for every from-node it is chained under),
  each such point ONCE, in the order written.

Operations on other tasks do not occur in this definition at all (`enabledAfter` ignores them): that is the frame part of the property.
And the recorded point itself (second part, `specDeliveredPts`): it IS the written point — name, database, retention policy
(default substituted), tags, fields — except for what the from() options document:
     * time: for every from() on the way from the stream node down to this one, in that order, `truncate(d)` = the last multiple
       of d not after it, then `round(d)` = the nearest multiple of d (halfway: up); multiples are counted from Go's zero time
       (0001-01-01T00:00:00Z), a duration ≤ 0 changes nothing;
     * group-by dimensions: those of ITS OWN from() only: by-measurement flag = `groupByMeasurement()`, tag names = the names
       listed in `groupBy(…)` in sorted order (whether or not the point has such a tag), or, under `groupBy(*)`, all tag keys of
       the point in sorted order.
  No other from() node — sibling in the same task, or node of another task — has any influence on it.

Starting an id that is LIVE is refused and changes nothing (the task keeps its definition); after a drain (all executions ended)
every id may be started again. Core Lean only.
-/
import Kap.Model.C02
namespace Kap.C02

/-- The retention policy a write goes to. -/
def writtenRP (defaultRP rp : String) : String := if rp = "" then defaultRP else rp

/-- The from() selection. -/
def selects (f : From) (db rp : String) (p : RawPoint) : Bool :=
  (f.db == "" || f.db == db) && (f.rp == "" || f.rp == rp) && (f.name == "" || f.name == p.name) &&
  (match f.wh with
   | none => true
   | some k => p.pass.contains k)

/-- Does from-node #`i` select the point? It must itself select it and so must every from-node it is chained under
(`stream|from()…|from()…`). `fuel` bounds the walk up (parents precede children). -/
def selectedBy (froms : List From) : Nat → Nat → String → String → RawPoint → Bool
  | 0, _, _, _, _ => false
  | fuel + 1, i, db, rp, p =>
    match froms[i]? with
    | none => false
    | some f =>
      selects f db rp p &&
      (match f.parent with
       | none => true
       | some j => selectedBy froms fuel j db rp p)

/-- Under which definition is `t` enabled after one more operation (`none` = not enabled)?
A task that declares no database/retention policy, or has no from() node, is never live (it can receive nothing); a task that is
live cannot be started again; `drain` ends every execution. -/
def enabledAfter (t : String) (cur : Option TaskDef) : Op → Option TaskDef
  | .start d => if d.id = t ∧ d.dbrps ≠ [] ∧ d.froms ≠ [] ∧ cur = none then some d else cur   -- a live task is not started again
  | .startfail _ => cur          -- a start that fails does not enable the task
  | .stop id => if id = t then none else cur
  | .delete id => if id = t then none else cur
  | .drain => none                -- draining ends every execution; the task may be started again afterwards
  | .write _ _ _ => cur

/-- One written point together with the circumstances of its write. -/
structure WEv where
  enabled : Option TaskDef     -- the definition under which `t` was enabled at that moment
  db : String
  rp : String                  -- default rp substituted
  pt : RawPoint
deriving Repr, Inhabited

/-- All written points of a history, in write order, seen from task `t`. -/
def writeEvents (defaultRP t : String) : Option TaskDef → List Op → List WEv
  | _, [] => []
  | cur, .write db rp pts :: rest =>
    pts.map (fun p => { enabled := cur, db := db, rp := writtenRP defaultRP rp, pt := p }) ++ writeEvents defaultRP t cur rest
  | cur, .start d :: rest => writeEvents defaultRP t (enabledAfter t cur (.start d)) rest
  | cur, .startfail d :: rest => writeEvents defaultRP t (enabledAfter t cur (.startfail d)) rest
  | cur, .stop id :: rest => writeEvents defaultRP t (enabledAfter t cur (.stop id)) rest
  | cur, .delete id :: rest => writeEvents defaultRP t (enabledAfter t cur (.delete id)) rest
  | cur, .drain :: rest => writeEvents defaultRP t (enabledAfter t cur .drain) rest

/-- Must the point of this write event reach from-node #`i`? -/
def qualifies (i : Nat) (w : WEv) : Bool :=
  match w.enabled with
  | none => false
  | some d =>
    decide ((w.db, w.rp) ∈ d.dbrps) && selectedBy d.froms (i + 1) i w.db w.rp w.pt

/-- **The specification**: what from-node #`i` of task `t` must have received after `ops`. -/
def specDelivered (defaultRP t : String) (i : Nat) (ops : List Op) : List Nat :=
  ((writeEvents defaultRP t none ops).filter (qualifies i)).map (·.pt.id)

/-! ### The from() options -/

/-- ns from Go's zero time 0001-01-01T00:00:00Z to the Unix epoch -/
def goZero : Int := 62135596800 * 1000000000

/-- `truncate(d)`: the last multiple of `d` (counted from Go's zero time) that is not after `t`. -/
def docTruncate (d t : Int) : Int := if d ≤ 0 then t else (t + goZero) / d * d - goZero

/-- `round(d)`: the multiple of `d` nearest to `t`, halfway values go up. -/
def docRound (d t : Int) : Int := if d ≤ 0 then t else (2 * (t + goZero) + d) / (2 * d) * d - goZero

/-- The same two, as relations between written and recorded time (what "last multiple not after" and "nearest multiple" MEAN;
theorems `docTruncate_is_truncation`, `docRound_is_rounding` and their uniqueness parts). -/
def IsTruncation (d t r : Int) : Prop := if d ≤ 0 then r = t else (r + goZero) % d = 0 ∧ r ≤ t ∧ t < r + d
def IsRounding (d t r : Int) : Prop := if d ≤ 0 then r = t else (r + goZero) % d = 0 ∧ 2 * (r - t) ≤ d ∧ 2 * (t - r) < d

instance (d t r : Int) : Decidable (IsTruncation d t r) := by unfold IsTruncation; exact inferInstance
instance (d t r : Int) : Decidable (IsRounding d t r) := by unfold IsRounding; exact inferInstance

/-- The recorded time under from-node #`i`: the chain's truncate / round applied from the top down. -/
def docTime (froms : List From) : Nat → Nat → Int → Int
  | 0, _, t => t
  | fuel + 1, i, t =>
    match froms[i]? with
    | none => t
    | some f =>
      docRound f.opts.round (docTruncate f.opts.truncate
        (match f.parent with
         | none => t
         | some j => docTime froms fuel j t))

/-- The names the point is grouped by: all tag keys under `*`, else the listed names — in sorted order (the library sort), a
name listed twice counted once (groupBy('host','host') groups like groupBy('host')). -/
def docTagNames (o : FromOpts) (tags : List (String × String)) : List String :=
  if o.star then (tags.map (·.1)).mergeSort (fun a b => decide (a ≤ b))
  else C06.uniqueSorted (o.dims.mergeSort (fun a b => decide (a ≤ b)))

/-- `r` lists the members of `l` in strictly increasing order (what `docTagNames` MEANS for listed names; theorem
`tagNames_is_sorted_listing`): sorted, nothing twice, nothing added, nothing lost. -/
def IsSortedListingOf (l r : List String) : Prop := r.Pairwise (· < ·) ∧ ∀ t, t ∈ r ↔ t ∈ l

/-- `r` is `l` in sorted order (what `docTagNames` MEANS under `*`; theorem `tagNames_star_is_sorted_keys`). -/
def IsSortedPermOf (l r : List String) : Prop := r.Pairwise (· ≤ ·) ∧ r.Perm l

/-- **The documented point**: what the sink under from-node #`i` records of the point of write event `w`. -/
def docRec (froms : List From) (i : Nat) (w : WEv) : Rec :=
  let o : FromOpts := match froms[i]? with
    | some f => f.opts
    | none => {}
  { id := w.pt.id, name := w.pt.name, db := w.db, rp := w.rp, tags := w.pt.pl.tags, fields := w.pt.pl.fields,
    time := docTime froms (i + 1) i w.pt.pl.time, byName := o.byName, tagNames := docTagNames o w.pt.pl.tags }

/-- **The specification, whole points**: what from-node #`i` of task `t` must have recorded after `ops`. -/
def specDeliveredPts (defaultRP t : String) (i : Nat) (ops : List Op) : List Rec :=
  ((writeEvents defaultRP t none ops).filter (qualifies i)).filterMap (fun w => w.enabled.map (fun d => docRec d.froms i w))

/-- Is from-node #`j` from-node #`i` itself or one of the from-nodes it is chained under? -/
def onChain (froms : List From) : Nat → Nat → Nat → Bool
  | 0, _, _ => false
  | fuel + 1, i, j =>
    i == j ||
      (match froms[i]? with
       | none => false
       | some f =>
         match f.parent with
         | none => false
         | some k => onChain froms fuel k j)

/-- Ids of all written points, in write order. -/
def writtenIds : List Op → List Nat
  | [] => []
  | .write _ _ pts :: rest => pts.map (·.id) ++ writtenIds rest
  | _ :: rest => writtenIds rest

/-- Does the operation concern task `t` (or is it a write)? Other tasks' start/stop/delete are "irrelevant". -/
def relevant (t : String) : Op → Bool
  | .start d => d.id == t
  | .startfail d => d.id == t
  | .stop id => id == t
  | .delete id => id == t
  | .drain => true
  | .write _ _ _ => true

end Kap.C02
