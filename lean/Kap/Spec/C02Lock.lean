/-
Spec of the stop-while-writing hammer of C02 (harness/c02/hammer.go), written on the OBSERVATION only:

  a task that stays subscribed to (db, rp, m) while OTHER tasks subscribed to the same points are started and stopped
  concurrently with the writes receives every point WritePoints accepted - each once, in write order - and the process
  survives (a send on an edge that delFork closed is a process-killing panic in Go).

The keeper's recording arrives as ranges of ids (`0-19999`, or `0-5,7-7,6-6` when something is out of order).
Core Lean only.
-/
namespace Kap.C02.Lock

/-- `a-b` ↦ [a, …, b] (empty when b < a or the token is no range) -/
def expandRange (tok : String) : Option (List Nat) :=
  match tok.splitOn "-" with
  | [a, b] => do
    let a ← a.toNat?
    let b ← b.toNat?
    pure ((List.range (b + 1 - a)).map (· + a))
  | _ => none

/-- `-` = nothing recorded; otherwise comma separated ranges in recording order -/
def expandRanges (tok : String) : Option (List Nat) :=
  if tok == "-" then some [] else (tok.splitOn ",").mapM expandRange |>.map List.flatten

/-- the property on the keeper's recording: exactly the accepted points 0..written-1, once each, in order -/
def keeperSpec (written : Nat) (keeper : List Nat) : Bool := keeper == List.range written

/-- the first position where the recording deviates (for the report) -/
def firstDeviation (keeper : List Nat) : Nat :=
  ((keeper.zipIdx.find? (fun z => z.1 != z.2)).map (·.2)).getD keeper.length

example : keeperSpec 4 [0, 1, 2, 3] = true := by decide
example : keeperSpec 4 [0, 1, 3] = false := by decide
example : keeperSpec 3 [0, 1, 1, 2] = false := by decide

end Kap.C02.Lock
